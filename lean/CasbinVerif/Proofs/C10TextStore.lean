import CasbinVerif.Model.Loader
import CasbinVerif.Spec.Store
import CasbinVerif.Proofs.Assoc
import CasbinVerif.Proofs.C18Load
/-
  C10TextStore helper lemmas: the entries SavePolicy lists for a family of stores, restricted to one
  type, are the policy list of the store of that name; cleared stores; replaying a duplicate-free
  list through the specification's `addOne`.
-/
namespace Casbin.C10TS

/-- the entries of a family of stores, in SavePolicy's order -/
def entriesL (l : List (String × Store)) : List (String × Rule) :=
  l.flatMap (fun (x : String × Store) => x.2.policy.map (fun r => (x.1, r)))

theorem tagged_filter (a pt : String) (rs : List Rule) :
    ((rs.map (fun r => (a, r))).filter (·.1 == pt)).map (·.2) = if a = pt then rs else [] := by
  induction rs with
  | nil => simp
  | cons r rs ih =>
    by_cases h : a = pt
    · subst h
      simp only [if_true] at ih
      simp only [List.map_cons, List.filter_cons, beq_self_eq_true, ↓reduceIte, ih]
    · have hb : (a == pt) = false := by simpa using h
      simp only [h, if_false] at ih
      simp only [List.map_cons, List.filter_cons, hb, Bool.false_eq_true, ↓reduceIte, ih, h]

theorem lookup_none_of_not_mem {α} {l : List (String × α)} {k : String} (h : k ∉ l.map (·.1)) :
    l.lookup k = none := by
  cases hl : l.lookup k with
  | none => rfl
  | some v =>
    exact absurd ((lookup_isSome_iff l k).1 (by rw [hl]; rfl)) h

/-- one family with distinct names: the entries of type `pt` are the rules of the store named `pt` -/
theorem entriesL_filter (l : List (String × Store)) (hnd : (l.map (·.1)).Nodup) (pt : String) :
    ((entriesL l).filter (·.1 == pt)).map (·.2) = ((l.lookup pt).map (·.policy)).getD [] := by
  induction l with
  | nil => rfl
  | cons x l ih =>
    obtain ⟨a, s⟩ := x
    simp only [List.map_cons, List.nodup_cons] at hnd
    have ih' := ih hnd.2
    unfold entriesL at ih' ⊢
    simp only [List.flatMap_cons, List.filter_append, List.map_append, tagged_filter, ih',
      List.lookup_cons]
    by_cases h : a = pt
    · subst h
      have : l.lookup a = none := lookup_none_of_not_mem hnd.1
      simp [this]
    · have hb : (pt == a) = false := by simpa using fun e => h e.symm
      simp [h, hb]

theorem entriesL_append (p g : List (String × Store)) : entriesL (p ++ g) = entriesL p ++ entriesL g := by
  simp [entriesL, List.flatMap_append]

/-- both families: names distinct within each family and across them -/
theorem entries_filter (p g : List (String × Store))
    (hnp : (p.map (·.1)).Nodup) (hng : (g.map (·.1)).Nodup)
    (hdis : ∀ pt, pt ∈ p.map (·.1) → pt ∉ g.map (·.1)) (pt : String) :
    ((entriesL (p ++ g)).filter (·.1 == pt)).map (·.2) =
      ((p.lookup pt).map (·.policy)).getD (((g.lookup pt).map (·.policy)).getD []) := by
  rw [entriesL_append, List.filter_append, List.map_append, entriesL_filter p hnp, entriesL_filter g hng]
  cases hp : p.lookup pt with
  | none => simp
  | some s =>
    have hm : pt ∈ p.map (·.1) := (lookup_isSome_iff p pt).1 (by rw [hp]; rfl)
    have : g.lookup pt = none := lookup_none_of_not_mem (hdis pt hm)
    simp [this]

/-! ### cleared stores -/

theorem coh_empty : Coh Store.empty := by
  refine ⟨List.nodup_nil, ?_, ?_⟩
  · intro r i h; simp [Store.empty] at h
  · intro k i h; simp [Store.empty, Index.get] at h

theorem lookup_cleared (l : List (String × Store)) (k : String) :
    (l.map (fun x => (x.1, Store.empty))).lookup k = (l.lookup k).map (fun _ => Store.empty) :=
  lookup_map_snd (fun _ _ => Store.empty) l k

theorem lookup_cleared_eq {l : List (String × Store)} {k : String} {s : Store}
    (h : (l.map (fun x => (x.1, Store.empty))).lookup k = some s) : s = Store.empty := by
  rw [lookup_cleared] at h
  cases hl : l.lookup k with
  | none => rw [hl] at h; cases h
  | some v => rw [hl] at h; simp at h; exact h.symm

theorem keys_cleared (l : List (String × Store)) :
    (l.map (fun x => (x.1, Store.empty))).map (·.1) = l.map (·.1) := by
  simp [List.map_map, Function.comp_def]

theorem rules_cleared (l : List (String × Store)) (k : String) :
    (((l.map (fun x => (x.1, Store.empty))).lookup k).map (·.policy)).getD [] = [] := by
  rw [lookup_cleared]
  cases l.lookup k <;> simp [Store.empty]

/-! ### replaying a duplicate-free list -/

theorem foldl_addOne_append (acc l : List Rule) (h : (acc ++ l).Nodup) :
    l.foldl SpecStore.addOne acc = acc ++ l := by
  induction l generalizing acc with
  | nil => simp
  | cons r l ih =>
    have hr : r ∉ acc := by
      intro hm
      have := (List.nodup_append.1 h).2.2 r hm r List.mem_cons_self
      exact this rfl
    simp only [List.foldl_cons, SpecStore.addOne, hr, if_false]
    have h' : (acc ++ [r] ++ l).Nodup := by simpa using h
    rw [ih (acc ++ [r]) h']
    simp

theorem foldl_addOne_nil (l : List Rule) (h : l.Nodup) : l.foldl SpecStore.addOne [] = l := by
  have := foldl_addOne_append [] l (by simpa using h)
  simpa using this

/-! ### the types met in another order -/

theorem lookup_perm {α} {l l' : List (String × α)} (h : l'.Perm l) (hnd : (l.map (·.1)).Nodup)
    (k : String) : l'.lookup k = l.lookup k := by
  have hnd' : (l'.map (·.1)).Nodup := ((h.map (·.1)).nodup_iff).2 hnd
  cases hl : l.lookup k with
  | some v => exact lookup_of_mem_nodup hnd' (h.mem_iff.2 (lookup_mem hl))
  | none =>
    apply lookup_none_of_not_mem
    intro hm
    have : k ∈ l.map (·.1) := (h.map (·.1)).mem_iff.1 hm
    have := (lookup_isSome_iff l k).2 this
    rw [hl] at this; cases this

theorem mem_entriesL_perm {l l' : List (String × Store)} (h : l'.Perm l) (e : String × Rule) :
    e ∈ entriesL l' ↔ e ∈ entriesL l := by
  simp only [entriesL, List.mem_flatMap]
  constructor
  · rintro ⟨x, hx, he⟩; exact ⟨x, h.mem_iff.1 hx, he⟩
  · rintro ⟨x, hx, he⟩; exact ⟨x, h.mem_iff.2 hx, he⟩

/-! ### the pieces of the round trip, on the definitions of `Proofs/C18Load.lean` -/

theorem cleared_ok (md : ModelDef) (p g : List (String × Store)) (hst : C18L.storesOk md (p, g)) :
    C18L.storesOk md (p.map (fun x => (x.1, Store.empty)), g.map (fun x => (x.1, Store.empty))) := by
  obtain ⟨hk1, hk2, _, _⟩ := hst
  refine ⟨?_, ?_, ?_, ?_⟩
  · show (p.map (fun x => (x.1, Store.empty))).map (·.1) = _
    rw [keys_cleared]; exact hk1
  · show (g.map (fun x => (x.1, Store.empty))).map (·.1) = _
    rw [keys_cleared]; exact hk2
  · intro pt s hs
    have := lookup_cleared_eq (l := p) hs
    subst this
    exact ⟨coh_empty, fun r hr => by simp [Store.empty] at hr⟩
  · intro gt s hs
    have := lookup_cleared_eq (l := g) hs
    subst this
    exact ⟨coh_empty, fun r hr => by simp [Store.empty] at hr⟩

theorem cleared_rules (p g : List (String × Store)) (pt : String) :
    C18L.rulesOf (p.map (fun x => (x.1, Store.empty)), g.map (fun x => (x.1, Store.empty))) pt = [] := by
  show (((p.map (fun x => (x.1, Store.empty))).lookup pt).map (·.policy)).getD
    ((((g.map (fun x => (x.1, Store.empty))).lookup pt).map (·.policy)).getD []) = []
  rw [rules_cleared g pt, rules_cleared p pt]

/-- the listed rules of well-formed stores are duplicate-free -/
theorem rulesOf_nodup (md : ModelDef) (st : Stores) (hst : C18L.storesOk md st) (pt : String) :
    (C18L.rulesOf st pt).Nodup := by
  obtain ⟨_, _, hp, hg⟩ := hst
  show (((st.1.lookup pt).map (·.policy)).getD (((st.2.lookup pt).map (·.policy)).getD [])).Nodup
  cases hpl : st.1.lookup pt with
  | some s => exact (hp pt s hpl).1.1
  | none =>
    cases hgl : st.2.lookup pt with
    | some s => exact (hg pt s hgl).1.1
    | none => exact List.nodup_nil

/-- replaying the entries saved from `(p', g')` — the stores of `(p, g)` met in another order —
    into nothing lists, per type, the rules of `(p, g)` -/
theorem replay (md : ModelDef) (p g p' g' : List (String × Store))
    (hp : p'.Perm p) (hg : g'.Perm g)
    (hst : C18L.storesOk md (p, g))
    (hdis : ∀ pt, pt ∈ md.p.map (·.1) → pt ∉ md.g.map (·.1))
    (hnp : (md.p.map (·.1)).Nodup) (hng : (md.g.map (·.1)).Nodup) (pt : String) :
    (((entriesL (p' ++ g')).filter (·.1 == pt)).map (·.2)).foldl SpecStore.addOne [] =
      C18L.rulesOf (p, g) pt := by
  have hk1 : p.map (·.1) = md.p.map (·.1) := hst.1
  have hk2 : g.map (·.1) = md.g.map (·.1) := hst.2.1
  have hnp0 : (p.map (·.1)).Nodup := by rw [hk1]; exact hnp
  have hng0 : (g.map (·.1)).Nodup := by rw [hk2]; exact hng
  have hnp' : (p'.map (·.1)).Nodup := ((hp.map (·.1)).nodup_iff).2 hnp0
  have hng' : (g'.map (·.1)).Nodup := ((hg.map (·.1)).nodup_iff).2 hng0
  have hdis' : ∀ pt, pt ∈ p'.map (·.1) → pt ∉ g'.map (·.1) := by
    intro k h1 h2
    have h1' : k ∈ md.p.map (·.1) := by rw [← hk1]; exact (hp.map (·.1)).mem_iff.1 h1
    have h2' : k ∈ md.g.map (·.1) := by rw [← hk2]; exact (hg.map (·.1)).mem_iff.1 h2
    exact hdis k h1' h2'
  rw [entries_filter p' g' hnp' hng' hdis' pt, lookup_perm hp hnp0, lookup_perm hg hng0]
  exact foldl_addOne_nil _ (rulesOf_nodup md (p, g) hst pt)

end Casbin.C10TS
