import CasbinVerif.Properties.C10Text
/-
  Helper lemmas for Properties/C10TextString.lean: what the string adapter's line splitting
  (`Csv.stringLines`) reads back from joined saved lines, and what `loadPolicyLine` does on an
  untrimmed saved line.
-/
namespace Casbin.C10TextStringP
open Casbin Casbin.Csv Casbin.Cfg Casbin.C10Text

/-- the string adapter's line splitting gets back exactly the lines that were joined -/
theorem stringLines_joinNL (ls : List (List Char)) (h : ∀ l ∈ ls, l ≠ [] ∧ '\n' ∉ l) :
    stringLines (joinNL ls) = ls := by
  cases ls with
  | nil => rfl
  | cons l ls =>
    show stringLines (ls.foldl (fun acc x => acc ++ '\n' :: x) l) = l :: ls
    rw [C10TextP.foldl_join]
    unfold stringLines
    rw [C10TextP.splitLines_join l ls (fun x hx => (h x hx).2)]
    rw [List.filter_eq_self]
    intro x hx
    have := (h x hx).1
    cases x with
    | nil => exact absurd rfl this
    | cons c cs => rfl

/-- joined non-empty lines: empty exactly when there is no line -/
theorem joinNL_isEmpty (ls : List (List Char)) (h : ∀ l ∈ ls, l ≠ []) :
    (joinNL ls).isEmpty = ls.isEmpty := by
  cases ls with
  | nil => rfl
  | cons l ls =>
    show (ls.foldl (fun acc x => acc ++ '\n' :: x) l).isEmpty = false
    rw [C10TextP.foldl_join]
    have := h l (List.mem_cons_self ..)
    cases l with
    | nil => exact absurd rfl this
    | cons c cs => rfl

/-- `LoadPolicyLine` on an untrimmed saved line is `LoadPolicyArray` on the rule that was saved -/
theorem saved_line_loads (md : ModelDef) (st : Stores) (e : String × Rule)
    (hpt : typeOk e.1.toList = true) (hr : e.2.all (fun f => plainField f.toList) = true) :
    loadPolicyLine md st (savedLine e) = Enf.loadLine md st.1 st.2 e.1 e.2 := by
  obtain ⟨pt, r⟩ := e
  have hr' : (r.map String.toList).all plainField = true := by
    rw [List.all_map]
    exact hr
  have hlt := line_round_trip_partial pt.toList (r.map String.toList) hpt hr'
  unfold loadPolicyLine savedLine
  simp only [hlt, List.map_cons, List.map_map, String.ofList_toList]
  have : r.map (String.ofList ∘ String.toList) = r := by
    induction r with
    | nil => rfl
    | cons x xs ih => simp
  rw [this]

/-- a saved line is never empty and holds no line break -/
theorem savedLine_ok (e : String × Rule)
    (hpt : typeOk e.1.toList = true) (hr : e.2.all (fun f => plainField f.toList) = true) :
    savedLine e ≠ [] ∧ '\n' ∉ savedLine e :=
  C10TextP.saveLine_ok e.1.toList (e.2.map String.toList) hpt (by rw [List.all_map]; exact hr)

/-- line by line: the string adapter's loop over the saved lines is the lenient entry loop -/
theorem fold_lines_entries (md : ModelDef) (ok : String × Rule → Bool)
    (hsl : ∀ (st : Stores) (e : String × Rule), ok e = true →
      loadPolicyLine md st (savedLine e) = Enf.loadLine md st.1 st.2 e.1 e.2)
    (st : Stores) (es : List (String × Rule)) (h : es.all ok = true) :
    (es.map savedLine).foldl (fun st l => (loadPolicyLine md st l).getD st) st =
      es.foldl (fun st e => (Enf.loadLine md st.1 st.2 e.1 e.2).getD st) st := by
  induction es generalizing st with
  | nil => rfl
  | cons e es ih =>
    rw [List.all_cons, Bool.and_eq_true] at h
    simp only [List.map_cons, List.foldl_cons]
    rw [hsl st e h.1]
    exact ih _ h.2

end Casbin.C10TextStringP
