import CasbinVerif.Spec.Persist
import CasbinVerif.Proofs.MirrorStep
/-
  C11: a failed persistence call leaves memory alone.  Building blocks: what an armed adapter call
  returns, and the classification of the `.err` results of the `*WithoutNotify` functions.
-/
namespace Casbin

theorem memory_of_sameCore {e e' : Enf} (h : SameCore e e') : e'.memory = e.memory := by
  simp only [Enf.memory, h.p, h.g, h.rm]

theorem withNotify_err (r : Enf × Enf.MRes) (x y : Option String) {b : Bool} (h : r.2 = .err b) :
    Enf.withNotify r x y = r := by
  obtain ⟨e, res⟩ := r
  simp only at h
  subst h
  rfl

/-! ### the armed adapter call -/

/-- the next adapter call of `e` is the one that fails -/
structure Armed (e : Enf) : Prop where
  ex : ∃ a, e.adapter = some a ∧ a.failAt = a.calls + 1
  save : e.autoSave = true

theorem Armed.persist {e : Enf} (h : Armed e) {entry : String} {eff : AdapterSt → AdapterSt} {e1 : Enf} {ok : Bool}
    (hp : (if e.shouldPersist = true then e.adapterCall entry eff else (e, true)) = (e1, ok)) : ok = false := by
  obtain ⟨⟨a, ha, harm⟩, hs⟩ := h
  have hsp : e.shouldPersist = true := by simp [Enf.shouldPersist, ha, hs]
  rw [if_pos hsp] at hp
  unfold Enf.adapterCall at hp
  rw [ha] at hp
  have hc : (a.failAt != 0 && a.calls + 1 == a.failAt) = true := by simp [harm]
  simp only [AdapterSt.call, hc, if_true, Bool.false_eq_true, if_false] at hp
  exact (Prod.mk.inj hp).2.symm

theorem armed_addPolicyWN (e : Enf) (sec pt : String) (rule : Rule) (ha : Armed e) :
    SameCore e (e.addPolicyWN sec pt rule).1 ∧
    (∀ s, e.getStore sec pt = some s → s.has rule = false → (e.addPolicyWN sec pt rule).2 = .err false) := by
  unfold Enf.addPolicyWN
  split
  · exact ⟨.refl e, fun s hs => by simp_all⟩
  rename_i s0 hs0
  split
  · rename_i hh
    exact ⟨.refl e, fun s hs hn => by rw [hs0] at hs; cases hs; simp_all⟩
  split
  rename_i e1 okA hp
  have := ha.persist hp
  subst this
  simp only [Bool.not_false, if_true]
  exact ⟨sameCore_persist hp, fun _ _ _ => trivial⟩


theorem armed_addPoliciesWN (e : Enf) (sec pt : String) (rules : List Rule) (ex : Bool) (ha : Armed e) :
    SameCore e (e.addPoliciesWN sec pt rules ex).1 ∧
    (∀ s, e.getStore sec pt = some s → (ex = true ∨ rules.any s.has = false) →
      (e.addPoliciesWN sec pt rules ex).2 = .err false) := by
  unfold Enf.addPoliciesWN
  split
  · split <;> exact ⟨.refl e, fun _ _ _ => rfl⟩
  rename_i s0 hs0
  split
  · rename_i hh
    refine ⟨.refl e, fun s hs hn => ?_⟩
    rw [hs0] at hs; cases hs
    rcases hn with h | h <;> simp [h] at hh
  split
  rename_i e1 okA hp
  have := ha.persist hp
  subst this
  simp only [Bool.not_false, if_true]
  exact ⟨sameCore_persist hp, fun _ _ _ => trivial⟩

theorem armed_removePolicyWN (e : Enf) (sec pt : String) (rule : Rule) (ha : Armed e) :
    SameCore e (e.removePolicyWN sec pt rule).1 ∧ (e.removePolicyWN sec pt rule).2 = .err false := by
  unfold Enf.removePolicyWN
  split
  rename_i e1 okA hp
  have := ha.persist hp
  subst this
  simp only [Bool.not_false, if_true]
  exact ⟨sameCore_persist hp, trivial⟩

theorem armed_removePoliciesWN (e : Enf) (sec pt : String) (rules : List Rule) (ha : Armed e) :
    SameCore e (e.removePoliciesWN sec pt rules).1 ∧
    (∀ s, e.getStore sec pt = some s → rules.any s.has = true → (e.removePoliciesWN sec pt rules).2 = .err false) := by
  unfold Enf.removePoliciesWN
  split
  · rename_i hs0
    split <;> exact ⟨.refl e, fun s hs => by rw [hs0] at hs; cases hs⟩
  rename_i s0 hs0
  split
  · rename_i hh
    refine ⟨.refl e, fun s hs hn => ?_⟩
    rw [hs0] at hs; cases hs
    simp [hn] at hh
  split
  rename_i e1 okA hp
  have := ha.persist hp
  subst this
  simp only [Bool.not_false, if_true]
  exact ⟨sameCore_persist hp, fun _ _ _ => trivial⟩

/-- since the repair of D12/D18 the update calls ask `Enf.updatable` before the adapter is touched: a
    refused update reports `.ok false` and never reaches the (armed) adapter call, so the error is
    reported only when the guard passes -/
theorem armed_updatePolicyWN (e : Enf) (sec pt : String) (old new : Rule) (ha : Armed e) :
    SameCore e (e.updatePolicyWN sec pt old new).1 ∧
    (∀ s, e.getStore sec pt = some s → Enf.updatable s [old] [new] = true →
      (e.updatePolicyWN sec pt old new).2 = .err false) := by
  unfold Enf.updatePolicyWN
  split
  · exact ⟨.refl e, fun _ _ _ => rfl⟩
  rename_i s0 hs0
  split
  · rename_i hh
    refine ⟨.refl e, fun s hs hu => ?_⟩
    rw [hs0] at hs; cases hs
    simp [hu] at hh
  split
  rename_i e1 okA hp
  have := ha.persist hp
  subst this
  simp only [Bool.not_false, if_true]
  exact ⟨sameCore_persist hp, fun _ _ _ => trivial⟩

theorem armed_updatePoliciesWN (e : Enf) (sec pt : String) (olds news : List Rule) (ha : Armed e) :
    SameCore e (e.updatePoliciesWN sec pt olds news).1 ∧
    (∀ s, e.getStore sec pt = some s → Enf.updatable s olds news = true →
      (e.updatePoliciesWN sec pt olds news).2 = .err false) := by
  unfold Enf.updatePoliciesWN
  split
  · exact ⟨.refl e, fun _ _ _ => rfl⟩
  split
  · exact ⟨.refl e, fun _ _ _ => rfl⟩
  rename_i s0 hs0
  split
  · rename_i hh
    refine ⟨.refl e, fun s hs hu => ?_⟩
    rw [hs0] at hs; cases hs
    simp [hu] at hh
  split
  rename_i e1 okA hp
  have := ha.persist hp
  subst this
  simp only [Bool.not_false, if_true]
  exact ⟨sameCore_persist hp, fun _ _ _ => trivial⟩

theorem armed_removeFilteredWN (e : Enf) (sec pt : String) (fi : Nat) (vals : List String) (ha : Armed e) :
    ∃ r, e.removeFilteredWN sec pt fi vals = some r ∧ SameCore e r.1 ∧ r.2 = .err false := by
  unfold Enf.removeFilteredWN
  split
  · exact ⟨_, rfl, .refl e, rfl⟩
  split
  rename_i e1 okA hp
  have := ha.persist hp
  subst this
  simp only [Bool.not_false, if_true]
  exact ⟨_, rfl, sameCore_persist hp, rfl⟩


/-- an `.err` result is `.err false` and leaves model, stores and managers alone -/
def ErrOK (e : Enf) (r : Enf × Enf.MRes) : Prop := ∀ b, r.2 = .err b → b = false ∧ SameCore e r.1

theorem errOK_ok (e e' : Enf) (b : Bool) : ErrOK e (e', .ok b) := fun _ h => by cases h

theorem errOK_err {e e' : Enf} (h : SameCore e e') : ErrOK e (e', .err false) := fun b hb => by
  cases hb; exact ⟨rfl, h⟩

theorem errOK_withNotify {e : Enf} {r : Enf × Enf.MRes} (h : ErrOK e r) (x y : Option String) :
    ErrOK e (Enf.withNotify r x y) := by
  unfold Enf.withNotify
  split
  · split <;> exact errOK_ok _ _ _
  · exact h

theorem applyRules_ok (count : Nat) (add : Bool) (rules : List Rule) (rm : RM)
    (hlen : ∀ r ∈ rules, count ≤ r.length) (hc : 2 ≤ count) : (rm.applyRules count add rules).2 = true := by
  cases add
  · exact (applyRules_del count rules rm hlen hc).1
  · exact (applyRules_add count rules rm hlen hc).1

theorem incrLinks_md (e : Enf) (add : Bool) (pt : String) (rules : List Rule) :
    (e.incrLinks add pt rules).1.md = e.md := by
  unfold Enf.incrLinks
  simp only [Enf.invalidate]
  split <;> rfl

theorem setStore_md (e : Enf) (sec pt : String) (s : Store) : (e.setStore sec pt s).md = e.md := by
  unfold Enf.setStore
  split <;> rfl

/-- the rules handed to `BuildIncrementalRoleLinks` are long enough for the definition -/
def GOK (e : Enf) (pt : String) (rules : List Rule) : Prop :=
  ∀ c k, e.md.g.lookup pt = some (c, k) → 2 ≤ c ∧ ∀ r ∈ rules, c ≤ r.length

theorem GOK.of_md {e e' : Enf} {pt : String} {rules : List Rule} (h : GOK e pt rules) (hmd : e'.md = e.md) :
    GOK e' pt rules := by
  unfold GOK; rw [hmd]; exact h

theorem incrLinks_ok (e : Enf) (add : Bool) (pt : String) (rules : List Rule) (h : GOK e pt rules) :
    (e.incrLinks add pt rules).2 = true := by
  unfold Enf.incrLinks
  simp only [Enf.invalidate]
  split
  · rename_i rm count kind h1 h2
    obtain ⟨hc, hlen⟩ := h count kind h2
    exact applyRules_ok count add rules rm hlen hc
  · rfl

theorem incrLinks_ok_of_eq {e : Enf} {add : Bool} {pt : String} {rules : List Rule} (h : GOK e pt rules)
    {e1 : Enf} {ok : Bool} (heq : e.incrLinks add pt rules = (e1, ok)) : ok = true ∧ e1.md = e.md := by
  have h1 := incrLinks_ok e add pt rules h
  have h2 := incrLinks_md e add pt rules
  rw [heq] at h1 h2
  exact ⟨h1, h2⟩

theorem gok_of_wf {e : Enf} (hwf : e.WFState) {pt : String} {s : Store} (hs : e.g.lookup pt = some s)
    {n : Nat} {kind : RMKind} (hd : e.md.g.lookup pt = some (n, kind)) {rules : List Rule}
    (hr : ∀ r ∈ rules, plainRule n r = true) : GOK e pt rules := by
  obtain ⟨_, hinj, _⟩ := wf_g_info hwf hs hd
  intro c k hck
  rw [hd] at hck; cases hck
  exact ⟨hinj.c2, fun r hr' => by rw [plainRule_length (hr r hr')]; exact Nat.le_refl _⟩

theorem err_updatePolicyWN (e : Enf) (sec pt : String) (old new : Rule) (hwf : e.WFState)
    (hop : e.opWF (.update sec pt old new) = true) : ErrOK e (e.updatePolicyWN sec pt old new) := by
  obtain ⟨n, s, har, hs, hwf6⟩ := opWF_elim hop rfl
  obtain ⟨hpl, hn⟩ := wf06_parts hwf6
  have ho : plainRule n old = true := hpl old (by simp [StoreOp.rules])
  have hw : plainRule n new = true := hpl new (by simp [StoreOp.rules])
  unfold Enf.updatePolicyWN
  split
  · exact errOK_err (.refl e)
  split
  · exact errOK_ok _ _ _
  split
  rename_i e1 okA hp
  have sc := sameCore_persist hp
  split
  · exact errOK_err sc
  split
  · exact errOK_err sc
  split
  · exact errOK_ok _ _ _
  rename_i s' hupd
  rcases arity_cases har hs with ⟨rfl, hps, toks, ht, rfl⟩ | ⟨rfl, hgs, kind, hd⟩
  · simp only [str_pg, Bool.false_eq_true, if_false]
    exact errOK_ok _ _ _
  · simp only [beq_self_eq_true, if_true]
    have g1 : GOK e pt [old] := gok_of_wf hwf hgs hd (by intro r hr; simp at hr; subst hr; exact ho)
    have g2 : GOK e pt [new] := gok_of_wf hwf hgs hd (by intro r hr; simp at hr; subst hr; exact hw)
    have h1 := incrLinks_ok (e1.setStore "g" pt s') false pt [old] (g1.of_md ((setStore_md _ _ _ _).trans sc.md))
    have h2 := incrLinks_ok ((e1.setStore "g" pt s').incrLinks false pt [old]).1 true pt [new]
      (g2.of_md ((incrLinks_md _ _ _ _).trans ((setStore_md _ _ _ _).trans sc.md)))
    simp only [h1, h2, Bool.not_true, Bool.false_eq_true, if_false, if_true]
    exact errOK_ok _ _ _

theorem err_addPolicyWN (e : Enf) (sec pt : String) (rule : Rule) (hwf : e.WFState)
    (hop : e.opWF (.add sec pt rule) = true) : ErrOK e (e.addPolicyWN sec pt rule) := by
  obtain ⟨n, s, har, hs, hwf6⟩ := opWF_elim hop rfl
  obtain ⟨hpl, hn⟩ := wf06_parts hwf6
  have hr : plainRule n rule = true := hpl rule (by simp [StoreOp.rules])
  unfold Enf.addPolicyWN
  split
  · exact errOK_err (.refl e)
  split
  · exact errOK_ok _ _ _
  split
  rename_i e1 okA hp
  have sc := sameCore_persist hp
  split
  · exact errOK_err sc
  rcases arity_cases har hs with ⟨rfl, hps, toks, ht, rfl⟩ | ⟨rfl, hgs, kind, hd⟩
  · simp only [str_pg, Bool.false_eq_true, if_false]
    exact errOK_ok _ _ _
  · simp only [beq_self_eq_true, if_true]
    have g1 : GOK e pt [rule] := gok_of_wf hwf hgs hd (by intro r hr'; simp at hr'; subst hr'; exact hr)
    have h1 := incrLinks_ok (e1.setStore "g" pt (Store.add (e1.prioOf "g" pt) ‹Store› rule)) true pt [rule]
      (g1.of_md ((setStore_md _ _ _ _).trans sc.md))
    simp only [h1, if_true]
    exact errOK_ok _ _ _

theorem err_addPoliciesWN (e : Enf) (sec pt : String) (rules : List Rule) (ex : Bool) (hwf : e.WFState)
    (hop : e.opWF (.addMany sec pt ex rules) = true) : ErrOK e (e.addPoliciesWN sec pt rules ex) := by
  obtain ⟨n, s, har, hs, hwf6⟩ := opWF_elim hop rfl
  obtain ⟨hpl, hn⟩ := wf06_parts hwf6
  have hrs : ∀ r ∈ rules, plainRule n r = true := fun r hr => hpl r (by simpa [StoreOp.rules] using hr)
  unfold Enf.addPoliciesWN
  split
  · split <;> exact errOK_err (.refl e)
  split
  · exact errOK_ok _ _ _
  split
  rename_i e1 okA hp
  have sc := sameCore_persist hp
  split
  · exact errOK_err sc
  rcases arity_cases har hs with ⟨rfl, hps, toks, ht, rfl⟩ | ⟨rfl, hgs, kind, hd⟩
  · simp only [str_pg, Bool.false_eq_true, if_false]
    exact errOK_ok _ _ _
  · simp only [beq_self_eq_true, if_true]
    have g1 : GOK e pt rules := gok_of_wf hwf hgs hd hrs
    have h1 := incrLinks_ok (e1.setStore "g" pt (Store.addMany (e1.prioOf "g" pt) ‹Store› rules).1) true pt rules
      (g1.of_md ((setStore_md _ _ _ _).trans sc.md))
    simp only [h1, if_true]
    exact errOK_ok _ _ _

theorem err_removePolicyWN (e : Enf) (sec pt : String) (rule : Rule) (hwf : e.WFState)
    (hop : e.opWF (.remove sec pt rule) = true) : ErrOK e (e.removePolicyWN sec pt rule) := by
  obtain ⟨n, s, har, hs, hwf6⟩ := opWF_elim hop rfl
  obtain ⟨hpl, hn⟩ := wf06_parts hwf6
  have hr : plainRule n rule = true := hpl rule (by simp [StoreOp.rules])
  unfold Enf.removePolicyWN
  split
  rename_i e1 okA hp
  have sc := sameCore_persist hp
  split
  · exact errOK_err sc
  split
  · exact errOK_err sc
  split
  · exact errOK_ok _ _ _
  rename_i s' hrem
  rcases arity_cases har hs with ⟨rfl, hps, toks, ht, rfl⟩ | ⟨rfl, hgs, kind, hd⟩
  · simp only [str_pg, Bool.false_eq_true, if_false]
    exact errOK_ok _ _ _
  · simp only [beq_self_eq_true, if_true]
    have g1 : GOK e pt [rule] := gok_of_wf hwf hgs hd (by intro r hr'; simp at hr'; subst hr'; exact hr)
    have h1 := incrLinks_ok (e1.setStore "g" pt s') false pt [rule] (g1.of_md ((setStore_md _ _ _ _).trans sc.md))
    simp only [h1, if_true]
    exact errOK_ok _ _ _

theorem err_removePoliciesWN (e : Enf) (sec pt : String) (rules : List Rule) (hwf : e.WFState)
    (hop : e.opWF (.removeMany sec pt rules) = true) : ErrOK e (e.removePoliciesWN sec pt rules) := by
  obtain ⟨n, s, har, hs, hwf6⟩ := opWF_elim hop rfl
  obtain ⟨hpl, hn⟩ := wf06_parts hwf6
  have hrs : ∀ r ∈ rules, plainRule n r = true := fun r hr => hpl r (by simpa [StoreOp.rules] using hr)
  unfold Enf.removePoliciesWN
  split
  · split
    · exact errOK_ok _ _ _
    · exact errOK_err (.refl e)
  split
  · exact errOK_ok _ _ _
  split
  rename_i e1 okA hp
  have sc := sameCore_persist hp
  split
  · exact errOK_err sc
  split
  rename_i s' aff hrem
  split
  · exact errOK_ok _ _ _
  rcases arity_cases har hs with ⟨rfl, hps, toks, ht, rfl⟩ | ⟨rfl, hgs, kind, hd⟩
  · simp only [str_pg, Bool.false_eq_true, if_false]
    exact errOK_ok _ _ _
  · simp only [beq_self_eq_true, if_true]
    have g1 : GOK e pt rules := gok_of_wf hwf hgs hd hrs
    have h1 := incrLinks_ok (e1.setStore "g" pt s') false pt rules (g1.of_md ((setStore_md _ _ _ _).trans sc.md))
    simp only [h1, if_true]
    exact errOK_ok _ _ _

theorem err_updatePoliciesWN (e : Enf) (sec pt : String) (olds news : List Rule) (hwf : e.WFState)
    (hop : e.opWF (.updateMany sec pt olds news) = true) : ErrOK e (e.updatePoliciesWN sec pt olds news) := by
  obtain ⟨n, s, har, hs, hwf6⟩ := opWF_elim hop rfl
  obtain ⟨hpl, hn⟩ := wf06_parts hwf6
  have hpo : ∀ r ∈ olds, plainRule n r = true := fun r hr => hpl r (by simp [StoreOp.rules, hr])
  have hpn : ∀ r ∈ news, plainRule n r = true := fun r hr => hpl r (by simp [StoreOp.rules, hr])
  unfold Enf.updatePoliciesWN
  split
  · exact errOK_err (.refl e)
  split
  · exact errOK_err (.refl e)
  split
  · exact errOK_ok _ _ _
  split
  rename_i e1 okA hp
  have sc := sameCore_persist hp
  split
  · exact errOK_err sc
  split
  · exact errOK_err sc
  split
  · exact errOK_ok _ _ _
  rename_i s' hupd
  rcases arity_cases har hs with ⟨rfl, hps, toks, ht, rfl⟩ | ⟨rfl, hgs, kind, hd⟩
  · simp only [str_pg, Bool.false_eq_true, if_false]
    exact errOK_ok _ _ _
  · simp only [beq_self_eq_true, if_true]
    have g1 : GOK e pt olds := gok_of_wf hwf hgs hd hpo
    have g2 : GOK e pt news := gok_of_wf hwf hgs hd hpn
    have h1 := incrLinks_ok (e1.setStore "g" pt s') false pt olds (g1.of_md ((setStore_md _ _ _ _).trans sc.md))
    have h2 := incrLinks_ok ((e1.setStore "g" pt s').incrLinks false pt olds).1 true pt news
      (g2.of_md ((incrLinks_md _ _ _ _).trans ((setStore_md _ _ _ _).trans sc.md)))
    simp only [h1, h2, Bool.not_true, Bool.false_eq_true, if_false, if_true]
    exact errOK_ok _ _ _

theorem err_removeFilteredWN (e : Enf) (sec pt : String) (fi : Nat) (vals : List String) (hwf : e.WFState)
    (hop : e.opWF (.removeFiltered sec pt fi vals) = true) (r : Enf × Enf.MRes)
    (h : e.removeFilteredWN sec pt fi vals = some r) : ErrOK e r := by
  obtain ⟨n, s, har, hs, hwf6⟩ := opWF_elim hop rfl
  obtain ⟨_, hn⟩ := wf06_parts hwf6
  obtain ⟨hne, hfl⟩ := wf06_removeFiltered hwf6
  have g0 : Good n s := by
    rcases arity_cases har hs with ⟨rfl, hps, toks, ht, rfl⟩ | ⟨rfl, hgs, kind, hd⟩
    · exact wf_p_good hwf hps ht
    · exact (wf_g_info hwf hgs hd).1
  unfold Enf.removeFilteredWN at h
  split at h
  · cases h; exact errOK_err (.refl e)
  split at h
  rename_i e1 okA hp
  have sc := sameCore_persist hp
  split at h
  · cases h; exact errOK_err sc
  rw [sc.getStore, hs] at h
  simp only at h
  split at h
  · cases h
  · cases h; exact errOK_ok _ _ _
  · rename_i s' eff hrf
    have heff := removeFiltered_eff g0 fi vals hfl hrf
    rcases arity_cases har hs with ⟨rfl, hps, toks, ht, rfl⟩ | ⟨rfl, hgs, kind, hd⟩
    · simp only [str_pg, Bool.false_eq_true, if_false] at h
      cases h; exact errOK_ok _ _ _
    · simp only [beq_self_eq_true, if_true] at h
      have g1 : GOK e pt eff := gok_of_wf hwf hgs hd (by
        intro r hr
        rw [heff] at hr
        exact g0.plain r (List.mem_filter.1 hr).1)
      have h1 := incrLinks_ok (e1.setStore "g" pt s') false pt eff (g1.of_md ((setStore_md _ _ _ _).trans sc.md))
      simp only [h1, if_true] at h
      cases h; exact errOK_ok _ _ _


theorem rebuildLinks_ok_of_wf {e : Enf} (hwf : e.WFState) (rm : List (String × RM)) :
    (Enf.rebuildLinks e.md rm e.g).2 = true := by
  have hok : ∀ x ∈ rm, ∀ count kind s, e.md.g.lookup x.1 = some (count, kind) → e.g.lookup x.1 = some s →
      (x.2.clear.applyRules count true s.policy).2 = true := by
    intro x _ count kind s hd hs
    obtain ⟨g0, hinj, _⟩ := wf_g_info hwf hs hd
    exact (applyRules_add count s.policy x.2.clear
      (fun r hr => by rw [plainRule_length (g0.plain r hr)]; exact Nat.le_refl _) hinj.c2).1
  rw [rebuildLinks_eq e.md rm e.g hok]

theorem buildRoleLinks_ok {e : Enf} (hwf : e.WFState) : e.buildRoleLinks.2 = true := by
  unfold Enf.buildRoleLinks
  simp only [Enf.invalidate]
  exact rebuildLinks_ok_of_wf hwf e.rm

/-- a management call that reports an error reports `.err false` and has left model, stores and managers alone -/
theorem err_applyM (e : Enf) (op : MOp) (e' : Enf) (b : Bool)
    (h : e.applyM op = some (e', .err b)) (hop : e.opWF op = true) (hwf : e.WFState) :
    b = false ∧ SameCore e e' := by
  cases op with
  | add sec pt r =>
    simp only [Enf.applyM, Option.some.injEq] at h
    have := errOK_withNotify (err_addPolicyWN e sec pt r hwf hop) (some s!"AddPolicy({sec};{pt};{Enf.showRule r})") none
    unfold Enf.addPolicy at h
    rw [h] at this
    exact this b rfl
  | addMany sec pt ex rs =>
    simp only [Enf.applyM, Option.some.injEq] at h
    have := errOK_withNotify (err_addPoliciesWN e sec pt rs ex hwf hop)
      (some s!"AddPolicies({sec};{pt};{Enf.showRules rs})") none
    unfold Enf.addPolicies at h
    rw [h] at this
    exact this b rfl
  | remove sec pt r =>
    simp only [Enf.applyM, Option.some.injEq] at h
    have := errOK_withNotify (err_removePolicyWN e sec pt r hwf hop)
      (some s!"RemovePolicy({sec};{pt};{Enf.showRule r})") none
    unfold Enf.removePolicy at h
    rw [h] at this
    exact this b rfl
  | removeMany sec pt rs =>
    simp only [Enf.applyM, Option.some.injEq] at h
    have := errOK_withNotify (err_removePoliciesWN e sec pt rs hwf hop)
      (some s!"RemovePolicies({sec};{pt};{Enf.showRules rs})") none
    unfold Enf.removePolicies at h
    rw [h] at this
    exact this b rfl
  | update sec pt o n =>
    simp only [Enf.applyM, Option.some.injEq] at h
    have := errOK_withNotify (err_updatePolicyWN e sec pt o n hwf hop) none
      (some s!"UpdatePolicy({sec};{pt};{Enf.showRule o};{Enf.showRule n})")
    unfold Enf.updatePolicy at h
    rw [h] at this
    exact this b rfl
  | updateMany sec pt os ns =>
    simp only [Enf.applyM, Option.some.injEq] at h
    have := errOK_withNotify (err_updatePoliciesWN e sec pt os ns hwf hop) none
      (some s!"UpdatePolicies({sec};{pt};{Enf.showRules os};{Enf.showRules ns})")
    unfold Enf.updatePolicies at h
    rw [h] at this
    exact this b rfl
  | removeFiltered sec pt fi vals =>
    simp only [Enf.applyM, Enf.removeFiltered, Option.map_eq_some_iff] at h
    obtain ⟨r0, h0, h1⟩ := h
    have := errOK_withNotify (err_removeFilteredWN e sec pt fi vals hwf hop r0 h0)
      (some s!"RemoveFilteredPolicy({sec};{pt};{fi};{Enf.showRule vals})") none
    rw [h1] at this
    exact this b rfl
  | clear => simp [Enf.applyM] at h
  | buildLinks =>
    simp only [Enf.applyM, buildRoleLinks_ok hwf, if_true, Option.some.injEq, Prod.mk.injEq] at h
    exact absurd h.2 (by simp)

theorem withNotify_err' (r : Enf × Enf.MRes) (x y : Option String) (h : r.2 = .err false) :
    Enf.withNotify r x y = (r.1, .err false) := by
  rw [withNotify_err r x y h, ← h]

/-- with the next adapter call armed, a management call changes neither model, stores nor managers -/
theorem armed_applyM (e : Enf) (op : MOp) (ha : Armed e) (sec pt : String) (sop : StoreOp)
    (hop : op.storeOp = some (sec, pt, sop)) (e' : Enf) (res : Enf.MRes) (h : e.applyM op = some (e', res)) :
    SameCore e e' := by
  cases op with
  | add sec' pt' r =>
    simp only [Enf.applyM, Option.some.injEq] at h
    have := (armed_addPolicyWN e sec' pt' r ha).1.trans (sameCore_withNotify _ (some s!"AddPolicy({sec'};{pt'};{Enf.showRule r})") none)
    unfold Enf.addPolicy at h
    rw [h] at this; exact this
  | addMany sec' pt' ex rs =>
    simp only [Enf.applyM, Option.some.injEq] at h
    have := (armed_addPoliciesWN e sec' pt' rs ex ha).1.trans
      (sameCore_withNotify _ (some s!"AddPolicies({sec'};{pt'};{Enf.showRules rs})") none)
    unfold Enf.addPolicies at h
    rw [h] at this; exact this
  | remove sec' pt' r =>
    simp only [Enf.applyM, Option.some.injEq] at h
    have := (armed_removePolicyWN e sec' pt' r ha).1.trans
      (sameCore_withNotify _ (some s!"RemovePolicy({sec'};{pt'};{Enf.showRule r})") none)
    unfold Enf.removePolicy at h
    rw [h] at this; exact this
  | removeMany sec' pt' rs =>
    simp only [Enf.applyM, Option.some.injEq] at h
    have := (armed_removePoliciesWN e sec' pt' rs ha).1.trans
      (sameCore_withNotify _ (some s!"RemovePolicies({sec'};{pt'};{Enf.showRules rs})") none)
    unfold Enf.removePolicies at h
    rw [h] at this; exact this
  | update sec' pt' o n =>
    simp only [Enf.applyM, Option.some.injEq] at h
    have := (armed_updatePolicyWN e sec' pt' o n ha).1.trans
      (sameCore_withNotify _ none (some s!"UpdatePolicy({sec'};{pt'};{Enf.showRule o};{Enf.showRule n})"))
    unfold Enf.updatePolicy at h
    rw [h] at this; exact this
  | updateMany sec' pt' os ns =>
    simp only [Enf.applyM, Option.some.injEq] at h
    have := (armed_updatePoliciesWN e sec' pt' os ns ha).1.trans
      (sameCore_withNotify _ none (some s!"UpdatePolicies({sec'};{pt'};{Enf.showRules os};{Enf.showRules ns})"))
    unfold Enf.updatePolicies at h
    rw [h] at this; exact this
  | removeFiltered sec' pt' fi vals =>
    simp only [Enf.applyM, Enf.removeFiltered, Option.map_eq_some_iff] at h
    obtain ⟨r0, h0, h1⟩ := h
    obtain ⟨r, hr, sc, _⟩ := armed_removeFilteredWN e sec' pt' fi vals ha
    rw [hr, Option.some.injEq] at h0; subst h0
    have := sc.trans (sameCore_withNotify r (some s!"RemoveFilteredPolicy({sec'};{pt'};{fi};{Enf.showRule vals})") none)
    rw [h1] at this; exact this
  | clear => simp [MOp.storeOp] at hop
  | buildLinks => simp [MOp.storeOp] at hop

theorem armed_fails (e : Enf) (op : MOp) (ha : Armed e) (sec pt : String) (sop : StoreOp)
    (hop : op.storeOp = some (sec, pt, sop)) (hex : (e.getStore sec pt).isSome)
    (hreach : match op with
      | .add _ _ r => (e.getStore sec pt).map (fun s => s.has r) = some false
      | .addMany _ _ ex rs => ex = true ∨ (e.getStore sec pt).map (fun s => rs.any s.has) = some false
      | .removeMany _ _ rs => (e.getStore sec pt).map (fun s => rs.any s.has) = some true
      | .update _ _ o n => (e.getStore sec pt).map (fun s => Enf.updatable s [o] [n]) = some true
      | .updateMany _ _ os ns => os.length = ns.length ∧
          (e.getStore sec pt).map (fun s => Enf.updatable s os ns) = some true
      | .removeFiltered _ _ _ vals => vals ≠ []
      | _ => True) :
    ∃ e', e.applyM op = some (e', .err false) := by
  obtain ⟨s, hs⟩ := Option.isSome_iff_exists.1 hex
  cases op with
  | add sec' pt' r =>
    simp only [MOp.storeOp, Option.some.injEq, Prod.mk.injEq] at hop
    obtain ⟨rfl, rfl, _⟩ := hop
    simp only [hs, Option.map_some, Option.some.injEq] at hreach
    have hr := (armed_addPolicyWN e sec' pt' r ha).2 s hs hreach
    exact ⟨_, by simp only [Enf.applyM, Enf.addPolicy]; rw [withNotify_err' _ _ _ hr]⟩
  | addMany sec' pt' ex rs =>
    simp only [MOp.storeOp, Option.some.injEq, Prod.mk.injEq] at hop
    obtain ⟨rfl, rfl, _⟩ := hop
    simp only [hs, Option.map_some, Option.some.injEq] at hreach
    have hr := (armed_addPoliciesWN e sec' pt' rs ex ha).2 s hs hreach
    exact ⟨_, by simp only [Enf.applyM, Enf.addPolicies]; rw [withNotify_err' _ _ _ hr]⟩
  | remove sec' pt' r =>
    have hr := (armed_removePolicyWN e sec' pt' r ha).2
    exact ⟨_, by simp only [Enf.applyM, Enf.removePolicy]; rw [withNotify_err' _ _ _ hr]⟩
  | removeMany sec' pt' rs =>
    simp only [MOp.storeOp, Option.some.injEq, Prod.mk.injEq] at hop
    obtain ⟨rfl, rfl, _⟩ := hop
    simp only [hs, Option.map_some, Option.some.injEq] at hreach
    have hr := (armed_removePoliciesWN e sec' pt' rs ha).2 s hs hreach
    exact ⟨_, by simp only [Enf.applyM, Enf.removePolicies]; rw [withNotify_err' _ _ _ hr]⟩
  | update sec' pt' o n =>
    simp only [MOp.storeOp, Option.some.injEq, Prod.mk.injEq] at hop
    obtain ⟨rfl, rfl, _⟩ := hop
    simp only [hs, Option.map_some, Option.some.injEq] at hreach
    have hr := (armed_updatePolicyWN e sec' pt' o n ha).2 s hs hreach
    exact ⟨_, by simp only [Enf.applyM, Enf.updatePolicy]; rw [withNotify_err' _ _ _ hr]⟩
  | updateMany sec' pt' os ns =>
    simp only [MOp.storeOp, Option.some.injEq, Prod.mk.injEq] at hop
    obtain ⟨rfl, rfl, _⟩ := hop
    simp only [hs, Option.map_some, Option.some.injEq] at hreach
    have hr := (armed_updatePoliciesWN e sec' pt' os ns ha).2 s hs hreach.2
    exact ⟨_, by simp only [Enf.applyM, Enf.updatePolicies]; rw [withNotify_err' _ _ _ hr]⟩
  | removeFiltered sec' pt' fi vals =>
    obtain ⟨r, hr, _, hres⟩ := armed_removeFilteredWN e sec' pt' fi vals ha
    exact ⟨_, by simp only [Enf.applyM, Enf.removeFiltered, hr, Option.map_some]; rw [withNotify_err' _ _ _ hres]⟩
  | clear => simp [MOp.storeOp] at hop
  | buildLinks => simp [MOp.storeOp] at hop

end Casbin
