import CasbinVerif.Proofs.C11
/-
  C11: failed SavePolicy / LoadPolicy.  The failure paths of `loadPolicy` leave model, rules and
  role managers alone; the rollback branch (rebuild failed on the freshly loaded grouping rules) is
  unreachable in a well-formed state because `loadLine` only admits grouping rules at least as long
  as the definition asks.
-/
namespace Casbin

theorem save_failure (e : Enf) (h : e.savePolicy.2 = false) : SameCore e e.savePolicy.1 := by
  revert h
  unfold Enf.savePolicy
  split
  · intro _; exact .refl e
  split
  split
  · intro _; exact ⟨rfl, rfl, rfl, rfl⟩
  · dsimp only
    split <;> (intro h; cases h)

theorem load_failure_pg (e : Enf) (h : e.loadPolicy.2 = false) :
    e.loadPolicy.1.md = e.md ∧ e.loadPolicy.1.p = e.p ∧ e.loadPolicy.1.g = e.g := by
  revert h
  unfold Enf.loadPolicy
  repeat' first | split | (dsimp only; split)
  all_goals first | (intro h; exact ⟨rfl, rfl, rfl⟩) | (intro h; cases h)

def LoadCase (e : Enf) : Prop :=
  e.loadPolicy.1.rm = e.rm ∨ e.loadPolicy.2 = true ∨
  ∃ e1 ls p1 g1 lfa lfa', e1.md = e.md ∧
    Enf.loadPolicy.deliver e1 ls 0 (e.p.map (fun x => (x.1, Store.empty))) (e.g.map (fun x => (x.1, Store.empty))) lfa = (some (p1, g1), lfa') ∧
    (Enf.rebuildLinks e.md e.rm g1).2 = false

theorem load_cases (e : Enf) : LoadCase e := by
  unfold LoadCase Enf.loadPolicy
  split
  · left; rfl
  split
  rename_i a a1 okC hcall
  split
  · left; rfl
  dsimp -iota only
  split
  rename_i res lfa' hdel
  split
  · left; rfl
  rename_i p1 g1
  split
  · split
    rename_i rm' ok hrb
    split
    · right; left; rfl
    · rename_i hok
      right; right
      refine ⟨_, _, p1, g1, _, lfa', ?_, hdel, ?_⟩
      · rfl
      rw [hrb]
      simpa using hok
  · right; left; rfl

/-- every grouping rule held is at least as long as its definition asks -/
def GLen (md : ModelDef) (g : List (String × Store)) : Prop :=
  ∀ gt s count kind, g.lookup gt = some s → md.g.lookup gt = some (count, kind) → ∀ r ∈ s.policy, count ≤ r.length

theorem glen_empty (md : ModelDef) (g : List (String × Store)) : GLen md (g.map (fun x => (x.1, Store.empty))) := by
  intro gt s count kind hs _ r hr
  have := lookup_map_snd (fun _ _ => Store.empty) g gt
  rw [this] at hs
  cases hl : g.lookup gt with
  | none => rw [hl] at hs; cases hs
  | some s0 =>
    rw [hl] at hs
    cases hs
    simp [Store.empty] at hr

theorem glen_loadLine {md : ModelDef} {p g p' g' : List (String × Store)} {pt : String} {rule : Rule}
    (h : Enf.loadLine md p g pt rule = some (p', g')) (hg : GLen md g) : GLen md g' := by
  unfold Enf.loadLine at h
  split at h
  · cases h
  split at h
  · split at h
    · split at h
      · cases h
      · split at h <;> (cases h; exact hg)
    · cases h
  split at h
  · split at h
    · rename_i count kind0 s hd hs
      split at h
      · cases h
      · rename_i hlen
        split at h
        · cases h; exact hg
        · cases h
          intro gt s1 c k hs1 hd1 r hr
          by_cases hgt : gt = pt
          · subst hgt
            rw [lookup_assocSet_self] at hs1
            cases hs1
            rw [hd] at hd1
            cases hd1
            simp only [Store.add, List.mem_append, List.mem_singleton] at hr
            rcases hr with hr | rfl
            · exact hg gt s _ _ hs hd r hr
            · omega
          · rw [lookup_assocSet_other _ _ hgt] at hs1
            exact hg gt s1 c k hs1 hd1 r hr
    · cases h
  · cases h

theorem glen_deliver (e1 : Enf) (ls : List (String × Rule)) (i : Nat) (p g : List (String × Store)) (lfa : Option Nat)
    (p1 g1 : List (String × Store)) (lfa' : Option Nat)
    (h : Enf.loadPolicy.deliver e1 ls i p g lfa = (some (p1, g1), lfa')) (hg : GLen e1.md g) : GLen e1.md g1 := by
  induction ls generalizing i p g with
  | nil =>
    simp only [Enf.loadPolicy.deliver] at h
    split at h
    · cases h
    · cases h; exact hg
  | cons x rest ih =>
    obtain ⟨pt, r⟩ := x
    simp only [Enf.loadPolicy.deliver] at h
    split at h
    · cases h
    · split at h
      · cases h
      · rename_i p' g' hl
        exact ih _ _ _ h (glen_loadLine hl hg)

theorem load_rm (e : Enf) (hwf : e.WFState) : e.loadPolicy.1.rm = e.rm ∨ e.loadPolicy.2 = true := by
  rcases load_cases e with h | h | ⟨e1, ls, p1, g1, lfa, lfa', hmd, hdel, hfail⟩
  · exact .inl h
  · exact .inr h
  · exfalso
    have hgl : GLen e.md g1 := by
      rw [← hmd]
      exact glen_deliver e1 ls 0 _ _ lfa p1 g1 lfa' hdel (glen_empty _ _)
    have hok : ∀ x ∈ e.rm, ∀ count kind s, e.md.g.lookup x.1 = some (count, kind) → g1.lookup x.1 = some s →
        (x.2.clear.applyRules count true s.policy).2 = true := by
      intro x _ count kind s hd hs
      obtain ⟨s0, hs0⟩ := lookup_some_of_keys (l' := e.g) hwf.2.1 hd
      obtain ⟨_, hinj, _⟩ := wf_g_info hwf hs0 hd
      exact (applyRules_add count s.policy x.2.clear (hgl x.1 s count kind hs hd) hinj.c2).1
    rw [rebuildLinks_eq e.md e.rm g1 hok] at hfail
    cases hfail

end Casbin
