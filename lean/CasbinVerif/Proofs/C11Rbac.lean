import CasbinVerif.Spec.RbacApi
import CasbinVerif.Properties.C11
import CasbinVerif.Proofs.RbacApi
import CasbinVerif.Model.Rbac
/- helper lemmas for Properties/C11Rbac.lean -/
namespace Casbin

/-- a convenience call that is one management call `mop`: an error leaves memory unchanged -/
theorem Rbac.one_step_atomic (e : Enf) (mop : MOp) (hwf : e.WFState)
    (hop : Enf.rbacWF.match_1 (fun _ => Bool) (Rbac.stepW (e, true) mop) (fun _ ok _ => ok) (fun _ => false) = true)
    (e' : Enf) (b : Bool) (h : e.applyM mop = some (e', .err b)) : e'.memory = e.memory := by
  unfold Rbac.stepW at hop
  simp only [h, Option.map_some, Bool.true_and] at hop
  exact (C11.error_leaves_memory e mop e' b h hop hwf).2


/-- the witness of D40: the stock RBAC model with an adapter, auto-save on, one grouping rule and one
    policy rule of alice, and the adapter armed to fail its second call from here on -/
def d40Start : Option Enf := do
  let e0 : Enf := { Enf.init Rbac.rbacModel with adapter := some {} }
  let (e1, _) ← e0.applyM (.add "g" "g" ["alice", "admin"])
  let (e2, _) ← e1.applyM (.add "p" "p" ["alice", "data1", "read"])
  pure { e2 with adapter := e2.adapter.map (fun a => { a with calls := 0, failAt := 2 }) }

def d40State : Enf := d40Start.getD (Enf.init Rbac.rbacModel)

theorem d40State_wf : d40State.rbacWF (.deleteUser "alice") = true := by decide

theorem d40State_listed : d40State.listed "g" "g" = [["alice", "admin"]] := by decide

theorem d40State_run :
    (d40State.applyRbac (.deleteUser "alice")).map (fun x => (x.2.isErr, x.1.listed "g" "g")) = some (true, []) := by
  decide

theorem d40_witness :
    ∃ (e e' : Enf) (b : Bool), e.rbacWF (.deleteUser "alice") = true ∧
      e.applyRbac (.deleteUser "alice") = some (e', .err b) ∧ e'.listed "g" "g" ≠ e.listed "g" "g" := by
  have h := d40State_run
  cases hr : d40State.applyRbac (.deleteUser "alice") with
  | none => rw [hr] at h; cases h
  | some x =>
    obtain ⟨e', r⟩ := x
    rw [hr] at h
    simp only [Option.map_some, Option.some.injEq, Prod.mk.injEq] at h
    cases r with
    | ok b => exact absurd h.1 (by simp [Enf.MRes.isErr])
    | err b =>
      refine ⟨d40State, e', b, d40State_wf, hr, ?_⟩
      rw [h.2, d40State_listed]
      simp

end Casbin
