import CasbinVerif.Spec.SyncExpected
/-
  Lemmas for Properties/C12.lean.
-/
namespace Casbin.C12
open Casbin.Sync

end Casbin.C12
