import CasbinVerif.Spec.SyncExpected
/-
  Lemmas for Properties/C12.lean.
-/
namespace Casbin.C12
open Casbin.Sync

/-! ### the discipline composes -/

theorem wellLockedFrom_append (h : Held) (a b : List Ev)
    (ha : wellLockedFrom h a = true) (hb : wellLocked b = true) :
    wellLockedFrom h (a ++ b) = true := by
  induction a generalizing h with
  | nil =>
      cases h <;> simp [wellLockedFrom] at ha
      simpa [wellLocked] using hb
  | cons e es ih =>
      cases h <;> cases e with
      | acq m => cases m <;> simp_all [wellLockedFrom]
      | rel => simp_all [wellLockedFrom]
      | acc b => cases b <;> simp_all [wellLockedFrom]

theorem wellLocked_flatten (bodies : List (List Ev)) (h : ∀ b ∈ bodies, wellLocked b = true) :
    wellLocked bodies.flatten = true := by
  induction bodies with
  | nil => rfl
  | cons b bs ih =>
      rw [List.flatten_cons]
      exact wellLockedFrom_append .none b _ (h b (by simp))
        (ih (fun b' hb' => h b' (by simp [hb'])))

/-- programs made of well-locked bodies are well-locked as a whole (`C12.Disciplined` unfolded) -/
theorem disciplined_wellLocked {progs : List (List Ev)}
    (h : ∀ p ∈ progs, ∃ bodies : List (List Ev), (∀ b ∈ bodies, wellLocked b = true) ∧ p = bodies.flatten) :
    ∀ p ∈ progs, wellLocked p = true := by
  intro p hp
  rcases h p hp with ⟨bodies, hb, rfl⟩
  exact wellLocked_flatten bodies hb

/-! ### what the head of a well-locked remainder can be -/

theorem wl_nil {h : Held} (hw : wellLockedFrom h [] = true) : h = .none := by
  cases h <;> simp [wellLockedFrom] at hw <;> rfl

theorem wl_acq {h : Held} {m : Mode} {es : List Ev} (hw : wellLockedFrom h (.acq m :: es) = true) :
    h = .none := by
  cases h <;> cases m <;> simp [wellLockedFrom] at hw <;> rfl

theorem wl_acqR {h : Held} {es : List Ev} (hw : wellLockedFrom h (.acq .R :: es) = true) :
    wellLockedFrom .r es = true := by
  cases h <;> simp [wellLockedFrom] at hw <;> exact hw

theorem wl_acqW {h : Held} {es : List Ev} (hw : wellLockedFrom h (.acq .W :: es) = true) :
    wellLockedFrom .w es = true := by
  cases h <;> simp [wellLockedFrom] at hw <;> exact hw

theorem wl_rel {h : Held} {es : List Ev} (hw : wellLockedFrom h (.rel :: es) = true) :
    h ≠ .none ∧ wellLockedFrom .none es = true := by
  cases h <;> simp [wellLockedFrom] at hw <;> simp [hw]

theorem wl_acc {h : Held} {b : Bool} {es : List Ev} (hw : wellLockedFrom h (.acc b :: es) = true) :
    h ≠ .none ∧ (b = true → h = .w) ∧ wellLockedFrom h es = true := by
  cases h <;> cases b <;> simp [wellLockedFrom] at hw <;> simp [hw]

/-! ### the invariant -/

/-- what thread `t` holds according to the lock -/
def heldOf (l : LockSt) (t : Nat) : Held :=
  if l.writer = some t then .w else if t ∈ l.readers then .r else .none

structure Inv (c : Config) : Prop where
  /-- every thread's remaining program is well-locked from what the lock says it holds
      (threads that do not exist hold nothing) -/
  wl : ∀ t, wellLockedFrom (heldOf c.lock t) (c.todo[t]?.getD []) = true
  excl : ∀ t, c.lock.writer = some t → c.lock.readers = []
  nodup : c.lock.readers.Nodup
  pend : ∀ t ∈ c.lock.pending, ∃ rest, c.todo[t]? = some (.acq .W :: rest)

theorem heldOf_none {l : LockSt} {t : Nat} (h : heldOf l t = .none) :
    l.writer ≠ some t ∧ t ∉ l.readers := by
  unfold heldOf at h
  split at h
  · cases h
  · split at h
    · cases h
    · exact ⟨by assumption, by assumption⟩

theorem heldOf_ne_none {l : LockSt} {t : Nat} (h : heldOf l t ≠ .none) :
    l.writer = some t ∨ t ∈ l.readers := by
  unfold heldOf at h
  split at h
  · left; assumption
  · split at h
    · right; assumption
    · exact absurd rfl h

theorem heldOf_w {l : LockSt} {t : Nat} (h : heldOf l t = .w) : l.writer = some t := by
  unfold heldOf at h
  split at h
  · assumption
  · split at h <;> cases h

theorem inv_initial (progs : List (List Ev)) (h : ∀ p ∈ progs, wellLocked p = true) :
    Inv (initial progs) := by
  refine ⟨?_, ?_, ?_, ?_⟩
  · intro t
    have : heldOf (initial progs).lock t = .none := by simp [heldOf, initial]
    rw [this]
    show wellLockedFrom .none (progs[t]?.getD []) = true
    cases ht : progs[t]? with
    | none => rfl
    | some p => exact h p (List.mem_of_getElem? ht)
  · intro t ht; simp [initial] at ht
  · simp [initial]
  · intro t ht; simp [initial] at ht

/-- the remaining program of another thread is not touched -/
theorem todo_set_ne (todo : List (List Ev)) (t u : Nat) (rest : List Ev) (hne : u ≠ t) :
    (todo.set t rest)[u]? = todo[u]? := by
  rw [List.getElem?_set_ne (Ne.symm hne)]

theorem todo_set_self (todo : List (List Ev)) (t : Nat) (e : Ev) (rest : List Ev)
    (ht : todo[t]? = some (e :: rest)) : (todo.set t rest)[t]? = some rest := by
  have hlt : t < todo.length := by
    rcases List.getElem?_eq_some_iff.mp ht with ⟨hlt, _⟩; exact hlt
  rw [List.getElem?_set_self hlt]

theorem inv_step {c c' : Config} {t : Nat} (hi : Inv c) (hs : step c t = some c') : Inv c' := by
  unfold step at hs
  split at hs
  next e rest ht =>
    split at hs
    next hen =>
      cases hs
      have hwt := hi.wl t
      rw [ht] at hwt
      simp only [Option.getD_some] at hwt
      have hself := todo_set_self c.todo t e rest ht
      -- a pending thread is about to `Lock()`, so a thread doing anything else is not pending
      have hpend_other : ∀ u ∈ c.lock.pending, u ≠ t →
          ∃ r, (c.todo.set t rest)[u]? = some (.acq .W :: r) := by
        intro u hu hne
        rw [todo_set_ne _ _ _ _ hne]; exact hi.pend u hu
      have hnotpend : e ≠ .acq .W → t ∉ c.lock.pending := by
        intro hne hmem
        rcases hi.pend t hmem with ⟨r, hr⟩
        rw [ht] at hr
        cases hr
        exact hne rfl
      cases e with
      | acq m =>
          have hnone := wl_acq hwt
          have ⟨hwr, hrd⟩ := heldOf_none hnone
          cases m with
          | R =>
              have hw' := wl_acqR hwt
              simp only [enabled, Bool.and_eq_true, Option.isNone_iff_eq_none] at hen
              refine ⟨?_, ?_, ?_, ?_⟩
              · intro u
                by_cases hut : u = t
                · subst hut
                  simp only [hself, Option.getD_some]
                  have : heldOf (applyLock c.lock u (.acq .R)) u = .r := by
                    simp [heldOf, applyLock, hen.1]
                  rw [this]; exact hw'
                · simp only [todo_set_ne _ _ _ _ hut]
                  have : heldOf (applyLock c.lock t (.acq .R)) u = heldOf c.lock u := by
                    simp [heldOf, applyLock, hut]
                  rw [this]; exact hi.wl u
              · intro u hu
                simp [applyLock, hen.1] at hu
              · simp only [applyLock, List.nodup_cons]
                exact ⟨hrd, hi.nodup⟩
              · intro u hu
                have hu' : u ∈ c.lock.pending := by simpa [applyLock] using hu
                have hne : u ≠ t := by
                  intro h; subst h; exact hnotpend (by simp) hu'
                exact hpend_other u hu' hne
          | W =>
              have hw' := wl_acqW hwt
              simp only [enabled, Bool.and_eq_true, Option.isNone_iff_eq_none,
                List.isEmpty_iff] at hen
              refine ⟨?_, ?_, ?_, ?_⟩
              · intro u
                by_cases hut : u = t
                · subst hut
                  simp only [hself, Option.getD_some]
                  have : heldOf (applyLock c.lock u (.acq .W)) u = .w := by
                    simp [heldOf, applyLock]
                  rw [this]; exact hw'
                · simp only [todo_set_ne _ _ _ _ hut]
                  have : heldOf (applyLock c.lock t (.acq .W)) u = heldOf c.lock u := by
                    have : t ≠ u := Ne.symm hut
                    simp [heldOf, applyLock, hen.1, hen.2, this]
                  rw [this]; exact hi.wl u
              · intro u _
                simp [applyLock, hen.2]
              · simpa [applyLock] using hi.nodup
              · intro u hu
                have hu' : u ∈ c.lock.pending ∧ u ≠ t := by
                  simpa [applyLock] using hu
                exact hpend_other u hu'.1 hu'.2
      | rel =>
          have ⟨hne, hw'⟩ := wl_rel hwt
          have htp : t ∉ c.lock.pending := hnotpend (by simp)
          by_cases hwr : c.lock.writer = some t
          · have hrd := hi.excl t hwr
            refine ⟨?_, ?_, ?_, ?_⟩
            · intro u
              by_cases hut : u = t
              · subst hut
                simp only [hself, Option.getD_some]
                have : heldOf (applyLock c.lock u .rel) u = .none := by
                  simp [heldOf, applyLock, hwr, hrd]
                rw [this]; exact hw'
              · simp only [todo_set_ne _ _ _ _ hut]
                have : heldOf (applyLock c.lock t .rel) u = heldOf c.lock u := by
                  have : t ≠ u := Ne.symm hut
                  simp [heldOf, applyLock, hwr, hrd, this]
                rw [this]; exact hi.wl u
            · intro u hu
              simp [applyLock, hwr] at hu
            · simpa [applyLock, hwr] using hi.nodup
            · intro u hu
              have hu' : u ∈ c.lock.pending := by simpa [applyLock, hwr] using hu
              have hne : u ≠ t := by
                intro h; subst h; exact htp hu'
              exact hpend_other u hu' hne
          · have hmem : t ∈ c.lock.readers := by
              rcases heldOf_ne_none hne with h | h
              · exact absurd h hwr
              · exact h
            refine ⟨?_, ?_, ?_, ?_⟩
            · intro u
              by_cases hut : u = t
              · subst hut
                simp only [hself, Option.getD_some]
                have : heldOf (applyLock c.lock u .rel) u = .none := by
                  have : u ∉ c.lock.readers.erase u := fun h => (List.Nodup.mem_erase_iff hi.nodup).mp h |>.1 rfl
                  simp [heldOf, applyLock, hwr, this]
                rw [this]; exact hw'
              · simp only [todo_set_ne _ _ _ _ hut]
                have : heldOf (applyLock c.lock t .rel) u = heldOf c.lock u := by
                  simp [heldOf, applyLock, hwr, List.mem_erase_of_ne hut]
                rw [this]; exact hi.wl u
            · intro u hu
              have hu' : c.lock.writer = some u := by simpa [applyLock, hwr] using hu
              have := hi.excl u hu'
              simp [applyLock, hwr, this]
            · have := hi.nodup.erase t
              simpa [applyLock, hwr] using this
            · intro u hu
              have hu' : u ∈ c.lock.pending := by simpa [applyLock, hwr] using hu
              have hne : u ≠ t := by
                intro h; subst h; exact htp hu'
              exact hpend_other u hu' hne
      | acc b =>
          have ⟨_, _, hw'⟩ := wl_acc hwt
          have htp : t ∉ c.lock.pending := hnotpend (by simp)
          refine ⟨?_, ?_, ?_, ?_⟩
          · intro u
            by_cases hut : u = t
            · subst hut
              simp only [hself, Option.getD_some]
              exact hw'
            · simp only [todo_set_ne _ _ _ _ hut]
              exact hi.wl u
          · exact hi.excl
          · exact hi.nodup
          · intro u hu
            have hu' : u ∈ c.lock.pending := hu
            have hne : u ≠ t := by
              intro h; subst h; exact htp hu'
            exact hpend_other u hu' hne
    next => cases hs
  next => cases hs

theorem inv_act {c c' : Config} {a : Act} (hi : Inv c) (hs : act c a = some c') : Inv c' := by
  cases a with
  | go t => exact inv_step hi hs
  | announce t =>
      simp only [act] at hs
      split at hs
      next rest ht =>
        split at hs
        · cases hs
        · cases hs
          refine ⟨hi.wl, hi.excl, hi.nodup, ?_⟩
          intro u hu
          have hu' : u = t ∨ u ∈ c.lock.pending := by simpa using hu
          rcases hu' with h | h
          · subst h; exact ⟨rest, ht⟩
          · exact hi.pend u h
      next => cases hs

theorem inv_run {c c' : Config} {sched : List Act} (hi : Inv c) (hr : run c sched = some c') :
    Inv c' := by
  induction sched generalizing c with
  | nil => simp only [run] at hr; cases hr; exact hi
  | cons a as ih =>
      simp only [run] at hr
      split at hr
      next c₁ h₁ => exact ih (inv_act hi h₁) hr
      next => cases hr

/-! ### what the invariant buys -/

theorem inv_not_racy {c : Config} (hi : Inv c) : ¬ racy c := by
  -- the asymmetric core: a writing access excludes any other access
  have core : ∀ (t₁ t₂ : Nat) (w₂ : Bool) (r₁ r₂ : List Ev), t₁ ≠ t₂ →
      c.todo[t₁]? = some (Ev.acc true :: r₁) → c.todo[t₂]? = some (Ev.acc w₂ :: r₂) → False := by
    intro t₁ t₂ w₂ r₁ r₂ hne h₁ h₂
    have hw₁ := hi.wl t₁
    have hw₂ := hi.wl t₂
    rw [h₁] at hw₁; rw [h₂] at hw₂
    simp only [Option.getD_some] at hw₁ hw₂
    have ⟨_, hW, _⟩ := wl_acc hw₁
    have ⟨hN, _, _⟩ := wl_acc hw₂
    have hwr := heldOf_w (hW rfl)
    rcases heldOf_ne_none hN with h | h
    · rw [hwr] at h; cases h; exact hne rfl
    · rw [hi.excl t₁ hwr] at h; cases h
  rintro ⟨t₁, t₂, w₁, w₂, r₁, r₂, hne, h₁, h₂, hw⟩
  rcases hw with hw | hw
  · subst hw; exact core t₁ t₂ w₂ r₁ r₂ hne h₁ h₂
  · subst hw; exact core t₂ t₁ w₁ r₂ r₁ (Ne.symm hne) h₂ h₁

theorem step_isSome_of_enabled {c : Config} {t : Nat} {e : Ev} {rest : List Ev}
    (ht : c.todo[t]? = some (e :: rest)) (hen : enabled c.lock t e = true) :
    step c t ≠ none := by
  simp [step, ht, hen]

theorem inv_not_deadlocked {c : Config} (hi : Inv c) : ¬ deadlocked c := by
  rintro ⟨hnf, hstuck⟩
  -- a thread that holds the lock can always move
  have hfree : ∀ u, heldOf c.lock u = .none := by
    intro u
    refine Classical.byContradiction fun hne => ?_
    have hw := hi.wl u
    cases hu : c.todo[u]? with
    | none =>
        rw [hu] at hw
        exact hne (wl_nil hw)
    | some p =>
        rw [hu] at hw
        simp only [Option.getD_some] at hw
        cases p with
        | nil => exact hne (wl_nil hw)
        | cons e rest =>
            cases e with
            | acq m => exact hne (wl_acq hw)
            | rel => exact step_isSome_of_enabled hu rfl (hstuck u)
            | acc b => exact step_isSome_of_enabled hu rfl (hstuck u)
  have hwn : c.lock.writer = none := by
    cases hw : c.lock.writer with
    | none => rfl
    | some u => exact absurd hw (heldOf_none (hfree u)).1
  have hrn : c.lock.readers = [] := by
    cases hr : c.lock.readers with
    | nil => rfl
    | cons u us =>
        have := (heldOf_none (hfree u)).2
        rw [hr] at this
        exact absurd (List.mem_cons_self) this
  -- a `Lock()` is enabled for everybody
  have henW : ∀ u, enabled c.lock u (.acq .W) = true := by
    intro u; simp [enabled, hwn, hrn]
  -- some thread has work left
  have : ∃ (t : Nat) (e : Ev) (rest : List Ev), c.todo[t]? = some (e :: rest) := by
    refine Classical.byContradiction fun hno => hnf ?_
    intro p hp
    rcases List.getElem?_of_mem hp with ⟨t, ht⟩
    cases p with
    | nil => rfl
    | cons e rest => exact absurd ⟨t, e, rest, ht⟩ hno
  rcases this with ⟨t, e, rest, ht⟩
  have hw := hi.wl t
  rw [ht, hfree t] at hw
  simp only [Option.getD_some] at hw
  cases e with
  | acq m =>
      cases m with
      | W => exact step_isSome_of_enabled ht (henW t) (hstuck t)
      | R =>
          cases hp : c.lock.pending.filter (· != t) with
          | nil =>
              have : enabled c.lock t (.acq .R) = true := by simp [enabled, hwn, hp]
              exact step_isSome_of_enabled ht this (hstuck t)
          | cons u us =>
              have hu : u ∈ c.lock.pending.filter (· != t) := by rw [hp]; exact List.mem_cons_self
              have hu' := (List.mem_filter.mp hu).1
              rcases hi.pend u hu' with ⟨r, hr⟩
              exact step_isSome_of_enabled hr (henW u) (hstuck u)
  | rel => exact step_isSome_of_enabled ht rfl (hstuck t)
  | acc b => exact step_isSome_of_enabled ht rfl (hstuck t)

/-! ### from the per-wrapper check to the discipline -/

theorem ok_wellLocked {table : List Wrapper} {w : Wrapper} (h : w.ok table = true) :
    wellLocked w.prog = true := by
  unfold Wrapper.ok at h
  exact (Bool.and_eq_true _ _ ▸ h : _ ∧ _).2

end Casbin.C12
