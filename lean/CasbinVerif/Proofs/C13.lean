import CasbinVerif.Model.Lin
import CasbinVerif.Model.LinTrace
import CasbinVerif.Spec.LinKV
/-
  Lemmas for Properties/C13.lean.
-/
namespace Casbin.C13
open Casbin.Lin

variable {σ Op : Type}

theorem perm_removeAt : ∀ (l : List (Call Op)) (i : Nat) (c : Call Op),
    l[i]? = some c → l.Perm (c :: removeAt l i)
  | [], i, c, h => by simp at h
  | a :: l, 0, c, h => by
      simp at h; subst h; simp [removeAt]
  | a :: l, i + 1, c, h => by
      simp at h
      have ih := perm_removeAt l i c h
      have : removeAt (a :: l) (i + 1) = a :: removeAt l i := by simp [removeAt]
      rw [this]
      exact (List.Perm.cons a ih).trans (List.Perm.swap c a _)

theorem all_perm {l₁ l₂ : List (Call Op)} (p : Call Op → Bool) (h : l₁.Perm l₂) :
    l₁.all p = l₂.all p := by
  rw [Bool.eq_iff_iff]
  simp only [List.all_eq_true]
  constructor
  · intro H x hx; exact H x (h.mem_iff.mpr hx)
  · intro H x hx; exact H x (h.mem_iff.mp hx)

theorem search_step (step : σ → Op → σ × String) (n : Nat) (s : σ) (p : Call Op) (ps : List (Call Op)) :
    search step (n + 1) s (p :: ps) =
      (List.range (p :: ps).length).any (fun i =>
        match (p :: ps)[i]? with
        | none => false
        | some c =>
            let rest := removeAt (p :: ps) i
            rest.all (fun d => !before d c) &&
            (let (s', o) := step s c.op
             o == c.obs && search step n s' rest)) := by
  rw [search]
  · rfl
  · intro h; cases h

theorem search_sound (step : σ → Op → σ × String) : ∀ (n : Nat) (s : σ) (pending : List (Call Op)),
    search step n s pending = true →
    ∃ order : List (Call Op), order.Perm pending ∧ respects order = true ∧ replay step s order = true
  | _, _, [], _ => ⟨[], List.Perm.refl _, rfl, rfl⟩
  | 0, _, _ :: _, h => by simp [search] at h
  | n + 1, s, p :: ps, h => by
      rw [search_step, List.any_eq_true] at h
      obtain ⟨i, _, hi⟩ := h
      cases hc : (p :: ps)[i]? with
      | none => rw [hc] at hi; simp at hi
      | some c =>
        rw [hc] at hi
        simp only [Bool.and_eq_true] at hi
        obtain ⟨hall, hobs, hrest⟩ := hi
        obtain ⟨order', hperm, hresp, hrep⟩ := search_sound step n _ _ hrest
        refine ⟨c :: order', ?_, ?_, ?_⟩
        · exact (List.Perm.cons c hperm).trans (perm_removeAt _ _ _ hc).symm
        · simp only [respects, Bool.and_eq_true]
          exact ⟨(all_perm _ hperm).trans hall, hresp⟩
        · simp only [replay, Bool.and_eq_true]
          exact ⟨hobs, hrep⟩

theorem search_complete (step : σ → Op → σ × String) : ∀ (n : Nat) (s : σ) (pending order : List (Call Op)),
    pending.length ≤ n → order.Perm pending → respects order = true → replay step s order = true →
    search step n s pending = true
  | _, _, [], _, _, _, _, _ => by simp [search]
  | 0, _, _ :: _, _, hl, _, _, _ => by simp at hl
  | n + 1, s, p :: ps, [], _, hp, _, _ => by
      have := hp.length_eq; simp at this
  | n + 1, s, p :: ps, c :: order', hl, hp, hresp, hrep => by
      rw [search_step, List.any_eq_true]
      have hmem : c ∈ p :: ps := hp.mem_iff.mp (List.mem_cons_self)
      obtain ⟨i, hi, hget⟩ := List.getElem_of_mem hmem
      have hc : (p :: ps)[i]? = some c := by rw [List.getElem?_eq_getElem hi, hget]
      refine ⟨i, List.mem_range.mpr hi, ?_⟩
      rw [hc]
      have hperm' : order'.Perm (removeAt (p :: ps) i) :=
        List.Perm.cons_inv (hp.trans (perm_removeAt _ _ _ hc))
      simp only [respects, Bool.and_eq_true] at hresp
      simp only [replay, Bool.and_eq_true] at hrep
      simp only [Bool.and_eq_true]
      refine ⟨(all_perm _ hperm').symm.trans hresp.1, hrep.1, ?_⟩
      apply search_complete step n _ _ order' _ hperm' hresp.2 hrep.2
      have := hperm'.length_eq
      have h2 := hp.length_eq
      simp at h2 hl
      omega

theorem check_iff (step : σ → Op → σ × String) (init : σ) (h : List (Call Op)) :
    check step init h = true ↔ Linearizable step init h := by
  constructor
  · intro hc; exact search_sound step _ _ _ hc
  · rintro ⟨order, hp, hr, hrep⟩
    exact search_complete step _ _ _ order (Nat.le_refl _) hp hr hrep

end Casbin.C13
