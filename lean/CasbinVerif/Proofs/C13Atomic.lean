import CasbinVerif.Model.Lin
import CasbinVerif.Model.LinTrace
/-
  Executions with atomic points are linearizable: the invariant of `exec` and its preservation
  by every kind of event.
-/
namespace Casbin.C13
open Casbin.Lin

variable {σ Op : Type}

/-- the ghost linearization entry of an open call that has passed its atomic point -/
def pend (q : Open Op) : Option (Call Op) :=
  q.out.map (fun o => { id := q.id, inv := q.inv, res := 0, op := q.op, obs := o })

/-- record the response time of call `id` -/
def stamp (id pos : Nat) (c : Call Op) : Call Op := if c.id == id then { c with res := pos } else c

/-- what `exec` does to the open calls at an atomic point -/
def mark (id : Nat) (o : String) (q : Open Op) : Open Op :=
  if q.id == id then { q with out := some o } else q

theorem exec_nil_nil (step : σ → Op → σ × String) (pos : Nat) (s : σ) (done : List (Call Op)) :
    exec step pos s [] done [] = some done := by
  rw [exec]

theorem exec_cons_nil (step : σ → Op → σ × String) (pos : Nat) (s : σ) (q : Open Op) (opn : List (Open Op))
    (done : List (Call Op)) : exec step pos s (q :: opn) done [] = none := by
  rw [exec]

theorem exec_inv (step : σ → Op → σ × String) (pos : Nat) (s : σ) (opn : List (Open Op))
    (done : List (Call Op)) (id : Nat) (op : Op) (tr : List (TEv Op)) :
    exec step pos s opn done (.inv id op :: tr) =
      if opn.any (·.id == id) || done.any (·.id == id) then none
      else exec step (pos + 1) s (opn ++ [{ id := id, inv := pos, op := op }]) done tr := by
  rw [exec]

theorem exec_atom (step : σ → Op → σ × String) (pos : Nat) (s : σ) (opn : List (Open Op))
    (done : List (Call Op)) (id : Nat) (tr : List (TEv Op)) :
    exec step pos s opn done (.atom id :: tr) =
      match opn.find? (·.id == id) with
      | some p =>
          if p.out.isSome then none
          else exec step (pos + 1) (step s p.op).1 (opn.map (mark id (step s p.op).2)) done tr
      | none => none := by
  rw [exec]; rfl

theorem exec_res (step : σ → Op → σ × String) (pos : Nat) (s : σ) (opn : List (Open Op))
    (done : List (Call Op)) (id : Nat) (obs : String) (tr : List (TEv Op)) :
    exec step pos s opn done (.res id obs :: tr) =
      match opn.find? (·.id == id) with
      | some p =>
          if p.out == some obs then
            exec step (pos + 1) s (opn.filter (·.id != id))
              (done ++ [{ id := id, inv := p.inv, res := pos, op := p.op, obs := obs }]) tr
          else none
      | none => none := by
  rw [exec]; rfl

/-! ### small facts about `mark`, `stamp`, `pend` -/

@[simp] theorem mark_id (id : Nat) (o : String) (q : Open Op) : (mark id o q).id = q.id := by
  unfold mark; split <;> rfl

@[simp] theorem mark_inv (id : Nat) (o : String) (q : Open Op) : (mark id o q).inv = q.inv := by
  unfold mark; split <;> rfl

@[simp] theorem stamp_id (id pos : Nat) (c : Call Op) : (stamp id pos c).id = c.id := by
  unfold stamp; split <;> rfl

@[simp] theorem stamp_inv (id pos : Nat) (c : Call Op) : (stamp id pos c).inv = c.inv := by
  unfold stamp; split <;> rfl

@[simp] theorem stamp_op (id pos : Nat) (c : Call Op) : (stamp id pos c).op = c.op := by
  unfold stamp; split <;> rfl

@[simp] theorem stamp_obs (id pos : Nat) (c : Call Op) : (stamp id pos c).obs = c.obs := by
  unfold stamp; split <;> rfl

@[simp] theorem stamp_after (id pos : Nat) (c : Call Op) : (stamp id pos c).after = c.after := by
  unfold stamp; split <;> rfl

theorem stamp_of_ne {id pos : Nat} {c : Call Op} (h : c.id ≠ id) : stamp id pos c = c := by
  unfold stamp; rw [if_neg]; simpa using h

theorem mark_of_ne {id : Nat} {o : String} {q : Open Op} (h : q.id ≠ id) : mark id o q = q := by
  unfold mark; rw [if_neg]; simpa using h

theorem pend_id {q : Open Op} {c : Call Op} (h : pend q = some c) : c.id = q.id := by
  unfold pend at h
  cases ho : q.out with
  | none => rw [ho] at h; simp at h
  | some o => rw [ho] at h; simp at h; subst h; rfl

theorem map_mark_of_not {id : Nat} {o : String} : ∀ {l : List (Open Op)}, (∀ r ∈ l, r.id ≠ id) →
    l.map (mark id o) = l
  | [], _ => rfl
  | r :: l, h => by
      rw [List.map_cons, mark_of_ne (h r List.mem_cons_self),
        map_mark_of_not (fun x hx => h x (List.mem_cons_of_mem _ hx))]

theorem filter_of_not {id : Nat} : ∀ {l : List (Open Op)}, (∀ r ∈ l, r.id ≠ id) →
    l.filter (·.id != id) = l
  | [], _ => rfl
  | r :: l, h => by
      have h1 : (r.id != id) = true := by simpa using h r List.mem_cons_self
      rw [List.filter_cons, if_pos h1, filter_of_not (fun x hx => h x (List.mem_cons_of_mem _ hx))]

theorem map_stamp_of_not {id pos : Nat} : ∀ {l : List (Call Op)}, (∀ d ∈ l, d.id ≠ id) →
    l.map (stamp id pos) = l
  | [], _ => rfl
  | d :: l, h => by
      rw [List.map_cons, stamp_of_ne (h d List.mem_cons_self),
        map_stamp_of_not (fun x hx => h x (List.mem_cons_of_mem _ hx))]

theorem map_stamp_pend_of_not {id pos : Nat} {l : List (Open Op)} (h : ∀ r ∈ l, r.id ≠ id) :
    (l.filterMap pend).map (stamp id pos) = l.filterMap pend := by
  apply map_stamp_of_not
  intro d hd
  rw [List.mem_filterMap] at hd
  obtain ⟨r, hr, hp⟩ := hd
  rw [pend_id hp]; exact h r hr

/-- at an atomic point exactly one ghost entry appears -/
theorem pend_mark_perm {id : Nat} {o : String} {p : Open Op} : ∀ {opn : List (Open Op)},
    opn.Pairwise (fun a b => a.id ≠ b.id) → opn.find? (·.id == id) = some p → p.out = none →
    ((opn.map (mark id o)).filterMap pend).Perm
      ({ id := p.id, inv := p.inv, res := 0, op := p.op, obs := o } :: opn.filterMap pend)
  | [], _, hf, _ => by simp at hf
  | q :: rest, hu, hf, hout => by
      rw [List.pairwise_cons] at hu
      rw [List.find?_cons] at hf
      cases hq : (q.id == id) with
      | true =>
        rw [hq] at hf
        simp only [Option.some.injEq] at hf
        subst hf
        have hqid : q.id = id := by simpa using hq
        have hrest : ∀ r ∈ rest, r.id ≠ id := fun r hr => by
          have := hu.1 r hr; rw [hqid] at this; exact fun e => this e.symm
        rw [List.map_cons, map_mark_of_not hrest, List.filterMap_cons, List.filterMap_cons]
        have h1 : pend (mark id o q) = some { id := q.id, inv := q.inv, res := 0, op := q.op, obs := o } := by
          unfold mark; rw [if_pos hq]; rfl
        have h2 : pend q = none := by unfold pend; rw [hout]; rfl
        rw [h1, h2]
      | false =>
        rw [hq] at hf
        have ih := pend_mark_perm (o := o) hu.2 hf hout
        have hne : q.id ≠ id := by simpa using hq
        rw [List.map_cons, mark_of_ne hne, List.filterMap_cons, List.filterMap_cons]
        cases hpq : pend q with
        | none => exact ih
        | some c => exact (List.Perm.cons c ih).trans (List.Perm.swap _ _ _)

/-- at a response the ghost entry of the call becomes its completed call -/
theorem pend_stamp_perm {id pos : Nat} {obs : String} {p : Open Op} : ∀ {opn : List (Open Op)},
    opn.Pairwise (fun a b => a.id ≠ b.id) → opn.find? (·.id == id) = some p → p.out = some obs →
    ((opn.filterMap pend).map (stamp id pos)).Perm
      ({ id := id, inv := p.inv, res := pos, op := p.op, obs := obs } ::
        (opn.filter (·.id != id)).filterMap pend)
  | [], _, hf, _ => by simp at hf
  | q :: rest, hu, hf, hout => by
      rw [List.pairwise_cons] at hu
      rw [List.find?_cons] at hf
      cases hq : (q.id == id) with
      | true =>
        rw [hq] at hf
        simp only [Option.some.injEq] at hf
        subst hf
        have hqid : q.id = id := by simpa using hq
        have hrest : ∀ r ∈ rest, r.id ≠ id := fun r hr => by
          have := hu.1 r hr; rw [hqid] at this; exact fun e => this e.symm
        have hnq : (q.id != id) = false := by simp [hqid]
        rw [List.filter_cons, hnq, filter_of_not hrest, List.filterMap_cons]
        have h2 : pend q = some { id := q.id, inv := q.inv, res := 0, op := q.op, obs := obs } := by
          unfold pend; rw [hout]; rfl
        rw [h2, List.map_cons, map_stamp_pend_of_not hrest]
        have h3 : stamp id pos ({ id := q.id, inv := q.inv, res := 0, op := q.op, obs := obs } : Call Op) =
            { id := id, inv := q.inv, res := pos, op := q.op, obs := obs } := by
          unfold stamp; rw [if_pos hq]; subst hqid; rfl
        rw [h3]
        simp
      | false =>
        rw [hq] at hf
        have ih := pend_stamp_perm (pos := pos) hu.2 hf hout
        have hne : q.id ≠ id := by simpa using hq
        have hnq : (q.id != id) = true := by simpa using hne
        rw [List.filter_cons, if_pos hnq, List.filterMap_cons, List.filterMap_cons]
        cases hpq : pend q with
        | none => exact ih
        | some c =>
          have hc : c.id ≠ id := by rw [pend_id hpq]; exact hne
          rw [List.map_cons, stamp_of_ne hc]
          exact (List.Perm.cons c ih).trans (List.Perm.swap _ _ _)

/-- `replay` only looks at the operations and the reports -/
theorem replay_congr (step : σ → Op → σ × String) : ∀ (s : σ) (l l' : List (Call Op)),
    l.map (fun c => (c.op, c.obs)) = l'.map (fun c => (c.op, c.obs)) →
    replay step s l = replay step s l'
  | _, [], [], _ => rfl
  | _, [], _ :: _, h => by simp at h
  | _, _ :: _, [], h => by simp at h
  | s, c :: l, c' :: l', h => by
      simp only [List.map_cons, List.cons.injEq, Prod.mk.injEq] at h
      obtain ⟨⟨h1, h2⟩, h3⟩ := h
      simp only [replay]
      rw [h1, h2, replay_congr step _ l l' h3]

theorem respects_of_pairwise : ∀ (l : List (Call Op)),
    l.Pairwise (fun c d => c.inv < d.res) → (∀ c ∈ l, c.after = none) → respects l = true
  | [], _, _ => rfl
  | c :: l, hp, ha => by
      rw [List.pairwise_cons] at hp
      simp only [respects, Bool.and_eq_true, List.all_eq_true]
      refine ⟨?_, respects_of_pairwise l hp.2 (fun x hx => ha x (List.mem_cons_of_mem _ hx))⟩
      intro d hd
      have h1 := hp.1 d hd
      have h2 := ha c List.mem_cons_self
      simp [before, h2]
      omega

/-! ### the invariant of `exec` -/

/-- `L` is the linearization so far: the calls whose atomic point has been passed, in the order
    of their atomic points (calls still open carry the placeholder `res := 0`) -/
structure Inv (step : σ → Op → σ × String) (init : σ) (pos : Nat) (s : σ) (opn : List (Open Op))
    (done L : List (Call Op)) : Prop where
  run : ∀ cs, replay step init (L ++ cs) = replay step s cs
  perm : L.Perm (done ++ opn.filterMap pend)
  uniq : opn.Pairwise (fun a b => a.id ≠ b.id)
  sep : ∀ q ∈ opn, ∀ d ∈ done, d.id ≠ q.id
  ord : L.Pairwise (fun c d => c.inv < d.res ∨ ∃ q ∈ opn, q.id = d.id)
  oinv : ∀ q ∈ opn, q.inv < pos
  linv : ∀ c ∈ L, c.inv < pos
  aft : ∀ c ∈ L, c.after = none

theorem Inv.init (step : σ → Op → σ × String) (init : σ) : Inv step init 0 init [] [] [] where
  run := fun _ => rfl
  perm := List.Perm.refl _
  uniq := List.Pairwise.nil
  sep := fun _ h => by cases h
  ord := List.Pairwise.nil
  oinv := fun _ h => by cases h
  linv := fun _ h => by cases h
  aft := fun _ h => by cases h

theorem Inv.inv_step {step : σ → Op → σ × String} {init : σ} {pos : Nat} {s : σ} {opn : List (Open Op)}
    {done L : List (Call Op)} (I : Inv step init pos s opn done L) (id : Nat) (op : Op)
    (hfresh : (opn.any (·.id == id) || done.any (·.id == id)) = false) :
    Inv step init (pos + 1) s (opn ++ [{ id := id, inv := pos, op := op }]) done L := by
  rw [Bool.or_eq_false_iff] at hfresh
  have hf1 : ∀ q ∈ opn, q.id ≠ id := by
    intro q hq e
    have : opn.any (·.id == id) = true := List.any_eq_true.mpr ⟨q, hq, by simpa using e⟩
    rw [hfresh.1] at this; cases this
  have hf2 : ∀ d ∈ done, d.id ≠ id := by
    intro d hd e
    have : done.any (·.id == id) = true := List.any_eq_true.mpr ⟨d, hd, by simpa using e⟩
    rw [hfresh.2] at this; cases this
  refine ⟨I.run, ?_, ?_, ?_, ?_, ?_, ?_, I.aft⟩
  · rw [List.filterMap_append]
    have : List.filterMap pend [({ id := id, inv := pos, op := op } : Open Op)] = [] := rfl
    rw [this, List.append_nil]; exact I.perm
  · rw [List.pairwise_append]
    refine ⟨I.uniq, List.pairwise_singleton _ _, ?_⟩
    intro a ha b hb
    rw [List.mem_singleton] at hb; subst hb
    exact hf1 a ha
  · intro q hq d hd
    rw [List.mem_append, List.mem_singleton] at hq
    cases hq with
    | inl h => exact I.sep q h d hd
    | inr h => subst h; exact hf2 d hd
  · refine I.ord.imp ?_
    intro c d h
    cases h with
    | inl h => exact Or.inl h
    | inr h =>
      obtain ⟨q, hq, e⟩ := h
      exact Or.inr ⟨q, List.mem_append_left _ hq, e⟩
  · intro q hq
    rw [List.mem_append, List.mem_singleton] at hq
    cases hq with
    | inl h => exact Nat.lt_succ_of_lt (I.oinv q h)
    | inr h => subst h; exact Nat.lt_succ_self _
  · intro c hc; exact Nat.lt_succ_of_lt (I.linv c hc)

theorem Inv.atom_step {step : σ → Op → σ × String} {init : σ} {pos : Nat} {s : σ} {opn : List (Open Op)}
    {done L : List (Call Op)} (I : Inv step init pos s opn done L) (id : Nat) (p : Open Op)
    (hfind : opn.find? (·.id == id) = some p) (hout : p.out = none) :
    Inv step init (pos + 1) (step s p.op).1 (opn.map (mark id (step s p.op).2)) done
      (L ++ [{ id := p.id, inv := p.inv, res := 0, op := p.op, obs := (step s p.op).2 }]) := by
  have hpmem : p ∈ opn := List.mem_of_find?_eq_some hfind
  refine ⟨?_, ?_, ?_, ?_, ?_, ?_, ?_, ?_⟩
  · intro cs
    rw [List.append_assoc, I.run]
    simp [replay]
  · have h1 := pend_mark_perm (o := (step s p.op).2) I.uniq hfind hout
    refine List.perm_append_comm.trans ?_
    refine (List.Perm.cons _ I.perm).trans ?_
    refine List.perm_middle.symm.trans ?_
    exact List.Perm.append_left _ h1.symm
  · rw [List.pairwise_map]
    exact I.uniq.imp (fun h => by simpa using h)
  · intro q hq d hd
    rw [List.mem_map] at hq
    obtain ⟨q', hq', e⟩ := hq
    subst e
    rw [mark_id]; exact I.sep q' hq' d hd
  · rw [List.pairwise_append]
    refine ⟨?_, List.pairwise_singleton _ _, ?_⟩
    · refine I.ord.imp ?_
      intro c d h
      cases h with
      | inl h => exact Or.inl h
      | inr h =>
        obtain ⟨q, hq, e⟩ := h
        exact Or.inr ⟨mark id _ q, List.mem_map_of_mem hq, by rw [mark_id]; exact e⟩
    · intro a _ b hb
      rw [List.mem_singleton] at hb; subst hb
      exact Or.inr ⟨mark id _ p, List.mem_map_of_mem hpmem, by rw [mark_id]⟩
  · intro q hq
    rw [List.mem_map] at hq
    obtain ⟨q', hq', e⟩ := hq
    subst e
    rw [mark_inv]; exact Nat.lt_succ_of_lt (I.oinv q' hq')
  · intro c hc
    rw [List.mem_append, List.mem_singleton] at hc
    cases hc with
    | inl h => exact Nat.lt_succ_of_lt (I.linv c h)
    | inr h => subst h; exact Nat.lt_succ_of_lt (I.oinv p hpmem)
  · intro c hc
    rw [List.mem_append, List.mem_singleton] at hc
    cases hc with
    | inl h => exact I.aft c h
    | inr h => subst h; rfl

theorem Inv.res_step {step : σ → Op → σ × String} {init : σ} {pos : Nat} {s : σ} {opn : List (Open Op)}
    {done L : List (Call Op)} (I : Inv step init pos s opn done L) (id : Nat) (obs : String) (p : Open Op)
    (hfind : opn.find? (·.id == id) = some p) (hout : p.out = some obs) :
    Inv step init (pos + 1) s (opn.filter (·.id != id))
      (done ++ [{ id := id, inv := p.inv, res := pos, op := p.op, obs := obs }])
      (L.map (stamp id pos)) := by
  have hpmem : p ∈ opn := List.mem_of_find?_eq_some hfind
  have hpid : p.id = id := by simpa using List.find?_some hfind
  have hdone : ∀ d ∈ done, d.id ≠ id := fun d hd => by rw [← hpid]; exact I.sep p hpmem d hd
  refine ⟨?_, ?_, ?_, ?_, ?_, ?_, ?_, ?_⟩
  · intro cs
    rw [← I.run cs]
    apply replay_congr
    simp [List.map_append, List.map_map, Function.comp_def]
  · have h1 := pend_stamp_perm (pos := pos) I.uniq hfind hout
    have h2 := I.perm.map (stamp id pos)
    rw [List.map_append, map_stamp_of_not hdone] at h2
    refine h2.trans ?_
    rw [List.append_assoc]
    exact List.Perm.append_left _ h1
  · exact I.uniq.filter _
  · intro q hq d hd
    rw [List.mem_filter] at hq
    rw [List.mem_append, List.mem_singleton] at hd
    cases hd with
    | inl h => exact I.sep q hq.1 d h
    | inr h =>
      subst h
      have : q.id ≠ id := by simpa using hq.2
      exact fun e => this e.symm
  · rw [List.pairwise_map]
    refine I.ord.imp_of_mem ?_
    intro c d hc _ h
    rw [stamp_inv]
    by_cases hd : d.id = id
    · left
      have : stamp id pos d = { d with res := pos } := by
        unfold stamp; rw [if_pos]; simpa using hd
      rw [this]; exact I.linv c hc
    · rw [stamp_of_ne hd]
      cases h with
      | inl h => exact Or.inl h
      | inr h =>
        obtain ⟨q, hq, e⟩ := h
        refine Or.inr ⟨q, ?_, e⟩
        rw [List.mem_filter]
        refine ⟨hq, ?_⟩
        rw [← e] at hd
        simpa using hd
  · intro q hq
    rw [List.mem_filter] at hq
    exact Nat.lt_succ_of_lt (I.oinv q hq.1)
  · intro c hc
    rw [List.mem_map] at hc
    obtain ⟨c', hc', e⟩ := hc
    subst e
    rw [stamp_inv]; exact Nat.lt_succ_of_lt (I.linv c' hc')
  · intro c hc
    rw [List.mem_map] at hc
    obtain ⟨c', hc', e⟩ := hc
    subst e
    rw [stamp_after]; exact I.aft c' hc'

/-- when every call has returned the linearization so far is a linearization of the history -/
theorem Inv.final {step : σ → Op → σ × String} {init : σ} {pos : Nat} {s : σ}
    {done L : List (Call Op)} (I : Inv step init pos s [] done L) :
    Linearizable step init done := by
  refine ⟨L, ?_, ?_, ?_⟩
  · simpa using I.perm
  · apply respects_of_pairwise _ _ I.aft
    refine I.ord.imp ?_
    intro c d h
    cases h with
    | inl h => exact h
    | inr h => obtain ⟨q, hq, _⟩ := h; cases hq
  · have := I.run []
    rw [List.append_nil] at this
    rw [this]; rfl

theorem exec_linearizable (step : σ → Op → σ × String) (init : σ) (h : List (Call Op)) :
    ∀ (tr : List (TEv Op)) (pos : Nat) (s : σ) (opn : List (Open Op)) (done L : List (Call Op)),
    Inv step init pos s opn done L → exec step pos s opn done tr = some h →
    Linearizable step init h
  | [], pos, s, [], done, L, I, hex => by
      rw [exec_nil_nil] at hex
      cases hex
      exact I.final
  | [], pos, s, q :: opn, done, L, I, hex => by
      rw [exec_cons_nil] at hex; cases hex
  | .inv id op :: tr, pos, s, opn, done, L, I, hex => by
      rw [exec_inv] at hex
      cases hfresh : (opn.any (·.id == id) || done.any (·.id == id)) with
      | true => rw [hfresh] at hex; simp at hex
      | false =>
        rw [hfresh] at hex
        simp only [Bool.false_eq_true, if_false] at hex
        exact exec_linearizable step init h tr _ _ _ _ _ (I.inv_step id op hfresh) hex
  | .atom id :: tr, pos, s, opn, done, L, I, hex => by
      rw [exec_atom] at hex
      cases hfind : opn.find? (·.id == id) with
      | none => rw [hfind] at hex; cases hex
      | some p =>
        rw [hfind] at hex
        dsimp only at hex
        cases hout : p.out with
        | some o => rw [hout] at hex; simp at hex
        | none =>
          rw [hout] at hex
          simp only [Option.isSome_none, Bool.false_eq_true, if_false] at hex
          exact exec_linearizable step init h tr _ _ _ _ _ (I.atom_step id p hfind hout) hex
  | .res id obs :: tr, pos, s, opn, done, L, I, hex => by
      rw [exec_res] at hex
      cases hfind : opn.find? (·.id == id) with
      | none => rw [hfind] at hex; cases hex
      | some p =>
        rw [hfind] at hex
        by_cases hout : p.out = some obs
        · have hb : (p.out == some obs) = true := by simpa using hout
          simp only [hb, if_true] at hex
          exact exec_linearizable step init h tr _ _ _ _ _ (I.res_step id obs p hfind hout) hex
        · have hb : (p.out == some obs) = false := by simpa using hout
          simp only [hb, Bool.false_eq_true, if_false] at hex
          cases hex

theorem historyOf_linearizable (step : σ → Op → σ × String) (init : σ)
    (tr : List (TEv Op)) (h : List (Call Op)) (hex : historyOf step init tr = some h) :
    Linearizable step init h :=
  exec_linearizable step init h tr 0 init [] [] [] (Inv.init step init) hex

end Casbin.C13
