import CasbinVerif.Spec.Persist
import CasbinVerif.Proofs.Enforcer
/-
  C15 helper lemmas, part 1: no `*WithoutNotify` function touches the watcher, the auto-notify flag
  or the notification log.
-/
namespace Casbin

/-- same watcher, auto-notify flag and notification log -/
structure SameAux (e e' : Enf) : Prop where
  watcher : e'.watcher = e.watcher
  autoNotify : e'.autoNotify = e.autoNotify
  notif : e'.notif = e.notif

theorem SameAux.refl (e : Enf) : SameAux e e := ⟨rfl, rfl, rfl⟩

theorem SameAux.trans {a b c : Enf} (h1 : SameAux a b) (h2 : SameAux b c) : SameAux a c :=
  ⟨h2.watcher.trans h1.watcher, h2.autoNotify.trans h1.autoNotify, h2.notif.trans h1.notif⟩

theorem sameAux_adapterCall (e : Enf) (entry : String) (eff : AdapterSt → AdapterSt) :
    SameAux e (e.adapterCall entry eff).1 := by
  unfold Enf.adapterCall
  split
  · exact .refl e
  · split
    split <;> exact ⟨rfl, rfl, rfl⟩

theorem sameAux_persist {e : Enf} {entry : String} {eff : AdapterSt → AdapterSt} {e1 : Enf} {ok : Bool}
    (h : (if e.shouldPersist = true then e.adapterCall entry eff else (e, true)) = (e1, ok)) : SameAux e e1 := by
  split at h
  · have := sameAux_adapterCall e entry eff
    rw [h] at this
    exact this
  · cases h; exact .refl e

theorem sameAux_setStore (e : Enf) (sec pt : String) (s : Store) : SameAux e (e.setStore sec pt s) := by
  unfold Enf.setStore
  split <;> exact ⟨rfl, rfl, rfl⟩

theorem sameAux_incrLinks (e : Enf) (add : Bool) (pt : String) (rules : List Rule) :
    SameAux e (e.incrLinks add pt rules).1 := by
  unfold Enf.incrLinks
  simp only [Enf.invalidate]
  split <;> exact ⟨rfl, rfl, rfl⟩

theorem sameAux_incrLinks_of_eq {e : Enf} {add : Bool} {pt : String} {rules : List Rule} {e1 : Enf} {ok : Bool}
    (h : e.incrLinks add pt rules = (e1, ok)) : SameAux e e1 := by
  have := sameAux_incrLinks e add pt rules
  rw [h] at this
  exact this

/-- close a goal `SameAux e X` where `X` is built from the primitives, working backwards -/
macro "aux_tac" : tactic => `(tactic| (
  try dsimp only
  repeat (first
    | exact SameAux.refl _
    | exact sameAux_persist (by assumption)
    | refine SameAux.trans ?_ (sameAux_setStore _ _ _ _)
    | refine SameAux.trans ?_ (sameAux_incrLinks _ _ _ _)
    | refine SameAux.trans ?_ (sameAux_incrLinks_of_eq (by assumption)))))

theorem sameAux_addPolicyWN (e : Enf) (sec pt : String) (rule : Rule) : SameAux e (e.addPolicyWN sec pt rule).1 := by
  unfold Enf.addPolicyWN
  repeat' first | split | (dsimp only; split)
  all_goals aux_tac

theorem sameAux_addPoliciesWN (e : Enf) (sec pt : String) (rules : List Rule) (ex : Bool) :
    SameAux e (e.addPoliciesWN sec pt rules ex).1 := by
  unfold Enf.addPoliciesWN
  repeat' first | split | (dsimp only; split)
  all_goals aux_tac

theorem sameAux_removePolicyWN (e : Enf) (sec pt : String) (rule : Rule) :
    SameAux e (e.removePolicyWN sec pt rule).1 := by
  unfold Enf.removePolicyWN
  repeat' first | split | (dsimp only; split)
  all_goals aux_tac

theorem sameAux_removePoliciesWN (e : Enf) (sec pt : String) (rules : List Rule) :
    SameAux e (e.removePoliciesWN sec pt rules).1 := by
  unfold Enf.removePoliciesWN
  repeat' first | split | (dsimp only; split)
  all_goals aux_tac

theorem sameAux_updatePolicyWN (e : Enf) (sec pt : String) (old new : Rule) :
    SameAux e (e.updatePolicyWN sec pt old new).1 := by
  unfold Enf.updatePolicyWN
  repeat' first | split | (dsimp only; split)
  all_goals aux_tac

theorem sameAux_updatePoliciesWN (e : Enf) (sec pt : String) (olds news : List Rule) :
    SameAux e (e.updatePoliciesWN sec pt olds news).1 := by
  unfold Enf.updatePoliciesWN
  repeat' first | split | (dsimp only; split)
  all_goals aux_tac

theorem sameAux_removeFilteredWN (e : Enf) (sec pt : String) (fi : Nat) (vals : List String) (r : Enf × Enf.MRes) :
    e.removeFilteredWN sec pt fi vals = some r → SameAux e r.1 := by
  unfold Enf.removeFilteredWN
  repeat' first | split | (dsimp only; split)
  all_goals (intro h; cases h)
  all_goals aux_tac

theorem sameAux_clearPolicy (e : Enf) : SameAux e e.clearPolicy := ⟨rfl, rfl, rfl⟩

theorem sameAux_buildRoleLinks (e : Enf) : SameAux e e.buildRoleLinks.1 := ⟨rfl, rfl, rfl⟩

end Casbin
