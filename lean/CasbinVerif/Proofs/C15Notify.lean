import CasbinVerif.Proofs.C15Watcher
/-
  C15 helper lemmas, part 3: every management call is its `*WithoutNotify` function followed by the
  notify wrapper; what the wrapper does.
-/
namespace Casbin

/-- the un-notified part of a management call -/
def Enf.applyWN (e : Enf) : MOp → Option (Enf × Enf.MRes)
  | .add sec pt r => some (e.addPolicyWN sec pt r)
  | .addMany sec pt ex rs => some (e.addPoliciesWN sec pt rs ex)
  | .remove sec pt r => some (e.removePolicyWN sec pt r)
  | .removeMany sec pt rs => some (e.removePoliciesWN sec pt rs)
  | .update sec pt o n => some (e.updatePolicyWN sec pt o n)
  | .updateMany sec pt os ns => some (e.updatePoliciesWN sec pt os ns)
  | .removeFiltered sec pt fi vals => e.removeFilteredWN sec pt fi vals
  | .clear => some (e.clearPolicy, .ok true)
  | .buildLinks => let (e', ok) := e.buildRoleLinks; some (e', if ok then .ok true else .err false)

/-- the WatcherEx / UpdatableWatcher entries the notify wrapper of a call is given; `none` = the
    call has no notify wrapper -/
def MOp.entries : MOp → Option (Option String × Option String)
  | .add sec pt r => some (some s!"AddPolicy({sec};{pt};{Enf.showRule r})", none)
  | .addMany sec pt _ rs => some (some s!"AddPolicies({sec};{pt};{Enf.showRules rs})", none)
  | .remove sec pt r => some (some s!"RemovePolicy({sec};{pt};{Enf.showRule r})", none)
  | .removeMany sec pt rs => some (some s!"RemovePolicies({sec};{pt};{Enf.showRules rs})", none)
  | .update sec pt o n => some (none, some s!"UpdatePolicy({sec};{pt};{Enf.showRule o};{Enf.showRule n})")
  | .updateMany sec pt os ns => some (none, some s!"UpdatePolicies({sec};{pt};{Enf.showRules os};{Enf.showRules ns})")
  | .removeFiltered sec pt fi vals => some (some s!"RemoveFilteredPolicy({sec};{pt};{fi};{Enf.showRule vals})", none)
  | .clear | .buildLinks => none

/-- the wrapper of a call -/
def MOp.wrap (op : MOp) (r : Enf × Enf.MRes) : Enf × Enf.MRes :=
  match op.entries with
  | some (x, y) => Enf.withNotify r x y
  | none => r

theorem applyM_eq (e : Enf) (op : MOp) : e.applyM op = (e.applyWN op).map op.wrap := by
  cases op <;> rfl

/-- the entry `notify` chooses for a watcher of kind `w` -/
def entryOf (w : WatcherKind) (exEntry updEntry : Option String) : String :=
  match updEntry, exEntry with
  | some u, _ => if w.isUpd then u else "Update"
  | none, some x => if w.isEx then x else "Update"
  | none, none => "Update"

theorem expectedNotif_entries {w : WatcherKind} {op : MOp} {n : String} (h : expectedNotif w op = some n) :
    ∃ x y, op.entries = some (x, y) ∧ n = entryOf w x y := by
  cases op <;> simp only [expectedNotif, Option.some.injEq, reduceCtorEq] at h <;> subst h <;>
    exact ⟨_, _, rfl, rfl⟩

theorem entries_none {op : MOp} (h : op.entries = none) : op = .clear ∨ op = .buildLinks := by
  cases op <;> simp [MOp.entries] at h <;> simp

/-! ### the un-notified part: frame and independence of the watcher -/

theorem sameAux_applyWN {e : Enf} {op : MOp} {r : Enf × Enf.MRes} (h : e.applyWN op = some r) : SameAux e r.1 := by
  cases op with
  | add sec pt rule => cases h; exact sameAux_addPolicyWN e sec pt rule
  | addMany sec pt ex rs => cases h; exact sameAux_addPoliciesWN e sec pt rs ex
  | remove sec pt rule => cases h; exact sameAux_removePolicyWN e sec pt rule
  | removeMany sec pt rs => cases h; exact sameAux_removePoliciesWN e sec pt rs
  | update sec pt o n => cases h; exact sameAux_updatePolicyWN e sec pt o n
  | updateMany sec pt os ns => cases h; exact sameAux_updatePoliciesWN e sec pt os ns
  | removeFiltered sec pt fi vals => exact sameAux_removeFilteredWN e sec pt fi vals r h
  | clear => cases h; exact sameAux_clearPolicy e
  | buildLinks => cases h; exact sameAux_buildRoleLinks e

theorem setW_applyWN (e : Enf) (w : Option WatcherKind) (op : MOp) :
    (e.setW w).applyWN op = (e.applyWN op).map (onFst (·.setW w)) := by
  cases op with
  | add sec pt rule => simp only [Enf.applyWN, Enf.setW_addPolicyWN, Option.map_some]
  | addMany sec pt ex rs => simp only [Enf.applyWN, Enf.setW_addPoliciesWN, Option.map_some]
  | remove sec pt rule => simp only [Enf.applyWN, Enf.setW_removePolicyWN, Option.map_some]
  | removeMany sec pt rs => simp only [Enf.applyWN, Enf.setW_removePoliciesWN, Option.map_some]
  | update sec pt o n => simp only [Enf.applyWN, Enf.setW_updatePolicyWN, Option.map_some]
  | updateMany sec pt os ns => simp only [Enf.applyWN, Enf.setW_updatePoliciesWN, Option.map_some]
  | removeFiltered sec pt fi vals => simp only [Enf.applyWN, Enf.setW_removeFilteredWN]
  | clear => rfl
  | buildLinks => rfl

/-! ### the notify wrapper -/

theorem notify_eq {e : Enf} {w : WatcherKind} (hw : e.watcher = some w) (x y : Option String) :
    e.notify x y = { e with notif := e.notif ++ [entryOf w x y] } := by
  unfold Enf.notify
  rw [hw]
  rfl

theorem withNotify_snd (r : Enf × Enf.MRes) (x y : Option String) : (Enf.withNotify r x y).2 = r.2 := by
  unfold Enf.withNotify
  split
  · split <;> rfl
  · rfl

theorem withNotify_off {r : Enf × Enf.MRes} (h : r.1.watcher = none ∨ r.1.autoNotify = false) (x y : Option String) :
    Enf.withNotify r x y = r := by
  unfold Enf.withNotify
  split
  · next e =>
    have : e.shouldNotify = false := by
      rcases h with h | h
      · simp only [Enf.shouldNotify, show e.watcher = none from h, Option.isSome_none, Bool.false_and]
      · simp only [Enf.shouldNotify, show e.autoNotify = false from h, Bool.and_false]
    simp only [this, Bool.false_eq_true, if_false]
  · rfl

theorem withNotify_noop {r : Enf × Enf.MRes} (h : r.2 ≠ .ok true) (x y : Option String) : Enf.withNotify r x y = r := by
  unfold Enf.withNotify
  split
  · exact absurd rfl h
  · rfl

theorem withNotify_on {r : Enf × Enf.MRes} {w : WatcherKind} (hw : r.1.watcher = some w) (hn : r.1.autoNotify = true)
    (h : r.2 = .ok true) (x y : Option String) : (Enf.withNotify r x y).1.notif = r.1.notif ++ [entryOf w x y] := by
  obtain ⟨e, res⟩ := r
  cases h
  have hs : e.shouldNotify = true := by
    simp only [Enf.shouldNotify, show e.watcher = some w from hw, show e.autoNotify = true from hn, Option.isSome_some,
      Bool.and_self]
  simp only [Enf.withNotify, hs, if_true]
  rw [notify_eq hw]

theorem notify_adapter (e : Enf) (x y : Option String) : (e.notify x y).adapter = e.adapter := by
  unfold Enf.notify
  split <;> rfl

theorem withNotify_adapter (r : Enf × Enf.MRes) (x y : Option String) : (Enf.withNotify r x y).1.adapter = r.1.adapter := by
  unfold Enf.withNotify
  split
  · split
    · exact notify_adapter _ _ _
    · rfl
  · rfl

theorem withNotify_memory (r : Enf × Enf.MRes) (x y : Option String) : (Enf.withNotify r x y).1.memory = r.1.memory := by
  have h := sameCore_withNotify r x y
  simp only [Enf.memory, h.p, h.g, h.rm]

/-! ### the wrapper of a call -/

theorem wrap_snd (op : MOp) (r : Enf × Enf.MRes) : (op.wrap r).2 = r.2 := by
  unfold MOp.wrap
  split
  · exact withNotify_snd _ _ _
  · rfl

theorem wrap_off (op : MOp) {r : Enf × Enf.MRes} (h : r.1.watcher = none ∨ r.1.autoNotify = false) : op.wrap r = r := by
  unfold MOp.wrap
  split
  · exact withNotify_off h _ _
  · rfl

theorem wrap_adapter (op : MOp) (r : Enf × Enf.MRes) : (op.wrap r).1.adapter = r.1.adapter := by
  unfold MOp.wrap
  split
  · exact withNotify_adapter _ _ _
  · rfl

theorem wrap_memory (op : MOp) (r : Enf × Enf.MRes) : (op.wrap r).1.memory = r.1.memory := by
  unfold MOp.wrap
  split
  · exact withNotify_memory _ _ _
  · rfl

end Casbin
