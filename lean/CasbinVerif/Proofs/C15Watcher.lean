import CasbinVerif.Proofs.C15Frame
import CasbinVerif.Proofs.Updatable
/-
  C15 helper lemmas, part 2: the `*WithoutNotify` functions never read the watcher: running them
  with another watcher gives the same result and the same state up to the watcher field.
-/
namespace Casbin

/-- replace the watcher -/
def Enf.setW (e : Enf) (w : Option WatcherKind) : Enf := { e with watcher := w }

/-- apply a state transformation to the state of a result -/
def onFst {β : Type} (f : Enf → Enf) (r : Enf × β) : Enf × β := (f r.1, r.2)

@[simp] theorem onFst_mk {β : Type} (f : Enf → Enf) (e : Enf) (b : β) : onFst f (e, b) = (f e, b) := rfl

@[simp] theorem onFst_fst {β : Type} (f : Enf → Enf) (r : Enf × β) : (onFst f r).fst = f r.fst := rfl
@[simp] theorem onFst_snd {β : Type} (f : Enf → Enf) (r : Enf × β) : (onFst f r).snd = r.snd := rfl

namespace Enf

@[simp] theorem setW_getStore (e : Enf) (w : Option WatcherKind) (sec pt : String) :
    (e.setW w).getStore sec pt = e.getStore sec pt := rfl
@[simp] theorem setW_prioOf (e : Enf) (w : Option WatcherKind) (sec pt : String) :
    (e.setW w).prioOf sec pt = e.prioOf sec pt := rfl
@[simp] theorem setW_shouldPersist (e : Enf) (w : Option WatcherKind) :
    (e.setW w).shouldPersist = e.shouldPersist := rfl

theorem setW_adapterCall (e : Enf) (w : Option WatcherKind) (entry : String) (eff : AdapterSt → AdapterSt) :
    (e.setW w).adapterCall entry eff = onFst (·.setW w) (e.adapterCall entry eff) := by
  rcases h : e.adapter with _ | a
  · simp [Enf.adapterCall, Enf.setW, h, onFst]
  · rcases hc : a.call entry with ⟨a', ok⟩
    cases ok <;> simp [Enf.adapterCall, Enf.setW, h, hc, onFst]

theorem setW_persist (e : Enf) (w : Option WatcherKind) (entry : String) (eff : AdapterSt → AdapterSt) :
    (if (e.setW w).shouldPersist = true then (e.setW w).adapterCall entry eff else (e.setW w, true)) =
      onFst (·.setW w) (if e.shouldPersist = true then e.adapterCall entry eff else (e, true)) := by
  rw [setW_shouldPersist, setW_adapterCall]
  split <;> rfl

theorem setW_setStore (e : Enf) (w : Option WatcherKind) (sec pt : String) (s : Store) :
    (e.setW w).setStore sec pt s = (e.setStore sec pt s).setW w := by
  unfold Enf.setStore
  split <;> rfl

theorem setW_incrLinks (e : Enf) (w : Option WatcherKind) (add : Bool) (pt : String) (rules : List Rule) :
    (e.setW w).incrLinks add pt rules = onFst (·.setW w) (e.incrLinks add pt rules) := by
  rcases h1 : List.lookup pt e.rm with _ | rm <;> rcases h2 : List.lookup pt e.md.g with _ | ⟨count, k⟩ <;>
    simp [Enf.incrLinks, Enf.invalidate, Enf.setW, h1, h2, onFst]

/-- both runs take the same branches: push the watcher replacement outwards, split, compare -/
macro "setw_tac" : tactic => `(tactic| (
  simp only [setW_getStore, setW_persist, setW_setStore, setW_prioOf, setW_incrLinks, onFst_mk, onFst_fst, onFst_snd]
  repeat' split
  all_goals first | rfl | contradiction | (simp_all; done)))

theorem setW_addPolicyWN (e : Enf) (w : Option WatcherKind) (sec pt : String) (rule : Rule) :
    (e.setW w).addPolicyWN sec pt rule = onFst (·.setW w) (e.addPolicyWN sec pt rule) := by
  unfold Enf.addPolicyWN
  setw_tac

theorem setW_addPoliciesWN (e : Enf) (w : Option WatcherKind) (sec pt : String) (rules : List Rule) (ex : Bool) :
    (e.setW w).addPoliciesWN sec pt rules ex = onFst (·.setW w) (e.addPoliciesWN sec pt rules ex) := by
  unfold Enf.addPoliciesWN
  setw_tac

theorem setW_removePolicyWN (e : Enf) (w : Option WatcherKind) (sec pt : String) (rule : Rule) :
    (e.setW w).removePolicyWN sec pt rule = onFst (·.setW w) (e.removePolicyWN sec pt rule) := by
  unfold Enf.removePolicyWN
  setw_tac

theorem setW_removePoliciesWN (e : Enf) (w : Option WatcherKind) (sec pt : String) (rules : List Rule) :
    (e.setW w).removePoliciesWN sec pt rules = onFst (·.setW w) (e.removePoliciesWN sec pt rules) := by
  unfold Enf.removePoliciesWN
  setw_tac

theorem setW_updatePolicyWN (e : Enf) (w : Option WatcherKind) (sec pt : String) (old new : Rule) :
    (e.setW w).updatePolicyWN sec pt old new = onFst (·.setW w) (e.updatePolicyWN sec pt old new) := by
  have hb : (e.setW w).updatePolicyBody sec pt old new = onFst (·.setW w) (e.updatePolicyBody sec pt old new) := by
    unfold Enf.updatePolicyBody
    setw_tac
  rw [updatePolicyWN_eq, updatePolicyWN_eq, setW_getStore, hb]
  split
  · rfl
  split <;> rfl

theorem setW_updatePoliciesWN (e : Enf) (w : Option WatcherKind) (sec pt : String) (olds news : List Rule) :
    (e.setW w).updatePoliciesWN sec pt olds news = onFst (·.setW w) (e.updatePoliciesWN sec pt olds news) := by
  have hb : (e.setW w).updatePoliciesBody sec pt olds news = onFst (·.setW w) (e.updatePoliciesBody sec pt olds news) := by
    unfold Enf.updatePoliciesBody
    setw_tac
  rw [updatePoliciesWN_eq, updatePoliciesWN_eq, setW_getStore, hb]
  split
  · rfl
  split
  · rfl
  split <;> rfl

theorem setW_removeFilteredWN (e : Enf) (w : Option WatcherKind) (sec pt : String) (fi : Nat) (vals : List String) :
    (e.setW w).removeFilteredWN sec pt fi vals = (e.removeFilteredWN sec pt fi vals).map (onFst (·.setW w)) := by
  unfold Enf.removeFilteredWN
  setw_tac

theorem setW_clearPolicy (e : Enf) (w : Option WatcherKind) : (e.setW w).clearPolicy = e.clearPolicy.setW w := rfl

theorem setW_buildRoleLinks (e : Enf) (w : Option WatcherKind) :
    (e.setW w).buildRoleLinks = onFst (·.setW w) e.buildRoleLinks := rfl

end Enf
end Casbin
