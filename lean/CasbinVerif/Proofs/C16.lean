import CasbinVerif.Spec.Rbac
import CasbinVerif.Proofs.RoleGraph
import CasbinVerif.Proofs.Enforce
/-
  Lemmas for Properties/C16.lean.
-/
namespace Casbin.C16
open Casbin.Rbac

/-! ### `eraseDups` -/

theorem nodup_eraseDups (l : List String) : l.eraseDups.Nodup := by
  generalize hn : l.length = n
  induction n using Nat.strongRecOn generalizing l with
  | _ n ih =>
    cases l with
    | nil => simp
    | cons a as =>
      rw [List.eraseDups_cons, List.nodup_cons]
      refine ⟨?_, ?_⟩
      · simp [List.mem_eraseDups, List.mem_filter]
      · have hlt : (as.filter fun b => !b == a).length < n := by
          have := List.length_filter_le (fun b => !b == a) as
          simp only [List.length_cons] at hn
          omega
        exact ih _ hlt _ rfl

/-! ### reflexive-transitive closure of a successor function -/

/-- `r` is reachable from `u` by repeatedly taking a member of `next` -/
inductive Star (next : String → List String) : String → String → Prop
  | refl (u) : Star next u u
  | step {u v r} : v ∈ next u → Star next v r → Star next u r

theorem Star.tail {next : String → List String} {u v r : String}
    (h : Star next u v) (hv : r ∈ next v) : Star next u r := by
  induction h with
  | refl u => exact .step hv (.refl _)
  | step he _ ih => exact .step he (ih hv)

theorem Star.mem_closed {next : String → List String} {S : List String}
    (hcl : ∀ x ∈ S, ∀ y ∈ next x, y ∈ S) {a y : String} (h : Star next a y) (ha : a ∈ S) : y ∈ S := by
  induction h with
  | refl u => exact ha
  | step he _ ih => exact ih (hcl _ ha _ he)

/-! ### the work-list walk -/

theorem walk_inv (next : String → List String) (start : String) (U : List String)
    (hU : ∀ x y, y ∈ next x → y ∈ U) :
    ∀ (fuel : Nat) (done queue res : List String),
      start :: res = done ++ queue → (start :: res).Nodup → (∀ y ∈ res, y ∈ U) →
      U.length + 1 ≤ fuel + done.length → (∀ y ∈ res, Star next start y) →
      (∀ x ∈ done, ∀ y ∈ next x, y ∈ start :: res) →
      ∃ l, walk next fuel queue (start :: res) res = some l ∧ (start :: l).Nodup ∧
        (∀ y ∈ l, Star next start y) ∧ (∀ x ∈ start :: l, ∀ y ∈ next x, y ∈ start :: l) := by
  intro fuel
  induction fuel with
  | zero =>
    intro done queue res hsplit hnd hresU hfuel hreach hcl
    cases queue with
    | nil =>
      refine ⟨res, by simp [walk], hnd, hreach, ?_⟩
      rw [hsplit, List.append_nil]
      rw [hsplit, List.append_nil] at hcl
      exact hcl
    | cons x q =>
      exfalso
      have h1 : res.length ≤ U.length :=
        List.Nodup.length_le_of_subset (List.nodup_cons.1 hnd).2 (fun y hy => hresU y hy)
      have h2 := congrArg List.length hsplit
      simp only [List.length_cons, List.length_append] at h2
      omega
  | succ n ih =>
    intro done queue res hsplit hnd hresU hfuel hreach hcl
    cases queue with
    | nil =>
      refine ⟨res, by simp [walk], hnd, hreach, ?_⟩
      rw [hsplit, List.append_nil]
      rw [hsplit, List.append_nil] at hcl
      exact hcl
    | cons x q =>
      have hx : x ∈ start :: res := by rw [hsplit]; simp
      have hxreach : Star next start x := by
        rcases List.mem_cons.1 hx with h | h
        · rw [h]; exact .refl _
        · exact hreach x h
      simp only [walk]
      generalize hnew : ((next x).eraseDups.filter fun r => !(start :: res).contains r) = new
      have hnew_mem : ∀ y, y ∈ new ↔ y ∈ next x ∧ y ∉ start :: res := by
        intro y
        rw [← hnew]
        simp [List.mem_filter, List.mem_eraseDups]
      have hnew_nd : new.Nodup := by
        rw [← hnew]
        exact (nodup_eraseDups _).filter _
      have key := ih (done ++ [x]) (q ++ new) (res ++ new)
        (by rw [← List.cons_append, hsplit]; simp)
        (by
          rw [← List.cons_append, List.nodup_append]
          refine ⟨hnd, hnew_nd, ?_⟩
          intro a ha b hb hab
          subst hab
          exact ((hnew_mem a).1 hb).2 ha)
        (by
          intro y hy
          rcases List.mem_append.1 hy with h | h
          · exact hresU y h
          · exact hU x y ((hnew_mem y).1 h).1)
        (by simp only [List.length_append, List.length_cons, List.length_nil]; omega)
        (by
          intro y hy
          rcases List.mem_append.1 hy with h | h
          · exact hreach y h
          · exact hxreach.tail ((hnew_mem y).1 h).1)
        (by
          intro z hz y hy
          rw [← List.cons_append]
          rcases List.mem_append.1 hz with h | h
          · exact List.mem_append_left _ (hcl z h y hy)
          · have hzx : z = x := by simpa using h
            subst hzx
            by_cases hs : y ∈ start :: res
            · exact List.mem_append_left _ hs
            · exact List.mem_append_right _ ((hnew_mem y).2 ⟨hy, hs⟩))
      simpa only [List.cons_append] using key

/-- the walk from `[start]` with `U.length + 1` rounds (every successor is in `U`) -/
theorem walk_spec (next : String → List String) (start : String) (U : List String)
    (hU : ∀ x y, y ∈ next x → y ∈ U) :
    ∃ l, walk next (U.length + 1) [start] [start] [] = some l ∧ l.Nodup ∧
      ∀ y, y ∈ l ↔ y ≠ start ∧ Star next start y := by
  obtain ⟨l, h1, h2, h3, h4⟩ := walk_inv next start U hU (U.length + 1) [] [start] []
    rfl (by simp) (by simp) (by simp) (by simp) (by simp)
  refine ⟨l, h1, (List.nodup_cons.1 h2).2, ?_⟩
  intro y
  constructor
  · intro hy
    refine ⟨?_, h3 y hy⟩
    intro e
    subst e
    exact (List.nodup_cons.1 h2).1 hy
  · rintro ⟨hne, hs⟩
    have := hs.mem_closed h4 (List.mem_cons_self ..)
    rcases List.mem_cons.1 this with h | h
    · exact absurd h hne
    · exact h

/-! ### the two successor functions against `ReachWithin` -/

theorem mem_getRoles {rm : RM} {ds : List String} {x y : String} :
    y ∈ rm.getRoles x ds ↔ (x, y, rm.dom ds) ∈ rm.links := by
  simp only [RM.getRoles, List.mem_eraseDups]
  exact mem_succs

theorem mem_getUsers {rm : RM} {ds : List String} {x y : String} :
    y ∈ rm.getUsers x ds ↔ (y, x, rm.dom ds) ∈ rm.links := by
  simp only [RM.getUsers, List.mem_eraseDups, List.mem_map, List.mem_filter, Bool.and_eq_true,
    beq_iff_eq]
  constructor
  · rintro ⟨⟨a, b, c⟩, ⟨hm, hb, hc⟩, ha⟩
    simp only at ha hb hc
    subst ha; subst hb; subst hc; exact hm
  · intro h; exact ⟨(y, x, rm.dom ds), ⟨h, rfl, rfl⟩, rfl⟩

theorem reachWithin_tail {links : List Link} {d : String} {n : Nat} {u v r : String}
    (h : ReachWithin links d n u v) (hl : (v, r, d) ∈ links) : ReachWithin links d (n + 1) u r := by
  induction h with
  | refl n u => exact .step hl (.refl _ _)
  | step he _ ih => exact .step he (ih hl)

theorem star_roles_iff (rm : RM) (ds : List String) (u r : String) :
    Star (fun x => rm.getRoles x ds) u r ↔ Reach rm.links (rm.dom ds) u r := by
  constructor
  · intro h
    induction h with
    | refl u => exact ⟨0, .refl _ _⟩
    | step he _ ih =>
      obtain ⟨n, hn⟩ := ih
      exact ⟨n + 1, .step (mem_getRoles.1 he) hn⟩
  · rintro ⟨n, hn⟩
    induction hn with
    | refl n u => exact .refl _
    | step he _ ih => exact .step (mem_getRoles.2 he) ih

theorem star_users_iff (rm : RM) (ds : List String) (r x : String) :
    Star (fun y => rm.getUsers y ds) r x ↔ Reach rm.links (rm.dom ds) x r := by
  constructor
  · intro h
    induction h with
    | refl u => exact ⟨0, .refl _ _⟩
    | step he _ ih =>
      obtain ⟨n, hn⟩ := ih
      exact ⟨n + 1, reachWithin_tail hn (mem_getUsers.1 he)⟩
  · rintro ⟨n, hn⟩
    induction hn with
    | refl n u => exact .refl _
    | step he _ ih => exact ih.tail (mem_getUsers.2 he)

theorem implicitRoles_spec (rm : RM) (u : String) (ds : List String) :
    ∃ l, implicitRoles rm u ds = some l ∧ l.Nodup ∧
      ∀ r, r ∈ l ↔ r ≠ u ∧ Reach rm.links (rm.dom ds) u r := by
  obtain ⟨l, h1, h2, h3⟩ := walk_spec (fun x => rm.getRoles x ds) u (rm.links.map (·.2.1))
    (by
      intro x y hy
      exact List.mem_map.2 ⟨_, mem_getRoles.1 hy, rfl⟩)
  rw [List.length_map] at h1
  exact ⟨l, h1, h2, fun r => by rw [h3, star_roles_iff]⟩

theorem implicitUsersForRole_spec (rm : RM) (r : String) (ds : List String) :
    ∃ l, implicitUsersForRole rm r ds = some l ∧ l.Nodup ∧
      ∀ x, x ∈ l ↔ x ≠ r ∧ Reach rm.links (rm.dom ds) x r := by
  obtain ⟨l, h1, h2, h3⟩ := walk_spec (fun x => rm.getUsers x ds) r (rm.links.map (·.1))
    (by
      intro x y hy
      exact List.mem_map.2 ⟨_, mem_getUsers.1 hy, rfl⟩)
  rw [List.length_map] at h1
  exact ⟨l, h1, h2, fun x => by rw [h3, star_users_iff]⟩

/-! ### `mapM` in `Option` -/

theorem mapM_option_none_iff {α β : Type} (f : α → Option β) (l : List α) :
    l.mapM f = none ↔ ∃ x ∈ l, f x = none := by
  induction l with
  | nil => simp
  | cons x xs ih =>
    rw [List.mapM_cons]
    cases hx : f x with
    | none => simp [hx]
    | some y =>
      cases hxs : xs.mapM f with
      | none =>
        obtain ⟨z, hz, hfz⟩ := ih.1 hxs
        simp only [Option.bind_eq_bind, Option.bind_some, Option.bind_none, true_iff]
        exact ⟨z, List.mem_cons_of_mem _ hz, hfz⟩
      | some ys =>
        simp only [Option.bind_eq_bind, Option.bind_some, List.mem_cons]
        constructor
        · intro h; cases h
        · rintro ⟨z, hz | hz, hfz⟩
          · subst hz; rw [hx] at hfz; cases hfz
          · have := ih.2 ⟨z, hz, hfz⟩
            rw [hxs] at this; cases this

end Casbin.C16
