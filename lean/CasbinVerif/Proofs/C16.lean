import CasbinVerif.Spec.Rbac
import CasbinVerif.Proofs.RoleGraph
import CasbinVerif.Proofs.Enforce
/-
  Lemmas for Properties/C16.lean.
-/
namespace Casbin.C16
open Casbin.Rbac

end Casbin.C16
