import CasbinVerif.Proofs.C16
/-
  Lemmas for Properties/C16.lean: `enforce()` on the two stock RBAC models, rule by rule.
-/
namespace Casbin.C16
open Casbin.Rbac

/-! ### within the depth limit the subjects of the listing are the names `g()` accepts -/

theorem hasLink_eq_contains (rm : RM) (u : String) (ds : List String) (roles : List String)
    (h : implicitRoles rm u ds = some roles) (hd : DepthOk rm u ds) (s : String) :
    rm.hasLink u s ds = (u :: roles).contains s := by
  obtain ⟨l', h1, _, h3⟩ := implicitRoles_spec rm u ds
  rw [h] at h1
  cases h1
  rw [Bool.eq_iff_iff, hasLink_iff_reach']
  simp only [List.contains_eq_mem, List.mem_cons, decide_eq_true_eq]
  constructor
  · intro hr
    by_cases hsu : s = u
    · exact .inl hsu
    · exact .inr ((h3 s).2 ⟨hsu, _, hr⟩)
  · rintro (hsu | hs)
    · subst hsu; exact .refl _ _
    · obtain ⟨_, n, hn⟩ := (h3 s).1 hs
      exact hd s n hn

/-! ### matcher evaluation -/

theorem evalExpr_succ (n : Nat) (ρ : Env) (e : Expr) :
    evalExpr (n + 1) ρ e = evalCore (evalExpr n ρ) ρ e := rfl

theorem val_str_beq (x y : String) : (Val.str x == Val.str y) = (y == x) := by
  by_cases h : x = y
  · subst h; simp
  · have h' : ¬ y = x := fun e => h e.symm
    have : (Val.str x == Val.str y) = false := by
      rw [beq_eq_false_iff_ne]
      intro e; cases e; exact h rfl
    simp [this, h']

theorem ofExpr_allow : EffectKind.ofExpr "some(where (p_eft == allow))" = some .allowOverride := by decide

/-! ### the stock RBAC model -/

def rbacM : Expr :=
  .and (.and (.g2 "g" (.rTok 0) (.pTok 0)) (.eq (.rTok 1) (.pTok 1))) (.eq (.rTok 2) (.pTok 2))

theorem ruleEft_rbac (rule : Rule) : ruleEft ["sub", "obj", "act"] rule = .allow := by
  have : (["sub", "obj", "act"] : List String).idxOf? "eft" = none := by decide
  simp [ruleEft, this]

theorem evalExpr_rbac (links : String → List String → Bool) (fn : String → List Val → Res)
    (evalTab : String → Option Expr) (u o a s ob ac : String) :
    evalExpr evalFuel
        { r := [.str u, .str o, .str a], p := [s, ob, ac], fn := fn, link := links, evalTab := evalTab } rbacM
      = some (.bool (links "g" [u, s] && ([ob, ac] == [o, a]))) := by
  have : evalFuel = 31 + 1 := rfl
  rw [this, evalExpr_succ]
  cases h : links "g" [u, s] <;> cases h1 : (ob == o) <;> cases h2 : (ac == a) <;>
    simp [rbacM, evalCore, h, h1, h2, val_str_beq]

theorem evalRule_rbac (links : String → List String → Bool) (fn : String → List Val → Res)
    (evalTab : String → Option Expr) (u o a : String) (rule : Rule) (hr : rule.length = 3) :
    evalRule { r := [.str u, .str o, .str a], p := [], fn := fn, link := links, evalTab := evalTab }
        rbacM ["sub", "obj", "act"] rule
      = some ⟨links "g" [u, rule.headD ""] && (rule.tail == [o, a]), .allow⟩ := by
  match rule, hr with
  | [s, ob, ac], _ =>
    unfold evalRule
    rw [ruleEft_rbac]
    simp only [evalExpr_rbac]
    simp [truthy]

theorem rbacModel_m : rbacModel.m.lookup "m" = some rbacM := rfl
theorem rbacModel_r : rbacModel.r.lookup "r" = some 3 := by decide
theorem rbacModel_p : rbacModel.p.lookup "p" = some ["sub", "obj", "act"] := by decide
theorem rbacModel_e : rbacModel.e.lookup "e" = some "some(where (p_eft == allow))" := by decide
theorem rbacM_mentionsP : rbacM.mentionsP = true := by decide
theorem rbacM_hasEval : rbacM.hasEval = false := by decide

/-- `enforce()` on the stock RBAC model: the else-branch on an empty policy, otherwise some rule
    whose subject `g()` accepts and whose other columns equal the request's -/
theorem enforce_rbac (policy : List Rule) (links : String → List String → Bool)
    (fn : String → List Val → Res) (evalTab : String → Option Expr) (u o a : String)
    (harity : ∀ rule ∈ policy, rule.length = 3) :
    (enforce rbacModel (fun pt => if pt = "p" then policy else []) links fn evalTab {} none
        [.str u, .str o, .str a]).map (·.1)
      = some (if policy = [] then (links "g" [u, ""] && ([("" : String), ""] == [o, a]))
          else policy.any (fun rule => links "g" [u, rule.headD ""] && rule.tail == [o, a])) := by
  unfold enforce
  simp only [rbacModel_m, rbacModel_r, rbacModel_p, rbacModel_e, ofExpr_allow, if_true,
    rbacM_mentionsP, rbacM_hasEval]
  by_cases hp : policy = []
  · subst hp
    simp [evalExpr_rbac, elseBranch, mergeEffects, decision]
    cases links "g" [u, ""] <;> by_cases h1 : o = "" <;> by_cases h2 : a = "" <;> simp [h1, h2]
  · have hne : policy.isEmpty = false := by cases policy <;> simp_all
    have hmap : policy.map (evalRule { r := [Val.str u, Val.str o, Val.str a], p := [], fn := fn, link := links, evalTab := evalTab } rbacM ["sub", "obj", "act"])
        = (policy.map (fun rule =>
            (⟨links "g" [u, rule.headD ""] && (rule.tail == [o, a]), .allow⟩ : Cell))).map some := by
      rw [List.map_map]
      exact List.map_congr_left
        (fun rule hr => evalRule_rbac links fn evalTab u o a rule (harity rule hr))
    rw [hmap, loopFromE_ok']
    simp only [hne, hp, if_false]
    simp [loop_allowOverride, List.any_map, isAllow, Function.comp_def]

/-! ### the stock RBAC-with-domains model -/

def rbacDomM : Expr :=
  .and (.and (.and (.g3 "g" (.rTok 0) (.pTok 0) (.rTok 1)) (.eq (.rTok 1) (.pTok 1)))
    (.eq (.rTok 2) (.pTok 2))) (.eq (.rTok 3) (.pTok 3))

theorem ruleEft_rbacDom (rule : Rule) : ruleEft ["sub", "dom", "obj", "act"] rule = .allow := by
  have : (["sub", "dom", "obj", "act"] : List String).idxOf? "eft" = none := by decide
  simp [ruleEft, this]

theorem evalExpr_rbacDom (links : String → List String → Bool) (fn : String → List Val → Res)
    (evalTab : String → Option Expr) (u d o a s dm ob ac : String) :
    evalExpr evalFuel
        { r := [.str u, .str d, .str o, .str a], p := [s, dm, ob, ac], fn := fn, link := links,
          evalTab := evalTab } rbacDomM
      = some (.bool (links "g" [u, s, d] && ([dm, ob, ac] == [d, o, a]))) := by
  have : evalFuel = 31 + 1 := rfl
  rw [this, evalExpr_succ]
  cases h : links "g" [u, s, d] <;> cases h0 : (dm == d) <;> cases h1 : (ob == o) <;>
    cases h2 : (ac == a) <;>
    simp [rbacDomM, evalCore, h, h0, h1, h2, val_str_beq]

theorem evalRule_rbacDom (links : String → List String → Bool) (fn : String → List Val → Res)
    (evalTab : String → Option Expr) (u d o a : String) (rule : Rule) (hr : rule.length = 4) :
    evalRule { r := [.str u, .str d, .str o, .str a], p := [], fn := fn, link := links, evalTab := evalTab }
        rbacDomM ["sub", "dom", "obj", "act"] rule
      = some ⟨links "g" [u, rule.headD "", d] && (rule.tail == [d, o, a]), .allow⟩ := by
  match rule, hr with
  | [s, dm, ob, ac], _ =>
    unfold evalRule
    rw [ruleEft_rbacDom]
    simp only [evalExpr_rbacDom]
    simp [truthy]

theorem rbacDomModel_m : rbacDomModel.m.lookup "m" = some rbacDomM := rfl
theorem rbacDomModel_r : rbacDomModel.r.lookup "r" = some 4 := by decide
theorem rbacDomModel_p : rbacDomModel.p.lookup "p" = some ["sub", "dom", "obj", "act"] := by decide
theorem rbacDomModel_e : rbacDomModel.e.lookup "e" = some "some(where (p_eft == allow))" := by decide
theorem rbacDomM_mentionsP : rbacDomM.mentionsP = true := by decide
theorem rbacDomM_hasEval : rbacDomM.hasEval = false := by decide

theorem enforce_rbacDom (policy : List Rule) (links : String → List String → Bool)
    (fn : String → List Val → Res) (evalTab : String → Option Expr) (u d o a : String)
    (harity : ∀ rule ∈ policy, rule.length = 4) :
    (enforce rbacDomModel (fun pt => if pt = "p" then policy else []) links fn evalTab {} none
        [.str u, .str d, .str o, .str a]).map (·.1)
      = some (if policy = [] then (links "g" [u, "", d] && ([("" : String), "", ""] == [d, o, a]))
          else policy.any (fun rule => links "g" [u, rule.headD "", d] && rule.tail == [d, o, a])) := by
  unfold enforce
  simp only [rbacDomModel_m, rbacDomModel_r, rbacDomModel_p, rbacDomModel_e, ofExpr_allow, if_true,
    rbacDomM_mentionsP, rbacDomM_hasEval]
  by_cases hp : policy = []
  · subst hp
    simp [evalExpr_rbacDom, elseBranch, mergeEffects, decision]
    cases links "g" [u, "", d] <;> by_cases h0 : d = "" <;> by_cases h1 : o = "" <;>
      by_cases h2 : a = "" <;> simp [h0, h1, h2]
  · have hne : policy.isEmpty = false := by cases policy <;> simp_all
    have hmap : policy.map (evalRule { r := [Val.str u, Val.str d, Val.str o, Val.str a], p := [], fn := fn, link := links, evalTab := evalTab } rbacDomM ["sub", "dom", "obj", "act"])
        = (policy.map (fun rule =>
            (⟨links "g" [u, rule.headD "", d] && (rule.tail == [d, o, a]), .allow⟩ : Cell))).map some := by
      rw [List.map_map]
      exact List.map_congr_left
        (fun rule hr => evalRule_rbacDom links fn evalTab u d o a rule (harity rule hr))
    rw [hmap, loopFromE_ok']
    simp only [hne, hp, if_false]
    simp [loop_allowOverride, List.any_map, isAllow, Function.comp_def]

end Casbin.C16
