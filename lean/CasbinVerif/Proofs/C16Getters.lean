import CasbinVerif.Model.RoleGraph
import CasbinVerif.Proofs.RoleGraph
import CasbinVerif.Proofs.C16
/- helper lemmas for Properties/C16Getters.lean -/
namespace Casbin

theorem getters_mem_deleteLink (rm : RM) (u r : String) (ds : List String) (l : Link) :
    l ∈ (rm.deleteLink u r ds).links ↔ l ∈ rm.links ∧ l ≠ (u, r, rm.dom ds) := by
  unfold RM.deleteLink
  simp [List.mem_filter]

theorem getters_deleteLink_kind (rm : RM) (u r : String) (ds : List String) :
    (rm.deleteLink u r ds).kind = rm.kind := rfl

theorem getters_dom_congr {rm rm' : RM} (h : rm'.kind = rm.kind) (ds : List String) : rm'.dom ds = rm.dom ds := by
  unfold RM.dom; rw [h]

end Casbin
