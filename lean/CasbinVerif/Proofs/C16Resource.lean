import CasbinVerif.Properties.C16
/-
  Lemmas for Properties/C16Resource.lean.
-/
namespace Casbin.C16
open Casbin.Rbac

/-- the rows one rule on the resource contributes -/
def resourceRowsOf (rm : RM) (isRole : String → Bool) (si : Nat) (rule : Rule) : Option (List Rule) :=
  let sub := rule.getD si ""
  if !isRole sub then some [rule]
  else (implicitUsersForRole rm sub []).map
    (fun us => (us.filter (fun u => !isRole u)).map (fun u => rule.set si u))

theorem implicitUsersForResource_eq (policy : List Rule) (rm : RM) (isRole : String → Bool)
    (si oi : Nat) (resource : String) :
    implicitUsersForResource policy rm isRole si oi resource =
      ((policy.filter (fun rule => rule.getD oi "" == resource)).mapM
        (resourceRowsOf rm isRole si)).map (fun rows => rows.flatten.eraseDups) := rfl

theorem resourceRowsOf_isSome (rm : RM) (isRole : String → Bool) (si : Nat) (rule : Rule) :
    resourceRowsOf rm isRole si rule ≠ none := by
  unfold resourceRowsOf
  generalize rule.getD si "" = sub
  cases hr : isRole sub with
  | true =>
    obtain ⟨l, hl⟩ := implicitUsersForRole_terminates rm sub []
    simp [hl, hr]
  | false => simp [hr]

/-- what one rule contributes, by cases on whether its subject is a role name -/
theorem mem_resourceRowsOf (rm : RM) (isRole : String → Bool) (si : Nat) (rule : Rule)
    (ys : List Rule) (h : resourceRowsOf rm isRole si rule = some ys) (row : Rule) :
    row ∈ ys ↔
      ((isRole (rule.getD si "") = false ∧ row = rule) ∨
       (isRole (rule.getD si "") = true ∧ ∃ u, isRole u = false ∧ u ≠ rule.getD si "" ∧
          Reach rm.links (rm.dom []) u (rule.getD si "") ∧ row = rule.set si u)) := by
  unfold resourceRowsOf at h
  by_cases hr : isRole (rule.getD si "") = true
  · obtain ⟨l, hl⟩ := implicitUsersForRole_terminates rm (rule.getD si "") []
    have hex := implicitUsersForRole_exact rm (rule.getD si "") [] l hl
    simp only [hr, Bool.not_true, Bool.false_eq_true, if_false, hl, Option.map_some,
      Option.some.injEq] at h
    subst h
    simp only [List.mem_map, List.mem_filter, Bool.not_eq_true', hr, Bool.true_eq_false, false_and,
      true_and, false_or]
    constructor
    · rintro ⟨u, ⟨hu, hru⟩, rfl⟩
      exact ⟨u, hru, ((hex u).1 hu).1, ((hex u).1 hu).2, rfl⟩
    · rintro ⟨u, hru, hne, hreach, rfl⟩
      exact ⟨u, ⟨(hex u).2 ⟨hne, hreach⟩, hru⟩, rfl⟩
  · have hr' : isRole (rule.getD si "") = false := by
      cases h' : isRole (rule.getD si "") with
      | true => exact absurd h' hr
      | false => rfl
    simp only [hr', Bool.not_false, if_true, Option.some.injEq] at h
    subst h
    simp only [List.mem_singleton, hr', true_and, Bool.false_eq_true, false_and, or_false]

/-- membership in the rows of a successful `mapM` -/
theorem mem_mapM_flatten {α β : Type} (f : α → Option (List β)) (l : List α) (ys : List (List β))
    (h : l.mapM f = some ys) (b : β) :
    b ∈ ys.flatten ↔ ∃ a ∈ l, ∃ y, f a = some y ∧ b ∈ y := by
  have hmap := mapM_option_some f l ys h
  rw [List.mem_flatten]
  constructor
  · rintro ⟨y, hy, hb⟩
    have : some y ∈ ys.map some := List.mem_map.2 ⟨y, hy, rfl⟩
    rw [← hmap] at this
    obtain ⟨a, ha, hfa⟩ := List.mem_map.1 this
    exact ⟨a, ha, y, hfa, hb⟩
  · rintro ⟨a, ha, y, hfa, hb⟩
    have : some y ∈ l.map f := List.mem_map.2 ⟨a, ha, hfa⟩
    rw [hmap] at this
    obtain ⟨y', hy', e⟩ := List.mem_map.1 this
    cases e
    exact ⟨y, hy', hb⟩

/-- a path to another name ends in a link into it -/
theorem reachWithin_last {links : List Link} {d : String} {n : Nat} {u s : String}
    (h : ReachWithin links d n u s) (hne : u ≠ s) : ∃ v, (v, s, d) ∈ links := by
  induction h with
  | refl n u => exact absurd rfl hne
  | @step n u v r he _ ih =>
    by_cases hvr : v = r
    · subst hvr
      exact ⟨u, he⟩
    · exact ih hvr

theorem rule3_shape (rule : Rule) (h : rule.length = 3) :
    ∃ s o a, rule = [s, o, a] := by
  match rule, h with
  | [s, o, a], _ => exact ⟨s, o, a, rfl⟩

end Casbin.C16
