import CasbinVerif.Spec.Mono
import CasbinVerif.Spec.Store
import CasbinVerif.Spec.Perm
import CasbinVerif.Proofs.RoleGraph
import CasbinVerif.Proofs.Enforce
import CasbinVerif.Proofs.Effector
import CasbinVerif.Proofs.C17Eval
import CasbinVerif.Proofs.C17Loop
/-
  Lemmas for Properties/C17.lean: `enforce` reduced to its decision part `enfDec`, and the
  monotonicity / permutation lemmas on `enfDec`; reachability is monotone in the link set.
-/
namespace Casbin.C17

/-! ### role graph -/

theorem reach_mono {links links' : List Link} (hsub : ∀ l ∈ links, l ∈ links') {d : String} {n : Nat}
    {u r : String} (h : ReachWithin links d n u r) : ReachWithin links' d n u r := by
  induction h with
  | refl n u => exact .refl n u
  | step he _ ih => exact .step (hsub _ he) ih

theorem hasLink_mono' (rm rm' : RM) (hk : rm.kind = rm'.kind) (hm : rm.maxLevel = rm'.maxLevel)
    (hsub : ∀ l ∈ rm.links, l ∈ rm'.links) (u r : String) (ds : List String)
    (h : rm.hasLink u r ds = true) : rm'.hasLink u r ds = true := by
  rw [hasLink_iff_reach'] at h ⊢
  have hd : rm'.dom ds = rm.dom ds := by simp only [RM.dom, hk]
  rw [hd, ← hm]
  exact reach_mono hsub h

theorem addLink_maxLevel (rm : RM) (u r : String) (ds : List String) :
    (rm.addLink u r ds).maxLevel = rm.maxLevel := by
  unfold RM.addLink
  simp only
  split <;> rfl

/-! ### `enforce` and its decision part -/

/-- the decision part of `enforce` once the four definitions have been found -/
def enfDec (k : EffectKind) (m : Expr) (tokens : List String) (pol : List Rule) (ρ : Env) : Option Bool :=
  if !pol.isEmpty && m.mentionsP then
    (loopFromE k pol.length [] (pol.map (evalRule ρ m tokens))).map decision
  else if m.hasEval && pol.isEmpty then none
  else
    match evalExpr evalFuel { ρ with p := List.replicate tokens.length "" } m with
    | some (.bool b) => some (decision (elseBranch k b))
    | _ => none

theorem kindOf_some {md : ModelDef} {ctx : EnforceCtx} {k : EffectKind} (hk : kindOf md ctx = some k) :
    ∃ eexpr, md.e.lookup ctx.eType = some eexpr ∧ EffectKind.ofExpr eexpr = some k := by
  unfold kindOf at hk
  cases he : md.e.lookup ctx.eType with
  | none => simp [he] at hk
  | some x => exact ⟨x, rfl, by simpa [he] using hk⟩

theorem enforce_map_fst (md : ModelDef) (policy : String → List Rule)
    (links : String → List String → Bool) (fn : String → List Val → Res)
    (evalTab : String → Option Expr) (ctx : EnforceCtx) (rvals : List Val)
    (m : Expr) (tokens : List String) (k : EffectKind)
    (hm : md.m.lookup ctx.mType = some m) (hr : md.r.lookup ctx.rType = some rvals.length)
    (hp : md.p.lookup ctx.pType = some tokens) (hk : kindOf md ctx = some k) :
    (enforce md policy links fn evalTab ctx none rvals).map (·.1) =
      enfDec k m tokens (policy ctx.pType) ⟨rvals, [], fn, links, evalTab⟩ := by
  obtain ⟨eexpr, he, hke⟩ := kindOf_some hk
  unfold enforce enfDec
  simp only [hm, hr, hp, he, hke, bne_self_eq_false, Bool.false_eq_true, if_false]
  split
  · cases loopFromE k (policy ctx.pType).length [] _ <;> rfl
  · split
    · rfl
    · split <;> simp_all

theorem enforce_some_lookups (md : ModelDef) (policy : String → List Rule)
    (links : String → List String → Bool) (fn : String → List Val → Res)
    (evalTab : String → Option Expr) (ctx : EnforceCtx) (rvals : List Val) (d : Bool)
    (h : (enforce md policy links fn evalTab ctx none rvals).map (·.1) = some d) :
    ∃ m tokens, md.m.lookup ctx.mType = some m ∧ md.r.lookup ctx.rType = some rvals.length ∧
      md.p.lookup ctx.pType = some tokens := by
  unfold enforce at h
  cases hm : md.m.lookup ctx.mType with
  | none => simp [hm] at h
  | some m =>
    cases hr : md.r.lookup ctx.rType with
    | none => simp [hm, hr] at h
    | some ra =>
      cases hp : md.p.lookup ctx.pType with
      | none => simp [hm, hr, hp] at h
      | some tokens =>
        refine ⟨m, tokens, rfl, ?_, rfl⟩
        simp only [hm, hr, hp] at h
        by_cases hra : ra = rvals.length
        · rw [hra]
        · have : (ra != rvals.length) = true := by simpa using hra
          simp [this] at h

/-! ### adding links -/

/-- one rule against a grown link oracle: an error, or a cell that is a matched allow if it was -/
theorem evalRule_grow (ρ ρ' : Env) (m : Expr) (tokens : List String) (rule : Rule)
    (hr : ρ.r = ρ'.r) (hf : ρ.fn = ρ'.fn)
    (hl : LinkLe ρ.link ρ'.link) (hpos : m.positive = true) (c : Cell)
    (h : evalRule ρ m tokens rule = some c) :
    evalRule ρ' m tokens rule = none ∨
      ∃ c', evalRule ρ' m tokens rule = some c' ∧ (isAllow c = true → isAllow c' = true) := by
  unfold evalRule at h ⊢
  by_cases hlen : (tokens.length != rule.length) = true
  · simp [hlen] at h
  · simp only [hlen, if_false, Bool.false_eq_true] at h ⊢
    cases hv : evalExpr evalFuel { ρ with p := rule } m with
    | none => simp [hv] at h
    | some v =>
      rw [hv] at h
      rcases evalExpr_positive evalFuel { ρ with p := rule } { ρ' with p := rule } m hr rfl hf hl hpos v hv
        with hn | ⟨v', hv', hR⟩
      · left; rw [hn]
      · rw [hv']
        rcases hR with rfl | ⟨rfl, rfl⟩
        · right
          simp only at h
          cases ht : truthy v with
          | none => simp [ht] at h
          | some b =>
            simp only [ht, Option.some.injEq] at h
            exact ⟨c, by simp [ht, h], id⟩
        · right
          simp only [truthy, Option.some.injEq] at h
          subst h
          exact ⟨⟨true, ruleEft tokens rule⟩, rfl, by simp [isAllow]⟩

theorem enfDec_link_mono (m : Expr) (tokens : List String) (pol : List Rule) (ρ ρ' : Env)
    (hr : ρ.r = ρ'.r) (hf : ρ.fn = ρ'.fn)
    (hl : LinkLe ρ.link ρ'.link) (hpos : m.positive = true)
    (h : enfDec .allowOverride m tokens pol ρ = some true) :
    enfDec .allowOverride m tokens pol ρ' ≠ some false := by
  unfold enfDec at h ⊢
  split
  · rename_i hb
    rw [if_pos hb] at h
    intro h'
    cases h1 : loopFromE .allowOverride pol.length [] (pol.map (evalRule ρ m tokens)) with
    | none => simp [h1] at h
    | some r =>
      cases h2 : loopFromE .allowOverride pol.length [] (pol.map (evalRule ρ' m tokens)) with
      | none => simp [h2] at h'
      | some r' =>
        simp only [h1, Option.map_some, Option.some.injEq] at h
        simp only [h2, Option.map_some, Option.some.injEq] at h'
        obtain ⟨c, hc, ha⟩ := loopE_allow_true _ _ _ r h1 h
        obtain ⟨rule, hrule, he⟩ := List.mem_map.1 hc
        have hall := loopE_allow_false _ _ _ r' h2 h' (evalRule ρ' m tokens rule)
          (List.mem_map.2 ⟨rule, hrule, rfl⟩)
        obtain ⟨c2, hc2, hna⟩ := hall
        rcases evalRule_grow ρ ρ' m tokens rule hr hf hl hpos c he with hn | ⟨c', hc', himp⟩
        · rw [hn] at hc2; cases hc2
        · rw [hc'] at hc2
          cases hc2
          rw [himp ha] at hna
          cases hna
  · rename_i hb
    rw [if_neg hb] at h
    split
    · simp
    · rename_i hb2
      rw [if_neg hb2] at h
      cases hv : evalExpr evalFuel { ρ with p := List.replicate tokens.length "" } m with
      | none => simp [hv] at h
      | some v =>
        have hg := evalExpr_positive evalFuel { ρ with p := List.replicate tokens.length "" }
          { ρ' with p := List.replicate tokens.length "" } m hr rfl hf hl hpos v hv
        rw [hv] at h
        cases v with
        | bool b =>
          simp only [Option.some.injEq] at h
          have hb : b = true := by cases b <;> simp_all [elseBranch, mergeEffects, decision]
          subst hb
          rcases hg with hn | ⟨v', hv', hR⟩
          · rw [hn]; simp
          · have : v' = .bool true := by
              rcases hR with rfl | ⟨h1, _⟩
              · rfl
              · cases h1
            subst this
            rw [hv']
            simp [elseBranch, mergeEffects, decision]
        | _ => simp at h

/-! ### adding rules -/

theorem sublist_nil_of {α : Type} {l l' : List α} (h : l.Sublist l') (h' : l'.isEmpty = true) :
    l.isEmpty = true := by
  have : l' = [] := by simpa using h'
  subst this
  simp [List.sublist_nil.1 h]

theorem enfDec_rule_mono (m : Expr) (tokens : List String) (pol pol' : List Rule) (ρ : Env)
    (hsub : pol.Sublist pol') (hD24 : pol ≠ [] ∨ m.mentionsP = false)
    (h : enfDec .allowOverride m tokens pol ρ = some true) :
    enfDec .allowOverride m tokens pol' ρ ≠ some false := by
  unfold enfDec at h ⊢
  by_cases hb : (!pol.isEmpty && m.mentionsP) = true
  · rw [if_pos hb] at h
    simp only [Bool.and_eq_true, Bool.not_eq_true'] at hb
    have hb' : (!pol'.isEmpty && m.mentionsP) = true := by
      simp only [Bool.and_eq_true, Bool.not_eq_true']
      refine ⟨?_, hb.2⟩
      cases hx : pol'.isEmpty
      · rfl
      · rw [sublist_nil_of hsub hx] at hb; exact absurd hb.1 (by simp)
    rw [if_pos hb']
    intro h'
    cases h1 : loopFromE .allowOverride pol.length [] (pol.map (evalRule ρ m tokens)) with
    | none => simp [h1] at h
    | some r =>
      cases h2 : loopFromE .allowOverride pol'.length [] (pol'.map (evalRule ρ m tokens)) with
      | none => simp [h2] at h'
      | some r' =>
        simp only [h1, Option.map_some, Option.some.injEq] at h
        simp only [h2, Option.map_some, Option.some.injEq] at h'
        obtain ⟨c, hc, ha⟩ := loopE_allow_true _ _ _ r h1 h
        obtain ⟨rule, hrule, he⟩ := List.mem_map.1 hc
        obtain ⟨c2, hc2, hna⟩ := loopE_allow_false _ _ _ r' h2 h' (evalRule ρ m tokens rule)
          (List.mem_map.2 ⟨rule, hsub.subset hrule, rfl⟩)
        rw [he] at hc2
        cases hc2
        rw [ha] at hna
        cases hna
  · rw [if_neg hb] at h
    have hmp : m.mentionsP = false := by
      rcases hD24 with hne | hmp
      · cases pol with
        | nil => exact absurd rfl hne
        | cons a l => simpa using hb
      · exact hmp
    have hb' : ¬ ((!pol'.isEmpty && m.mentionsP) = true) := by simp [hmp]
    rw [if_neg hb']
    by_cases hb2 : (m.hasEval && pol.isEmpty) = true
    · simp [hb2] at h
    · rw [if_neg hb2] at h
      split
      · simp
      · rw [h]; simp

theorem enfDec_deny_mono (m : Expr) (tokens : List String) (pol pol' : List Rule) (ρ : Env)
    (hsub : pol.Sublist pol')
    (h : enfDec .denyOverride m tokens pol ρ = some false) :
    enfDec .denyOverride m tokens pol' ρ ≠ some true := by
  unfold enfDec at h ⊢
  by_cases hb : (!pol.isEmpty && m.mentionsP) = true
  · rw [if_pos hb] at h
    simp only [Bool.and_eq_true, Bool.not_eq_true'] at hb
    have hb' : (!pol'.isEmpty && m.mentionsP) = true := by
      simp only [Bool.and_eq_true, Bool.not_eq_true']
      refine ⟨?_, hb.2⟩
      cases hx : pol'.isEmpty
      · rfl
      · rw [sublist_nil_of hsub hx] at hb; exact absurd hb.1 (by simp)
    rw [if_pos hb']
    intro h'
    cases h1 : loopFromE .denyOverride pol.length [] (pol.map (evalRule ρ m tokens)) with
    | none => simp [h1] at h
    | some r =>
      cases h2 : loopFromE .denyOverride pol'.length [] (pol'.map (evalRule ρ m tokens)) with
      | none => simp [h2] at h'
      | some r' =>
        simp only [h1, Option.map_some, Option.some.injEq] at h
        simp only [h2, Option.map_some, Option.some.injEq] at h'
        have hne : pol.map (evalRule ρ m tokens) ≠ [] := by
          intro e
          have : pol = [] := by simpa using e
          subst this
          simp at hb
        obtain ⟨c, hc, ha⟩ := loopE_deny_false _ _ _ (by simp) hne r h1 h
        obtain ⟨rule, hrule, he⟩ := List.mem_map.1 hc
        obtain ⟨c2, hc2, hna⟩ := loopE_deny_true _ _ _ (by simp) r' h2 h' (evalRule ρ m tokens rule)
          (List.mem_map.2 ⟨rule, hsub.subset hrule, rfl⟩)
        rw [he] at hc2
        cases hc2
        rw [ha] at hna
        cases hna
  · rw [if_neg hb] at h
    exfalso
    by_cases hb2 : (m.hasEval && pol.isEmpty) = true
    · simp [hb2] at h
    · rw [if_neg hb2] at h
      split at h
      · rename_i b _
        cases b <;> simp [elseBranch, mergeEffects, decision] at h
      · cases h

/-! ### permuting rules -/

/-- the loop over a permutation cannot flip `true` to `false` -/
theorem loopE_perm_tf (k : EffectKind)
    (hnp : k = .allowOverride ∨ k = .denyOverride ∨ k = .allowAndDeny)
    (todo todo' : List (Option Cell)) (hperm : todo.Perm todo')
    (r r' : Eft × Option Nat)
    (h : loopFromE k todo.length [] todo = some r) (h' : loopFromE k todo'.length [] todo' = some r')
    (hd : decision r = true) (hd' : decision r' = false) : False := by
  have hne' : todo ≠ [] → todo' ≠ [] := by
    intro hne e
    subst e
    exact hne hperm.eq_nil
  rcases hnp with rfl | rfl | rfl
  · obtain ⟨c, hc, ha⟩ := loopE_allow_true _ _ _ r h hd
    obtain ⟨c2, hc2, hna⟩ := loopE_allow_false _ _ _ r' h' hd' (some c) (hperm.mem_iff.1 hc)
    cases hc2
    rw [ha] at hna
    cases hna
  · have hne : todo' ≠ [] := by
      apply hne'
      intro e
      subst e
      rw [loopE_nil] at h
      cases h
      simp [decision] at hd
    obtain ⟨c, hc, ha⟩ := loopE_deny_false _ _ _ (by simp) hne r' h' hd'
    obtain ⟨c2, hc2, hna⟩ := loopE_deny_true _ _ _ (by simp) r h hd (some c) (hperm.mem_iff.2 hc)
    cases hc2
    rw [ha] at hna
    cases hna
  · have hne : todo' ≠ [] := by
      apply hne'
      intro e
      subst e
      rw [loopE_nil] at h
      cases h
      simp [decision] at hd
    obtain ⟨hall, c, hc, ha⟩ := loopE_aad_true _ _ _ (by simp) r h hd
    have hc : some c ∈ todo := by
      rcases hc with hc | hc
      · cases hc
      · exact hc
    rcases loopE_aad_false _ _ _ (by simp) hne r' h' hd' with ⟨c', hc', hdn⟩ | hna
    · obtain ⟨c2, hc2, hnd⟩ := hall (some c') (hperm.mem_iff.2 hc')
      cases hc2
      rw [hdn] at hnd
      cases hnd
    · have := hna c (.inr (hperm.mem_iff.1 hc))
      rw [ha] at this
      cases this

theorem enfDec_perm (k : EffectKind)
    (hnp : k = .allowOverride ∨ k = .denyOverride ∨ k = .allowAndDeny)
    (m : Expr) (tokens : List String) (pol pol' : List Rule) (ρ : Env)
    (hperm : pol.Perm pol') (d d' : Bool)
    (h : enfDec k m tokens pol ρ = some d) (h' : enfDec k m tokens pol' ρ = some d') : d = d' := by
  have hemp : pol.isEmpty = pol'.isEmpty := by
    cases pol with
    | nil => rw [hperm.nil_eq]
    | cons a l =>
      cases pol' with
      | nil => exact absurd hperm.eq_nil (by simp)
      | cons a' l' => rfl
  unfold enfDec at h h'
  rw [← hemp] at h'
  by_cases hb : (!pol.isEmpty && m.mentionsP) = true
  · rw [if_pos hb] at h h'
    cases h1 : loopFromE k pol.length [] (pol.map (evalRule ρ m tokens)) with
    | none => simp [h1] at h
    | some r =>
      cases h2 : loopFromE k pol'.length [] (pol'.map (evalRule ρ m tokens)) with
      | none => simp [h2] at h'
      | some r' =>
        simp only [h1, Option.map_some, Option.some.injEq] at h
        simp only [h2, Option.map_some, Option.some.injEq] at h'
        have hp := hperm.map (evalRule ρ m tokens)
        have e1 : pol.length = (pol.map (evalRule ρ m tokens)).length := by simp
        have e2 : pol'.length = (pol'.map (evalRule ρ m tokens)).length := by simp
        rw [e1] at h1
        rw [e2] at h2
        cases d <;> cases d'
        · rfl
        · exact (loopE_perm_tf k hnp _ _ hp.symm r' r h2 h1 h' h).elim
        · exact (loopE_perm_tf k hnp _ _ hp r r' h1 h2 h h').elim
        · rfl
  · rw [if_neg hb] at h h'
    by_cases hb2 : (m.hasEval && pol.isEmpty) = true
    · simp [hb2] at h
    · rw [if_neg hb2] at h h'
      rw [h] at h'
      cases h'
      rfl

end Casbin.C17
