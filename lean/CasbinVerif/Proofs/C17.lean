import CasbinVerif.Spec.Mono
import CasbinVerif.Spec.Store
import CasbinVerif.Spec.Perm
import CasbinVerif.Proofs.RoleGraph
import CasbinVerif.Proofs.Enforce
import CasbinVerif.Proofs.Effector
/-
  Lemmas for Properties/C17.lean.
-/
namespace Casbin.C17

end Casbin.C17
