import CasbinVerif.Spec.Mono
import CasbinVerif.Proofs.Enforce
/-
  Lemmas for Properties/C17.lean, part 1: matcher evaluation against a growing link oracle.
-/
namespace Casbin.C17

/-- an expression without `g()` and `eval()` sees neither the links, nor the hook, nor the table -/
theorem evalCore_gFree (hook hook' : Expr → Res) (ρ ρ' : Env) (e : Expr)
    (hr : ρ.r = ρ'.r) (hp : ρ.p = ρ'.p) (hf : ρ.fn = ρ'.fn) (hg : e.gFree = true) :
    evalCore hook ρ e = evalCore hook' ρ' e := by
  induction e with
  | lit v => rfl
  | blit b => rfl
  | rTok i => simp only [evalCore, hr]
  | pTok i => simp only [evalCore, hp]
  | badTok => rfl
  | rAttr i f => simp only [evalCore, hr]
  | and a b iha ihb | or a b iha ihb | eq a b iha ihb | ne a b iha ihb | lt a b iha ihb
  | le a b iha ihb | gt a b iha ihb | ge a b iha ihb | call2 fn a b iha ihb =>
    simp only [Expr.gFree, Bool.and_eq_true] at hg
    simp only [evalCore, iha hg.1, ihb hg.2, hf]
  | not a iha | inLits a lits iha =>
    simp only [Expr.gFree] at hg
    simp only [evalCore, iha hg]
  | call3 fn a b c iha ihb ihc =>
    simp only [Expr.gFree, Bool.and_eq_true] at hg
    simp only [evalCore, iha hg.1.1, ihb hg.1.2, ihc hg.2, hf]
  | g2 gt a b | g3 gt a b c | eval a => simp [Expr.gFree] at hg

theorem evalExpr_gFree (fuel fuel' : Nat) (ρ ρ' : Env) (e : Expr)
    (hr : ρ.r = ρ'.r) (hp : ρ.p = ρ'.p) (hf : ρ.fn = ρ'.fn) (hg : e.gFree = true) :
    evalExpr fuel ρ e = evalExpr fuel' ρ' e := by
  cases fuel <;> cases fuel' <;> exact evalCore_gFree _ _ ρ ρ' e hr hp hf hg

/-- how a value may change when links are added: not at all, or from `false` to `true` -/
def Rv (v v' : Val) : Prop := v = v' ∨ (v = .bool false ∧ v' = .bool true)

theorem Rv.rfl' (v : Val) : Rv v v := .inl rfl

/-- the outcome of a sub-term after links were added: an error, or a value related by `Rv` -/
def Grow (v : Val) (o' : Res) : Prop := o' = none ∨ ∃ v', o' = some v' ∧ Rv v v'

def andK (l : Val) (rb : Res) : Res :=
  match l with
  | .bool false => some (.bool false)
  | l => match rb with
    | none => none
    | some r => match l, r with
      | .bool x, .bool y => some (.bool (x && y))
      | _, _ => none

def orK (l : Val) (rb : Res) : Res :=
  match l with
  | .bool true => some (.bool true)
  | l => match rb with
    | none => none
    | some r => match l, r with
      | .bool x, .bool y => some (.bool (x || y))
      | _, _ => none

theorem evalCore_and (hook : Expr → Res) (ρ : Env) (a b : Expr) :
    evalCore hook ρ (.and a b) = (evalCore hook ρ a).bind (fun l => andK l (evalCore hook ρ b)) := by
  simp only [evalCore]
  cases evalCore hook ρ a with
  | none => rfl
  | some l => cases l with
    | bool x => cases x <;> rfl
    | _ => rfl

theorem evalCore_or (hook : Expr → Res) (ρ : Env) (a b : Expr) :
    evalCore hook ρ (.or a b) = (evalCore hook ρ a).bind (fun l => orK l (evalCore hook ρ b)) := by
  simp only [evalCore]
  cases evalCore hook ρ a with
  | none => rfl
  | some l => cases l with
    | bool x => cases x <;> rfl
    | _ => rfl

theorem andK_grow (l l' : Val) (rb rb' : Res) (v : Val) (hl : Rv l l')
    (hb : ∀ r, rb = some r → Grow r rb') (h : andK l rb = some v) : Grow v (andK l' rb') := by
  rcases hl with rfl | ⟨rfl, rfl⟩
  · cases l with
    | bool x =>
      cases x with
      | false =>
        simp only [andK, Option.some.injEq] at h
        subst h
        exact .inr ⟨_, rfl, .inl rfl⟩
      | true =>
        cases rb with
        | none => simp [andK] at h
        | some r =>
          rcases hb r rfl with rfl | ⟨r', rfl, hR⟩
          · exact .inl rfl
          · cases r with
            | bool y =>
              simp only [andK, Bool.true_and, Option.some.injEq] at h
              subst h
              rcases hR with rfl | ⟨hy, rfl⟩
              · exact .inr ⟨_, rfl, .inl rfl⟩
              · cases hy
                exact .inr ⟨_, rfl, .inr ⟨rfl, rfl⟩⟩
            | _ => simp [andK] at h
    | _ => cases rb <;> simp [andK] at h
  · simp only [andK, Option.some.injEq] at h
    subst h
    cases rb' with
    | none => exact .inl rfl
    | some r' =>
      cases r' with
      | bool y => cases y
                  · exact .inr ⟨_, rfl, .inl rfl⟩
                  · exact .inr ⟨_, rfl, .inr ⟨rfl, rfl⟩⟩
      | _ => exact .inl rfl

theorem orK_grow (l l' : Val) (rb rb' : Res) (v : Val) (hl : Rv l l')
    (hb : ∀ r, rb = some r → Grow r rb') (h : orK l rb = some v) : Grow v (orK l' rb') := by
  rcases hl with rfl | ⟨rfl, rfl⟩
  · cases l with
    | bool x =>
      cases x with
      | true =>
        simp only [orK, Option.some.injEq] at h
        subst h
        exact .inr ⟨_, rfl, .inl rfl⟩
      | false =>
        cases rb with
        | none => simp [orK] at h
        | some r =>
          rcases hb r rfl with rfl | ⟨r', rfl, hR⟩
          · exact .inl rfl
          · cases r with
            | bool y =>
              simp only [orK, Bool.false_or, Option.some.injEq] at h
              subst h
              rcases hR with rfl | ⟨hy, rfl⟩
              · exact .inr ⟨_, rfl, .inl rfl⟩
              · cases hy
                exact .inr ⟨_, rfl, .inr ⟨rfl, rfl⟩⟩
            | _ => simp [orK] at h
    | _ => cases rb <;> simp [orK] at h
  · cases rb with
    | none => simp [orK] at h
    | some r =>
      cases r with
      | bool y =>
        simp only [orK, Bool.false_or, Option.some.injEq] at h
        subst h
        cases y
        · exact .inr ⟨_, rfl, .inr ⟨rfl, rfl⟩⟩
        · exact .inr ⟨_, rfl, .inl rfl⟩
      | _ => simp [orK] at h

theorem g2_grow (hook hook' : Expr → Res) (ρ ρ' : Env) (gt : String) (a b : Expr)
    (hr : ρ.r = ρ'.r) (hp : ρ.p = ρ'.p) (hf : ρ.fn = ρ'.fn)
    (hl : LinkLe ρ.link ρ'.link) (ha : a.gFree = true) (hb : b.gFree = true) (v : Val)
    (h : evalCore hook ρ (.g2 gt a b) = some v) : Grow v (evalCore hook' ρ' (.g2 gt a b)) := by
  simp only [evalCore] at h ⊢
  rw [← evalCore_gFree hook hook' ρ ρ' a hr hp hf ha, ← evalCore_gFree hook hook' ρ ρ' b hr hp hf hb]
  revert h
  cases evalCore hook ρ a with
  | none => intro h; simp at h
  | some x =>
    cases evalCore hook ρ b with
    | none => intro h; simp at h
    | some y =>
      intro h
      cases x <;> cases y <;> simp only [Option.some.injEq, reduceCtorEq] at h ⊢
      rename_i u w
      subst h
      cases hlk : ρ.link gt [u, w]
      · cases hlk' : ρ'.link gt [u, w]
        · exact .inr ⟨_, rfl, .inl rfl⟩
        · exact .inr ⟨_, rfl, .inr ⟨rfl, rfl⟩⟩
      · rw [hl _ _ hlk]
        exact .inr ⟨_, rfl, .inl rfl⟩

theorem g3_grow (hook hook' : Expr → Res) (ρ ρ' : Env) (gt : String) (a b c : Expr)
    (hr : ρ.r = ρ'.r) (hp : ρ.p = ρ'.p) (hf : ρ.fn = ρ'.fn)
    (hl : LinkLe ρ.link ρ'.link) (ha : a.gFree = true) (hb : b.gFree = true) (hc : c.gFree = true) (v : Val)
    (h : evalCore hook ρ (.g3 gt a b c) = some v) : Grow v (evalCore hook' ρ' (.g3 gt a b c)) := by
  simp only [evalCore] at h ⊢
  rw [← evalCore_gFree hook hook' ρ ρ' a hr hp hf ha, ← evalCore_gFree hook hook' ρ ρ' b hr hp hf hb,
    ← evalCore_gFree hook hook' ρ ρ' c hr hp hf hc]
  revert h
  cases evalCore hook ρ a with
  | none => intro h; simp at h
  | some x =>
    cases evalCore hook ρ b with
    | none => intro h; simp at h
    | some y =>
      cases evalCore hook ρ c with
      | none => intro h; simp at h
      | some z =>
        intro h
        cases x <;> cases y <;> cases z <;> simp only [Option.some.injEq, reduceCtorEq] at h ⊢
        rename_i u w d
        subst h
        cases hlk : ρ.link gt [u, w, d]
        · cases hlk' : ρ'.link gt [u, w, d]
          · exact .inr ⟨_, rfl, .inl rfl⟩
          · exact .inr ⟨_, rfl, .inr ⟨rfl, rfl⟩⟩
        · rw [hl _ _ hlk]
          exact .inr ⟨_, rfl, .inl rfl⟩

/-- a positive expression that evaluated to `v` evaluates, after links were added, to an error,
    to `v`, or (if `v` was `false`) to `true` -/
theorem evalCore_positive (hook hook' : Expr → Res) (ρ ρ' : Env) (e : Expr)
    (hr : ρ.r = ρ'.r) (hp : ρ.p = ρ'.p) (hf : ρ.fn = ρ'.fn)
    (hl : LinkLe ρ.link ρ'.link) (hpos : e.positive = true) (v : Val)
    (h : evalCore hook ρ e = some v) : Grow v (evalCore hook' ρ' e) := by
  have gf : ∀ e : Expr, e.gFree = true → ∀ v, evalCore hook ρ e = some v →
      Grow v (evalCore hook' ρ' e) := by
    intro e hg v h
    rw [← evalCore_gFree hook hook' ρ ρ' e hr hp hf hg, h]
    exact .inr ⟨v, rfl, .inl rfl⟩
  induction e generalizing v with
  | and a b iha ihb =>
    simp only [Expr.positive, Bool.and_eq_true] at hpos
    rw [evalCore_and] at h ⊢
    cases ha : evalCore hook ρ a with
    | none => simp [ha] at h
    | some l =>
      rw [ha, Option.bind_some] at h
      rcases iha hpos.1 l ha with ha' | ⟨l', ha', hR⟩
      · left; rw [ha']; rfl
      · rw [ha', Option.bind_some]
        exact andK_grow l l' _ _ v hR (fun r hb => ihb hpos.2 r hb) h
  | or a b iha ihb =>
    simp only [Expr.positive, Bool.and_eq_true] at hpos
    rw [evalCore_or] at h ⊢
    cases ha : evalCore hook ρ a with
    | none => simp [ha] at h
    | some l =>
      rw [ha, Option.bind_some] at h
      rcases iha hpos.1 l ha with ha' | ⟨l', ha', hR⟩
      · left; rw [ha']; rfl
      · rw [ha', Option.bind_some]
        exact orK_grow l l' _ _ v hR (fun r hb => ihb hpos.2 r hb) h
  | g2 gt a b _ _ =>
    simp only [Expr.positive, Bool.and_eq_true] at hpos
    exact g2_grow hook hook' ρ ρ' gt a b hr hp hf hl hpos.1 hpos.2 v h
  | g3 gt a b c _ _ _ =>
    simp only [Expr.positive, Bool.and_eq_true] at hpos
    exact g3_grow hook hook' ρ ρ' gt a b c hr hp hf hl hpos.1.1 hpos.1.2 hpos.2 v h
  | _ => exact gf _ hpos v h

theorem evalExpr_positive (fuel : Nat) (ρ ρ' : Env) (e : Expr)
    (hr : ρ.r = ρ'.r) (hp : ρ.p = ρ'.p) (hf : ρ.fn = ρ'.fn)
    (hl : LinkLe ρ.link ρ'.link) (hpos : e.positive = true) (v : Val)
    (h : evalExpr fuel ρ e = some v) : Grow v (evalExpr fuel ρ' e) := by
  cases fuel <;> exact evalCore_positive _ _ ρ ρ' e hr hp hf hl hpos v h

end Casbin.C17
