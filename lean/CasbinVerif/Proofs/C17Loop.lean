import CasbinVerif.Spec.Mono
import CasbinVerif.Proofs.Enforce
import CasbinVerif.Proofs.Effector
/-
  Lemmas for Properties/C17.lean, part 2: what the streaming loop with per-rule errors has seen
  when it answers, per effect kind.
-/
namespace Casbin.C17

theorem loopE_nil (k : EffectKind) (len : Nat) (filled : List Cell) :
    loopFromE k len filled [] = some (.indeterminate, none) := by
  simp [loopFromE]

/-! ### allow-override -/

theorem loopE_allow_cons (len : Nat) (filled : List Cell) (c : Cell) (rest : List (Option Cell)) :
    loopFromE .allowOverride len filled (some c :: rest) =
      if isAllow c then some (.allow, some filled.length)
      else loopFromE .allowOverride len (filled ++ [c]) rest := by
  simp only [loopFromE, mergeEffects, getD_mid]
  cases hm : c.matched <;> cases he : c.eft <;> simp [isAllow, hm, he] <;>
    cases rest <;> simp [loopFromE]

/-- a granting answer comes from a matched allow rule that evaluated without error -/
theorem loopE_allow_true (len : Nat) (filled : List Cell) (todo : List (Option Cell))
    (r : Eft × Option Nat) (h : loopFromE .allowOverride len filled todo = some r)
    (hd : decision r = true) : ∃ c, some c ∈ todo ∧ isAllow c = true := by
  induction todo generalizing filled with
  | nil =>
    rw [loopE_nil] at h
    cases h
    simp [decision] at hd
  | cons x rest ih =>
    cases x with
    | none => simp [loopFromE] at h
    | some c =>
      rw [loopE_allow_cons] at h
      by_cases hc : isAllow c = true
      · exact ⟨c, by simp, hc⟩
      · rw [if_neg hc] at h
        obtain ⟨c', hm, ha⟩ := ih _ h
        exact ⟨c', List.mem_cons_of_mem _ hm, ha⟩

/-- a denying answer comes after every rule evaluated without error, none a matched allow -/
theorem loopE_allow_false (len : Nat) (filled : List Cell) (todo : List (Option Cell))
    (r : Eft × Option Nat) (h : loopFromE .allowOverride len filled todo = some r)
    (hd : decision r = false) : ∀ x ∈ todo, ∃ c, x = some c ∧ isAllow c = false := by
  induction todo generalizing filled with
  | nil => intro x hx; cases hx
  | cons x rest ih =>
    cases x with
    | none => simp [loopFromE] at h
    | some c =>
      rw [loopE_allow_cons] at h
      by_cases hc : isAllow c = true
      · rw [if_pos hc] at h
        cases h
        simp [decision] at hd
      · rw [if_neg hc] at h
        intro y hy
        rcases List.mem_cons.1 hy with rfl | hy
        · exact ⟨c, rfl, by simpa using hc⟩
        · exact ih _ h y hy

/-! ### deny-override -/

theorem loopE_deny_cons (len : Nat) (filled : List Cell) (c : Cell) (rest : List (Option Cell)) :
    loopFromE .denyOverride len filled (some c :: rest) =
      if isDeny c then some (.deny, some filled.length)
      else if filled.length + 1 = len then some (.allow, none)
      else loopFromE .denyOverride len (filled ++ [c]) rest := by
  simp only [loopFromE, mergeEffects, getD_mid]
  by_cases hd : isDeny c = true
  · have hd' := hd
    simp only [isDeny] at hd'
    simp [hd, hd']
  · have hd' := hd
    simp only [isDeny] at hd'
    simp only [hd, hd']
    by_cases hl : filled.length + 1 = len
    · simp [hl]
    · simp only [hl, if_false]
      cases rest <;> simp [loopFromE]

/-- a denying answer (on a non-empty policy) comes from a matched deny rule -/
theorem loopE_deny_false (len : Nat) (filled : List Cell) (todo : List (Option Cell))
    (hlen : len = filled.length + todo.length) (hne : todo ≠ [])
    (r : Eft × Option Nat) (h : loopFromE .denyOverride len filled todo = some r)
    (hd : decision r = false) : ∃ c, some c ∈ todo ∧ isDeny c = true := by
  induction todo generalizing filled with
  | nil => exact absurd rfl hne
  | cons x rest ih =>
    cases x with
    | none => simp [loopFromE] at h
    | some c =>
      rw [loopE_deny_cons] at h
      by_cases hc : isDeny c = true
      · exact ⟨c, by simp, hc⟩
      · rw [if_neg hc] at h
        by_cases hl : filled.length + 1 = len
        · rw [if_pos hl] at h
          cases h
          simp [decision] at hd
        · rw [if_neg hl] at h
          have hne' : rest ≠ [] := by
            intro e; subst e; simp at hlen; omega
          obtain ⟨c', hm, ha⟩ := ih (filled ++ [c]) (by simp at hlen ⊢; omega) hne' h
          exact ⟨c', List.mem_cons_of_mem _ hm, ha⟩

/-- a granting answer comes after every rule evaluated without error, none a matched deny -/
theorem loopE_deny_true (len : Nat) (filled : List Cell) (todo : List (Option Cell))
    (hlen : len = filled.length + todo.length)
    (r : Eft × Option Nat) (h : loopFromE .denyOverride len filled todo = some r)
    (hd : decision r = true) : ∀ x ∈ todo, ∃ c, x = some c ∧ isDeny c = false := by
  induction todo generalizing filled with
  | nil => intro x hx; cases hx
  | cons x rest ih =>
    cases x with
    | none => simp [loopFromE] at h
    | some c =>
      rw [loopE_deny_cons] at h
      by_cases hc : isDeny c = true
      · rw [if_pos hc] at h
        cases h
        simp [decision] at hd
      · rw [if_neg hc] at h
        have hc' : isDeny c = false := by simpa using hc
        by_cases hl : filled.length + 1 = len
        · have : rest = [] := by
            simp at hlen
            exact List.eq_nil_of_length_eq_zero (by omega)
          subst this
          intro y hy
          simp at hy
          exact ⟨c, hy, hc'⟩
        · rw [if_neg hl] at h
          intro y hy
          rcases List.mem_cons.1 hy with rfl | hy
          · exact ⟨c, rfl, hc'⟩
          · exact ih (filled ++ [c]) (by simp at hlen ⊢; omega) h y hy

/-! ### allow-and-deny -/

theorem loopE_aad_cons (len : Nat) (filled : List Cell) (c : Cell) (rest : List (Option Cell))
    (hlt : filled.length + 1 < len) :
    loopFromE .allowAndDeny len filled (some c :: rest) =
      if isDeny c then some (.deny, some filled.length)
      else loopFromE .allowAndDeny len (filled ++ [c]) rest := by
  simp only [loopFromE, mergeEffects, getD_mid]
  by_cases hd : isDeny c = true
  · have hd' := hd
    simp only [isDeny] at hd'
    simp [hd, hd']
  · have hd' := hd
    simp only [isDeny] at hd'
    simp only [hd, hd', hlt, if_true]
    cases rest <;> simp [loopFromE]

theorem loopE_aad_last (len : Nat) (filled : List Cell) (c : Cell) (hl : len = filled.length + 1)
    (r : Eft × Option Nat) (h : loopFromE .allowAndDeny len filled [some c] = some r) :
    decision r = (!isDeny c && (filled ++ [c]).any isAllow) := by
  simp only [loopFromE, mergeEffects, getD_mid] at h
  by_cases hd : isDeny c = true
  · have hd' := hd
    simp only [isDeny] at hd'
    simp [hd'] at h
    subst h
    simp [decision, hd]
  · have hd' := hd
    simp only [isDeny] at hd'
    have hlt : ¬ (filled.length + 1 < len) := by omega
    have hz : len - filled.length - 1 = 0 := by omega
    simp only [hd', hlt, hz, List.replicate_zero, List.append_nil, if_false] at h
    have hs := findIdx?_isSome_iff_any (fun c => c.matched && decide (c.eft = Eft.allow)) (filled ++ [c])
    have hfa : (fun c : Cell => c.matched && decide (c.eft = Eft.allow)) = isAllow := rfl
    rw [hfa] at hs h
    have hdf : isDeny c = false := by simpa using hd
    rw [hdf, ← hs]
    cases hfi : List.findIdx? isAllow (filled ++ [c]) with
    | none =>
      rw [hfi] at h
      simp at h
      subst h
      simp [decision]
    | some i =>
      rw [hfi] at h
      simp at h
      subst h
      simp [decision]

/-- a granting answer comes after every rule evaluated without error, none a matched deny,
    one of them a matched allow -/
theorem loopE_aad_true (len : Nat) (filled : List Cell) (todo : List (Option Cell))
    (hlen : len = filled.length + todo.length)
    (r : Eft × Option Nat) (h : loopFromE .allowAndDeny len filled todo = some r)
    (hd : decision r = true) :
    (∀ x ∈ todo, ∃ c, x = some c ∧ isDeny c = false) ∧
      ∃ c, (c ∈ filled ∨ some c ∈ todo) ∧ isAllow c = true := by
  induction todo generalizing filled with
  | nil =>
    rw [loopE_nil] at h
    cases h
    simp [decision] at hd
  | cons x rest ih =>
    cases x with
    | none => simp [loopFromE] at h
    | some c =>
      cases rest with
      | nil =>
        have := loopE_aad_last len filled c (by simpa using hlen) r h
        rw [hd] at this
        have this := this.symm
        simp only [Bool.and_eq_true, Bool.not_eq_true', List.any_eq_true, List.mem_append,
          List.mem_singleton] at this
        obtain ⟨h1, c', hm, ha⟩ := this
        refine ⟨?_, c', ?_, ha⟩
        · intro y hy
          simp at hy
          exact ⟨c, hy, h1⟩
        · rcases hm with hm | rfl
          · exact .inl hm
          · exact .inr (by simp)
      | cons x' rest' =>
        rw [loopE_aad_cons _ _ _ _ (by simp at hlen; omega)] at h
        by_cases hc : isDeny c = true
        · rw [if_pos hc] at h
          cases h
          simp [decision] at hd
        · rw [if_neg hc] at h
          have hc' : isDeny c = false := by simpa using hc
          obtain ⟨h1, c', hm, ha⟩ := ih (filled ++ [c]) (by simp at hlen ⊢; omega) h
          refine ⟨?_, c', ?_, ha⟩
          · intro y hy
            rcases List.mem_cons.1 hy with rfl | hy
            · exact ⟨c, rfl, hc'⟩
            · exact h1 y hy
          · rcases hm with hm | hm
            · rcases List.mem_append.1 hm with hm | hm
              · exact .inl hm
              · simp at hm; subst hm; exact .inr (by simp)
            · exact .inr (List.mem_cons_of_mem _ hm)

/-- a denying answer (on a non-empty policy) comes from a matched deny rule, or after every rule
    evaluated, none a matched allow -/
theorem loopE_aad_false (len : Nat) (filled : List Cell) (todo : List (Option Cell))
    (hlen : len = filled.length + todo.length) (hne : todo ≠ [])
    (r : Eft × Option Nat) (h : loopFromE .allowAndDeny len filled todo = some r)
    (hd : decision r = false) :
    (∃ c, some c ∈ todo ∧ isDeny c = true) ∨
      ∀ c, (c ∈ filled ∨ some c ∈ todo) → isAllow c = false := by
  induction todo generalizing filled with
  | nil => exact absurd rfl hne
  | cons x rest ih =>
    cases x with
    | none => simp [loopFromE] at h
    | some c =>
      by_cases hc : isDeny c = true
      · exact .inl ⟨c, by simp, hc⟩
      · have hc' : isDeny c = false := by simpa using hc
        cases rest with
        | nil =>
          have := loopE_aad_last len filled c (by simpa using hlen) r h
          rw [hd, hc'] at this
          have this := this.symm
          simp only [Bool.not_false, Bool.true_and] at this
          right
          intro c' hm
          have hall := List.any_eq_false.1 this
          have : c' ∈ filled ++ [c] := by
            rcases hm with hm | hm
            · exact List.mem_append_left _ hm
            · simp at hm; subst hm; simp
          simpa using hall c' this
        | cons x' rest' =>
          rw [loopE_aad_cons _ _ _ _ (by simp at hlen; omega), if_neg hc] at h
          rcases ih (filled ++ [c]) (by simp at hlen ⊢; omega) (by simp) h with ⟨c', hm, ha⟩ | hall
          · exact .inl ⟨c', List.mem_cons_of_mem _ hm, ha⟩
          · right
            intro c' hm
            apply hall
            rcases hm with hm | hm
            · exact .inl (List.mem_append_left _ hm)
            · rcases List.mem_cons.1 hm with he | hm
              · cases he; exact .inl (by simp)
              · exact .inr hm

end Casbin.C17
