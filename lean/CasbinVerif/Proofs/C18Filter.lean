import CasbinVerif.Model.Filter
/-
  C18 helper lemmas: the naive comma split on a line of comma-free fields, and `filterWords`
  against the positional reading of a filter.
-/
namespace Casbin.Cfg

theorem splitComma_ne_nil (s : List Char) : splitComma s ≠ [] := by
  cases s with
  | nil => simp [splitComma]
  | cons c cs =>
    simp only [splitComma]
    split
    · simp
    · split <;> simp

theorem splitComma_cons (c : Char) (cs : List Char) :
    splitComma (c :: cs) =
      if c == ',' then [] :: splitComma cs
      else ((splitComma cs).headD [] |> (c :: ·)) :: (splitComma cs).tail := by
  have h := splitComma_ne_nil cs
  simp only [splitComma]
  cases hs : splitComma cs with
  | nil => exact absurd hs h
  | cons a t => simp

/-- a comma-free field is one piece -/
theorem splitComma_field (f : List Char) (hf : ∀ c ∈ f, c ≠ ',') : splitComma f = [f] := by
  induction f with
  | nil => simp [splitComma]
  | cons c cs ih =>
    have hc : (c == ',') = false := by simpa using hf c List.mem_cons_self
    rw [splitComma_cons, ih (fun x hx => hf x (List.mem_cons_of_mem _ hx))]
    simp [hc]

/-- a comma-free field followed by a comma is split off -/
theorem splitComma_field_comma (f rest : List Char) (hf : ∀ c ∈ f, c ≠ ',') :
    splitComma (f ++ ',' :: rest) = f :: splitComma rest := by
  induction f with
  | nil => rw [List.nil_append, splitComma_cons]; simp
  | cons c cs ih =>
    have hc : (c == ',') = false := by simpa using hf c List.mem_cons_self
    rw [List.cons_append, splitComma_cons, ih (fun x hx => hf x (List.mem_cons_of_mem _ hx))]
    simp [hc]

/-- the split undoes any joining function with the equations of `C18.joinFields` -/
theorem splitComma_join (J : List (List Char) → List Char)
    (h1 : ∀ f, J [f] = f) (h2 : ∀ f g fs, J (f :: g :: fs) = f ++ ',' :: J (g :: fs))
    (f : List Char) (fs : List (List Char)) (hf : ∀ g ∈ f :: fs, ∀ c ∈ g, c ≠ ',') :
    splitComma (J (f :: fs)) = f :: fs := by
  induction fs generalizing f with
  | nil => rw [h1]; exact splitComma_field f (hf f List.mem_cons_self)
  | cons g fs ih =>
    rw [h2, splitComma_field_comma _ _ (hf f List.mem_cons_self),
      ih g (fun x hx => hf x (List.mem_cons_of_mem _ hx))]

end Casbin.Cfg

namespace Casbin.Flt
open Casbin.Cfg

theorem wordsMismatch_eq (flt rule : List (List Char)) :
    wordsMismatch flt rule = !(flt.zip rule).all (fun x => x.1.isEmpty || trim x.1 == trim x.2) := by
  induction flt generalizing rule with
  | nil => simp [wordsMismatch]
  | cons v vs ih =>
    cases rule with
    | nil => simp [wordsMismatch]
    | cons l ls =>
      simp only [wordsMismatch, ih, List.zip_cons_cons, List.all_cons, Bool.not_and]
      cases v.isEmpty <;> simp [bne]

/-- `filterWords` on a split line `pt :: rule`: skip unless the filter is at most as long as the
    rule and every non-empty value equals (up to blanks) the field in its position -/
theorem filterWords_eq (pt : List Char) (rule flt : List (List Char)) :
    filterWords (pt :: rule) flt =
      !(decide (flt.length ≤ rule.length) &&
        (flt.zip rule).all (fun x => x.1.isEmpty || trim x.1 == trim x.2)) := by
  simp only [filterWords, List.length_cons, List.drop_succ_cons, List.drop_zero, wordsMismatch_eq]
  by_cases h : flt.length ≤ rule.length
  · have : ¬ (rule.length + 1 < flt.length + 1) := by omega
    simp [this, h]
  · have : rule.length + 1 < flt.length + 1 := by omega
    simp [this, h]

/-- `filterLine` on the joined line of comma-free fields -/
theorem filterLine_join (J : List (List Char) → List Char)
    (h1 : ∀ f, J [f] = f) (h2 : ∀ f g fs, J (f :: g :: fs) = f ++ ',' :: J (g :: fs))
    (pt : List Char) (rule : List (List Char)) (f : Filter)
    (hf : ∀ g ∈ pt :: rule, ∀ c ∈ g, c ≠ ',') :
    filterLine (J (pt :: rule)) f =
      !(decide ((f.sliceFor (trim pt)).length ≤ rule.length) &&
        ((f.sliceFor (trim pt)).zip rule).all (fun x => x.1.isEmpty || trim x.1 == trim x.2)) := by
  simp only [filterLine, splitComma_join J h1 h2 pt rule hf, List.headD_cons, filterWords_eq]

end Casbin.Flt
