import CasbinVerif.Model.Filter
/-
  C18 helper lemmas: the `filtered` flag of the filtered file adapter along a sequence of calls.
-/
namespace Casbin.Flt

theorem flagRun_cons (b : Bool) (c : Call) (cs : List Call) :
    flagRun b (c :: cs) = ((flagRun (flagStep b c).1 cs).1, (flagStep b c).2 :: (flagRun (flagStep b c).1 cs).2) := by
  simp [flagRun]

/-- a filtered load, completed or not -/
def Call.isFilteredLoad : Call → Bool
  | .loadFiltered _ => true
  | _ => false

/-- the flag is false at the end exactly when either it started false and no filtered load was
    attempted, or some successful full load is followed by no filtered load at all -/
theorem flagRun_false_iff (b : Bool) (calls : List Call) :
    (flagRun b calls).1 = false ↔
      (b = false ∧ ∀ c ∈ calls, c.isFilteredLoad = false) ∨
      ∃ pre post, calls = pre ++ .loadFull true :: post ∧ ∀ c ∈ post, c.isFilteredLoad = false := by
  induction calls generalizing b with
  | nil => simp [flagRun]
  | cons c cs ih =>
    rw [flagRun_cons]
    simp only
    rw [ih]
    constructor
    · rintro (⟨hb, hcs⟩ | ⟨pre, post, e, hp⟩)
      · cases c with
        | loadFull ok =>
          cases ok with
          | true => exact Or.inr ⟨[], cs, rfl, hcs⟩
          | false =>
            simp only [flagStep] at hb
            exact Or.inl ⟨by simpa using hb, by simpa [Call.isFilteredLoad] using hcs⟩
        | loadFiltered ok => simp [flagStep] at hb
        | save =>
          simp only [flagStep] at hb
          exact Or.inl ⟨hb, by simpa [Call.isFilteredLoad] using hcs⟩
      · exact Or.inr ⟨c :: pre, post, by rw [e]; rfl, hp⟩
    · rintro (⟨hb, hcs⟩ | ⟨pre, post, e, hp⟩)
      · have hc : c.isFilteredLoad = false := hcs c List.mem_cons_self
        have hcs' : ∀ x ∈ cs, x.isFilteredLoad = false := fun x hx => hcs x (List.mem_cons_of_mem _ hx)
        refine Or.inl ⟨?_, hcs'⟩
        cases c with
        | loadFull ok => cases ok <;> simp [flagStep, hb]
        | loadFiltered ok => simp [Call.isFilteredLoad] at hc
        | save => simp [flagStep, hb]
      · cases pre with
        | nil =>
          simp only [List.nil_append, List.cons.injEq] at e
          obtain ⟨rfl, rfl⟩ := e
          exact Or.inl ⟨by simp [flagStep], hp⟩
        | cons x pre =>
          simp only [List.cons_append, List.cons.injEq] at e
          exact Or.inr ⟨pre, post, e.2, hp⟩

/-- the `i`-th write report is the one of the step taken from the flag reached after `i` calls -/
theorem flagRun_writes_getElem? (b : Bool) (calls : List Call) (i : Nat) :
    (flagRun b calls).2[i]? = (calls[i]?).map (fun c => (flagStep (flagRun b (calls.take i)).1 c).2) := by
  induction calls generalizing b i with
  | nil => simp [flagRun]
  | cons c cs ih =>
    rw [flagRun_cons]
    cases i with
    | zero => simp [flagRun]
    | succ i =>
      simp only [List.getElem?_cons_succ, List.take_succ_cons]
      rw [ih, flagRun_cons]

end Casbin.Flt
