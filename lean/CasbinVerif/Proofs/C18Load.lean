import CasbinVerif.Model.Loader
import CasbinVerif.Proofs.Store
import CasbinVerif.Proofs.Assoc
/-
  C18 helper lemmas: one step of `Enf.loadLine` on an accepted entry, the run over a list of
  entries, and the list lemma behind "a filtered load lists the full load's rules restricted".
  The definitions `rulesOf`, `entryOk`, `storesOk`, `loadEntries` are copies of those of
  `Properties/C18.lean` (which imports this file and identifies them).
-/
namespace Casbin.C18L

/-! ### a single store -/

/-- listed rules are comma-free and non-empty -/
def RulesOk (s : Store) : Prop := ∀ r ∈ s.policy, r.all commaFree = true ∧ r ≠ []

theorem key_inj {a b : Rule} (ha : a.all commaFree = true ∧ a ≠ []) (hb : b.all commaFree = true ∧ b ≠ [])
    (h : ruleKey a = ruleKey b) : a = b :=
  ruleKey_injective (by simpa using ha.1) (by simpa using hb.1) ha.2 hb.2 h

theorem has_iff {s : Store} (h : Coh s) (hl : RulesOk s) {r : Rule}
    (hr : r.all commaFree = true ∧ r ≠ []) : s.has r = true ↔ r ∈ s.policy := by
  simp only [Store.has, Option.isSome_iff_exists, List.mem_iff_getElem?]
  constructor
  · rintro ⟨i, hi⟩
    obtain ⟨q, hq, hk⟩ := h.2.2 _ _ hi
    have := key_inj (hl q (List.mem_of_getElem? hq)) hr hk
    exact ⟨i, this ▸ hq⟩
  · rintro ⟨i, hi⟩
    exact ⟨i, h.2.1 r i hi⟩

theorem coh_append {s : Store} (h : Coh s) (hl : RulesOk s) {r : Rule}
    (hr : r.all commaFree = true ∧ r ≠ []) (hnew : r ∉ s.policy) :
    Coh ⟨s.policy ++ [r], s.index.set (ruleKey r) s.policy.length⟩ := by
  obtain ⟨hnd, h1, h2⟩ := h
  refine ⟨?_, ?_, ?_⟩
  · simp only
    rw [List.nodup_append]
    simp [hnd]
    grind
  · intro q i hq
    simp only at hq ⊢
    rw [Index.get_set]
    rw [List.getElem?_append] at hq
    split at hq
    · have hqm := List.mem_of_getElem? hq
      have : ruleKey q ≠ ruleKey r := fun e => hnew (key_inj (hl q hqm) hr e ▸ hqm)
      simp [this, h1 q i hq]
    · have : i = s.policy.length ∧ q = r := by
        rcases hi : i - s.policy.length with _ | m
        · simp [hi] at hq; exact ⟨by omega, hq.symm⟩
        · simp [hi] at hq
      simp [this.1, this.2]
  · intro k i hg
    simp only at hg ⊢
    rw [Index.get_set] at hg
    split at hg
    · simp at hg; subst hg; subst_vars; exact ⟨r, by simp, rfl⟩
    · obtain ⟨q, hq, hk⟩ := h2 k i hg
      refine ⟨q, ?_, hk⟩
      rw [List.getElem?_append_left]; exact hq
      exact (List.getElem?_eq_some_iff.1 hq).1

theorem add_none (s : Store) (r : Rule) :
    s.add none r = ⟨s.policy ++ [r], s.index.set (ruleKey r) s.policy.length⟩ := rfl

/-- appending an unlisted rule: coherent, rules fine, the list is the specification's -/
theorem add_ok {s : Store} (h : Coh s) (hl : RulesOk s) {r : Rule}
    (hr : r.all commaFree = true ∧ r ≠ []) (hnew : s.has r ≠ true) :
    Coh (s.add none r) ∧ RulesOk (s.add none r) ∧ (s.add none r).policy = SpecStore.addOne s.policy r := by
  have hn : r ∉ s.policy := fun hm => hnew ((has_iff h hl hr).2 hm)
  rw [add_none]
  refine ⟨coh_append h hl hr hn, ?_, ?_⟩
  · intro q hq
    simp only [List.mem_append, List.mem_singleton] at hq
    rcases hq with hq | rfl
    · exact hl q hq
    · exact hr
  · simp [SpecStore.addOne, hn]

theorem addOne_of_has {s : Store} (h : Coh s) (hl : RulesOk s) {r : Rule}
    (hr : r.all commaFree = true ∧ r ≠ []) (hhas : s.has r = true) :
    SpecStore.addOne s.policy r = s.policy := by
  simp [SpecStore.addOne, (has_iff h hl hr).1 hhas]

/-! ### the two families of stores -/

def rulesOf (st : Stores) (pt : String) : List Rule :=
  ((st.1.lookup pt).map (·.policy)).getD (((st.2.lookup pt).map (·.policy)).getD [])

def entryOk (md : ModelDef) (e : String × Rule) : Bool :=
  !e.1.isEmpty &&
  ((e.1.front == 'p' && (match md.p.lookup e.1 with
      | some toks => e.2.length == toks.length && toks.idxOf? "priority" == none && e.2.all commaFree && e.2 != []
      | none => false)) ||
   (e.1.front == 'g' && (match md.g.lookup e.1 with
      | some (count, _) => count ≤ e.2.length && e.2.all commaFree && e.2 != []
      | none => false)))

def storesOk (md : ModelDef) (st : Stores) : Prop :=
  st.1.map (·.1) = md.p.map (·.1) ∧ st.2.map (·.1) = md.g.map (·.1) ∧
  (∀ pt s, st.1.lookup pt = some s → Coh s ∧ ∀ r ∈ s.policy, r.all commaFree = true ∧ r ≠ []) ∧
  (∀ gt s, st.2.lookup gt = some s → Coh s ∧ ∀ r ∈ s.policy, r.all commaFree = true ∧ r ≠ [])

def loadEntries (md : ModelDef) (st : Stores) : List (String × Rule) → Option Stores
  | [] => some st
  | (pt, r) :: rest => match Enf.loadLine md st.1 st.2 pt r with
    | none => none
    | some (p, g) => loadEntries md (p, g) rest

/-- the one case in which `rulesOf` does not see what `loadLine` adds: a role type (first letter g)
    that is also the name of a policy definition -/
def shadowed (md : ModelDef) (pt : String) : Bool := pt.front == 'g' && (md.p.lookup pt).isSome

theorem lookup_none_of_keys {α β} {l : List (String × α)} {l' : List (String × β)} {k : String}
    (hk : l'.map (·.1) = l.map (·.1)) (h : l.lookup k = none) : l'.lookup k = none := by
  cases h' : l'.lookup k with
  | none => rfl
  | some w =>
    have : (l.lookup k).isSome = true := by
      rw [lookup_isSome_iff, ← hk, ← lookup_isSome_iff, h']; rfl
    rw [h] at this; cases this

/-- setting one store of a family keeps the family well-formed -/
theorem family_set {α} {mdl : List (String × α)} {l : List (String × Store)} {pt : String} {s s' : Store}
    (hk : l.map (·.1) = mdl.map (·.1))
    (hl : ∀ pt s, l.lookup pt = some s → Coh s ∧ RulesOk s)
    (hs : l.lookup pt = some s) (hc : Coh s') (hr : RulesOk s') :
    (assocSet l pt s').map (·.1) = mdl.map (·.1) ∧
    ∀ pt' t, (assocSet l pt s').lookup pt' = some t → Coh t ∧ RulesOk t := by
  refine ⟨by rw [assocSet_keys_of_lookup l s' hs, hk], ?_⟩
  intro pt' t ht
  by_cases e : pt' = pt
  · subst e
    rw [lookup_assocSet_self] at ht
    cases ht; exact ⟨hc, hr⟩
  · rw [lookup_assocSet_other l s' e] at ht
    exact hl pt' t ht

/-- one accepted entry: the load succeeds, the stores stay well-formed, and only the entry's type
    grows (by the specification's `addOne`), unless that type is shadowed -/
theorem loadLine_step (md : ModelDef) (st : Stores) (pt : String) (r : Rule)
    (hst : storesOk md st) (he : entryOk md (pt, r) = true) :
    ∃ st', Enf.loadLine md st.1 st.2 pt r = some st' ∧ storesOk md st' ∧
      ∀ pt', rulesOf st' pt' =
        if pt' = pt ∧ shadowed md pt = false then SpecStore.addOne (rulesOf st pt') r else rulesOf st pt' := by
  obtain ⟨hk1, hk2, hp, hg⟩ := hst
  simp only [entryOk, Bool.and_eq_true, Bool.not_eq_true', Bool.or_eq_true] at he
  obtain ⟨hne, hbr⟩ := he
  rcases hbr with ⟨hfront, hm⟩ | ⟨hfront, hm⟩
  · -- a policy type
    have hsh : shadowed md pt = false := by
      simp only [shadowed, beq_iff_eq.1 hfront, show ('p' == 'g') = false from by decide, Bool.false_and]
    cases hmd : md.p.lookup pt with
    | none => rw [hmd] at hm; cases hm
    | some toks =>
      rw [hmd] at hm
      simp only [Bool.and_eq_true, beq_iff_eq, bne_iff_ne, ne_eq] at hm
      obtain ⟨⟨⟨hlen, hprio⟩, hcf⟩, hnil⟩ := hm
      have hr : r.all commaFree = true ∧ r ≠ [] := ⟨hcf, hnil⟩
      obtain ⟨s, hs⟩ := lookup_some_of_keys hk1 hmd
      obtain ⟨hc, hl⟩ := hp pt s hs
      have hrules : rulesOf st pt = s.policy := by simp [rulesOf, hs]
      by_cases hhas : s.has r = true
      · refine ⟨st, ?_, ⟨hk1, hk2, hp, hg⟩, ?_⟩
        · simp only [Enf.loadLine, hne, hfront, hmd, hs, hlen, hhas, bne_self_eq_false,
            Bool.false_eq_true, ↓reduceIte]
        · intro pt'
          split
          · rename_i h; rw [h.1, hrules, addOne_of_has hc hl hr hhas]
          · rfl
      · obtain ⟨hc', hl', hpol⟩ := add_ok hc hl hr hhas
        obtain ⟨hk1', hp'⟩ := family_set (pt := pt) hk1 hp hs hc' hl'
        refine ⟨(assocSet st.1 pt (s.add none r), st.2), ?_, ⟨hk1', hk2, hp', hg⟩, ?_⟩
        · simp only [Enf.loadLine, hne, hfront, hmd, hs, hlen, hhas, hprio, bne_self_eq_false,
            Bool.false_eq_true, ↓reduceIte]
        · intro pt'
          by_cases e : pt' = pt
          · subst e
            simp only [hsh, and_self, if_true, hrules]
            simp [rulesOf, lookup_assocSet_self, hpol]
          · simp only [e, false_and, if_false]
            simp [rulesOf, lookup_assocSet_other _ _ e]
  · -- a role type
    have hf : pt.front = 'g' := beq_iff_eq.1 hfront
    have hfp : (pt.front == 'p') = false := by rw [hf]; decide
    cases hmd : md.g.lookup pt with
    | none => rw [hmd] at hm; cases hm
    | some ck =>
      obtain ⟨count, kind⟩ := ck
      rw [hmd] at hm
      simp only [Bool.and_eq_true, decide_eq_true_eq, bne_iff_ne, ne_eq] at hm
      obtain ⟨⟨hlen, hcf⟩, hnil⟩ := hm
      have hr : r.all commaFree = true ∧ r ≠ [] := ⟨hcf, hnil⟩
      obtain ⟨s, hs⟩ := lookup_some_of_keys hk2 hmd
      obtain ⟨hc, hl⟩ := hg pt s hs
      have hlen' : ¬ r.length < count := by omega
      -- unless shadowed, `rulesOf` reads the role store
      have hrules : shadowed md pt = false → ∀ g', rulesOf (st.1, g') pt = ((g'.lookup pt).map (·.policy)).getD [] := by
        intro hsh g'
        have : md.p.lookup pt = none := by
          simp only [shadowed, hfront, Bool.true_and] at hsh
          cases h : md.p.lookup pt with
          | none => rfl
          | some _ => rw [h] at hsh; cases hsh
        simp [rulesOf, lookup_none_of_keys hk1 this]
      by_cases hhas : s.has r = true
      · refine ⟨st, ?_, ⟨hk1, hk2, hp, hg⟩, ?_⟩
        · simp only [Enf.loadLine, hne, hfp, hfront, hmd, hs, hlen', hhas,
            Bool.false_eq_true, ↓reduceIte]
        · intro pt'
          split
          · rename_i h
            rw [h.1]
            have := hrules h.2 st.2
            simp only [hs, Option.map_some, Option.getD_some] at this
            rw [show rulesOf st pt = s.policy from this, addOne_of_has hc hl hr hhas]
          · rfl
      · obtain ⟨hc', hl', hpol⟩ := add_ok hc hl hr hhas
        obtain ⟨hk2', hg'⟩ := family_set (pt := pt) hk2 hg hs hc' hl'
        refine ⟨(st.1, assocSet st.2 pt (s.add none r)), ?_, ⟨hk1, hk2', hp, hg'⟩, ?_⟩
        · simp only [Enf.loadLine, hne, hfp, hfront, hmd, hs, hlen', hhas,
            Bool.false_eq_true, ↓reduceIte]
        · intro pt'
          by_cases e : pt' = pt
          · subst e
            cases hsh : shadowed md pt' with
            | false =>
              simp only [and_self, if_true]
              have h1 := hrules hsh st.2
              have h2 := hrules hsh (assocSet st.2 pt' (s.add none r))
              simp only [hs, Option.map_some, Option.getD_some] at h1
              simp only [lookup_assocSet_self, Option.map_some, Option.getD_some] at h2
              rw [h2, show rulesOf st pt' = s.policy from h1, hpol]
            | true =>
              simp only [Bool.true_eq_false, and_false, if_false]
              simp only [shadowed, hfront, Bool.true_and] at hsh
              obtain ⟨toks, ht⟩ := Option.isSome_iff_exists.1 hsh
              obtain ⟨s1, hs1⟩ := lookup_some_of_keys hk1 ht
              simp [rulesOf, hs1]
          · simp only [e, false_and, if_false]
            simp [rulesOf, lookup_assocSet_other _ _ e]

/-- the run over accepted entries (general form: a shadowed type keeps its rules) -/
theorem loadEntries_adds_gen (md : ModelDef) (st : Stores) (es : List (String × Rule))
    (hst : storesOk md st) (hes : es.all (entryOk md) = true) :
    ∃ st', loadEntries md st es = some st' ∧ storesOk md st' ∧
      ∀ pt, rulesOf st' pt =
        if shadowed md pt = true then rulesOf st pt
        else ((es.filter (·.1 == pt)).map (·.2)).foldl SpecStore.addOne (rulesOf st pt) := by
  induction es generalizing st with
  | nil => exact ⟨st, rfl, hst, fun pt => by simp⟩
  | cons e es ih =>
    obtain ⟨pt, r⟩ := e
    simp only [List.all_cons, Bool.and_eq_true] at hes
    obtain ⟨st1, h1, hst1, hr1⟩ := loadLine_step md st pt r hst hes.1
    obtain ⟨st', h2, hst', hr2⟩ := ih st1 hst1 hes.2
    refine ⟨st', ?_, hst', ?_⟩
    · simp only [loadEntries, h1]; exact h2
    · intro pt'
      rw [hr2 pt', hr1 pt']
      cases hsh : shadowed md pt' with
      | true =>
        simp only [if_true]
        split
        · rename_i h; rw [h.1] at hsh; rw [hsh] at h; cases h.2
        · rfl
      | false =>
        simp only [Bool.false_eq_true, if_false]
        by_cases e : pt' = pt
        · subst e
          simp [hsh]
        · have : (pt == pt') = false := by simpa using fun h => e h.symm
          simp [e, this]

/-- an accepted entry is never of a shadowed type when definition names are disjoint -/
theorem not_shadowed_of_entry (md : ModelDef) (hdis : ∀ pt, pt ∈ md.p.map (·.1) → pt ∉ md.g.map (·.1))
    (e : String × Rule) (he : entryOk md e = true) : shadowed md e.1 = false := by
  cases hsh : shadowed md e.1 with
  | false => rfl
  | true =>
    exfalso
    simp only [shadowed, Bool.and_eq_true, beq_iff_eq] at hsh
    obtain ⟨hf, hp⟩ := hsh
    have hpm : e.1 ∈ md.p.map (·.1) := (lookup_isSome_iff _ _).1 hp
    simp only [entryOk, hf, Bool.and_eq_true, Bool.or_eq_true, beq_iff_eq] at he
    rcases he.2 with ⟨h, _⟩ | ⟨_, hm⟩
    · cases h
    · cases hmd : md.g.lookup e.1 with
      | none => rw [hmd] at hm; cases hm
      | some ck =>
        exact hdis _ hpm ((lookup_isSome_iff _ _).1 (by rw [hmd]; rfl))

/-- the run over accepted entries when policy and role definition names are disjoint -/
theorem loadEntries_adds (md : ModelDef) (st : Stores) (es : List (String × Rule))
    (hst : storesOk md st) (hdis : ∀ pt, pt ∈ md.p.map (·.1) → pt ∉ md.g.map (·.1))
    (hes : es.all (entryOk md) = true) :
    ∃ st', loadEntries md st es = some st' ∧ storesOk md st' ∧
      ∀ pt, rulesOf st' pt = ((es.filter (·.1 == pt)).map (·.2)).foldl SpecStore.addOne (rulesOf st pt) := by
  obtain ⟨st', h1, h2, h3⟩ := loadEntries_adds_gen md st es hst hes
  refine ⟨st', h1, h2, fun pt => ?_⟩
  rw [h3 pt]
  split
  · rename_i hsh
    have : es.filter (·.1 == pt) = [] := by
      rw [List.filter_eq_nil_iff]
      intro e he hpt
      have h := not_shadowed_of_entry md hdis e (List.all_eq_true.1 hes e he)
      rw [beq_iff_eq.1 hpt, hsh] at h
      cases h
    simp [this]
  · rfl

/-! ### filtered load = restriction of the full load -/

theorem addOne_filter (q : Rule → Bool) (acc : List Rule) (r : Rule) :
    (SpecStore.addOne acc r).filter q =
      if q r then SpecStore.addOne (acc.filter q) r else acc.filter q := by
  unfold SpecStore.addOne
  by_cases hq : q r = true
  · by_cases hm : r ∈ acc
    · simp [hq, hm]
    · simp [hq, hm, List.filter_append]
  · by_cases hm : r ∈ acc
    · simp [hq, hm]
    · simp [hq, hm, List.filter_append]

theorem foldl_addOne_filter (q : Rule → Bool) (l acc : List Rule) :
    (l.filter q).foldl SpecStore.addOne (acc.filter q) = (l.foldl SpecStore.addOne acc).filter q := by
  induction l generalizing acc with
  | nil => rfl
  | cons r l ih =>
    simp only [List.foldl_cons]
    rw [← ih, addOne_filter, List.filter_cons]
    by_cases hq : q r = true
    · simp [hq]
    · simp [hq]

theorem filter_keep_type (keep : String × Rule → Bool) (pt : String) (es : List (String × Rule)) :
    ((es.filter keep).filter (·.1 == pt)).map (·.2) =
      ((es.filter (·.1 == pt)).map (·.2)).filter (fun r => keep (pt, r)) := by
  induction es with
  | nil => rfl
  | cons e es ih =>
    obtain ⟨a, r⟩ := e
    by_cases ha : a = pt
    · subst ha
      by_cases hk : keep (a, r) = true
      · simp only [List.filter_cons, hk, beq_self_eq_true, ↓reduceIte, List.map_cons, ih]
      · simp only [List.filter_cons, hk, beq_self_eq_true, ↓reduceIte, List.map_cons, ih,
          Bool.false_eq_true]
    · have : (a == pt) = false := by simpa using ha
      by_cases hk : keep (a, r) = true
      · simp only [List.filter_cons, hk, this, ↓reduceIte, ih, Bool.false_eq_true]
      · simp only [List.filter_cons, hk, this, ↓reduceIte, ih, Bool.false_eq_true]

theorem filtered_load_exact (md : ModelDef) (st : Stores) (es : List (String × Rule)) (keep : String × Rule → Bool)
    (hst : storesOk md st) (hempty : ∀ pt, rulesOf st pt = []) (hes : es.all (entryOk md) = true) :
    ∃ full part, loadEntries md st es = some full ∧ loadEntries md st (es.filter keep) = some part ∧
      ∀ pt, rulesOf part pt = (rulesOf full pt).filter (fun r => keep (pt, r)) := by
  have hes' : (es.filter keep).all (entryOk md) = true := by
    rw [List.all_eq_true] at hes ⊢
    exact fun e he => hes e (List.mem_filter.1 he).1
  obtain ⟨full, hf1, _, hf3⟩ := loadEntries_adds_gen md st es hst hes
  obtain ⟨part, hp1, _, hp3⟩ := loadEntries_adds_gen md st (es.filter keep) hst hes'
  refine ⟨full, part, hf1, hp1, fun pt => ?_⟩
  rw [hf3 pt, hp3 pt, hempty pt]
  split
  · rfl
  · rw [filter_keep_type]
    exact foldl_addOne_filter (fun r => keep (pt, r)) _ []

end Casbin.C18L
