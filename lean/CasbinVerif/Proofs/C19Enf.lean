import CasbinVerif.Model.Distributed
import CasbinVerif.Spec.Persist
import CasbinVerif.Proofs.C15Frame
import CasbinVerif.Proofs.C19Store
/-
  C19 helper lemmas, enforcer level: the `*Self` operations are "adapter call, then a tail that
  never looks at the adapter".
-/
namespace Casbin

/-! ### assocSet twice -/

theorem assocSet_idem {α} (l : List (String × α)) (k : String) (v : α) :
    assocSet (assocSet l k v) k v = assocSet l k v := by
  unfold assocSet
  by_cases h : l.any (·.1 == k) = true
  · simp only [if_pos h]
    have h' : (l.map (fun p => if p.1 == k then (k, v) else p)).any (·.1 == k) = true := by
      simp only [List.any_eq_true, List.mem_map] at h ⊢
      obtain ⟨x, hx, hk⟩ := h
      exact ⟨(k, v), ⟨x, hx, by simp [hk]⟩, by simp⟩
    rw [if_pos h', List.map_map]
    apply List.map_congr_left
    intro x _
    simp only [Function.comp]
    by_cases hk : (x.1 == k) = true
    · simp [hk]
    · simp [hk]
  · simp only [if_neg h]
    have h' : (l ++ [(k, v)]).any (·.1 == k) = true := by simp
    rw [if_pos h', List.map_append]
    congr 1
    · conv => rhs; rw [← List.map_id l]
      apply List.map_congr_left
      intro x hx
      have : (x.1 == k) = false := by
        cases hb : (x.1 == k) with
        | false => rfl
        | true =>
          exfalso; apply h
          simp only [List.any_eq_true]
          exact ⟨x, hx, hb⟩
      simp [this]
    · simp

/-! ### states that differ in the adapter only -/

def Enf.setAdapter (e : Enf) (X : Option AdapterSt) : Enf := { e with adapter := X }

namespace Enf

@[simp] theorem setAdapter_setAdapter (e : Enf) (X Y : Option AdapterSt) :
    (e.setAdapter X).setAdapter Y = e.setAdapter Y := rfl
@[simp] theorem setAdapter_self (e : Enf) : e.setAdapter e.adapter = e := rfl
@[simp] theorem getStore_setAdapter (e : Enf) (X : Option AdapterSt) (sec pt : String) :
    (e.setAdapter X).getStore sec pt = e.getStore sec pt := rfl
@[simp] theorem prioOf_setAdapter (e : Enf) (X : Option AdapterSt) (sec pt : String) :
    (e.setAdapter X).prioOf sec pt = e.prioOf sec pt := rfl
@[simp] theorem memory_setAdapter (e : Enf) (X : Option AdapterSt) : (e.setAdapter X).memory = e.memory := rfl
@[simp] theorem notif_setAdapter (e : Enf) (X : Option AdapterSt) : (e.setAdapter X).notif = e.notif := rfl
@[simp] theorem adapter_setAdapter (e : Enf) (X : Option AdapterSt) : (e.setAdapter X).adapter = X := rfl

theorem setStore_setAdapter (e : Enf) (X : Option AdapterSt) (sec pt : String) (s : Store) :
    (e.setAdapter X).setStore sec pt s = (e.setStore sec pt s).setAdapter X := by
  unfold Enf.setStore Enf.setAdapter
  split <;> rfl

theorem incrLinks_setAdapter (e : Enf) (X : Option AdapterSt) (add : Bool) (pt : String) (rules : List Rule) :
    (e.setAdapter X).incrLinks add pt rules =
      ((e.incrLinks add pt rules).1.setAdapter X, (e.incrLinks add pt rules).2) := by
  unfold Enf.incrLinks Enf.invalidate Enf.setAdapter
  dsimp only
  cases e.rm.lookup pt <;> cases e.md.g.lookup pt <;> rfl

theorem adapterCall_setAdapter (e : Enf) (entry : String) (eff : AdapterSt → AdapterSt) :
    ∃ X, (e.adapterCall entry eff).1 = e.setAdapter X := by
  unfold Enf.adapterCall
  split
  · exact ⟨e.adapter, rfl⟩
  · split
    split
    · exact ⟨_, rfl⟩
    · exact ⟨_, rfl⟩

theorem adapterCall_ok (e : Enf) (entry : String) (eff : AdapterSt → AdapterSt)
    (hq : ∀ a, e.adapter = some a → a.failAt = 0) : (e.adapterCall entry eff).2 = true := by
  unfold Enf.adapterCall
  split
  · rfl
  · rename_i a ha
    have h0 := hq a ha
    simp [AdapterSt.call, h0]

theorem adapterCall_calls (e : Enf) (entry : String) (eff : AdapterSt → AdapterSt) {a : AdapterSt}
    (ha : e.adapter = some a) (hc : ∀ x, (eff x).calls = x.calls) :
    ∃ a', (e.adapterCall entry eff).1.adapter = some a' ∧ a'.calls = a.calls + 1 := by
  unfold Enf.adapterCall
  rw [ha]
  simp only [AdapterSt.call]
  split
  · exact ⟨_, rfl, rfl⟩
  · exact ⟨_, rfl, by rw [hc]⟩

/-- what the persist step of a Self operation does -/
theorem selfPersist_spec {e : Enf} {b : Bool} {entry : String} {eff : AdapterSt → AdapterSt} {e1 : Enf} {ok : Bool}
    (h : (if b = true then e.adapterCall entry eff else (e, true)) = (e1, ok)) :
    (∃ X, e1 = e.setAdapter X) ∧ ((∀ a, e.adapter = some a → a.failAt = 0) → ok = true) ∧
      (b = false → e1 = e ∧ ok = true) := by
  cases b with
  | false =>
    simp only [Bool.false_eq_true, if_false, Prod.mk.injEq] at h
    obtain ⟨rfl, rfl⟩ := h
    exact ⟨⟨e.adapter, rfl⟩, fun _ => rfl, fun _ => ⟨rfl, rfl⟩⟩
  | true =>
    simp only [if_true] at h
    obtain ⟨X, hX⟩ := adapterCall_setAdapter e entry eff
    have h1 : e1 = (e.adapterCall entry eff).1 := by rw [h]
    have h2 : ok = (e.adapterCall entry eff).2 := by rw [h]
    refine ⟨⟨X, h1.trans hX⟩, fun hq => h2.trans (adapterCall_ok e entry eff hq), fun hb => by cases hb⟩

/-! ### the tails -/

/-- `AddPoliciesSelf` after the adapter call -/
def addTail (e : Enf) (sec pt : String) (s : Store) (rules : List Rule) : Enf × List Rule × Bool :=
  let sa := s.addMany (e.prioOf sec pt) rules
  let e' := e.setStore sec pt sa.1
  if sec == "g" then ((e'.incrLinks true pt sa.2).1, sa.2, !(e'.incrLinks true pt sa.2).2)
  else (e', sa.2, false)

/-- `RemovePoliciesSelf` after the adapter call -/
def removeTail (e : Enf) (sec pt : String) (rules : List Rule) : Enf × List Rule × Bool :=
  match e.getStore sec pt with
  | none => (e, [], true)
  | some s =>
    let sa := s.removeMany rules
    let e' := e.setStore sec pt sa.1
    if sec == "g" then ((e'.incrLinks false pt sa.2).1, sa.2, !(e'.incrLinks false pt sa.2).2)
    else (e', sa.2, false)

theorem addPoliciesSelf_eq (e : Enf) (persist : Option Bool) (sec pt : String) (rules : List Rule) :
    e.addPoliciesSelf persist sec pt rules =
      match e.getStore sec pt with
      | none => (e, [], true)
      | some s =>
        let r := if wantsPersist persist = true
          then
            e.adapterCall s!"AddPolicies({pt};{showRules (rules.filter (fun r => !s.has r))})"
              (fun a => (rules.filter (fun r => !s.has r)).foldl (fun a r => a.addLine pt r) a)
          else (e, true)
        if !r.2 then (r.1, [], true) else addTail r.1 sec pt s rules := by
  unfold Enf.addPoliciesSelf addTail
  cases e.getStore sec pt with
  | none => rfl
  | some s => rfl

theorem removePoliciesSelf_eq (e : Enf) (persist : Option Bool) (sec pt : String) (rules : List Rule) :
    e.removePoliciesSelf persist sec pt rules =
      let r := if wantsPersist persist = true
        then e.adapterCall s!"RemovePolicies({pt};{showRules rules})" (fun a => rules.foldl (fun a r => a.removeLine pt r) a)
        else (e, true)
      if !r.2 then (r.1, [], true) else removeTail r.1 sec pt rules := by
  unfold Enf.removePoliciesSelf removeTail
  dsimp only
  split <;> rfl

theorem addTail_setAdapter (e : Enf) (X : Option AdapterSt) (sec pt : String) (s : Store) (rules : List Rule) :
    addTail (e.setAdapter X) sec pt s rules =
      ((addTail e sec pt s rules).1.setAdapter X, (addTail e sec pt s rules).2) := by
  unfold addTail
  simp only [prioOf_setAdapter, setStore_setAdapter, incrLinks_setAdapter]
  split <;> rfl

theorem removeTail_setAdapter (e : Enf) (X : Option AdapterSt) (sec pt : String) (rules : List Rule) :
    removeTail (e.setAdapter X) sec pt rules =
      ((removeTail e sec pt rules).1.setAdapter X, (removeTail e sec pt rules).2) := by
  unfold removeTail
  simp only [getStore_setAdapter]
  split
  · rfl
  · simp only [setStore_setAdapter, incrLinks_setAdapter]
    split <;> rfl

/-- under a quiet adapter the operation is its tail, up to the adapter -/
theorem addPoliciesSelf_some {e : Enf} (persist : Option Bool) {sec pt : String} (rules : List Rule) {s : Store}
    (hs : e.getStore sec pt = some s) (hq : ∀ a, e.adapter = some a → a.failAt = 0) :
    ∃ X, e.addPoliciesSelf persist sec pt rules =
      ((addTail e sec pt s rules).1.setAdapter X, (addTail e sec pt s rules).2) := by
  rw [addPoliciesSelf_eq, hs]
  dsimp only
  generalize hr : (if wantsPersist persist = true then _ else (e, true)) = r
  obtain ⟨e1, ok⟩ := r
  obtain ⟨⟨X, rfl⟩, hok, _⟩ := selfPersist_spec hr
  have := hok hq
  subst this
  exact ⟨X, by simp only [Bool.not_true, Bool.false_eq_true, if_false]; exact addTail_setAdapter _ _ _ _ _ _⟩

theorem addPoliciesSelf_none_store {e : Enf} (persist : Option Bool) {sec pt : String} (rules : List Rule)
    (hs : e.getStore sec pt = none) : e.addPoliciesSelf persist sec pt rules = (e, [], true) := by
  rw [addPoliciesSelf_eq, hs]

theorem removePoliciesSelf_quiet (e : Enf) (persist : Option Bool) (sec pt : String) (rules : List Rule)
    (hq : ∀ a, e.adapter = some a → a.failAt = 0) :
    ∃ X, e.removePoliciesSelf persist sec pt rules =
      ((removeTail e sec pt rules).1.setAdapter X, (removeTail e sec pt rules).2) := by
  rw [removePoliciesSelf_eq]
  dsimp only
  generalize hr : (if wantsPersist persist = true then _ else (e, true)) = r
  obtain ⟨e1, ok⟩ := r
  obtain ⟨⟨X, rfl⟩, hok, _⟩ := selfPersist_spec hr
  have := hok hq
  subst this
  exact ⟨X, by simp only [Bool.not_true, Bool.false_eq_true, if_false]; exact removeTail_setAdapter _ _ _ _ _⟩

/-! ### section "p" -/

theorem getStore_setStore_p (e : Enf) (pt : String) (s : Store) :
    (e.setStore "p" pt s).getStore "p" pt = some s := by
  simp only [Enf.getStore, Enf.stores, Enf.setStore, beq_self_eq_true, Bool.true_or, if_true]
  exact lookup_assocSet_self _ _ _

theorem memory_setStore_p_twice (e : Enf) (pt : String) (s : Store) :
    ((e.setStore "p" pt s).setStore "p" pt s).memory = (e.setStore "p" pt s).memory := by
  simp only [Enf.memory, Enf.setStore, beq_self_eq_true, if_true, assocSet_idem]

theorem addTail_p (e : Enf) (pt : String) (s : Store) (rules : List Rule) :
    addTail e "p" pt s rules =
      (e.setStore "p" pt (s.addMany (e.prioOf "p" pt) rules).1, (s.addMany (e.prioOf "p" pt) rules).2, false) := by
  unfold addTail
  have : ("p" == "g") = false := by decide
  simp only [this, Bool.false_eq_true, if_false]

theorem removeTail_p (e : Enf) (pt : String) (rules : List Rule) {s : Store} (hs : e.getStore "p" pt = some s) :
    removeTail e "p" pt rules = (e.setStore "p" pt (s.removeMany rules).1, (s.removeMany rules).2, false) := by
  unfold removeTail
  rw [hs]
  have : ("p" == "g") = false := by decide
  simp only [this, Bool.false_eq_true, if_false]

/-! ### the adapter is left alone by the tails -/

theorem adapter_setStore (e : Enf) (sec pt : String) (s : Store) : (e.setStore sec pt s).adapter = e.adapter := by
  unfold Enf.setStore
  split <;> rfl

theorem adapter_incrLinks (e : Enf) (add : Bool) (pt : String) (rules : List Rule) :
    (e.incrLinks add pt rules).1.adapter = e.adapter := by
  unfold Enf.incrLinks Enf.invalidate
  dsimp only
  split <;> rfl

theorem adapter_incrLinks_of_eq {e : Enf} {add : Bool} {pt : String} {rules : List Rule} {e1 : Enf} {ok : Bool}
    (h : e.incrLinks add pt rules = (e1, ok)) : e1.adapter = e.adapter := by
  have := adapter_incrLinks e add pt rules
  rw [h] at this
  exact this

theorem adapter_addTail (e : Enf) (sec pt : String) (s : Store) (rules : List Rule) :
    (addTail e sec pt s rules).1.adapter = e.adapter := by
  unfold addTail
  dsimp only
  split
  · rw [adapter_incrLinks, adapter_setStore]
  · rw [adapter_setStore]

theorem adapter_removeTail (e : Enf) (sec pt : String) (rules : List Rule) :
    (removeTail e sec pt rules).1.adapter = e.adapter := by
  unfold removeTail
  split
  · rfl
  · dsimp only
    split
    · rw [adapter_incrLinks, adapter_setStore]
    · rw [adapter_setStore]

theorem calls_foldl_addLine (pt : String) (rs : List Rule) (a : AdapterSt) :
    (rs.foldl (fun a r => a.addLine pt r) a).calls = a.calls := by
  induction rs generalizing a with
  | nil => rfl
  | cons r rs ih =>
    simp only [List.foldl_cons]
    rw [ih]
    unfold AdapterSt.addLine
    split <;> rfl

theorem calls_foldl_removeLine (pt : String) (rs : List Rule) (a : AdapterSt) :
    (rs.foldl (fun a r => a.removeLine pt r) a).calls = a.calls := by
  induction rs generalizing a with
  | nil => rfl
  | cons r rs ih =>
    simp only [List.foldl_cons]
    rw [ih]
    rfl

/-! ### a replica that does not persist -/

theorem addPoliciesSelf_noPersist {e : Enf} {persist : Option Bool} {sec pt : String} (rules : List Rule) {s : Store}
    (hp : wantsPersist persist = false) (hs : e.getStore sec pt = some s) :
    e.addPoliciesSelf persist sec pt rules = addTail e sec pt s rules := by
  rw [addPoliciesSelf_eq, hs]
  simp [hp]

theorem removePoliciesSelf_noPersist {e : Enf} {persist : Option Bool} (sec pt : String) (rules : List Rule)
    (hp : wantsPersist persist = false) :
    e.removePoliciesSelf persist sec pt rules = removeTail e sec pt rules := by
  rw [removePoliciesSelf_eq]
  simp [hp]

/-! ### a replica that persists -/

theorem calls_addPoliciesSelf {e : Enf} {sec pt : String} (rules : List Rule) {a : AdapterSt} {s : Store}
    (ha : e.adapter = some a) (hs : e.getStore sec pt = some s) :
    ∃ a', (e.addPoliciesSelf (some true) sec pt rules).1.adapter = some a' ∧ a'.calls = a.calls + 1 := by
  rw [addPoliciesSelf_eq, hs]
  have hw : wantsPersist (some true) = true := rfl
  simp only [hw, if_true]
  have key : ∀ (entry : String) (eff : AdapterSt → AdapterSt), (∀ x, (eff x).calls = x.calls) →
      ∃ a', (if (!(e.adapterCall entry eff).2) = true then ((e.adapterCall entry eff).1, ([] : List Rule), true)
        else addTail (e.adapterCall entry eff).1 sec pt s rules).1.adapter = some a' ∧ a'.calls = a.calls + 1 := by
    intro entry eff hc
    obtain ⟨a', h1, h2⟩ := adapterCall_calls e entry eff ha hc
    refine ⟨a', ?_, h2⟩
    split
    · exact h1
    · rw [adapter_addTail]; exact h1
  exact key _ _ (calls_foldl_addLine pt _)

theorem calls_removePoliciesSelf {e : Enf} (sec pt : String) (rules : List Rule) {a : AdapterSt}
    (ha : e.adapter = some a) :
    ∃ a', (e.removePoliciesSelf (some true) sec pt rules).1.adapter = some a' ∧ a'.calls = a.calls + 1 := by
  rw [removePoliciesSelf_eq]
  have hw : wantsPersist (some true) = true := rfl
  simp only [hw, if_true]
  have key : ∀ (entry : String) (eff : AdapterSt → AdapterSt), (∀ x, (eff x).calls = x.calls) →
      ∃ a', (if (!(e.adapterCall entry eff).2) = true then ((e.adapterCall entry eff).1, ([] : List Rule), true)
        else removeTail (e.adapterCall entry eff).1 sec pt rules).1.adapter = some a' ∧ a'.calls = a.calls + 1 := by
    intro entry eff hc
    obtain ⟨a', h1, h2⟩ := adapterCall_calls e entry eff ha hc
    refine ⟨a', ?_, h2⟩
    split
    · exact h1
    · rw [adapter_removeTail]; exact h1
  exact key _ _ (calls_foldl_removeLine pt _)

/-! ### the adapter is left alone by a replica that does not persist -/

def SameAd (e e' : Enf) : Prop := e'.adapter = e.adapter

theorem SameAd.refl (e : Enf) : SameAd e e := rfl
theorem SameAd.trans {a b c : Enf} (h1 : SameAd a b) (h2 : SameAd b c) : SameAd a c := Eq.trans h2 h1
theorem sameAd_setStore (e : Enf) (sec pt : String) (s : Store) : SameAd e (e.setStore sec pt s) :=
  adapter_setStore e sec pt s
theorem sameAd_incrLinks (e : Enf) (add : Bool) (pt : String) (rules : List Rule) :
    SameAd e (e.incrLinks add pt rules).1 := adapter_incrLinks e add pt rules
theorem sameAd_incrLinks_of_eq {e : Enf} {add : Bool} {pt : String} {rules : List Rule} {e1 : Enf} {ok : Bool}
    (h : e.incrLinks add pt rules = (e1, ok)) : SameAd e e1 := adapter_incrLinks_of_eq h

/-! ### a generic persist step keeps watcher/notifications -/

theorem sameAux_selfPersist {e : Enf} {b : Bool} {entry : String} {eff : AdapterSt → AdapterSt} {e1 : Enf} {ok : Bool}
    (h : (if b = true then e.adapterCall entry eff else (e, true)) = (e1, ok)) : SameAux e e1 := by
  obtain ⟨⟨X, rfl⟩, _, _⟩ := selfPersist_spec h
  exact ⟨rfl, rfl, rfl⟩

end Enf

/-- close a goal `SameAux e X` where `X` is built from the primitives of a Self operation -/
macro "self_aux_tac" : tactic => `(tactic| (
  try dsimp only
  repeat (first
    | exact SameAux.refl _
    | exact Enf.sameAux_selfPersist (by assumption)
    | refine SameAux.trans ?_ (sameAux_setStore _ _ _ _)
    | refine SameAux.trans ?_ (sameAux_incrLinks _ _ _ _)
    | refine SameAux.trans ?_ (sameAux_incrLinks_of_eq (by assumption)))))

namespace Enf

theorem sameAux_addPoliciesSelf (e : Enf) (persist : Option Bool) (sec pt : String) (rules : List Rule) :
    SameAux e (e.addPoliciesSelf persist sec pt rules).1 := by
  unfold Enf.addPoliciesSelf
  repeat' first | split | (dsimp only; split)
  all_goals self_aux_tac

theorem sameAux_removePoliciesSelf (e : Enf) (persist : Option Bool) (sec pt : String) (rules : List Rule) :
    SameAux e (e.removePoliciesSelf persist sec pt rules).1 := by
  unfold Enf.removePoliciesSelf
  repeat' first | split | (dsimp only; split)
  all_goals self_aux_tac

theorem sameAux_updatePolicySelf (e : Enf) (persist : Option Bool) (sec pt : String) (old new : Rule) :
    SameAux e (e.updatePolicySelf persist sec pt old new).1 := by
  unfold Enf.updatePolicySelf
  repeat' first | split | (dsimp only; split)
  all_goals self_aux_tac

theorem sameAux_updatePoliciesSelf (e : Enf) (persist : Option Bool) (sec pt : String) (olds news : List Rule) :
    SameAux e (e.updatePoliciesSelf persist sec pt olds news).1 := by
  unfold Enf.updatePoliciesSelf
  repeat' first | split | (dsimp only; split)
  all_goals self_aux_tac

theorem sameAux_clearPolicySelf (e : Enf) (persist : Option Bool) :
    SameAux e (e.clearPolicySelf persist).1 := by
  unfold Enf.clearPolicySelf
  split
  rename_i e1 ok h
  have := sameAux_selfPersist h
  split
  · exact this
  · exact ⟨this.watcher, this.autoNotify, this.notif⟩

end Enf

/-- close a goal `Enf.SameAd e X` where `X` is built from `setStore`/`incrLinks` -/
macro "self_ad_tac" : tactic => `(tactic| (
  try dsimp only
  repeat (first
    | exact Enf.SameAd.refl _
    | refine Enf.SameAd.trans ?_ (Enf.sameAd_setStore _ _ _ _)
    | refine Enf.SameAd.trans ?_ (Enf.sameAd_incrLinks _ _ _ _)
    | refine Enf.SameAd.trans ?_ (Enf.sameAd_incrLinks_of_eq (by assumption)))))

namespace Enf

theorem sameAd_addPoliciesSelf (e : Enf) (persist : Option Bool) (sec pt : String) (rules : List Rule)
    (hp : wantsPersist persist = false) : SameAd e (e.addPoliciesSelf persist sec pt rules).1 := by
  cases hs : e.getStore sec pt with
  | none => rw [addPoliciesSelf_none_store persist rules hs]; exact .refl e
  | some s => rw [addPoliciesSelf_noPersist rules hp hs]; exact adapter_addTail e sec pt s rules

theorem sameAd_removePoliciesSelf (e : Enf) (persist : Option Bool) (sec pt : String) (rules : List Rule)
    (hp : wantsPersist persist = false) : SameAd e (e.removePoliciesSelf persist sec pt rules).1 := by
  rw [removePoliciesSelf_noPersist sec pt rules hp]; exact adapter_removeTail e sec pt rules

theorem sameAd_updatePolicySelf (e : Enf) (persist : Option Bool) (sec pt : String) (old new : Rule)
    (hp : wantsPersist persist = false) : SameAd e (e.updatePolicySelf persist sec pt old new).1 := by
  unfold Enf.updatePolicySelf
  simp only [hp, Bool.false_eq_true, if_false, Bool.not_true]
  repeat' first | split | (dsimp only; split)
  all_goals self_ad_tac

theorem sameAd_updatePoliciesSelf (e : Enf) (persist : Option Bool) (sec pt : String) (olds news : List Rule)
    (hp : wantsPersist persist = false) : SameAd e (e.updatePoliciesSelf persist sec pt olds news).1 := by
  unfold Enf.updatePoliciesSelf
  simp only [hp, Bool.false_eq_true, if_false, Bool.not_true]
  repeat' first | split | (dsimp only; split)
  all_goals self_ad_tac

theorem sameAd_clearPolicySelf (e : Enf) (persist : Option Bool)
    (hp : wantsPersist persist = false) : SameAd e (e.clearPolicySelf persist).1 := by
  unfold Enf.clearPolicySelf
  simp only [hp, Bool.false_eq_true, if_false, Bool.not_true]
  rfl

theorem sameAd_removeFilteredPolicySelf (e : Enf) (persist : Option Bool) (sec pt : String) (fi : Nat)
    (vals : List String) (hp : wantsPersist persist = false) (r : Enf × List Rule × Bool) :
    e.removeFilteredPolicySelf persist sec pt fi vals = some r → SameAd e r.1 := by
  unfold Enf.removeFilteredPolicySelf
  simp only [hp, Bool.false_eq_true, if_false, Bool.not_true]
  repeat' first | split | (dsimp only; split)
  all_goals (intro h; cases h)
  all_goals self_ad_tac

end Enf
end Casbin
