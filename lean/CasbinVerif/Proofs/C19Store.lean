import CasbinVerif.Proofs.StoreOps
/-
  C19 helper lemmas, store level: what `Store.addMany` / `Store.removeMany` report as affected.
-/
namespace Casbin

/-! ### addMany -/

/-- the affected rules are exactly what was appended -/
theorem addMany_affected {n : Nat} (hn : n ≠ 0) (rs : List Rule) {s : Store} (g : Good n s)
    (hrs : ∀ r ∈ rs, plainRule n r = true) :
    (s.addMany none rs).1.policy = s.policy ++ (s.addMany none rs).2 := by
  induction rs generalizing s with
  | nil => simp [Store.addMany]
  | cons r rs ih =>
    have hr := hrs r List.mem_cons_self
    have hrs' : ∀ r ∈ rs, plainRule n r = true := fun q hq => hrs q (List.mem_cons_of_mem _ hq)
    simp only [Store.addMany]
    by_cases hh : s.has r = true
    · rw [if_pos hh]
      exact ih g hrs'
    · rw [if_neg hh]
      have hm : r ∉ s.policy := fun h => hh ((g.has_iff hn hr).2 h)
      obtain ⟨g', hp⟩ := good_add_none hn g hr hm
      have := ih g' hrs'
      rw [hp] at this
      simp only [this, List.append_assoc, List.singleton_append]

/-- a batch whose rules are all listed changes nothing (whatever the priority index) -/
theorem addMany_all_has (prio : Option Nat) (s : Store) (rs : List Rule) (h : ∀ r ∈ rs, s.has r = true) :
    s.addMany prio rs = (s, []) := by
  induction rs with
  | nil => rfl
  | cons r rs ih =>
    simp only [Store.addMany, h r List.mem_cons_self, if_true]
    exact ih (fun q hq => h q (List.mem_cons_of_mem _ hq))

theorem mem_foldl_addOne_of_mem_left (rs : List Rule) (l : List Rule) {x : Rule} (hx : x ∈ l) :
    x ∈ rs.foldl SpecStore.addOne l := by
  induction rs generalizing l with
  | nil => exact hx
  | cons r rs ih =>
    simp only [List.foldl_cons]
    apply ih
    simp only [SpecStore.addOne]
    split
    · exact hx
    · exact List.mem_append_left _ hx

theorem mem_foldl_addOne_of_mem (rs : List Rule) (l : List Rule) {x : Rule} (hx : x ∈ rs) :
    x ∈ rs.foldl SpecStore.addOne l := by
  induction rs generalizing l with
  | nil => simp at hx
  | cons r rs ih =>
    simp only [List.foldl_cons]
    rcases List.mem_cons.1 hx with rfl | hx
    · apply mem_foldl_addOne_of_mem_left
      simp only [SpecStore.addOne]
      split
      · assumption
      · simp
    · exact ih _ hx

/-! ### removeMany -/

/-- the specification's affected list of a batch removal -/
def specRemoved : List Rule → List Rule → List Rule
  | _, [] => []
  | l, r :: rs => if r ∈ l then r :: specRemoved (l.erase r) rs else specRemoved l rs

theorem removeMany_affected {n : Nat} (hn : n ≠ 0) (rs : List Rule) {s : Store} (g : Good n s)
    (hrs : ∀ r ∈ rs, plainRule n r = true) :
    (s.removeMany rs).2 = specRemoved s.policy rs := by
  induction rs generalizing s with
  | nil => rfl
  | cons r rs ih =>
    have hr := hrs r List.mem_cons_self
    have hrs' : ∀ r ∈ rs, plainRule n r = true := fun q hq => hrs q (List.mem_cons_of_mem _ hq)
    obtain ⟨g', hp, hb⟩ := remove_spec hn g hr
    simp only [Store.removeMany, specRemoved]
    rcases hrm : s.remove r with ⟨s', b⟩
    rw [hrm] at g' hp hb
    cases b with
    | true =>
      simp only
      have hm : r ∈ s.policy := by simpa using hb
      simp only at hp
      rw [if_pos hm, ih g' hrs', hp]
    | false =>
      simp only
      have hm : r ∉ s.policy := by simpa using hb
      rw [if_neg hm, ih g hrs']

/-- removing nothing that is listed changes nothing -/
theorem removeMany_none_has (s : Store) (rs : List Rule) (h : ∀ r ∈ rs, s.has r = false) :
    s.removeMany rs = (s, []) := by
  induction rs with
  | nil => rfl
  | cons r rs ih =>
    have hr := h r List.mem_cons_self
    simp only [Store.has] at hr
    have hg : s.index.get (ruleKey r) = none := by
      cases hx : s.index.get (ruleKey r) with
      | none => rfl
      | some i => rw [hx] at hr; simp at hr
    simp only [Store.removeMany, Store.remove, hg]
    exact ih (fun q hq => h q (List.mem_cons_of_mem _ hq))

theorem specRemoved_filter_ne {l : List Rule} (hnd : l.Nodup) (r : Rule) (rs : List Rule) :
    specRemoved l (rs.filter (fun b => !b == r)) = specRemoved (l.erase r) rs := by
  induction rs generalizing l with
  | nil => rfl
  | cons x rs ih =>
    by_cases hx : x = r
    · subst hx
      have hnm : x ∉ l.erase x := fun h => (List.Nodup.mem_erase_iff hnd).1 h |>.1 rfl
      simp only [List.filter_cons, beq_self_eq_true, Bool.not_true, Bool.false_eq_true, if_false,
        specRemoved, if_neg hnm]
      exact ih hnd
    · have hb : (!x == r) = true := by simpa using hx
      simp only [List.filter_cons, hb, if_true, specRemoved]
      have hiff : x ∈ l.erase r ↔ x ∈ l := by
        rw [List.Nodup.mem_erase_iff hnd]
        exact ⟨fun h => h.2, fun h => ⟨hx, h⟩⟩
      by_cases hm : x ∈ l
      · rw [if_pos hm, if_pos (hiff.2 hm), ih (hnd.erase x), List.erase_comm]
      · rw [if_neg hm, if_neg (fun h => hm (hiff.1 h)), ih hnd]

theorem specRemoved_eq {l : List Rule} (hnd : l.Nodup) (rs : List Rule) :
    specRemoved l rs = rs.eraseDups.filter (· ∈ l) := by
  generalize hk : rs.length = k
  induction k using Nat.strongRecOn generalizing l rs with
  | _ k ih =>
    cases rs with
    | nil => simp [specRemoved]
    | cons r rs =>
      subst hk
      have hlen : (rs.filter (fun b => !b == r)).length < (r :: rs).length := by
        have := List.length_filter_le (fun b => !b == r) rs
        simp only [List.length_cons]; omega
      have ih' := ih _ hlen hnd (rs.filter (fun b => !b == r)) rfl
      rw [List.eraseDups_cons, List.filter_cons, ← ih', specRemoved_filter_ne hnd, specRemoved]
      by_cases hm : r ∈ l
      · simp [hm]
      · simp [hm, List.erase_of_not_mem hm]

theorem not_mem_foldl_erase_of_not_mem (rs : List Rule) (l : List Rule) {x : Rule} (hx : x ∉ l) :
    x ∉ rs.foldl List.erase l := by
  induction rs generalizing l with
  | nil => exact hx
  | cons r rs ih =>
    simp only [List.foldl_cons]
    exact ih _ (fun h => hx (List.mem_of_mem_erase h))

theorem not_mem_foldl_erase {l : List Rule} (hnd : l.Nodup) (rs : List Rule) {x : Rule} (hx : x ∈ rs) :
    x ∉ rs.foldl List.erase l := by
  induction rs generalizing l with
  | nil => simp at hx
  | cons r rs ih =>
    simp only [List.foldl_cons]
    rcases List.mem_cons.1 hx with rfl | hx
    · apply not_mem_foldl_erase_of_not_mem
      exact fun h => ((List.Nodup.mem_erase_iff hnd).1 h).1 rfl
    · exact ih (hnd.erase r) hx

end Casbin
