import CasbinVerif.Model.Distributed
import CasbinVerif.Proofs.C19Enf
/- helper lemmas for Properties/C19Updf.lean -/
namespace Casbin
namespace Enf

theorem sameAux_updateFilteredPoliciesSelf (e : Enf) (persist : Option Bool) (sec pt : String)
    (news : List Rule) (fi : Nat) (vals : List String) :
    SameAux e (e.updateFilteredPoliciesSelf persist sec pt news fi vals).1 := by
  unfold Enf.updateFilteredPoliciesSelf
  generalize (ite (wantsPersist persist = true) _ ([] : List Rule)) = olds
  split
  rename_i e1 ok h
  have h1 := sameAux_selfPersist h
  repeat' first | split | (dsimp only; split)
  all_goals self_aux_tac

theorem rm_setStore (e : Enf) (sec pt : String) (s : Store) : (e.setStore sec pt s).rm = e.rm := by
  unfold Enf.setStore
  split <;> rfl

/-- the whole operation on a replica that does not persist -/
theorem updateFilteredPoliciesSelf_noPersist (e : Enf) (persist : Option Bool) (sec pt : String)
    (news : List Rule) (fi : Nat) (vals : List String) (hp : wantsPersist persist = false) :
    e.updateFilteredPoliciesSelf persist sec pt news fi vals =
      match e.getStore sec pt with
      | none => (e, false, true)
      | some s => (e.setStore sec pt (s.addMany (e.prioOf sec pt) news).1, false, false) := by
  unfold Enf.updateFilteredPoliciesSelf
  simp only [hp, Bool.false_eq_true, if_false, Bool.not_true]
  cases e.getStore sec pt with
  | none => rfl
  | some s => simp [Store.removeMany]

/-- the whole operation when the adapter call fails -/
theorem updateFilteredPoliciesSelf_fail (e : Enf) (persist : Option Bool) (sec pt : String)
    (news : List Rule) (fi : Nat) (vals : List String) (hp : wantsPersist persist = true)
    (a : AdapterSt) (ha : e.adapter = some a)
    (hf : (a.call s!"UpdateFilteredPolicies({pt};{showRules news};{fi};{showRule vals})").2 = false) :
    e.updateFilteredPoliciesSelf persist sec pt news fi vals =
      ({ e with adapter := some (a.call s!"UpdateFilteredPolicies({pt};{showRules news};{fi};{showRule vals})").1 },
        false, true) := by
  unfold Enf.updateFilteredPoliciesSelf Enf.adapterCall
  simp only [hp, if_true, ha]
  generalize a.call _ = c at hf ⊢
  obtain ⟨a', ok⟩ := c
  simp only at hf
  subst hf
  simp

end Enf
end Casbin
