import CasbinVerif.Model.Cached
/-
  The cache key is injective: `part tag b ++ rest` determines `(tag, b, rest)`.
-/
namespace Casbin.Cache

def b2c (u : UInt8) : Char := Char.ofNat u.toNat
def c2b (c : Char) : UInt8 := UInt8.ofNat c.toNat

theorem isDigit_toNat {c : Char} (h : c.isDigit) : 48 ≤ c.toNat ∧ c.toNat ≤ 57 := by
  simp [Char.isDigit, UInt32.le_iff_toNat_le] at h
  exact h

theorem c2b_toNat {c : Char} (h : c.isDigit) : (c2b c).toNat = c.toNat := by
  have := isDigit_toNat h
  simp [c2b]
  omega

theorem b2c_c2b {c : Char} (h : c.isDigit) : b2c (c2b c) = c := by
  rw [b2c, c2b_toNat h, Char.ofNat_toNat]

theorem digits_eq (n : Nat) : digits n = (Nat.toDigits 10 n).map c2b := rfl

theorem map_b2c_digits (n : Nat) : (digits n).map b2c = Nat.toDigits 10 n := by
  rw [digits_eq, List.map_map]
  conv => rhs; rw [← List.map_id (Nat.toDigits 10 n)]
  apply List.map_congr_left
  intro c hc
  exact b2c_c2b (Nat.isDigit_of_mem_toDigits (by decide) (by decide) hc)

theorem digits_inj {m n : Nat} (h : digits m = digits n) : m = n := by
  have h' := congrArg (List.map b2c) h
  rw [map_b2c_digits, map_b2c_digits] at h'
  have := congrArg (fun l => Nat.ofDigitChars 10 l 0) h'
  simpa using this

theorem digits_ne_nil (n : Nat) : digits n ≠ [] := by
  rw [digits_eq]
  simp [Nat.toDigits_ne_nil]

theorem mem_digits {u : UInt8} {n : Nat} (h : u ∈ digits n) : 48 ≤ u.toNat ∧ u.toNat ≤ 57 := by
  rw [digits_eq, List.mem_map] at h
  obtain ⟨c, hc, rfl⟩ := h
  have hd := Nat.isDigit_of_mem_toDigits (by decide) (by decide) hc
  rw [c2b_toNat hd]
  exact isDigit_toNat hd

theorem colon_not_mem_digits (n : Nat) : colon ∉ digits n := by
  intro h
  have := mem_digits h
  simp [colon] at this

theorem atSign_not_mem_digits (n : Nat) : atSign ∉ digits n := by
  intro h
  have := mem_digits h
  simp [atSign] at this

theorem append_sep_inj {α} {a : α} : ∀ {l₁ l₂ x₁ x₂ : List α}, a ∉ l₁ → a ∉ l₂ →
    l₁ ++ a :: x₁ = l₂ ++ a :: x₂ → l₁ = l₂ ∧ x₁ = x₂
  | [], [], _, _, _, _, h => by simpa using h
  | [], b :: l₂, _, _, _, h₂, h => by
      simp at h h₂
      exact absurd h.1 h₂.1
  | b :: l₁, [], _, _, h₁, _, h => by
      simp at h h₁
      exact absurd h.1.symm h₁.1
  | b :: l₁, c :: l₂, _, _, h₁, h₂, h => by
      simp at h h₁ h₂
      obtain ⟨rfl, h⟩ := h
      obtain ⟨rfl, rfl⟩ := append_sep_inj h₁.2 h₂.2 h
      exact ⟨rfl, rfl⟩

/-- the untagged body of a part determines the payload and the remainder -/
theorem body_inj {b₁ b₂ r₁ r₂ : Bytes}
    (h : digits b₁.length ++ [colon] ++ b₁ ++ [dollar, dollar] ++ r₁ =
         digits b₂.length ++ [colon] ++ b₂ ++ [dollar, dollar] ++ r₂) : b₁ = b₂ ∧ r₁ = r₂ := by
  simp only [List.append_assoc, List.cons_append, List.nil_append] at h
  obtain ⟨hd, hx⟩ := append_sep_inj (colon_not_mem_digits _) (colon_not_mem_digits _) h
  have hl := digits_inj hd
  obtain ⟨hb, hr⟩ := List.append_inj hx hl
  simp at hr
  exact ⟨hb, hr⟩


theorem part_append_ne_nil (t b r : Bytes) : part t b ++ r ≠ [] := by
  intro h
  have := congrArg List.length h
  simp [part] at this

theorem part_nil_nil {b₁ b₂ r₁ r₂ : Bytes} (h : part [] b₁ ++ r₁ = part [] b₂ ++ r₂) :
    b₁ = b₂ ∧ r₁ = r₂ := by
  simp only [part, List.nil_append] at h
  exact body_inj h

theorem part_at_at {b₁ b₂ r₁ r₂ : Bytes} (h : part [atSign] b₁ ++ r₁ = part [atSign] b₂ ++ r₂) :
    b₁ = b₂ ∧ r₁ = r₂ := by
  simp only [part, List.append_assoc, List.cons_append, List.nil_append, List.cons.injEq, true_and] at h
  apply body_inj
  simpa only [List.append_assoc, List.cons_append, List.nil_append] using h

theorem part_nil_at {b₁ b₂ r₁ r₂ : Bytes} (h : part [] b₁ ++ r₁ = part [atSign] b₂ ++ r₂) : False := by
  simp only [part, List.append_assoc, List.cons_append, List.nil_append] at h
  cases hd : digits b₁.length with
  | nil => exact absurd hd (digits_ne_nil _)
  | cons u t =>
    rw [hd] at h
    simp only [List.cons_append, List.cons.injEq] at h
    apply atSign_not_mem_digits b₁.length
    rw [hd, ← h.1]
    simp

theorem cacheKey_inj : ∀ (q₁ q₂ : List Param) (k : Bytes),
    cacheKey q₁ = some k → cacheKey q₂ = some k → q₁ = q₂ := by
  intro q₁
  induction q₁ with
  | nil =>
    intro q₂ k h₁ h₂
    simp only [cacheKey, Option.some.injEq] at h₁
    subst h₁
    cases q₂ with
    | nil => rfl
    | cons p ps =>
      cases p with
      | str b =>
        simp only [cacheKey, Option.map_eq_some_iff] at h₂
        obtain ⟨k', _, hk⟩ := h₂
        exact absurd hk (part_append_ne_nil _ _ _)
      | cacheable b =>
        simp only [cacheKey, Option.map_eq_some_iff] at h₂
        obtain ⟨k', _, hk⟩ := h₂
        exact absurd hk (part_append_ne_nil _ _ _)
      | other => simp [cacheKey] at h₂
  | cons p ps ih =>
    intro q₂ k h₁ h₂
    cases p with
    | other => simp [cacheKey] at h₁
    | str b =>
      simp only [cacheKey, Option.map_eq_some_iff] at h₁
      obtain ⟨k₁, hk₁, rfl⟩ := h₁
      cases q₂ with
      | nil =>
        simp only [cacheKey, Option.some.injEq] at h₂
        exact absurd h₂.symm (part_append_ne_nil _ _ _)
      | cons p' ps' =>
        cases p' with
        | other => simp [cacheKey] at h₂
        | str b' =>
          simp only [cacheKey, Option.map_eq_some_iff] at h₂
          obtain ⟨k₂, hk₂, h⟩ := h₂
          obtain ⟨rfl, rfl⟩ := part_nil_nil h
          rw [ih ps' k₂ hk₁ hk₂]
        | cacheable b' =>
          simp only [cacheKey, Option.map_eq_some_iff] at h₂
          obtain ⟨k₂, hk₂, h⟩ := h₂
          exact (part_nil_at h.symm).elim
    | cacheable b =>
      simp only [cacheKey, Option.map_eq_some_iff] at h₁
      obtain ⟨k₁, hk₁, rfl⟩ := h₁
      cases q₂ with
      | nil =>
        simp only [cacheKey, Option.some.injEq] at h₂
        exact absurd h₂.symm (part_append_ne_nil _ _ _)
      | cons p' ps' =>
        cases p' with
        | other => simp [cacheKey] at h₂
        | cacheable b' =>
          simp only [cacheKey, Option.map_eq_some_iff] at h₂
          obtain ⟨k₂, hk₂, h⟩ := h₂
          obtain ⟨rfl, rfl⟩ := part_at_at h
          rw [ih ps' k₂ hk₁ hk₂]
        | str b' =>
          simp only [cacheKey, Option.map_eq_some_iff] at h₂
          obtain ⟨k₂, hk₂, h⟩ := h₂
          exact (part_nil_at h).elim

end Casbin.Cache
