import CasbinVerif.Spec.Cached
import CasbinVerif.Proofs.CacheKey
/-
  Invariant of the cached enforcer along a history, and the one-step facts behind C14.
-/
namespace Casbin.Cache

/-! ### `invalidateRule` -/

theorem invalidateRule_eq (c : CE) (r : List Param) :
    invalidateRule c r = { c with entries := c.entries.filter (fun e => cacheKey r != some e.key) } := by
  unfold invalidateRule
  split
  · next k hk =>
    simp only [delKey]
    congr 1
    apply List.filter_congr
    intro e _
    rw [hk, Bool.eq_iff_iff]
    simp only [bne_iff_ne, ne_eq, Option.some.injEq]
    exact ⟨fun h h' => h h'.symm, fun h h' => h h'.symm⟩
  · next hk =>
    cases c
    simp only [CE.mk.injEq, true_and, and_true]
    refine (List.filter_eq_self.2 ?_).symm
    simp [*]

theorem foldl_invalidateRule_eq (rs : List (List Param)) (c : CE) :
    rs.foldl invalidateRule c =
      { c with entries := c.entries.filter (fun e => rs.all (fun r => cacheKey r != some e.key)) } := by
  induction rs generalizing c with
  | nil =>
    cases c
    simp only [List.foldl_nil, CE.mk.injEq, true_and, and_true]
    refine (List.filter_eq_self.2 ?_).symm
    simp [*]
  | cons r rs ih =>
    rw [List.foldl_cons, ih, invalidateRule_eq]
    simp [List.filter_filter, Bool.and_comm]

/-! ### one step: scalar fields -/

theorem step_count (c : CE) (ev : Ev) : (step c ev).1.count = c.count + 1 := by
  unfold step
  cases ev <;> simp only [invalidateRule_eq, foldl_invalidateRule_eq] <;> (repeat' split) <;> simp [delKey]

theorem step_synced (c : CE) (ev : Ev) : (step c ev).1.synced = c.synced := by
  unfold step
  cases ev <;> simp only [invalidateRule_eq, foldl_invalidateRule_eq] <;> (repeat' split) <;> simp [delKey]

theorem step_now (c : CE) (ev : Ev) :
    (step c ev).1.now = c.now + (match ev with | .tick n => n | _ => 0) := by
  unfold step
  cases ev <;> simp only [invalidateRule_eq, foldl_invalidateRule_eq] <;> (repeat' split) <;> simp [delKey]

theorem step_ttl (c : CE) (ev : Ev) :
    (step c ev).1.ttl = (match ev with | .setTTL n => n | _ => c.ttl) := by
  unfold step
  cases ev <;> simp only [invalidateRule_eq, foldl_invalidateRule_eq] <;> (repeat' split) <;> simp [delKey]

/-! ### one step: entries -/

/-- after an Enforce every entry is an old one or the one just created -/
theorem step_enforce_entries (c : CE) (q : List Param) (under : Option Bool) (e' : Entry)
    (h : e' ∈ (step c (.enforce q under)).1.entries) :
    e' ∈ c.entries ∨
      ∃ k b, cacheKey q = some k ∧ under = some b ∧ e' = ⟨k, b, c.ttl, c.now + c.ttl, q, c.count⟩ := by
  unfold step at h
  simp only at h
  repeat' split at h
  all_goals simp [delKey] at h
  all_goals first
    | exact Or.inl h
    | exact Or.inl h.1
    | (rcases h with h | h
       · first | exact Or.inl h | exact Or.inl h.1
       · exact Or.inr ⟨_, _, ‹_›, rfl, h⟩)

/-- a call other than Enforce keeps only old entries, and only those it does not invalidate -/
theorem step_other_entries (c : CE) (ev : Ev) (e' : Entry) (hne : ∀ q u, ev ≠ .enforce q u)
    (h : e' ∈ (step c ev).1.entries) :
    e' ∈ c.entries ∧ (cacheKey e'.q = some e'.key → invalidates c.synced e'.q ev = false) := by
  unfold step at h
  cases ev with
  | enforce q u => exact absurd rfl (hne q u)
  | invalidate => simp at h
  | load => simp at h
  | clear => simp at h
  | remove r =>
    simp only [invalidateRule_eq, List.mem_filter, bne_iff_ne, ne_eq] at h
    refine ⟨h.1, fun hk => ?_⟩
    simp only [invalidates, beq_eq_false_iff_ne, ne_eq]
    rintro rfl
    exact h.2 hk
  | removes rs =>
    simp only [foldl_invalidateRule_eq, List.mem_filter, List.all_eq_true, bne_iff_ne, ne_eq] at h
    refine ⟨h.1, fun hk => ?_⟩
    simp only [invalidates, List.contains_eq_mem, decide_eq_false_iff_not]
    intro hm
    exact h.2 _ hm hk
  | add r =>
    cases hs : c.synced with
    | false => simpa [hs, invalidates] using h
    | true =>
      simp only [hs, if_true, invalidateRule_eq, List.mem_filter, bne_iff_ne, ne_eq] at h
      refine ⟨h.1, fun hk => ?_⟩
      simp only [invalidates, Bool.true_and, beq_eq_false_iff_ne, ne_eq]
      rintro rfl
      exact h.2 hk
  | adds rs =>
    cases hs : c.synced with
    | false => simpa [hs, invalidates] using h
    | true =>
      simp only [hs, if_true, foldl_invalidateRule_eq, List.mem_filter, List.all_eq_true, bne_iff_ne, ne_eq] at h
      refine ⟨h.1, fun hk => ?_⟩
      simp only [invalidates, Bool.true_and, List.contains_eq_mem, decide_eq_false_iff_not]
      intro hm
      exact h.2 _ hm hk
  | enable b => simpa [invalidates] using h
  | setTTL n => simpa [invalidates] using h
  | tick n => simpa [invalidates] using h

/-! ### one step: what Enforce returns -/

theorem step_enforce_some (c : CE) (q : List Param) (under : Option Bool) :
    ∃ r, (step c (.enforce q under)).2 = some r := by
  unfold step
  simp only
  repeat' split
  all_goals exact ⟨_, rfl⟩

theorem step_enforce_error (c : CE) (q : List Param) (under : Option Bool)
    (h : (step c (.enforce q under)).2 = some none) : under = none := by
  unfold step at h
  simp only at h
  repeat' split at h
  all_goals simp at h
  all_goals first | exact h | rfl

/-- a served decision is the underlying one or the value of a live entry with the same key -/
theorem step_enforce_served (c : CE) (q : List Param) (under : Option Bool) (d : Bool)
    (h : (step c (.enforce q under)).2 = some (some d)) :
    under = some d ∨
      ∃ e ∈ c.entries, cacheKey q = some e.key ∧ e.value = d ∧ (e.ttl = 0 ∨ c.now ≤ e.expiresAt) := by
  unfold step at h
  simp only at h
  repeat' split at h
  all_goals simp at h
  all_goals first
    | exact Or.inl h
    | exact Or.inl (congrArg some h)
    | skip
  rename_i k hk _ e hfind hexp
  have hm := List.mem_of_find?_eq_some hfind
  have hkey := List.find?_some hfind
  refine Or.inr ⟨e, hm, ?_, h, ?_⟩
  · rw [hk, eq_of_beq hkey]
  · simp only [gt_iff_lt, Bool.and_eq_true, decide_eq_true_eq, not_and, Nat.not_lt] at hexp
    omega

/-! ### the clock and the lifetime along a growing history -/

theorem nowBefore_append (pre suf : List Ev) (j : Nat) (h : j ≤ pre.length) :
    nowBefore (pre ++ suf) j = nowBefore pre j := by
  simp only [nowBefore, List.take_append_of_le_length h]

theorem ttlBefore_append (pre suf : List Ev) (j : Nat) (h : j ≤ pre.length) :
    ttlBefore (pre ++ suf) j = ttlBefore pre j := by
  simp only [ttlBefore, List.take_append_of_le_length h]

theorem nowBefore_snoc (pre : List Ev) (ev : Ev) :
    nowBefore (pre ++ [ev]) (pre.length + 1) =
      nowBefore pre pre.length + (match ev with | .tick n => n | _ => 0) := by
  have h : pre.length + 1 = (pre ++ [ev]).length := by simp
  rw [nowBefore, nowBefore, h, List.take_length, List.take_length]
  cases ev <;> simp

theorem ttlBefore_snoc (pre : List Ev) (ev : Ev) :
    ttlBefore (pre ++ [ev]) (pre.length + 1) =
      (match ev with | .setTTL n => n | _ => ttlBefore pre pre.length) := by
  have h : pre.length + 1 = (pre ++ [ev]).length := by simp
  rw [ttlBefore, ttlBefore, h, List.take_length, List.take_length]
  cases ev <;> simp

/-! ### the invariant -/

/-- the ghost data of an entry describe a real earlier Enforce that is still valid -/
structure EntryOK (synced : Bool) (pre : List Ev) (e : Entry) : Prop where
  key : cacheKey e.q = some e.key
  born_lt : e.born < pre.length
  born_ev : pre[e.born]? = some (.enforce e.q (some e.value))
  noinv : ∀ m ev, e.born < m → pre[m]? = some ev → invalidates synced e.q ev = false
  ttl : e.ttl = ttlBefore pre e.born
  exp : e.expiresAt = nowBefore pre e.born + e.ttl

/-- the state reached after the calls `pre` -/
structure Good (synced : Bool) (pre : List Ev) (c : CE) : Prop where
  count : c.count = pre.length
  now : c.now = nowBefore pre pre.length
  ttl : c.ttl = ttlBefore pre pre.length
  sync : c.synced = synced
  entries : ∀ e ∈ c.entries, EntryOK synced pre e

theorem good_init (synced : Bool) : Good synced [] { synced := synced } where
  count := rfl
  now := rfl
  ttl := rfl
  sync := rfl
  entries := by simp

theorem EntryOK.snoc {synced : Bool} {pre : List Ev} {e : Entry} (ev : Ev)
    (h : EntryOK synced pre e) (hinv : invalidates synced e.q ev = false) :
    EntryOK synced (pre ++ [ev]) e where
  key := h.key
  born_lt := by simp; have := h.born_lt; omega
  born_ev := by rw [List.getElem?_append_left h.born_lt]; exact h.born_ev
  noinv := by
    intro m ev' hm hev'
    rw [List.getElem?_append] at hev'
    split at hev'
    · exact h.noinv m ev' hm hev'
    · next hlt =>
      have : m - pre.length = 0 := by
        cases hmm : m - pre.length with
        | zero => rfl
        | succ n => rw [hmm] at hev'; simp at hev'
      rw [this] at hev'
      simp at hev'
      subst hev'
      exact hinv
  ttl := by rw [ttlBefore_append _ _ _ (Nat.le_of_lt h.born_lt)]; exact h.ttl
  exp := by rw [nowBefore_append _ _ _ (Nat.le_of_lt h.born_lt)]; exact h.exp

theorem EntryOK.new {synced : Bool} {pre : List Ev} {c : CE} (hg : Good synced pre c)
    {q : List Param} {k : Bytes} (b : Bool) (hk : cacheKey q = some k) :
    EntryOK synced (pre ++ [.enforce q (some b)]) ⟨k, b, c.ttl, c.now + c.ttl, q, c.count⟩ where
  key := hk
  born_lt := by simp [hg.count]
  born_ev := by simp [hg.count]
  noinv := by
    intro m ev' hm hev'
    simp only [hg.count] at hm
    rw [List.getElem?_eq_none (by simp; omega)] at hev'
    cases hev'
  ttl := by
    simp only [hg.count]
    rw [ttlBefore_append _ _ _ (Nat.le_refl _)]; exact hg.ttl
  exp := by
    simp only [hg.count]
    rw [nowBefore_append _ _ _ (Nat.le_refl _), hg.now]

theorem Good.step {synced : Bool} {pre : List Ev} {c : CE} (hg : Good synced pre c) (ev : Ev) :
    Good synced (pre ++ [ev]) (step c ev).1 where
  count := by rw [step_count, hg.count]; simp
  now := by rw [step_now, hg.now, List.length_append, List.length_singleton, nowBefore_snoc]
  ttl := by rw [step_ttl, hg.ttl, List.length_append, List.length_singleton, ttlBefore_snoc]
  sync := by rw [step_synced, hg.sync]
  entries := by
    intro e he
    by_cases hen : ∃ q u, ev = .enforce q u
    · obtain ⟨q, u, rfl⟩ := hen
      rcases step_enforce_entries c q u e he with hold | ⟨k, b, hk, rfl, rfl⟩
      · exact (hg.entries e hold).snoc _ rfl
      · exact EntryOK.new hg b hk
    · have hne : ∀ q u, ev ≠ .enforce q u := fun q u h => hen ⟨q, u, h⟩
      obtain ⟨hold, hinv⟩ := step_other_entries c ev e hne he
      have hok := hg.entries e hold
      exact hok.snoc ev (by rw [← hg.sync]; exact hinv hok.key)

/-! ### histories -/

theorem run_cons (c : CE) (ev : Ev) (evs : List Ev) :
    run c (ev :: evs) = ((run (step c ev).1 evs).1, (step c ev).2 :: (run (step c ev).1 evs).2) := rfl

/-- what the i-th call returns is what `step` returns from some state -/
theorem run_out_step : ∀ (evs : List Ev) (c : CE) (i : Nat) (ev : Ev), evs[i]? = some ev →
    ∃ c', (run c evs).2[i]? = some (step c' ev).2
  | [], _, _, _, h => by simp at h
  | ev₀ :: evs, c, 0, ev, h => by
      simp only [List.getElem?_cons_zero, Option.some.injEq] at h
      subst h
      exact ⟨c, by rw [run_cons]; rfl⟩
  | ev₀ :: evs, c, i + 1, ev, h => by
      simp only [List.getElem?_cons_succ] at h
      obtain ⟨c', hc'⟩ := run_out_step evs (step c ev₀).1 i ev h
      exact ⟨c', by rw [run_cons]; simpa using hc'⟩

/-- the conclusion of the transparency theorem -/
def Served (synced : Bool) (evs : List Ev) (i : Nat) (q : List Param) (under : Option Bool) (d : Bool) : Prop :=
  under = some d ∨
    ∃ j, j < i ∧ evs[j]? = some (.enforce q (some d)) ∧
      (∀ m ev, j < m → m < i → evs[m]? = some ev → invalidates synced q ev = false) ∧
      (ttlBefore evs j = 0 ∨ nowBefore evs i ≤ nowBefore evs j + ttlBefore evs j)

theorem Good.served_now {synced : Bool} {pre : List Ev} {c : CE} (hg : Good synced pre c)
    (suf : List Ev) (q : List Param) (under : Option Bool) (d : Bool)
    (h : (Casbin.Cache.step c (.enforce q under)).2 = some (some d)) :
    Served synced (pre ++ suf) pre.length q under d := by
  rcases step_enforce_served c q under d h with hu | ⟨e, he, hk, hv, hlive⟩
  · exact Or.inl hu
  · have hok := hg.entries e he
    have hq : e.q = q := cacheKey_inj _ _ _ hok.key hk
    refine Or.inr ⟨e.born, hok.born_lt, ?_, ?_, ?_⟩
    · rw [List.getElem?_append_left hok.born_lt, hok.born_ev, hq, hv]
    · intro m ev hm hmi hev
      rw [List.getElem?_append_left hmi] at hev
      rw [← hq]
      exact hok.noinv m ev hm hev
    · rw [ttlBefore_append _ _ _ (Nat.le_of_lt hok.born_lt), nowBefore_append _ _ _ (Nat.le_of_lt hok.born_lt),
        nowBefore_append _ _ _ (Nat.le_refl _), ← hok.ttl, ← hg.now]
      rcases hlive with h0 | hle
      · exact Or.inl h0
      · exact Or.inr (by rw [← hok.exp]; exact hle)

theorem Good.served : ∀ (suf : List Ev) {synced : Bool} {pre : List Ev} {c : CE}, Good synced pre c →
    ∀ (i : Nat) (q : List Param) (under : Option Bool) (d : Bool),
      suf[i]? = some (.enforce q under) → (run c suf).2[i]? = some (some (some d)) →
      Served synced (pre ++ suf) (pre.length + i) q under d
  | [], _, _, _, _, _, _, _, _, h, _ => by simp at h
  | ev :: suf, synced, pre, c, hg, 0, q, under, d, hev, hout => by
      simp only [List.getElem?_cons_zero, Option.some.injEq] at hev
      subst hev
      rw [run_cons] at hout
      simp only [List.getElem?_cons_zero, Option.some.injEq] at hout
      exact hg.served_now (.enforce q under :: suf) q under d hout
  | ev :: suf, synced, pre, c, hg, i + 1, q, under, d, hev, hout => by
      simp only [List.getElem?_cons_succ] at hev
      rw [run_cons] at hout
      simp only [List.getElem?_cons_succ] at hout
      have := Good.served suf (hg.step ev) i q under d hev hout
      simpa [Nat.add_assoc, Nat.add_comm 1 i] using this

end Casbin.Cache
