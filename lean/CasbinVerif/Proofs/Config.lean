import CasbinVerif.Model.Config
/-
  Helper lemmas for C08 (the INI-style reader `Casbin.Cfg`): facts about `trim`, a restructured
  view of `stepLine` (`top` then `body`), flushing, `runLines`, block compositionality.
-/
namespace Casbin.Cfg

/-! ### dropWhile / trim -/

theorem dropWhile_append_of_all {α} {p : α → Bool} (a b : List α) (h : a.all p = true) :
    (a ++ b).dropWhile p = b.dropWhile p := by
  induction a with
  | nil => rfl
  | cons x xs ih =>
    simp only [List.all_cons, Bool.and_eq_true] at h
    simp [h.1, ih h.2]

theorem dropWhile_append_of_not_all {α} {p : α → Bool} (a b : List α) (h : a.all p = false) :
    (a ++ b).dropWhile p = a.dropWhile p ++ b := by
  induction a with
  | nil => simp at h
  | cons x xs ih =>
    cases hx : p x
    · simp [hx]
    · simp only [List.all_cons, hx, Bool.true_and] at h
      simp [hx, ih h]

theorem dropWhile_nil_of_all {α} {p : α → Bool} (a : List α) (h : a.all p = true) :
    a.dropWhile p = [] := by
  have := dropWhile_append_of_all a [] h
  simpa using this

theorem dropWhile_append_stop {α} {p : α → Bool} (a b : List α) (c : α) (h : p c = false) :
    (a ++ c :: b).dropWhile p = a.dropWhile p ++ c :: b := by
  induction a with
  | nil => simp [h]
  | cons x xs ih =>
    cases hx : p x <;> simp [hx, ih]

theorem trim_pad (padL l padR : List Char) (hL : padL.all isSpace = true) (hR : padR.all isSpace = true) :
    trim (padL ++ l ++ padR) = trim l := by
  unfold trim trimLeft trimRight
  rw [List.append_assoc, dropWhile_append_of_all _ _ hL]
  cases h : l.all isSpace
  · rw [dropWhile_append_of_not_all _ _ h, List.reverse_append,
      dropWhile_append_of_all _ _ (by simpa using hR)]
  · rw [dropWhile_append_of_all _ _ h, dropWhile_nil_of_all _ hR, dropWhile_nil_of_all _ h]

theorem trimLeft_append_stop (a b : List Char) (c : Char) (h : isSpace c = false) :
    trimLeft (a ++ c :: b) = trimLeft a ++ c :: b := dropWhile_append_stop a b c h

theorem trimRight_append_stop (a b : List Char) (c : Char) (h : isSpace c = false) :
    trimRight (a ++ c :: b) = a ++ c :: trimRight b := by
  unfold trimRight
  rw [List.reverse_append, List.reverse_cons, List.append_assoc]
  simp only [List.singleton_append]
  rw [dropWhile_append_stop _ _ _ h]
  simp

theorem trimLeft_cons_stop (b : List Char) (c : Char) (h : isSpace c = false) :
    trimLeft (c :: b) = c :: b := by simp [trimLeft, h]

theorem trimLeft_decomp (k : List Char) : ∃ pad, pad.all isSpace = true ∧ k = pad ++ trimLeft k :=
  ⟨k.takeWhile isSpace, List.all_takeWhile, by simp [trimLeft]⟩

theorem trimRight_decomp (k : List Char) : ∃ pad, pad.all isSpace = true ∧ k = trimRight k ++ pad := by
  refine ⟨(k.reverse.takeWhile isSpace).reverse, ?_, ?_⟩
  · rw [List.all_reverse]; exact List.all_takeWhile
  · unfold trimRight
    rw [← List.reverse_append, List.takeWhile_append_dropWhile, List.reverse_reverse]

/-! ### `stepLine` = pending write (`top`) then `body` on the trimmed line -/

def top (st : St) : Option St :=
  if st.canWrite then (write st).map (fun s => { s with canWrite := false }) else some st

def forced (st : St) : Option St :=
  if !st.buffer.isEmpty then (write st).map (fun s => { s with canWrite := false }) else some st

def isBC (line : List Char) : Bool :=
  match line with
  | [] => true
  | c :: _ => isCommentStart c

def isHdr (line : List Char) : Bool :=
  match line with
  | [] => false
  | c :: _ => c == '[' && line.getLast? == some ']' && line.length ≥ 2

def keep (p : List Char) : List Char := p.takeWhile (fun x => !isCommentStart x)

def body (st : St) (line : List Char) : Option St :=
  if isBC line then some { st with canWrite := true }
  else if isHdr line then (forced st).map (fun s => { s with sect := (line.drop 1).dropLast })
  else if line.getLast? == some '\\' then
    some { st with buffer := st.buffer ++ keep (trim line.dropLast ++ [' ']), canWrite := st.canWrite }
  else some { st with buffer := st.buffer ++ keep line, canWrite := true }

theorem stepLine_eq (st : St) (raw : List Char) :
    stepLine st raw = (top st).bind (fun s => body s (trim raw)) := by
  unfold stepLine
  change Option.bind (top st) _ = _
  congr 1
  funext s
  unfold body
  cases hl : trim raw with
  | nil => simp [isBC]
  | cons c r =>
    by_cases hc : isCommentStart c = true
    · simp [isBC, hc]
    · have hbc : isBC (c :: r) = false := by simpa [isBC] using hc
      simp only [hbc]
      cases hh : isHdr (c :: r)
      · have hh' : (c == '[' && (c :: r).getLast? == some ']' && decide ((c :: r).length ≥ 2)) = false := hh
        simp only [hc, hh', Bool.false_eq_true, if_false]
        by_cases hb : ((c :: r).getLast? == some '\\') = true
        · simp only [if_pos hb, keep]
        · simp only [if_neg hb, keep]
      · have hh' : (c == '[' && (c :: r).getLast? == some ']' && decide ((c :: r).length ≥ 2)) = true := hh
        simp only [hc, hh', Bool.false_eq_true, if_false, if_true]
        change Option.bind (forced s) _ = _
        cases forced s <;> rfl

/-! ### write / top / finish -/

theorem St.eta_cw (s : St) (h : s.canWrite = false) : { s with canWrite := false } = s := by
  cases s; simp_all

theorem write_of_nil {st : St} (h : st.buffer = []) : write st = some st := by
  simp [write, h]

theorem write_some {st s : St} (h : write st = some s) :
    s.buffer = [] ∧ s.sect = st.sect ∧ s.canWrite = st.canWrite ∧ ∃ es, s.data = st.data ++ es := by
  unfold write at h
  split at h
  · cases h
    rename_i hb
    exact ⟨by simpa using hb, rfl, rfl, [], by simp⟩
  · split at h
    · cases h
    · cases h
      exact ⟨rfl, rfl, rfl, _, rfl⟩

def fin (s : St) : Option St := if !s.buffer.isEmpty then write s else some s

theorem finish_eq (st : St) : finish st = (top st).bind fin := rfl

theorem fin_some {st s : St} (h : fin st = some s) :
    s.buffer = [] ∧ s.sect = st.sect ∧ s.canWrite = st.canWrite ∧ ∃ es, s.data = st.data ++ es := by
  unfold fin at h
  split at h
  · exact write_some h
  · cases h
    rename_i hb
    exact ⟨by simpa using hb, rfl, rfl, [], by simp⟩

theorem forced_eq_fin {s : St} (h : s.canWrite = false) : forced s = fin s := by
  unfold forced fin
  split
  · cases hw : write s with
    | none => rfl
    | some s' =>
      have := write_some hw
      simp only [Option.map_some]
      rw [St.eta_cw s' (by rw [this.2.2.1, h])]
  · rfl

theorem top_of_cw_false {st : St} (h : st.canWrite = false) : top st = some st := by
  simp [top, h]

theorem top_some {st s : St} (h : top st = some s) :
    s.canWrite = false ∧ s.sect = st.sect ∧ (∃ es, s.data = st.data ++ es) ∧
      (st.canWrite = true ∨ st.buffer = [] → s.buffer = []) := by
  unfold top at h
  split at h
  · cases hw : write st with
    | none => simp [hw] at h
    | some s' =>
      simp only [hw, Option.map_some, Option.some.injEq] at h
      subst h
      have := write_some hw
      exact ⟨rfl, this.2.1, this.2.2.2, fun _ => this.1⟩
  · cases h
    rename_i hc
    refine ⟨by simpa using hc, rfl, ⟨[], by simp⟩, ?_⟩
    intro h; cases h with
    | inl h => exact absurd h hc
    | inr h => exact h

theorem top_of_nil {st : St} (h : st.buffer = []) : top st = some { st with canWrite := false } := by
  unfold top
  split
  · rw [write_of_nil h]; rfl
  · rename_i hc
    rw [St.eta_cw st (by simpa using hc)]

theorem finish_some {st s : St} (h : finish st = some s) :
    s.buffer = [] ∧ s.canWrite = false ∧ s.sect = st.sect ∧ ∃ es, s.data = st.data ++ es := by
  rw [finish_eq] at h
  cases ht : top st with
  | none => simp [ht] at h
  | some s1 =>
    simp only [ht, Option.bind_some] at h
    have h1 := top_some ht
    have h2 := fin_some h
    refine ⟨h2.1, by rw [h2.2.2.1, h1.1], by rw [h2.2.1, h1.2.1], ?_⟩
    obtain ⟨e1, he1⟩ := h1.2.2.1
    obtain ⟨e2, he2⟩ := h2.2.2.2
    exact ⟨e1 ++ e2, by rw [he2, he1, List.append_assoc]⟩

theorem fin_of_nil {st : St} (h : st.buffer = []) : fin st = some st := by
  simp [fin, h]

theorem finish_of_clean {st : St} (hb : st.buffer = []) (hc : st.canWrite = false) :
    finish st = some st := by
  rw [finish_eq, top_of_cw_false hc, Option.bind_some, fin_of_nil hb]

theorem finish_idem (st : St) : (finish st).bind finish = finish st := by
  cases h : finish st with
  | none => rfl
  | some s =>
    have := finish_some h
    rw [Option.bind_some, finish_of_clean this.1 this.2.1]

/-! ### classes of lines -/

theorem isBC_of_isHdr {line : List Char} (h : isHdr line = true) : isBC line = false := by
  cases line with
  | nil => simp [isHdr] at h
  | cons c r =>
    simp only [isHdr, Bool.and_eq_true, beq_iff_eq] at h
    simp only [isBC]
    rw [h.1.1]; decide

theorem body_bc {s : St} {line : List Char} (h : isBC line = true) :
    body s line = some { s with canWrite := true } := by
  simp [body, h]

theorem body_hdr {s : St} {line : List Char} (h : isHdr line = true) :
    body s line = (forced s).map (fun s => { s with sect := (line.drop 1).dropLast }) := by
  simp [body, h, isBC_of_isHdr h]

theorem stepLine_bc {st : St} {l : List Char} (h : isBC (trim l) = true) :
    stepLine st l = (top st).map (fun s => { s with canWrite := true }) := by
  rw [stepLine_eq]
  cases top st with
  | none => rfl
  | some s => simp [body_bc h]

theorem stepLine_hdr {st : St} {l : List Char} (h : isHdr (trim l) = true) :
    stepLine st l = (finish st).map (fun s => { s with sect := ((trim l).drop 1).dropLast }) := by
  rw [stepLine_eq, finish_eq]
  cases ht : top st with
  | none => rfl
  | some s =>
    simp only [Option.bind_some]
    rw [body_hdr h, forced_eq_fin (top_some ht).1]

/-! ### runLines -/

def runLines (st : St) : List (List Char) → Option St
  | [] => some st
  | l :: ls => (stepLine st l).bind (fun s => runLines s ls)

theorem parseLines_cons (st : St) (l : List Char) (ls : List (List Char)) :
    parseLines st (l :: ls) = (stepLine st l).bind (fun s => parseLines s ls) := by
  simp only [parseLines]
  cases stepLine st l <;> rfl

theorem parseLines_append (st : St) (a b : List (List Char)) :
    parseLines st (a ++ b) = (runLines st a).bind (fun s => parseLines s b) := by
  induction a generalizing st with
  | nil => rfl
  | cons x xs ih =>
    rw [List.cons_append, parseLines_cons, runLines]
    cases stepLine st x with
    | none => rfl
    | some s => simp [ih]

theorem runLines_append (st : St) (a b : List (List Char)) :
    runLines st (a ++ b) = (runLines st a).bind (fun s => runLines s b) := by
  induction a generalizing st with
  | nil => rfl
  | cons x xs ih =>
    rw [List.cons_append, runLines, runLines]
    cases stepLine st x with
    | none => rfl
    | some s => simp [ih]

theorem parseLines_eq_run (st : St) (ls : List (List Char)) :
    parseLines st ls = (runLines st ls).bind finish := by
  have := parseLines_append st ls []
  simpa [parseLines] using this

/-- `parseLines` only looks at the state through `top` -/
theorem parseLines_top_none {st : St} (h : top st = none) (ls : List (List Char)) :
    parseLines st ls = none := by
  cases ls with
  | nil => simp [parseLines, finish_eq, h]
  | cons l ls => simp [parseLines_cons, stepLine_eq, h]

theorem parseLines_congr_top {st₁ st₂ : St} (h : top st₁ = top st₂) (ls : List (List Char)) :
    parseLines st₁ ls = parseLines st₂ ls := by
  cases ls with
  | nil => simp [parseLines, finish_eq, h]
  | cons l ls => simp [parseLines_cons, stepLine_eq, h]

/-- only the trimmed lines matter -/
theorem parseLines_congr_trim (st : St) (ls ls' : List (List Char)) (h : ls.map trim = ls'.map trim) :
    parseLines st ls = parseLines st ls' := by
  induction ls generalizing st ls' with
  | nil =>
    cases ls' with
    | nil => rfl
    | cons _ _ => simp at h
  | cons x xs ih =>
    cases ls' with
    | nil => simp at h
    | cons y ys =>
      simp only [List.map_cons, List.cons.injEq] at h
      rw [parseLines_cons, parseLines_cons, stepLine_eq, stepLine_eq, h.1]
      cases (top st).bind (fun s => body s (trim y)) with
      | none => rfl
      | some s => simp [ih s ys h.2]

/-! ### blank / comment lines -/

def contline (line : List Char) : Bool := !isBC line && line.getLast? == some '\\'

theorem blank_absorb {st : St} {l : List Char} (hl : isBC (trim l) = true)
    (hst : st.canWrite = true ∨ st.buffer = []) (post : List (List Char)) :
    parseLines st (l :: post) = parseLines st post := by
  rw [parseLines_cons, stepLine_bc hl]
  cases ht : top st with
  | none => rw [parseLines_top_none ht]; rfl
  | some s =>
    simp only [Option.map_some, Option.bind_some]
    apply parseLines_congr_top
    rw [ht]
    have h := top_some ht
    rw [top_of_nil (by exact h.2.2.2 hst)]
    simp only
    congr 1
    exact St.eta_cw s h.1

theorem forced_some_buffer {s s' : St} (h : forced s = some s') : s'.buffer = [] := by
  unfold forced at h
  split at h
  · cases hw : write s with
    | none => simp [hw] at h
    | some s2 =>
      simp only [hw, Option.map_some, Option.some.injEq] at h
      subst h
      exact (write_some hw).1
  · cases h
    rename_i hb
    simpa using hb

theorem stepLine_not_cont {st s : St} {l : List Char} (h : stepLine st l = some s)
    (hl : contline (trim l) = false) : s.canWrite = true ∨ s.buffer = [] := by
  rw [stepLine_eq] at h
  cases ht : top st with
  | none => simp [ht] at h
  | some s1 =>
    simp only [ht, Option.bind_some] at h
    unfold body at h
    split at h
    · cases h; exact Or.inl rfl
    · rename_i hbc
      split at h
      · cases hf : forced s1 with
        | none => simp [hf] at h
        | some s2 =>
          simp only [hf, Option.map_some, Option.some.injEq] at h
          subst h
          exact Or.inr (forced_some_buffer (s' := s2) hf)
      · split at h
        · rename_i hb
          simp [contline, hbc, hb] at hl
        · cases h; exact Or.inl rfl

def lastNotCont (pre : List (List Char)) : Prop :=
  ∀ l, pre.getLast? = some l → contline (trim l) = false

theorem runLines_last_inv {st s : St} {pre : List (List Char)} (h : runLines st pre = some s)
    (hst : pre = [] → (st.canWrite = true ∨ st.buffer = [])) (hpre : lastNotCont pre) :
    s.canWrite = true ∨ s.buffer = [] := by
  induction pre generalizing st with
  | nil => cases h; exact hst rfl
  | cons x xs ih =>
    rw [runLines] at h
    cases hs : stepLine st x with
    | none => simp [hs] at h
    | some s1 =>
      simp only [hs, Option.bind_some] at h
      cases xs with
      | nil =>
        cases h
        exact stepLine_not_cont hs (hpre x rfl)
      | cons y ys =>
        apply ih h (by simp)
        intro l hl
        apply hpre l
        rw [List.getLast?_cons_cons]; exact hl

theorem blank_line_drop {pre post : List (List Char)} {l : List Char} (hl : isBC (trim l) = true)
    (hpre : lastNotCont pre) :
    parseLines {} (pre ++ l :: post) = parseLines {} (pre ++ post) := by
  rw [parseLines_append, parseLines_append]
  cases h : runLines {} pre with
  | none => rfl
  | some s =>
    simp only [Option.bind_some]
    exact blank_absorb hl (runLines_last_inv h (fun _ => Or.inr rfl) hpre) post

/-! ### CRLF -/

def crlfMap (text : List Char) : List Char :=
  text.flatMap (fun c => if c == '\n' then ['\r', '\n'] else [c])

def crInit : List (List Char) → List (List Char)
  | [] => []
  | [x] => [x]
  | x :: y :: r => (x ++ ['\r']) :: crInit (y :: r)

theorem splitLines_ne_nil (t : List Char) : splitLines t ≠ [] := by
  cases t with
  | nil => simp [splitLines]
  | cons c cs =>
    simp only [splitLines]
    split
    · simp
    · split <;> simp

theorem splitLines_cons (c : Char) (cs : List Char) :
    ∃ h t, splitLines cs = h :: t ∧
      splitLines (c :: cs) = if c == '\n' then [] :: h :: t else (c :: h) :: t := by
  cases hs : splitLines cs with
  | nil => exact absurd hs (splitLines_ne_nil cs)
  | cons h t => exact ⟨h, t, rfl, by simp [splitLines, hs]⟩

theorem splitLines_crlf (t : List Char) : splitLines (crlfMap t) = crInit (splitLines t) := by
  induction t with
  | nil => rfl
  | cons c cs ih =>
    obtain ⟨h, t, hs, hc⟩ := splitLines_cons c cs
    rw [hc]
    rw [hs] at ih
    by_cases hn : c = '\n'
    · subst hn
      simp only [crlfMap, List.flatMap_cons, beq_self_eq_true, if_true] at *
      obtain ⟨h1, t1, hs1, hc1⟩ := splitLines_cons '\n' (List.flatMap (fun c => if (c == '\n') = true then ['\r', '\n'] else [c]) cs)
      obtain ⟨h2, t2, hs2, hc2⟩ := splitLines_cons '\r' ('\n' :: List.flatMap (fun c => if (c == '\n') = true then ['\r', '\n'] else [c]) cs)
      simp only [List.cons_append, List.nil_append]
      rw [hc2]
      rw [hc1] at hs2
      simp only [beq_self_eq_true, if_true] at hs2
      cases hs2
      rw [hs1] at ih
      rw [ih]
      simp [crInit]
    · have hn' : (c == '\n') = false := by simpa using hn
      simp only [crlfMap, List.flatMap_cons, hn', Bool.false_eq_true, if_false, List.cons_append, List.nil_append] at ih ⊢
      obtain ⟨h1, t1, hs1, hc1⟩ := splitLines_cons c (List.flatMap (fun c => if (c == '\n') = true then ['\r', '\n'] else [c]) cs)
      rw [hc1, hn']
      simp only [Bool.false_eq_true, if_false]
      rw [hs1] at ih
      cases t with
      | nil => simp only [crInit] at ih ⊢; cases ih; rfl
      | cons y r => simp only [crInit] at ih ⊢; cases ih; rfl

theorem readLines_eq (t : List Char) :
    readLines t = if (splitLines t).getLast? = some [] then (splitLines t).dropLast else splitLines t := by
  unfold readLines
  generalize splitLines t = ls
  rcases List.eq_nil_or_concat ls with h | ⟨init, x, h⟩
  · subst h; rfl
  · rw [List.concat_eq_append] at h
    subst h
    simp only [List.reverse_append, List.reverse_cons, List.reverse_nil, List.nil_append,
      List.singleton_append, List.getLast?_concat, List.dropLast_concat]
    cases x with
    | nil => simp
    | cons c cs => simp

theorem trim_append_cr (x : List Char) : trim (x ++ ['\r']) = trim x := by
  have := trim_pad [] x ['\r'] rfl (by decide)
  simpa using this

theorem crInit_getLast? (ls : List (List Char)) : (crInit ls).getLast? = ls.getLast? := by
  induction ls with
  | nil => rfl
  | cons x xs ih =>
    cases xs with
    | nil => rfl
    | cons y r =>
      simp only [crInit]
      cases hc : crInit (y :: r) with
      | nil => cases r <;> simp [crInit] at hc
      | cons a b =>
        rw [List.getLast?_cons_cons, List.getLast?_cons_cons, ← hc, ih]

theorem crInit_map_trim (ls : List (List Char)) : (crInit ls).map trim = ls.map trim := by
  induction ls with
  | nil => rfl
  | cons x xs ih =>
    cases xs with
    | nil => rfl
    | cons y r =>
      simp only [crInit, List.map_cons, trim_append_cr] at ih ⊢
      rw [ih]

theorem crInit_dropLast_map_trim (ls : List (List Char)) :
    (crInit ls).dropLast.map trim = ls.dropLast.map trim := by
  induction ls with
  | nil => rfl
  | cons x xs ih =>
    cases xs with
    | nil => rfl
    | cons y r =>
      simp only [crInit]
      cases hc : crInit (y :: r) with
      | nil => cases r <;> simp [crInit] at hc
      | cons a b =>
        rw [List.dropLast_cons_cons, List.dropLast_cons_cons, ← hc, List.map_cons, List.map_cons, ih,
          trim_append_cr]

theorem readLines_crlf_trim (t : List Char) :
    (readLines (crlfMap t)).map trim = (readLines t).map trim := by
  rw [readLines_eq, readLines_eq, splitLines_crlf, crInit_getLast?]
  split
  · exact crInit_dropLast_map_trim _
  · exact crInit_map_trim _

theorem parseConfig_crlf (t : List Char) : parseConfig (crlfMap t) = parseConfig t := by
  unfold parseConfig
  rw [parseLines_congr_trim _ _ _ (readLines_crlf_trim t)]

/-! ### plain / continuation lines -/

theorem trimRight_nil : trimRight [] = [] := rfl

theorem trim_eq_self {l : List Char} {c z : Char} (h1 : l.head? = some c) (hc : isSpace c = false)
    (h2 : l.getLast? = some z) (hz : isSpace z = false) : trim l = l := by
  obtain ⟨r, hr⟩ := List.head?_eq_some_iff.mp h1
  obtain ⟨i, hi⟩ := List.getLast?_eq_some_iff.mp h2
  unfold trim
  rw [show trimLeft l = l by rw [hr]; exact trimLeft_cons_stop r c hc]
  rw [hi, trimRight_append_stop i [] z hz, trimRight_nil]

theorem isBC_of_head {line : List Char} {c : Char} (h : line.head? = some c) :
    isBC line = isCommentStart c := by
  obtain ⟨r, hr⟩ := List.head?_eq_some_iff.mp h
  subst hr; rfl

theorem isHdr_of_head_ne {line : List Char} {c : Char} (h : line.head? = some c) (hc : c ≠ '[') :
    isHdr line = false := by
  obtain ⟨r, hr⟩ := List.head?_eq_some_iff.mp h
  subst hr
  simp [isHdr, hc]

theorem isHdr_of_last_ne {line : List Char} {z : Char} (h : line.getLast? = some z) (hz : z ≠ ']') :
    isHdr line = false := by
  cases line with
  | nil => rfl
  | cons c r =>
    simp only [isHdr, h]
    simp [hz]

theorem body_cont {s : St} {line : List Char} (h1 : isBC line = false) (h2 : isHdr line = false)
    (h3 : line.getLast? = some '\\') :
    body s line = some { s with buffer := s.buffer ++ keep (trim line.dropLast ++ [' ']),
                                canWrite := s.canWrite } := by
  simp [body, h1, h2, h3]

theorem body_plain {s : St} {line : List Char} (h1 : isBC line = false) (h2 : isHdr line = false)
    (h3 : line.getLast? ≠ some '\\') :
    body s line = some { s with buffer := s.buffer ++ keep line, canWrite := true } := by
  simp [body, h1, h2, h3]

theorem keep_all {p : List Char} (h : p.all (fun c => !isCommentStart c) = true) : keep p = p := by
  unfold keep
  induction p with
  | nil => rfl
  | cons x xs ih =>
    simp only [List.all_cons, Bool.and_eq_true] at h
    rw [List.takeWhile_cons, if_pos h.1, ih h.2]

theorem cont_split (st : St) (a b : List Char) (ca za cb zb : Char)
    (hah : a.head? = some ca) (hal : a.getLast? = some za)
    (hbh : b.head? = some cb) (hbl : b.getLast? = some zb)
    (h1 : isSpace ca = false) (h2 : ca ≠ '[') (h3 : isCommentStart ca = false)
    (h4 : isSpace za = false) (h5 : isSpace cb = false) (h6 : isSpace zb = false)
    (h7 : zb ≠ '\\') (h8 : ¬(cb = '[' ∧ zb = ']'))
    (h9 : (a ++ b).all (fun c => !isCommentStart c) = true) :
    (stepLine st (a ++ [' ', '\\'])).bind (fun s => stepLine s b) = stepLine st (a ++ ' ' :: b) := by
  have ha_all : a.all (fun c => !isCommentStart c) = true := by
    rw [List.all_append, Bool.and_eq_true] at h9; exact h9.1
  have hb_all : b.all (fun c => !isCommentStart c) = true := by
    rw [List.all_append, Bool.and_eq_true] at h9; exact h9.2
  -- first line
  have hL1h : (a ++ [' ', '\\']).head? = some ca := by simp [List.head?_append, hah]
  have hL1l : (a ++ [' ', '\\']).getLast? = some '\\' := by simp [List.getLast?_append]
  have hL1t : trim (a ++ [' ', '\\']) = a ++ [' ', '\\'] := trim_eq_self hL1h h1 hL1l (by decide)
  have hL1d : (a ++ [' ', '\\']).dropLast = a ++ [' '] := by
    rw [show a ++ [' ', '\\'] = (a ++ [' ']) ++ ['\\'] by simp, List.dropLast_concat]
  have hta : trim (a ++ [' ']) = a := by
    have := trim_pad [] a [' '] rfl (by decide)
    rw [List.nil_append] at this
    rw [this, trim_eq_self hah h1 hal h4]
  have hk1 : keep (a ++ [' ']) = a ++ [' '] := by
    apply keep_all; rw [List.all_append, ha_all]; decide
  -- second line
  have hbt : trim b = b := trim_eq_self hbh h5 hbl h6
  have hbbc : isBC b = false := by
    rw [isBC_of_head hbh]
    obtain ⟨r, hr⟩ := List.head?_eq_some_iff.mp hbh
    subst hr
    simp only [List.all_cons, Bool.and_eq_true] at hb_all
    simpa using hb_all.1
  have hbh' : isHdr b = false := by
    by_cases hcb : cb = '['
    · exact isHdr_of_last_ne hbl (fun hz => h8 ⟨hcb, hz⟩)
    · exact isHdr_of_head_ne hbh hcb
  -- joined line
  have hLh : (a ++ ' ' :: b).head? = some ca := by simp [List.head?_append, hah]
  have hLl : (a ++ ' ' :: b).getLast? = some zb := by simp [List.getLast?_append, List.getLast?_cons, hbl]
  have hLt : trim (a ++ ' ' :: b) = a ++ ' ' :: b := trim_eq_self hLh h1 hLl h6
  have hkL : keep (a ++ ' ' :: b) = a ++ ' ' :: b := by
    apply keep_all
    rw [List.all_append, List.all_cons, ha_all, hb_all]; decide
  rw [stepLine_eq, stepLine_eq, hL1t, hLt]
  cases ht : top st with
  | none => rfl
  | some s1 =>
    simp only [Option.bind_some]
    rw [body_cont (by rw [isBC_of_head hL1h, h3]) (isHdr_of_head_ne hL1h h2) hL1l, hL1d, hta, hk1,
      body_plain (by rw [isBC_of_head hLh, h3]) (isHdr_of_head_ne hLh h2) (by rw [hLl]; simpa using h7), hkL]
    simp only [Option.bind_some]
    rw [stepLine_eq, hbt, top_of_cw_false (by exact (top_some ht).1), Option.bind_some,
      body_plain hbbc hbh' (by rw [hbl]; simpa using h7), keep_all hb_all]
    simp

/-! ### data only grows; the section in force -/

theorem forced_some {s s' : St} (h : forced s = some s') :
    s'.buffer = [] ∧ s'.sect = s.sect ∧ ∃ es, s'.data = s.data ++ es := by
  unfold forced at h
  split at h
  · cases hw : write s with
    | none => simp [hw] at h
    | some s2 =>
      simp only [hw, Option.map_some, Option.some.injEq] at h
      subst h
      have := write_some hw
      exact ⟨this.1, this.2.1, this.2.2.2⟩
  · cases h
    rename_i hb
    exact ⟨by simpa using hb, rfl, [], by simp⟩

theorem body_some {s1 s : St} {line : List Char} (h : body s1 line = some s) :
    (∃ es, s.data = s1.data ++ es) ∧
      s.sect = if isHdr line then (line.drop 1).dropLast else s1.sect := by
  unfold body at h
  split at h
  · rename_i hbc
    cases h
    have : isHdr line = false := by
      cases hh : isHdr line with
      | false => rfl
      | true => rw [isBC_of_isHdr hh] at hbc; cases hbc
    exact ⟨⟨[], by simp⟩, by simp [this]⟩
  · split at h
    · rename_i hh
      cases hf : forced s1 with
      | none => simp [hf] at h
      | some s2 =>
        simp only [hf, Option.map_some, Option.some.injEq] at h
        subst h
        exact ⟨(forced_some hf).2.2, by simp [hh]⟩
    · rename_i hh
      split at h <;> (cases h; exact ⟨⟨[], by simp⟩, by simp [hh]⟩)

theorem stepLine_some {st s : St} {l : List Char} (h : stepLine st l = some s) :
    (∃ es, s.data = st.data ++ es) ∧
      s.sect = if isHdr (trim l) then ((trim l).drop 1).dropLast else st.sect := by
  rw [stepLine_eq] at h
  cases ht : top st with
  | none => simp [ht] at h
  | some s1 =>
    simp only [ht, Option.bind_some] at h
    have h1 := top_some ht
    have h2 := body_some h
    obtain ⟨e1, he1⟩ := h1.2.2.1
    obtain ⟨e2, he2⟩ := h2.1
    exact ⟨⟨e1 ++ e2, by rw [he2, he1, List.append_assoc]⟩, by rw [h2.2, h1.2.1]⟩

theorem parseLines_data {st s : St} {ls : List (List Char)} (h : parseLines st ls = some s) :
    ∃ es, s.data = st.data ++ es := by
  induction ls generalizing st with
  | nil => exact (finish_some h).2.2.2
  | cons l ls ih =>
    rw [parseLines_cons] at h
    cases hs : stepLine st l with
    | none => simp [hs] at h
    | some s1 =>
      simp only [hs, Option.bind_some] at h
      obtain ⟨e1, he1⟩ := (stepLine_some hs).1
      obtain ⟨e2, he2⟩ := ih h
      exact ⟨e1 ++ e2, by rw [he2, he1, List.append_assoc]⟩

/-- whatever follows, the pending write at the top of the next iteration happens first -/
theorem parseLines_data_top {st s : St} {ls : List (List Char)} (h : parseLines st ls = some s) :
    ∃ t, top st = some t ∧ ∃ es, s.data = t.data ++ es := by
  cases ls with
  | nil =>
    simp only [parseLines] at h
    rw [finish_eq] at h
    cases ht : top st with
    | none => simp [ht] at h
    | some t =>
      simp only [ht, Option.bind_some] at h
      exact ⟨t, rfl, (fin_some h).2.2.2⟩
  | cons l ls =>
    rw [parseLines_cons, stepLine_eq] at h
    cases ht : top st with
    | none => simp [ht] at h
    | some t =>
      simp only [ht, Option.bind_some] at h
      cases hb : body t (trim l) with
      | none => simp [hb] at h
      | some s2 =>
        simp only [hb, Option.bind_some] at h
        obtain ⟨e1, he1⟩ := (body_some hb).1
        obtain ⟨e2, he2⟩ := parseLines_data h
        exact ⟨t, rfl, e1 ++ e2, by rw [he2, he1, List.append_assoc]⟩

def sectFold (s : List Char) (ls : List (List Char)) : List Char :=
  ls.foldl (fun s l => if isHdr (trim l) then ((trim l).drop 1).dropLast else s) s

theorem runLines_sect {st s : St} {ls : List (List Char)} (h : runLines st ls = some s) :
    s.sect = sectFold st.sect ls := by
  induction ls generalizing st with
  | nil => cases h; rfl
  | cons l ls ih =>
    rw [runLines] at h
    cases hs : stepLine st l with
    | none => simp [hs] at h
    | some s1 =>
      simp only [hs, Option.bind_some] at h
      rw [ih h, (stepLine_some hs).2]
      rfl

/-! ### a one-line definition is stored -/

theorem splitFirstEq_append (k v : List Char) (hk : k.all (fun c => c != '=') = true) :
    splitFirstEq (k ++ '=' :: v) = some (k, v) := by
  induction k with
  | nil => simp [splitFirstEq]
  | cons c cs ih =>
    simp only [List.all_cons, Bool.and_eq_true, bne_iff_ne, ne_eq] at hk
    simp only [List.cons_append, splitFirstEq]
    rw [if_neg (by simpa using hk.1), ih (by simpa using hk.2)]
    rfl

theorem trim_trimLeft (k : List Char) : trim (trimLeft k) = trim k := by
  obtain ⟨pad, hp, hk⟩ := trimLeft_decomp k
  have := trim_pad pad (trimLeft k) [] hp rfl
  rw [List.append_nil, ← hk] at this
  exact this.symm

theorem trim_trimRight (k : List Char) : trim (trimRight k) = trim k := by
  obtain ⟨pad, hp, hk⟩ := trimRight_decomp k
  have := trim_pad [] (trimRight k) pad rfl hp
  rw [List.nil_append, ← hk] at this
  exact this.symm

theorem all_of_sublist {α} {p : α → Bool} {a b : List α} (h : a.Sublist b) (hb : b.all p = true) :
    a.all p = true := by
  rw [List.all_eq_true] at hb ⊢
  intro x hx
  exact hb x (h.subset hx)

theorem trimLeft_all {p : Char → Bool} {k : List Char} (h : k.all p = true) : (trimLeft k).all p = true :=
  all_of_sublist (List.dropWhile_sublist _) h

theorem trimRight_all {p : Char → Bool} {k : List Char} (h : k.all p = true) : (trimRight k).all p = true := by
  unfold trimRight
  rw [List.all_reverse]
  exact all_of_sublist (List.dropWhile_sublist _) (by rwa [List.all_reverse])

def secOf (s : List Char) : List Char := if s.isEmpty then defaultSection else s

theorem write_split {st : St} {o v : List Char} (h : splitFirstEq st.buffer = some (o, v)) :
    write st = some { st with data := st.data ++ [((secOf st.sect, trim o), trim v)], buffer := [] } := by
  unfold write
  have : st.buffer.isEmpty = false := by
    cases hb : st.buffer with
    | nil => rw [hb] at h; simp [splitFirstEq] at h
    | cons _ _ => rfl
  simp [this, h, secOf]

theorem def_stored {s0 st : St} {k v : List Char} {post : List (List Char)}
    (hs0 : s0.canWrite = true ∨ s0.buffer = [])
    (hk : k.all (fun c => c != '=' && !isCommentStart c) = true)
    (hv : v.all (fun c => !isCommentStart c) = true)
    (hbc : isBC (trim (k ++ '=' :: v)) = false) (hh : isHdr (trim (k ++ '=' :: v)) = false)
    (hc : contline (trim (k ++ '=' :: v)) = false)
    (hparse : parseLines s0 ((k ++ '=' :: v) :: post) = some st) :
    ((secOf s0.sect, trim k), trim v) ∈ st.data := by
  have hk1 : k.all (fun c => c != '=') = true := by
    rw [List.all_eq_true] at hk ⊢; intro x hx; have := hk x hx; simp only [Bool.and_eq_true] at this; exact this.1
  have hk2 : k.all (fun c => !isCommentStart c) = true := by
    rw [List.all_eq_true] at hk ⊢; intro x hx; have := hk x hx; simp only [Bool.and_eq_true] at this; exact this.2
  have htrim : trim (k ++ '=' :: v) = trimLeft k ++ '=' :: trimRight v := by
    unfold trim
    rw [trimLeft_append_stop k v '=' (by decide), trimRight_append_stop _ _ '=' (by decide)]
  rw [htrim] at hbc hh hc
  have hkeep : keep (trimLeft k ++ '=' :: trimRight v) = trimLeft k ++ '=' :: trimRight v := by
    apply keep_all
    rw [List.all_append, List.all_cons, trimLeft_all hk2, trimRight_all hv]; decide
  have hnl : (trimLeft k ++ '=' :: trimRight v).getLast? ≠ some '\\' := by
    intro hl
    simp [contline, hbc, hl] at hc
  rw [parseLines_cons, stepLine_eq, htrim] at hparse
  cases ht : top s0 with
  | none => simp [ht] at hparse
  | some t0 =>
    simp only [ht, Option.bind_some] at hparse
    have h0 := top_some ht
    rw [body_plain hbc hh hnl, hkeep, h0.2.2.2 hs0, List.nil_append, Option.bind_some] at hparse
    obtain ⟨t1, ht1, es, hes⟩ := parseLines_data_top hparse
    simp only [top, if_true] at ht1
    rw [write_split (o := trimLeft k) (v := trimRight v)
      (by exact splitFirstEq_append _ _ (trimLeft_all hk1))] at ht1
    simp only [Option.map_some, Option.some.injEq] at ht1
    subst ht1
    rw [hes]
    simp only [trim_trimLeft, trim_trimRight, h0.2.1]
    simp

theorem def_stored_text {pre post : List (List Char)} {k v : List Char} {st : St}
    (hk : k.all (fun c => c != '=' && !isCommentStart c) = true)
    (hv : v.all (fun c => !isCommentStart c) = true)
    (hbc : isBC (trim (k ++ '=' :: v)) = false) (hh : isHdr (trim (k ++ '=' :: v)) = false)
    (hc : contline (trim (k ++ '=' :: v)) = false)
    (hpre : lastNotCont pre)
    (hparse : parseLines {} (pre ++ (k ++ '=' :: v) :: post) = some st) :
    ((secOf (sectFold [] pre), trim k), trim v) ∈ st.data := by
  rw [parseLines_append] at hparse
  cases hr : runLines {} pre with
  | none => simp [hr] at hparse
  | some s0 =>
    simp only [hr, Option.bind_some] at hparse
    have := def_stored (runLines_last_inv hr (fun _ => Or.inr rfl) hpre) hk hv hbc hh hc hparse
    rwa [runLines_sect hr] at this

/-! ### header lines, splitting a text at a header -/

def hdrLine (name : List Char) : List Char := '[' :: name ++ [']']

theorem hdrLine_trim {name : List Char} (_h : name.all (fun c => !isSpace c) = true) :
    trim (hdrLine name) = hdrLine name := by
  apply trim_eq_self (c := '[') (z := ']') rfl (by decide) _ (by decide)
  unfold hdrLine
  rw [show '[' :: name ++ [']'] = ('[' :: name) ++ [']'] from rfl, List.getLast?_concat]

theorem hdrLine_isHdr (name : List Char) : isHdr (hdrLine name) = true := by
  unfold hdrLine isHdr
  have : ('[' :: name ++ [']']).getLast? = some ']' := by
    rw [show '[' :: name ++ [']'] = ('[' :: name) ++ [']'] from rfl, List.getLast?_concat]
  simp only [this]
  simp

theorem hdrLine_name (name : List Char) : ((hdrLine name).drop 1).dropLast = name := by
  simp [hdrLine]

theorem parseLines_clean {st s : St} {ls : List (List Char)} (h : parseLines st ls = some s) :
    s.buffer = [] ∧ s.canWrite = false := by
  rw [parseLines_eq_run] at h
  cases hr : runLines st ls with
  | none => simp [hr] at h
  | some s1 =>
    simp only [hr, Option.bind_some] at h
    exact ⟨(finish_some h).1, (finish_some h).2.1⟩

/-- a header (or the end of the text) flushes: the text may be cut in front of it -/
theorem parseLines_append_hdr (st : St) (ls R : List (List Char))
    (hR : R = [] ∨ ∃ h R', R = h :: R' ∧ isHdr (trim h) = true) :
    parseLines st (ls ++ R) = (parseLines st ls).bind (fun s => parseLines s R) := by
  rw [parseLines_append, parseLines_eq_run]
  cases runLines st ls with
  | none => rfl
  | some s =>
    simp only [Option.bind_some]
    rcases hR with rfl | ⟨h, R', rfl, hh⟩
    · simp only [parseLines]
      exact (finish_idem s).symm
    · rw [parseLines_cons, stepLine_hdr hh]
      cases hf : finish s with
      | none => rfl
      | some s' =>
        have hc := finish_some hf
        simp only [Option.map_some, Option.bind_some]
        rw [parseLines_cons, stepLine_hdr hh, finish_of_clean hc.1 hc.2.1]
        rfl

/-! ### the data written so far is only appended to -/

def preData (d : List (Key × List Char)) (s : St) : St := { s with data := d ++ s.data }

theorem write_preData (d) (s : St) : write (preData d s) = (write s).map (preData d) := by
  unfold write preData
  simp only
  split
  · rfl
  · split
    · rfl
    · simp [List.append_assoc]

theorem top_preData (d) (s : St) : top (preData d s) = (top s).map (preData d) := by
  unfold top
  rw [write_preData, show (preData d s).canWrite = s.canWrite from rfl]
  by_cases hc : s.canWrite = true
  · rw [if_pos hc, if_pos hc]; cases write s <;> rfl
  · rw [if_neg hc, if_neg hc]; rfl

theorem forced_preData (d) (s : St) : forced (preData d s) = (forced s).map (preData d) := by
  unfold forced
  rw [write_preData, show (preData d s).buffer = s.buffer from rfl]
  by_cases hc : (!s.buffer.isEmpty) = true
  · rw [if_pos hc, if_pos hc]; cases write s <;> rfl
  · rw [if_neg hc, if_neg hc]; rfl

theorem fin_preData (d) (s : St) : fin (preData d s) = (fin s).map (preData d) := by
  unfold fin
  rw [write_preData, show (preData d s).buffer = s.buffer from rfl]
  by_cases hc : (!s.buffer.isEmpty) = true
  · rw [if_pos hc, if_pos hc]
  · rw [if_neg hc, if_neg hc]; rfl

theorem body_preData (d) (s : St) (line : List Char) :
    body (preData d s) line = (body s line).map (preData d) := by
  unfold body
  rw [forced_preData]
  split
  · rfl
  · split
    · cases forced s <;> rfl
    · split <;> rfl

theorem stepLine_preData (d) (s : St) (l : List Char) :
    stepLine (preData d s) l = (stepLine s l).map (preData d) := by
  rw [stepLine_eq, stepLine_eq, top_preData]
  cases top s with
  | none => rfl
  | some s1 => simp [body_preData]

theorem finish_preData (d) (s : St) : finish (preData d s) = (finish s).map (preData d) := by
  rw [finish_eq, finish_eq, top_preData]
  cases top s with
  | none => rfl
  | some s1 => simp [fin_preData]

theorem parseLines_preData (d) (s : St) (ls : List (List Char)) :
    parseLines (preData d s) ls = (parseLines s ls).map (preData d) := by
  induction ls generalizing s with
  | nil => exact finish_preData d s
  | cons l ls ih =>
    rw [parseLines_cons, parseLines_cons, stepLine_preData]
    cases stepLine s l with
    | none => rfl
    | some s1 => simp [ih]

/-! ### every entry is written under the section in force -/

def NewUnder (st s : St) : Prop := ∀ e ∈ s.data, e ∈ st.data ∨ e.1.1 = secOf st.sect

theorem NewUnder.refl_data {st s : St} (h : s.data = st.data) : NewUnder st s := by
  intro e he; rw [h] at he; exact Or.inl he

theorem NewUnder.trans {a b c : St} (h1 : NewUnder a b) (h2 : NewUnder b c) (hs : b.sect = a.sect) :
    NewUnder a c := by
  intro e he
  rcases h2 e he with h | h
  · exact h1 e h
  · exact Or.inr (by rw [h, hs])

theorem write_newUnder {st s : St} (h : write st = some s) : NewUnder st s := by
  unfold write at h
  split at h
  · cases h; exact NewUnder.refl_data rfl
  · split at h
    · cases h
    · cases h
      intro e he
      simp only [List.mem_append, List.mem_singleton] at he
      rcases he with he | he
      · exact Or.inl he
      · right; rw [he]; rfl

theorem top_newUnder {st s : St} (h : top st = some s) : NewUnder st s := by
  unfold top at h
  split at h
  · cases hw : write st with
    | none => simp [hw] at h
    | some s' =>
      simp only [hw, Option.map_some, Option.some.injEq] at h
      subst h
      exact write_newUnder (s := s') hw
  · cases h; exact NewUnder.refl_data rfl

theorem forced_newUnder {st s : St} (h : forced st = some s) : NewUnder st s := by
  unfold forced at h
  split at h
  · cases hw : write st with
    | none => simp [hw] at h
    | some s' =>
      simp only [hw, Option.map_some, Option.some.injEq] at h
      subst h
      exact write_newUnder (s := s') hw
  · cases h; exact NewUnder.refl_data rfl

theorem fin_newUnder {st s : St} (h : fin st = some s) : NewUnder st s := by
  unfold fin at h
  split at h
  · exact write_newUnder h
  · cases h; exact NewUnder.refl_data rfl

theorem body_newUnder {st s : St} {line : List Char} (h : body st line = some s) : NewUnder st s := by
  unfold body at h
  split at h
  · cases h; exact NewUnder.refl_data rfl
  · split at h
    · cases hf : forced st with
      | none => simp [hf] at h
      | some s2 =>
        simp only [hf, Option.map_some, Option.some.injEq] at h
        subst h
        exact forced_newUnder (s := s2) hf
    · split at h <;> (cases h; exact NewUnder.refl_data rfl)

theorem stepLine_newUnder {st s : St} {l : List Char} (h : stepLine st l = some s) : NewUnder st s := by
  rw [stepLine_eq] at h
  cases ht : top st with
  | none => simp [ht] at h
  | some s1 =>
    simp only [ht, Option.bind_some] at h
    exact (top_newUnder ht).trans (body_newUnder h) (top_some ht).2.1

theorem finish_newUnder {st s : St} (h : finish st = some s) : NewUnder st s := by
  rw [finish_eq] at h
  cases ht : top st with
  | none => simp [ht] at h
  | some s1 =>
    simp only [ht, Option.bind_some] at h
    exact (top_newUnder ht).trans (fin_newUnder h) (top_some ht).2.1

theorem parseLines_newUnder {st s : St} {ls : List (List Char)}
    (hls : ∀ l ∈ ls, isHdr (trim l) = false) (h : parseLines st ls = some s) : NewUnder st s := by
  induction ls generalizing st with
  | nil => exact finish_newUnder h
  | cons l ls ih =>
    rw [parseLines_cons] at h
    cases hs : stepLine st l with
    | none => simp [hs] at h
    | some s1 =>
      simp only [hs, Option.bind_some] at h
      have hsect : s1.sect = st.sect := by
        rw [(stepLine_some hs).2, hls l (List.mem_cons_self ..)]; rfl
      exact (stepLine_newUnder hs).trans (ih (fun l' hl' => hls l' (List.mem_cons_of_mem _ hl')) h) hsect

/-! ### blocks -/

abbrev Blk := List Char × List (List Char)

def blkLines (b : Blk) : List (List Char) := hdrLine b.1 :: b.2

def blkEntries (b : Blk) : Option (List (Key × List Char)) :=
  (parseLines { sect := b.1 } b.2).map (·.data)

def allEntries : List Blk → Option (List (Key × List Char))
  | [] => some []
  | b :: bs => (blkEntries b).bind (fun es => (allEntries bs).map (es ++ ·))

def Blk.wf (b : Blk) : Prop :=
  (∀ l ∈ b.2, isHdr (trim l) = false) ∧ b.1.all (fun c => !isSpace c) = true

theorem blkEntries_keys {b : Blk} (hb : b.wf) {es} (h : blkEntries b = some es) :
    ∀ e ∈ es, e.1.1 = secOf b.1 := by
  unfold blkEntries at h
  cases hp : parseLines { sect := b.1 } b.2 with
  | none => simp [hp] at h
  | some s =>
    simp only [hp, Option.map_some, Option.some.injEq] at h
    subst h
    intro e he
    rcases parseLines_newUnder hb.1 hp e he with h | h
    · cases h
    · exact h

theorem flatMap_blkLines_start (bs : List Blk) (hwf : ∀ b ∈ bs, b.wf) :
    bs.flatMap blkLines = [] ∨ ∃ h R', bs.flatMap blkLines = h :: R' ∧ isHdr (trim h) = true := by
  cases bs with
  | nil => exact Or.inl rfl
  | cons b bs =>
    right
    refine ⟨hdrLine b.1, b.2 ++ bs.flatMap blkLines, by simp [blkLines], ?_⟩
    rw [hdrLine_trim (hwf b (List.mem_cons_self ..)).2]
    exact hdrLine_isHdr _

theorem parse_blocks (bs : List Blk) (hwf : ∀ b ∈ bs, b.wf) (st : St)
    (hb : st.buffer = []) (hc : st.canWrite = false) :
    (parseLines st (bs.flatMap blkLines)).map (·.data) = (allEntries bs).map (st.data ++ ·) := by
  induction bs generalizing st with
  | nil =>
    simp only [List.flatMap_nil, parseLines, allEntries]
    rw [finish_of_clean hb hc]; simp
  | cons b bs ih =>
    have hwb := hwf b (List.mem_cons_self ..)
    have hwbs : ∀ b' ∈ bs, b'.wf := fun b' hb' => hwf b' (List.mem_cons_of_mem _ hb')
    rw [List.flatMap_cons, blkLines, List.cons_append, parseLines_cons,
      stepLine_hdr (by rw [hdrLine_trim hwb.2]; exact hdrLine_isHdr _), hdrLine_trim hwb.2,
      hdrLine_name, finish_of_clean hb hc]
    simp only [Option.map_some, Option.bind_some]
    rw [parseLines_append_hdr _ _ _ (flatMap_blkLines_start bs hwbs)]
    have hst : ({ st with sect := b.1 } : St) = preData st.data { sect := b.1 } := by
      cases st; simp only [preData] at *; simp_all
    rw [hst, parseLines_preData]
    simp only [allEntries, blkEntries]
    cases hp : parseLines { sect := b.1 } b.2 with
    | none => rfl
    | some s =>
      have hcl := parseLines_clean hp
      simp only [Option.map_some, Option.bind_some]
      rw [ih hwbs (preData st.data s) hcl.1 hcl.2]
      cases allEntries bs with
      | none => rfl
      | some es => simp [preData, List.append_assoc]

/-! ### permuting blocks -/

def entOf (b : Blk) : List (Key × List Char) := (blkEntries b).getD []

theorem allEntries_eq (bs : List Blk) :
    allEntries bs =
      if bs.all (fun b => (blkEntries b).isSome) = true then some (bs.flatMap entOf) else none := by
  induction bs with
  | nil => rfl
  | cons b bs ih =>
    simp only [allEntries, ih, List.all_cons, List.flatMap_cons, entOf]
    cases blkEntries b with
    | none => simp
    | some es =>
      simp only [Option.bind_some, Option.isSome_some, Bool.true_and, Option.getD_some]
      split <;> simp

theorem all_perm {α} {p : α → Bool} {l₁ l₂ : List α} (h : l₁.Perm l₂) : l₁.all p = l₂.all p := by
  rw [Bool.eq_iff_iff, List.all_eq_true, List.all_eq_true]
  exact ⟨fun H x hx => H x (h.mem_iff.mpr hx), fun H x hx => H x (h.mem_iff.mp hx)⟩

theorem lookup_congr_filter {d₁ d₂ : List (Key × List Char)} {k : Key}
    (h : d₁.filter (fun e => e.1 == k) = d₂.filter (fun e => e.1 == k)) : lookup d₁ k = lookup d₂ k := by
  unfold lookup
  rw [← List.head?_filter, ← List.head?_filter, List.filter_reverse, List.filter_reverse, h]

theorem flatMap_perm_sparse {α β} (f : α → List β) {l₁ l₂ : List α} (p : l₁.Perm l₂)
    (h : l₁.Pairwise (fun a b => f a = [] ∨ f b = [])) : l₁.flatMap f = l₂.flatMap f := by
  induction p with
  | nil => rfl
  | cons x _ ih =>
    rw [List.flatMap_cons, List.flatMap_cons, ih (List.pairwise_cons.1 h).2]
  | swap x y l =>
    have := (List.pairwise_cons.1 h).1 x (List.mem_cons_self ..)
    simp only [List.flatMap_cons]
    rcases this with h1 | h1 <;> simp [h1]
  | trans p1 _ ih1 ih2 =>
    rw [ih1 h, ih2 ((p1.pairwise_iff (fun h => h.symm)).1 h)]

theorem entOf_filter_nil {b : Blk} (hb : b.wf) {k : Key} (hk : secOf b.1 ≠ k.1) :
    (entOf b).filter (fun e => e.1 == k) = [] := by
  rw [List.filter_eq_nil_iff]
  intro e he
  unfold entOf at he
  cases hbe : blkEntries b with
  | none => simp [hbe] at he
  | some es =>
    simp only [hbe, Option.getD_some] at he
    have := blkEntries_keys hb hbe e he
    intro heq
    have : e.1 = k := by simpa using heq
    apply hk
    rw [← this]; exact (blkEntries_keys hb hbe e he).symm

theorem allEntries_perm_lookup (bs₁ bs₂ : List Blk) (hperm : bs₁.Perm bs₂)
    (hwf : ∀ b ∈ bs₁, b.wf) (hd : (bs₁.map (fun b => secOf b.1)).Nodup) (k : Key) :
    (allEntries bs₁).map (fun d => lookup d k) = (allEntries bs₂).map (fun d => lookup d k) := by
  rw [allEntries_eq, allEntries_eq, all_perm hperm]
  split
  · simp only [Option.map_some, Option.some.injEq]
    apply lookup_congr_filter
    rw [List.filter_flatMap, List.filter_flatMap]
    apply flatMap_perm_sparse _ hperm
    have hp : bs₁.Pairwise (fun a b => secOf a.1 ≠ secOf b.1) := by
      have := hd
      unfold List.Nodup at this
      rwa [List.pairwise_map] at this
    refine hp.imp_of_mem ?_
    intro a b ha hb hab
    by_cases hak : secOf a.1 = k.1
    · exact Or.inr (entOf_filter_nil (hwf b hb) (fun h => hab (hak.trans h.symm)))
    · exact Or.inl (entOf_filter_nil (hwf a ha) hak)
  · rfl

theorem allEntries_perm_length (bs₁ bs₂ : List Blk) (hperm : bs₁.Perm bs₂) :
    (allEntries bs₁).map List.length = (allEntries bs₂).map List.length := by
  rw [allEntries_eq, allEntries_eq, all_perm hperm]
  split
  · simp only [Option.map_some, Option.some.injEq]
    exact (hperm.flatMap_right entOf).length_eq
  · rfl

theorem parse_blocks_init (bs : List Blk) (hwf : ∀ b ∈ bs, b.wf) :
    (parseLines {} (bs.flatMap blkLines)).map (·.data) = allEntries bs := by
  rw [parse_blocks bs hwf {} rfl rfl]
  cases allEntries bs <;> simp

end Casbin.Cfg
