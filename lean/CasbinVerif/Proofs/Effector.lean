import CasbinVerif.Model.Effector
import CasbinVerif.Spec.Effect
/-
  Helper lemmas: the streaming fill–merge–break loop equals the specification, per effect kind.
-/
namespace Casbin

theorem getD_mid (filled : List Cell) (c : Cell) (tail : List Cell) :
    (filled ++ [c] ++ tail).getD filled.length Cell.zero = c := by
  simp [List.getD]

/-! ### allow-override -/

theorem loop_allowOverride (len : Nat) (filled todo : List Cell) :
    decision (loopFrom .allowOverride len filled todo) = todo.any isAllow := by
  induction todo generalizing filled with
  | nil => simp [loopFrom, decision]
  | cons c rest ih =>
    unfold loopFrom
    simp only [mergeEffects, getD_mid]
    cases hm : c.matched <;> cases he : c.eft <;> simp [decision, isAllow, hm, he] <;>
      (cases rest with
       | nil => simp [decision]
       | cons d rest' => simpa [hm, he, decision, isAllow] using ih (filled ++ [c]))

/-! ### priority / subjectPriority -/

theorem revScan_none (l : List (Cell × Nat)) (h : ∀ p ∈ l, det p.1 = false) :
    revScan l = (.indeterminate, none) := by
  induction l with
  | nil => rfl
  | cons p rest ih =>
    obtain ⟨c, i⟩ := p
    have hc : det c = false := h (c, i) (by simp)
    simp only [det] at hc
    simp only [revScan, hc]
    exact ih (fun p hp => h p (by simp [hp]))

theorem revScan_append (l₁ l₂ : List (Cell × Nat)) (h : ∀ p ∈ l₁, det p.1 = false) :
    revScan (l₁ ++ l₂) = revScan l₂ := by
  induction l₁ with
  | nil => rfl
  | cons p rest ih =>
    obtain ⟨c, i⟩ := p
    have hc : det c = false := h (c, i) (by simp)
    simp only [det] at hc
    simp only [List.cons_append, revScan, hc]
    exact ih (fun p hp => h p (by simp [hp]))

theorem zero_not_det : det Cell.zero = false := by simp [det, Cell.zero]

theorem mem_zipIdx_fst {l : List Cell} {n : Nat} {p : Cell × Nat} (h : p ∈ l.zipIdx n) : p.1 ∈ l := by
  obtain ⟨c, i⟩ := p
  exact (List.mem_zipIdx h).2.2 ▸ List.getElem_mem _

/-- the merge at step `idx = filled.length` when nothing before is determinate -/
theorem merge_priority (filled : List Cell) (c : Cell) (n : Nat)
    (hf : ∀ x ∈ filled, det x = false) (len : Nat) :
    mergeEffects .priority (filled ++ [c] ++ List.replicate n Cell.zero) filled.length len =
      if det c then ((if c.eft = .allow then .allow else .deny), some filled.length) else (.indeterminate, none) := by
  simp only [mergeEffects]
  rw [List.zipIdx_append, List.zipIdx_append, List.reverse_append, List.reverse_append]
  rw [revScan_append]
  · simp only [List.zipIdx_cons, List.zipIdx_nil, List.reverse_cons, List.reverse_nil, List.nil_append,
      List.cons_append, revScan, Nat.zero_add]
    by_cases hd : det c
    · have hd' := hd
      simp only [det, Bool.and_eq_true, decide_eq_true_eq] at hd'
      simp only [hd, if_true]
      simp [hd'.1, hd'.2]
    · have hd' : det c = false := by simpa using hd
      have hd'' := hd'
      simp only [det] at hd''
      simp only [hd'', hd']
      rw [revScan_none]
      intro p hp
      exact hf _ (mem_zipIdx_fst (List.mem_reverse.1 hp))
  · intro p hp
    have := mem_zipIdx_fst (List.mem_reverse.1 hp)
    rw [List.eq_of_mem_replicate this]
    exact zero_not_det

theorem merge_subjectPriority (cells : List Cell) (idx len : Nat) :
    mergeEffects .subjectPriority cells idx len = mergeEffects .priority cells idx len := rfl

theorem loopFrom_subjectPriority (len : Nat) (filled todo : List Cell) :
    loopFrom .subjectPriority len filled todo = loopFrom .priority len filled todo := by
  induction todo generalizing filled with
  | nil => simp [loopFrom]
  | cons c rest ih =>
    unfold loopFrom
    simp only [merge_subjectPriority]
    cases rest with
    | nil => rfl
    | cons d rest' => simp only [ih]

def specPrio (v : List Cell) : Bool :=
  match v.find? det with
  | some c => c.eft = .allow
  | none => false

theorem loop_priority (len : Nat) (filled todo : List Cell) (hf : ∀ x ∈ filled, det x = false) :
    decision (loopFrom .priority len filled todo) = specPrio todo := by
  induction todo generalizing filled with
  | nil => simp [loopFrom, decision, specPrio]
  | cons c rest ih =>
    unfold loopFrom
    simp only [merge_priority filled c _ hf]
    by_cases hd : det c
    · simp only [hd, if_true, specPrio, List.find?_cons]
      have hd' := hd
      simp only [det] at hd'
      cases he : c.eft <;> simp_all [decision, det]
    · have hd' : det c = false := by simpa using hd
      simp only [hd', specPrio, List.find?_cons]
      cases rest with
      | nil => simp [decision]
      | cons d rest' =>
        have := ih (filled ++ [c]) (by
          intro x hx; simp at hx; rcases hx with hx | hx
          · exact hf x hx
          · subst hx; exact hd')
        simpa [specPrio, decision] using this

/-! ### deny-override and allow-and-deny -/

theorem loop_denyOverride (len : Nat) (filled todo : List Cell) (hlen : len = filled.length + todo.length)
    (hne : todo ≠ []) :
    decision (loopFrom .denyOverride len filled todo) = !(todo.any isDeny) := by
  induction todo generalizing filled with
  | nil => exact absurd rfl hne
  | cons c rest ih =>
    unfold loopFrom
    simp only [mergeEffects, getD_mid]
    by_cases hd : isDeny c
    · have hd' := hd
      simp only [isDeny] at hd'
      simp [hd', decision, hd]
    · have hd' : isDeny c = false := by simpa using hd
      have hd'' := hd'
      simp only [isDeny] at hd''
      simp only [hd'', List.any_cons, hd', Bool.false_or]
      cases rest with
      | nil =>
        simp at hlen
        simp [hlen, decision]
      | cons d rest' =>
        have hlt : ¬ (filled.length + 1 = len) := by simp at hlen; omega
        simp only [hlt, if_false]
        have := ih (filled ++ [c]) (by simp at hlen ⊢; omega) (by simp)
        simpa [decision] using this

theorem findIdx?_isSome_iff_any (p : Cell → Bool) (l : List Cell) : (l.findIdx? p).isSome = l.any p := by
  induction l with
  | nil => rfl
  | cons a l ih =>
    simp only [List.findIdx?_cons, List.any_cons]
    cases p a <;> simp [ih]

theorem loop_allowAndDeny (len : Nat) (filled todo : List Cell) (hlen : len = filled.length + todo.length)
    (hf : ∀ x ∈ filled, isDeny x = false) (hne : todo ≠ []) :
    decision (loopFrom .allowAndDeny len filled todo) =
      ((filled ++ todo).any isAllow && !(todo.any isDeny)) := by
  induction todo generalizing filled with
  | nil => exact absurd rfl hne
  | cons c rest ih =>
    unfold loopFrom
    simp only [mergeEffects, getD_mid]
    by_cases hd : isDeny c
    · have hd' := hd
      simp only [isDeny] at hd'
      simp [hd', decision, hd]
    · have hd' : isDeny c = false := by simpa using hd
      have hd'' := hd'
      simp only [isDeny] at hd''
      simp only [hd'', List.any_cons, hd', Bool.false_or]
      cases rest with
      | nil =>
        simp at hlen
        have hlt : ¬ (filled.length + 1 < len) := by omega
        have hz : len - filled.length - 1 = 0 := by omega
        simp only [hlt, if_false, hz, List.replicate_zero, List.append_nil, List.any_nil, Bool.not_false,
          Bool.and_true]
        have hs := findIdx?_isSome_iff_any (fun c => c.matched && decide (c.eft = Eft.allow)) (filled ++ [c])
        cases hfi : List.findIdx? (fun c => c.matched && decide (c.eft = Eft.allow)) (filled ++ [c]) with
        | none =>
          rw [hfi] at hs
          have hs' : (filled ++ [c]).any isAllow = (none : Option Nat).isSome := hs.symm
          rw [hs']; simp [decision]
        | some i =>
          rw [hfi] at hs
          have hs' : (filled ++ [c]).any isAllow = (some i).isSome := hs.symm
          rw [hs']; simp [decision]
      | cons d rest' =>
        have hlt : filled.length + 1 < len := by simp at hlen; omega
        simp only [hlt, if_true]
        have := ih (filled ++ [c]) (by simp at hlen ⊢; omega) (by
          intro x hx; simp at hx; rcases hx with hx | hx
          · exact hf x hx
          · subst hx; exact hd') (by simp)
        simpa [decision] using this

end Casbin
