import CasbinVerif.Spec.Perm
import CasbinVerif.Properties.C02
/-
  Helper lemmas for C01: matcher evaluation only sees the answers of the link oracle, the
  streaming loop with per-rule errors, `mapM` in `Option`, the two branches of `enforce()`
  against the effect specification, and the g() memo key.
-/
namespace Casbin

/-! ### matcher evaluation -/

theorem evalCore_congr (hook hook' : Expr → Res) (ρ ρ' : Env) (e : Expr)
    (hr : ρ.r = ρ'.r) (hp : ρ.p = ρ'.p) (hf : ρ.fn = ρ'.fn) (ht : ρ.evalTab = ρ'.evalTab)
    (hl : ∀ gt args, ρ.link gt args = ρ'.link gt args) (hh : ∀ e, hook e = hook' e) :
    evalCore hook ρ e = evalCore hook' ρ' e := by
  have h1 : hook = hook' := funext hh
  have h2 : ρ.link = ρ'.link := funext fun gt => funext fun args => hl gt args
  cases ρ; cases ρ'
  simp only at hr hp hf ht h2
  subst hr; subst hp; subst hf; subst ht; subst h2; subst h1
  rfl

theorem evalExpr_congr (fuel : Nat) (ρ ρ' : Env) (e : Expr)
    (hr : ρ.r = ρ'.r) (hp : ρ.p = ρ'.p) (hf : ρ.fn = ρ'.fn) (ht : ρ.evalTab = ρ'.evalTab)
    (hl : ∀ gt args, ρ.link gt args = ρ'.link gt args) :
    evalExpr fuel ρ e = evalExpr fuel ρ' e := by
  induction fuel generalizing e with
  | zero => exact evalCore_congr _ _ ρ ρ' e hr hp hf ht hl (fun _ => rfl)
  | succ n ih => exact evalCore_congr _ _ ρ ρ' e hr hp hf ht hl (fun e' => ih e')

/-! ### the loop with errors -/

theorem loopFromE_ok' (k : EffectKind) (len : Nat) (filled cells : List Cell) :
    loopFromE k len filled (cells.map some) = some (loopFrom k len filled cells) := by
  induction cells generalizing filled with
  | nil => simp [loopFromE, loopFrom]
  | cons c rest ih =>
    simp only [List.map_cons, loopFromE, loopFrom]
    split
    · rfl
    · cases rest with
      | nil => simp
      | cons c' rest' =>
        simp only [List.map_cons]
        exact ih (filled ++ [c])

theorem loopFromE_some_prefix' (k : EffectKind) (len : Nat) (filled : List Cell) (todo : List (Option Cell))
    (r : Eft × Option Nat) (h : loopFromE k len filled todo = some r) :
    ∃ cells rest, todo = cells.map some ++ rest ∧ r = loopFrom k len filled cells ∧
      (r.1 = .indeterminate → rest = []) := by
  induction todo generalizing filled with
  | nil =>
    simp only [loopFromE, Option.some.injEq] at h
    subst h
    exact ⟨[], [], rfl, rfl, fun _ => rfl⟩
  | cons oc rest ih =>
    cases oc with
    | none => simp [loopFromE] at h
    | some c =>
      simp only [loopFromE] at h
      split at h
      · rename_i hne
        simp only [Option.some.injEq] at h
        subst h
        refine ⟨[c], rest, rfl, ?_, fun hi => absurd hi hne⟩
        simp only [loopFrom]
        rw [if_pos hne]
      · rename_i hind
        cases rest with
        | nil =>
          simp only [Option.some.injEq] at h
          subst h
          refine ⟨[c], [], rfl, ?_, fun _ => rfl⟩
          simp only [loopFrom]
          rw [if_neg hind]
        | cons oc' rest' =>
          simp only at h
          obtain ⟨cells, rest2, h1, h2, h3⟩ := ih (filled ++ [c]) h
          cases cells with
          | nil =>
            -- the recursive call consumed nothing: it answered indeterminate, so nothing is left
            simp only [loopFrom] at h2
            have : rest2 = [] := h3 (by rw [h2])
            subst this
            simp at h1
          | cons c2 cells2 =>
            refine ⟨c :: c2 :: cells2, rest2, ?_, ?_, h3⟩
            · simp only [List.map_cons, List.cons_append, List.cons.injEq, true_and]
              simpa using h1
            · rw [h2]
              conv => rhs; unfold loopFrom
              simp only
              rw [if_neg hind]

/-! ### `mapM` in `Option` -/

theorem mapM_option_some {α β : Type} (f : α → Option β) (l : List α) (ys : List β)
    (h : l.mapM f = some ys) : l.map f = ys.map some := by
  induction l generalizing ys with
  | nil =>
    simp only [List.mapM_nil] at h
    cases h
    rfl
  | cons x xs ih =>
    rw [List.mapM_cons] at h
    cases hx : f x with
    | none => simp [hx] at h
    | some y =>
      cases hxs : xs.mapM f with
      | none => simp [hx, hxs] at h
      | some ys' =>
        simp only [hx, hxs, Option.bind_eq_bind, Option.bind_some] at h
        cases h
        simp [hx, ih ys' hxs]

/-! ### the branches of `enforce()` -/

theorem policy_branch (k : EffectKind) (pol : List Rule) (f : Rule → Option Cell) (cells : List Cell)
    (hne : pol ≠ []) (hm : pol.mapM f = some cells) :
    loopFromE k pol.length [] (pol.map f) = some (enforceLoop k cells) ∧
      decision (enforceLoop k cells) = effectSpec k cells := by
  have h1 := mapM_option_some f pol cells hm
  have hlen : cells.length = pol.length := by
    have := congrArg List.length h1
    simpa using this.symm
  have hc : cells ≠ [] := by
    intro e; subst e
    simp at hlen
    exact hne (List.eq_nil_of_length_eq_zero hlen.symm)
  refine ⟨?_, C02.stream_eq_spec k cells hc⟩
  rw [h1, loopFromE_ok', enforceLoop, hlen]

theorem else_spec (k : EffectKind) (b : Bool) :
    decision (elseBranch k b) = effectSpec k [⟨true, if b then .allow else .indeterminate⟩] := by
  cases k <;> cases b <;> decide

theorem else_empty (k : EffectKind) (b : Bool) (h : (!b || k == .denyOverride) = true) :
    decision (elseBranch k b) = effectSpec k [] := by
  cases k <;> cases b <;> first | decide | (exact absurd h (by decide))

/-! ### the memo key -/

theorem nulsplit (z : Char) (l₁ l₂ r₁ r₂ : List Char) (h1 : z ∉ l₁) (h2 : z ∉ l₂)
    (hr1 : r₁ = [] ∨ ∃ t, r₁ = z :: t) (hr2 : r₂ = [] ∨ ∃ t, r₂ = z :: t)
    (h : l₁ ++ r₁ = l₂ ++ r₂) : l₁ = l₂ ∧ r₁ = r₂ := by
  induction l₁ generalizing l₂ with
  | nil =>
    cases l₂ with
    | nil => exact ⟨rfl, by simpa using h⟩
    | cons y ys =>
      simp only [List.nil_append, List.cons_append] at h
      rcases hr1 with e | ⟨t, e⟩
      · subst e; cases h
      · subst e
        simp only [List.cons.injEq] at h
        exact absurd (by simp [h.1]) h2
  | cons x xs ih =>
    cases l₂ with
    | nil =>
      simp only [List.nil_append, List.cons_append] at h
      rcases hr2 with e | ⟨t, e⟩
      · subst e; cases h
      · subst e
        simp only [List.cons.injEq] at h
        exact absurd (by simp [h.1]) h1
    | cons y ys =>
      simp only [List.cons_append, List.cons.injEq] at h
      obtain ⟨hxy, ht⟩ := h
      subst hxy
      have := ih ys (fun hm => h1 (List.mem_cons_of_mem _ hm)) (fun hm => h2 (List.mem_cons_of_mem _ hm)) ht
      exact ⟨by rw [this.1], this.2⟩

theorem gMemoKey_shape (as : List String) : gMemoKey as = [] ∨ ∃ t, gMemoKey as = Char.ofNat 0 :: t := by
  cases as with
  | nil => exact .inl rfl
  | cons a as => exact .inr ⟨a.toList ++ gMemoKey as, by simp [gMemoKey]⟩

theorem gMemoKey_injective' (as bs : List String)
    (ha : ∀ a ∈ as, Char.ofNat 0 ∉ a.toList) (hb : ∀ b ∈ bs, Char.ofNat 0 ∉ b.toList)
    (h : gMemoKey as = gMemoKey bs) : as = bs := by
  induction as generalizing bs with
  | nil =>
    cases bs with
    | nil => rfl
    | cons b bs => simp [gMemoKey] at h
  | cons a as ih =>
    cases bs with
    | nil => simp [gMemoKey] at h
    | cons b bs =>
      have h' : a.toList ++ gMemoKey as = b.toList ++ gMemoKey bs := by
        simpa [gMemoKey] using h
      have := nulsplit (Char.ofNat 0) a.toList b.toList (gMemoKey as) (gMemoKey bs)
        (ha a (by simp)) (hb b (by simp)) (gMemoKey_shape as) (gMemoKey_shape bs) h'
      have hab : a = b := String.ext this.1
      have hrest := ih bs (fun x hx => ha x (by simp [hx])) (fun x hx => hb x (by simp [hx])) this.2
      rw [hab, hrest]

end Casbin
