import CasbinVerif.Spec.Mirror
import CasbinVerif.Proofs.Assoc
/-
  Frame lemmas for the enforcer state machine (C05): which fields the building blocks of the
  management calls touch, and the consequence that a call on one definition leaves the stores and
  managers of every other definition alone.
-/
namespace Casbin

/-- same model definition, stores and role managers (everything `WFState`/`LinksMirror` mention) -/
structure SameCore (e e' : Enf) : Prop where
  md : e'.md = e.md
  p : e'.p = e.p
  g : e'.g = e.g
  rm : e'.rm = e.rm

theorem SameCore.refl (e : Enf) : SameCore e e := ⟨rfl, rfl, rfl, rfl⟩

theorem SameCore.trans {a b c : Enf} (h1 : SameCore a b) (h2 : SameCore b c) : SameCore a c :=
  ⟨h2.md.trans h1.md, h2.p.trans h1.p, h2.g.trans h1.g, h2.rm.trans h1.rm⟩

theorem sameCore_adapterCall (e : Enf) (entry : String) (eff : AdapterSt → AdapterSt) :
    SameCore e (e.adapterCall entry eff).1 := by
  unfold Enf.adapterCall
  split
  · exact .refl e
  · split
    split <;> exact ⟨rfl, rfl, rfl, rfl⟩

theorem sameCore_persist {e : Enf} {entry : String} {eff : AdapterSt → AdapterSt} {e1 : Enf} {ok : Bool}
    (h : (if e.shouldPersist = true then e.adapterCall entry eff else (e, true)) = (e1, ok)) : SameCore e e1 := by
  split at h
  · have := sameCore_adapterCall e entry eff
    rw [h] at this
    exact this
  · cases h; exact .refl e

theorem sameCore_notify (e : Enf) (x y : Option String) : SameCore e (e.notify x y) := by
  unfold Enf.notify
  split
  · exact .refl e
  · exact ⟨rfl, rfl, rfl, rfl⟩

theorem sameCore_withNotify (r : Enf × Enf.MRes) (x y : Option String) : SameCore r.1 (Enf.withNotify r x y).1 := by
  unfold Enf.withNotify
  split
  · split
    · exact sameCore_notify _ _ _
    · exact .refl _
  · exact .refl _

theorem SameCore.getStore {e e' : Enf} (h : SameCore e e') (sec pt : String) : e'.getStore sec pt = e.getStore sec pt := by
  simp only [Enf.getStore, Enf.stores, h.p, h.g]

theorem SameCore.prioOf {e e' : Enf} (h : SameCore e e') (sec pt : String) : e'.prioOf sec pt = e.prioOf sec pt := by
  simp only [Enf.prioOf, h.md]

/-! ### a call on definition `gt` leaves every other definition alone -/

def Frame (gt : String) (e e' : Enf) : Prop :=
  ∀ gt', gt' ≠ gt → e'.rm.lookup gt' = e.rm.lookup gt' ∧ e'.g.lookup gt' = e.g.lookup gt'

theorem Frame.refl (gt : String) (e : Enf) : Frame gt e e := fun _ _ => ⟨rfl, rfl⟩

theorem Frame.trans {gt : String} {a b c : Enf} (h1 : Frame gt a b) (h2 : Frame gt b c) : Frame gt a c :=
  fun gt' hne => ⟨(h2 gt' hne).1.trans (h1 gt' hne).1, (h2 gt' hne).2.trans (h1 gt' hne).2⟩

theorem SameCore.frame {e e' : Enf} (h : SameCore e e') (gt : String) : Frame gt e e' :=
  fun _ _ => ⟨by rw [h.rm], by rw [h.g]⟩

theorem frame_setStore (e : Enf) (sec gt : String) (s : Store) : Frame gt e (e.setStore sec gt s) := by
  intro gt' hne
  unfold Enf.setStore
  split
  · exact ⟨rfl, rfl⟩
  · exact ⟨rfl, lookup_assocSet_other _ _ hne⟩

theorem frame_incrLinks (e : Enf) (add : Bool) (gt : String) (rules : List Rule) :
    Frame gt e (e.incrLinks add gt rules).1 := by
  intro gt' hne
  unfold Enf.incrLinks
  simp only [Enf.invalidate]
  split
  · exact ⟨lookup_assocSet_other _ _ hne, rfl⟩
  · exact ⟨rfl, rfl⟩

theorem frame_incrLinks_of_eq {e : Enf} {add : Bool} {gt : String} {rules : List Rule} {e1 : Enf} {ok : Bool}
    (h : e.incrLinks add gt rules = (e1, ok)) : Frame gt e e1 := by
  have := frame_incrLinks e add gt rules
  rw [h] at this
  exact this

theorem frame_withNotify {gt : String} {e : Enf} {r : Enf × Enf.MRes} (h : Frame gt e r.1) (x y : Option String) :
    Frame gt e (Enf.withNotify r x y).1 :=
  h.trans ((sameCore_withNotify r x y).frame gt)

theorem frame_persist_of_eq {gt : String} {e : Enf} {entry : String} {eff : AdapterSt → AdapterSt} {e1 : Enf} {ok : Bool}
    (h : (if e.shouldPersist = true then e.adapterCall entry eff else (e, true)) = (e1, ok)) : Frame gt e e1 :=
  (sameCore_persist h).frame gt

/-- close a goal `Frame pt e X` where `X` is built from the primitives, working backwards -/
macro "frame_tac" : tactic => `(tactic| (
  try dsimp only
  repeat (first
    | exact Frame.refl _ _
    | exact frame_persist_of_eq (by assumption)
    | refine Frame.trans ?_ (frame_setStore _ _ _ _)
    | refine Frame.trans ?_ (frame_incrLinks _ _ _ _)
    | refine Frame.trans ?_ (frame_incrLinks_of_eq (by assumption)))))

theorem frame_addPolicy (e : Enf) (sec pt : String) (rule : Rule) : Frame pt e (e.addPolicy sec pt rule).1 := by
  unfold Enf.addPolicy
  refine frame_withNotify ?_ _ _
  unfold Enf.addPolicyWN
  repeat' first | split | (dsimp only; split)
  all_goals frame_tac

theorem frame_addPolicies (e : Enf) (sec pt : String) (rules : List Rule) (ex : Bool) :
    Frame pt e (e.addPolicies sec pt rules ex).1 := by
  unfold Enf.addPolicies
  refine frame_withNotify ?_ _ _
  unfold Enf.addPoliciesWN
  repeat' first | split | (dsimp only; split)
  all_goals frame_tac

theorem frame_removePolicy (e : Enf) (sec pt : String) (rule : Rule) : Frame pt e (e.removePolicy sec pt rule).1 := by
  unfold Enf.removePolicy
  refine frame_withNotify ?_ _ _
  unfold Enf.removePolicyWN
  repeat' first | split | (dsimp only; split)
  all_goals frame_tac

theorem frame_removePolicies (e : Enf) (sec pt : String) (rules : List Rule) :
    Frame pt e (e.removePolicies sec pt rules).1 := by
  unfold Enf.removePolicies
  refine frame_withNotify ?_ _ _
  unfold Enf.removePoliciesWN
  repeat' first | split | (dsimp only; split)
  all_goals frame_tac

theorem frame_updatePolicy (e : Enf) (sec pt : String) (old new : Rule) :
    Frame pt e (e.updatePolicy sec pt old new).1 := by
  unfold Enf.updatePolicy
  refine frame_withNotify ?_ _ _
  unfold Enf.updatePolicyWN
  repeat' first | split | (dsimp only; split)
  all_goals frame_tac

theorem frame_updatePolicies (e : Enf) (sec pt : String) (olds news : List Rule) :
    Frame pt e (e.updatePolicies sec pt olds news).1 := by
  unfold Enf.updatePolicies
  refine frame_withNotify ?_ _ _
  unfold Enf.updatePoliciesWN
  repeat' first | split | (dsimp only; split)
  all_goals frame_tac

theorem frame_removeFilteredWN (e : Enf) (sec pt : String) (fi : Nat) (vals : List String) (r : Enf × Enf.MRes) :
    e.removeFilteredWN sec pt fi vals = some r → Frame pt e r.1 := by
  unfold Enf.removeFilteredWN
  repeat' first | split | (dsimp only; split)
  all_goals (intro h; cases h)
  all_goals frame_tac

theorem frame_removeFiltered (e : Enf) (sec pt : String) (fi : Nat) (vals : List String) (r : Enf × Enf.MRes)
    (h : e.removeFiltered sec pt fi vals = some r) : Frame pt e r.1 := by
  unfold Enf.removeFiltered at h
  simp only [Option.map_eq_some_iff] at h
  obtain ⟨r0, h0, rfl⟩ := h
  exact frame_withNotify (frame_removeFilteredWN e sec pt fi vals r0 h0) _ _

theorem no_definition_leak' (e : Enf) (op : MOp) (sec gt : String) (sop : StoreOp) (hop : op.storeOp = some (sec, gt, sop))
    (e' : Enf) (res : Enf.MRes) (h : e.applyM op = some (e', res)) : Frame gt e e' := by
  cases op with
  | add sec' pt r =>
    simp only [MOp.storeOp, Option.some.injEq, Prod.mk.injEq] at hop
    obtain ⟨rfl, rfl, _⟩ := hop
    simp only [Enf.applyM, Option.some.injEq] at h
    have := frame_addPolicy e sec' pt r
    rw [h] at this; exact this
  | addMany sec' pt ex rs =>
    simp only [MOp.storeOp, Option.some.injEq, Prod.mk.injEq] at hop
    obtain ⟨rfl, rfl, _⟩ := hop
    simp only [Enf.applyM, Option.some.injEq] at h
    have := frame_addPolicies e sec' pt rs ex
    rw [h] at this; exact this
  | remove sec' pt r =>
    simp only [MOp.storeOp, Option.some.injEq, Prod.mk.injEq] at hop
    obtain ⟨rfl, rfl, _⟩ := hop
    simp only [Enf.applyM, Option.some.injEq] at h
    have := frame_removePolicy e sec' pt r
    rw [h] at this; exact this
  | removeMany sec' pt rs =>
    simp only [MOp.storeOp, Option.some.injEq, Prod.mk.injEq] at hop
    obtain ⟨rfl, rfl, _⟩ := hop
    simp only [Enf.applyM, Option.some.injEq] at h
    have := frame_removePolicies e sec' pt rs
    rw [h] at this; exact this
  | update sec' pt o n =>
    simp only [MOp.storeOp, Option.some.injEq, Prod.mk.injEq] at hop
    obtain ⟨rfl, rfl, _⟩ := hop
    simp only [Enf.applyM, Option.some.injEq] at h
    have := frame_updatePolicy e sec' pt o n
    rw [h] at this; exact this
  | updateMany sec' pt os ns =>
    simp only [MOp.storeOp, Option.some.injEq, Prod.mk.injEq] at hop
    obtain ⟨rfl, rfl, _⟩ := hop
    simp only [Enf.applyM, Option.some.injEq] at h
    have := frame_updatePolicies e sec' pt os ns
    rw [h] at this; exact this
  | removeFiltered sec' pt fi vals =>
    simp only [MOp.storeOp, Option.some.injEq, Prod.mk.injEq] at hop
    obtain ⟨rfl, rfl, _⟩ := hop
    simp only [Enf.applyM] at h
    exact frame_removeFiltered e sec' pt fi vals (e', res) h
  | clear => simp [MOp.storeOp] at hop
  | buildLinks => simp [MOp.storeOp] at hop

end Casbin
