import CasbinVerif.Proofs.Effector
/-
  Helper lemmas about the explanation index returned by the merge and by the loop.
-/
namespace Casbin

/-- what it means for an explanation `(e, some i)` to be truthful w.r.t. the rule vector `v` -/
def Truthful (v : List Cell) (r : Eft × Option Nat) : Prop :=
  ∀ i, r.2 = some i → ∃ x, v[i]? = some x ∧ x.matched = true ∧
    ((r.1 = .allow ∧ x.eft = .allow) ∨ (r.1 = .deny ∧ x.eft = .deny))

theorem revScan_some {l : List (Cell × Nat)} {e : Eft} {i : Nat} (h : revScan l = (e, some i)) :
    ∃ c, (c, i) ∈ l ∧ c.matched = true ∧
      ((e = .allow ∧ c.eft = .allow) ∨ (e = .deny ∧ c.eft = .deny)) := by
  induction l with
  | nil => simp [revScan] at h
  | cons p rest ih =>
    obtain ⟨c, j⟩ := p
    simp only [revScan] at h
    split at h
    · rename_i hc
      simp only [Bool.and_eq_true, decide_eq_true_eq] at hc
      simp only [Prod.mk.injEq, Option.some.injEq] at h
      obtain ⟨he, hj⟩ := h
      subst hj
      refine ⟨c, by simp, hc.1, ?_⟩
      cases hce : c.eft
      · left; simp [hce] at he; exact ⟨he.symm, rfl⟩
      · exact absurd hce hc.2
      · right; simp [hce] at he; exact ⟨he.symm, rfl⟩
    · obtain ⟨c', hm, hrest⟩ := ih h
      exact ⟨c', by simp [hm], hrest⟩

theorem getElem?_of_mem_zipIdx_reverse {cells : List Cell} {c : Cell} {i : Nat}
    (h : (c, i) ∈ cells.zipIdx.reverse) : cells[i]? = some c := by
  have h' := List.mem_reverse.1 h
  have := List.mem_zipIdx h'
  simp only [Nat.zero_le, Nat.zero_add, Nat.sub_zero, true_and] at this
  obtain ⟨hlt, hc⟩ := this
  rw [List.getElem?_eq_getElem hlt, hc]

/-- a matched slot of `A ++ zeros` lies in `A` -/
theorem matched_in_prefix {A : List Cell} {n i : Nat} {c : Cell}
    (h : (A ++ List.replicate n Cell.zero)[i]? = some c) (hm : c.matched = true) : A[i]? = some c := by
  by_cases hi : i < A.length
  · rwa [List.getElem?_append_left hi] at h
  · rw [List.getElem?_append_right (by omega)] at h
    have hmem := List.mem_of_getElem? h
    rw [List.eq_of_mem_replicate hmem] at hm
    simp [Cell.zero] at hm

theorem merge_some {k : EffectKind} {filled : List Cell} {c : Cell} {n len : Nat} {e : Eft} {i : Nat}
    (h : mergeEffects k (filled ++ [c] ++ List.replicate n Cell.zero) filled.length len = (e, some i)) :
    ∃ x, (filled ++ [c])[i]? = some x ∧ x.matched = true ∧
      ((e = .allow ∧ x.eft = .allow) ∨ (e = .deny ∧ x.eft = .deny)) := by
  have hcur : (filled ++ [c])[filled.length]? = some c := by simp
  cases k with
  | allowOverride =>
    simp only [mergeEffects, getD_mid] at h
    split at h
    · simp at h
    · rename_i hm
      split at h
      · rename_i he
        simp only [Prod.mk.injEq, Option.some.injEq] at h
        obtain ⟨h1, h2⟩ := h
        subst h1; subst h2
        exact ⟨c, hcur, by simpa using hm, Or.inl ⟨rfl, he⟩⟩
      · simp at h
  | denyOverride =>
    simp only [mergeEffects, getD_mid] at h
    split at h
    · rename_i hd
      simp only [Bool.and_eq_true, decide_eq_true_eq] at hd
      simp only [Prod.mk.injEq, Option.some.injEq] at h
      obtain ⟨h1, h2⟩ := h
      subst h1; subst h2
      exact ⟨c, hcur, hd.1, Or.inr ⟨rfl, hd.2⟩⟩
    · split at h <;> simp at h
  | allowAndDeny =>
    simp only [mergeEffects, getD_mid] at h
    split at h
    · rename_i hd
      simp only [Bool.and_eq_true, decide_eq_true_eq] at hd
      simp only [Prod.mk.injEq, Option.some.injEq] at h
      obtain ⟨h1, h2⟩ := h
      subst h1; subst h2
      exact ⟨c, hcur, hd.1, Or.inr ⟨rfl, hd.2⟩⟩
    · split at h
      · simp at h
      · split at h
        · rename_i j hf
          simp only [Prod.mk.injEq, Option.some.injEq] at h
          obtain ⟨h1, h2⟩ := h
          subst h1; subst h2
          obtain ⟨hjlt, hp, _⟩ := List.findIdx?_eq_some_iff_getElem.1 hf
          simp only [Bool.and_eq_true, decide_eq_true_eq] at hp
          have hget : (filled ++ [c] ++ List.replicate n Cell.zero)[j]? =
              some ((filled ++ [c] ++ List.replicate n Cell.zero)[j]) := List.getElem?_eq_getElem hjlt
          exact ⟨_, matched_in_prefix hget hp.1, hp.1, Or.inl ⟨rfl, hp.2⟩⟩
        · simp at h
  | priority =>
    simp only [mergeEffects] at h
    obtain ⟨x, hmem, hm, hx⟩ := revScan_some h
    exact ⟨x, matched_in_prefix (getElem?_of_mem_zipIdx_reverse hmem) hm, hm, hx⟩
  | subjectPriority =>
    simp only [mergeEffects] at h
    obtain ⟨x, hmem, hm, hx⟩ := revScan_some h
    exact ⟨x, matched_in_prefix (getElem?_of_mem_zipIdx_reverse hmem) hm, hm, hx⟩

theorem merge_truthful (k : EffectKind) (filled : List Cell) (c : Cell) (n len : Nat) :
    Truthful (filled ++ [c])
      (mergeEffects k (filled ++ [c] ++ List.replicate n Cell.zero) filled.length len) := by
  intro i hi
  generalize hr : mergeEffects k (filled ++ [c] ++ List.replicate n Cell.zero) filled.length len = r at hi ⊢
  obtain ⟨e, oi⟩ := r
  simp only at hi
  subst hi
  exact merge_some hr

theorem Truthful.mono {v w : List Cell} {r : Eft × Option Nat} (h : Truthful v r) :
    Truthful (v ++ w) r := by
  intro i hi
  obtain ⟨x, hx, rest⟩ := h i hi
  refine ⟨x, ?_, rest⟩
  have hlt : i < v.length := (List.getElem?_eq_some_iff.1 hx).1
  rw [List.getElem?_append_left hlt]; exact hx

theorem loop_truthful (k : EffectKind) (len : Nat) (filled todo : List Cell) :
    Truthful (filled ++ todo) (loopFrom k len filled todo) := by
  induction todo generalizing filled with
  | nil => intro i hi; simp [loopFrom] at hi
  | cons c rest ih =>
    unfold loopFrom
    have hm := merge_truthful k filled c (len - filled.length - 1) len
    have hm' : Truthful (filled ++ c :: rest)
        (mergeEffects k (filled ++ [c] ++ List.replicate (len - filled.length - 1) Cell.zero) filled.length len) := by
      have := hm.mono (w := rest)
      simpa using this
    simp only
    split
    · exact hm'
    · cases rest with
      | nil => exact hm'
      | cons d rest' =>
        have := ih (filled ++ [c])
        simpa using this

end Casbin
