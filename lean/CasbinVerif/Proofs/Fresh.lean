import CasbinVerif.Model.EnforcerP
import CasbinVerif.Proofs.MirrorStep
/-
  C04: what the management calls do to the matcher cache and to the hierarchy depth of the role
  managers.  Every building block either leaves cache and managers alone or empties the cache;
  none changes `maxLevel`.  `BuildRoleLinks` keeps the cache and replaces the managers by ones
  that answer alike.
-/
namespace Casbin
namespace Fresh

/-- two role-manager maps answer alike (the `RMEquiv` of Properties/C04) -/
def RMEq (a b : List (String × RM)) : Prop :=
  a.map (·.1) = b.map (·.1) ∧
  ∀ gt ra rb, a.lookup gt = some ra → b.lookup gt = some rb →
    ra.kind = rb.kind ∧ ra.maxLevel = rb.maxLevel ∧ ∀ l, l ∈ ra.links ↔ l ∈ rb.links

/-- the `CacheFresh` of Properties/C04 -/
def CF (e : Enf) : Prop := ∀ key snap, e.cache.lookup key = some snap → RMEq snap e.rm

/-- every manager has the default hierarchy depth -/
def Lev (e : Enf) : Prop := ∀ gt rm, e.rm.lookup gt = some rm → rm.maxLevel = 10

theorem RMEq.refl (a : List (String × RM)) : RMEq a a := by
  refine ⟨rfl, ?_⟩
  intro gt ra rb h1 h2
  rw [h1] at h2
  cases h2
  exact ⟨rfl, rfl, fun _ => Iff.rfl⟩

theorem RMEq.trans {a b c : List (String × RM)} (h1 : RMEq a b) (h2 : RMEq b c) : RMEq a c := by
  refine ⟨h1.1.trans h2.1, ?_⟩
  intro gt ra rc ha hc
  obtain ⟨rb, hb⟩ := lookup_some_of_keys (l' := b) h1.1.symm ha
  obtain ⟨k1, m1, l1⟩ := h1.2 gt ra rb ha hb
  obtain ⟨k2, m2, l2⟩ := h2.2 gt rb rc hb hc
  exact ⟨k1.trans k2, m1.trans m2, fun l => (l1 l).trans (l2 l)⟩

theorem lookup_none_of_keys {α β} {l : List (String × α)} {l' : List (String × β)} {k : String}
    (hk : l'.map (·.1) = l.map (·.1)) (h : l.lookup k = none) : l'.lookup k = none := by
  cases h' : l'.lookup k with
  | none => rfl
  | some w =>
    obtain ⟨v, hv⟩ := lookup_some_of_keys (l' := l) hk.symm h'
    rw [h] at hv
    cases hv

/-! ### the frame relation -/

/-- `e'` keeps the depth of the managers and either emptied the cache or kept cache and managers -/
def K (e e' : Enf) : Prop :=
  (Lev e → Lev e') ∧ (e'.cache = [] ∨ (e'.cache = e.cache ∧ e'.rm = e.rm))

theorem K.refl (e : Enf) : K e e := ⟨id, .inr ⟨rfl, rfl⟩⟩

theorem K.trans {a b c : Enf} (h1 : K a b) (h2 : K b c) : K a c := by
  refine ⟨fun h => h2.1 (h1.1 h), ?_⟩
  rcases h2.2 with h | ⟨hc, hr⟩
  · exact .inl h
  · rcases h1.2 with h | ⟨hc', hr'⟩
    · exact .inl (hc.trans h)
    · exact .inr ⟨hc.trans hc', hr.trans hr'⟩

theorem K.of_eq {e e' : Enf} (hc : e'.cache = e.cache) (hr : e'.rm = e.rm) : K e e' :=
  ⟨fun h => by unfold Lev; rw [hr]; exact h, .inr ⟨hc, hr⟩⟩

theorem K.cf {e e' : Enf} (h : K e e') (hc : CF e) : CF e' := by
  rcases h.2 with h0 | ⟨h1, h2⟩
  · intro key snap hl
    rw [h0] at hl
    cases hl
  · unfold CF
    rw [h1, h2]
    exact hc

theorem k_adapterCall (e : Enf) (entry : String) (eff : AdapterSt → AdapterSt) :
    K e (e.adapterCall entry eff).1 := by
  unfold Enf.adapterCall
  split
  · exact .refl e
  · split
    split <;> exact K.of_eq rfl rfl

theorem k_persist {e : Enf} {entry : String} {eff : AdapterSt → AdapterSt} {e1 : Enf} {ok : Bool}
    (h : (if e.shouldPersist = true then e.adapterCall entry eff else (e, true)) = (e1, ok)) : K e e1 := by
  split at h
  · have := k_adapterCall e entry eff
    rw [h] at this
    exact this
  · cases h; exact .refl e

theorem k_notify (e : Enf) (x y : Option String) : K e (e.notify x y) := by
  unfold Enf.notify
  split
  · exact .refl e
  · exact K.of_eq rfl rfl

theorem k_withNotify' (r : Enf × Enf.MRes) (x y : Option String) : K r.1 (Enf.withNotify r x y).1 := by
  unfold Enf.withNotify
  split
  · split
    · exact k_notify _ _ _
    · exact .refl _
  · exact .refl _

theorem k_withNotify {e : Enf} {r : Enf × Enf.MRes} (h : K e r.1) (x y : Option String) :
    K e (Enf.withNotify r x y).1 :=
  h.trans (k_withNotify' r x y)

theorem k_setStore (e : Enf) (sec pt : String) (s : Store) : K e (e.setStore sec pt s) := by
  unfold Enf.setStore
  split <;> exact K.of_eq rfl rfl

theorem k_incrLinks (e : Enf) (add : Bool) (pt : String) (rules : List Rule) :
    K e (e.incrLinks add pt rules).1 := by
  unfold Enf.incrLinks
  simp only [Enf.invalidate]
  split
  · rename_i rm cnt knd h1 h2
    refine ⟨?_, .inl rfl⟩
    intro hl gt r hr
    simp only at hr
    by_cases hg : gt = pt
    · subst hg
      rw [lookup_assocSet_self] at hr
      cases hr
      rw [applyRules_maxLevel]
      exact hl gt rm h1
    · rw [lookup_assocSet_other _ _ hg] at hr
      exact hl gt r hr
  · exact ⟨fun h => h, .inl rfl⟩

theorem k_incrLinks_of_eq {e : Enf} {add : Bool} {pt : String} {rules : List Rule} {e1 : Enf} {ok : Bool}
    (h : e.incrLinks add pt rules = (e1, ok)) : K e e1 := by
  have := k_incrLinks e add pt rules
  rw [h] at this
  exact this

/-- close a goal `K e X` where `X` is built from the primitives, working backwards -/
macro "k_tac" : tactic => `(tactic| (
  try dsimp only
  repeat (first
    | exact K.refl _
    | exact k_persist (by assumption)
    | refine K.trans ?_ (k_setStore _ _ _ _)
    | refine K.trans ?_ (k_incrLinks _ _ _ _)
    | refine K.trans ?_ (k_incrLinks_of_eq (by assumption)))))

theorem k_addPolicy (e : Enf) (sec pt : String) (rule : Rule) : K e (e.addPolicy sec pt rule).1 := by
  unfold Enf.addPolicy
  refine k_withNotify ?_ _ _
  unfold Enf.addPolicyWN
  repeat' first | split | (dsimp only; split)
  all_goals k_tac

theorem k_addPolicies (e : Enf) (sec pt : String) (rules : List Rule) (ex : Bool) :
    K e (e.addPolicies sec pt rules ex).1 := by
  unfold Enf.addPolicies
  refine k_withNotify ?_ _ _
  unfold Enf.addPoliciesWN
  repeat' first | split | (dsimp only; split)
  all_goals k_tac

theorem k_removePolicy (e : Enf) (sec pt : String) (rule : Rule) : K e (e.removePolicy sec pt rule).1 := by
  unfold Enf.removePolicy
  refine k_withNotify ?_ _ _
  unfold Enf.removePolicyWN
  repeat' first | split | (dsimp only; split)
  all_goals k_tac

theorem k_removePolicies (e : Enf) (sec pt : String) (rules : List Rule) :
    K e (e.removePolicies sec pt rules).1 := by
  unfold Enf.removePolicies
  refine k_withNotify ?_ _ _
  unfold Enf.removePoliciesWN
  repeat' first | split | (dsimp only; split)
  all_goals k_tac

theorem k_updatePolicy (e : Enf) (sec pt : String) (old new : Rule) :
    K e (e.updatePolicy sec pt old new).1 := by
  unfold Enf.updatePolicy
  refine k_withNotify ?_ _ _
  unfold Enf.updatePolicyWN
  repeat' first | split | (dsimp only; split)
  all_goals k_tac

theorem k_updatePolicies (e : Enf) (sec pt : String) (olds news : List Rule) :
    K e (e.updatePolicies sec pt olds news).1 := by
  unfold Enf.updatePolicies
  refine k_withNotify ?_ _ _
  unfold Enf.updatePoliciesWN
  repeat' first | split | (dsimp only; split)
  all_goals k_tac

theorem k_removeFilteredWN (e : Enf) (sec pt : String) (fi : Nat) (vals : List String) (r : Enf × Enf.MRes) :
    e.removeFilteredWN sec pt fi vals = some r → K e r.1 := by
  unfold Enf.removeFilteredWN
  repeat' first | split | (dsimp only; split)
  all_goals (intro h; cases h)
  all_goals k_tac

theorem k_removeFiltered (e : Enf) (sec pt : String) (fi : Nat) (vals : List String) (r : Enf × Enf.MRes)
    (h : e.removeFiltered sec pt fi vals = some r) : K e r.1 := by
  unfold Enf.removeFiltered at h
  simp only [Option.map_eq_some_iff] at h
  obtain ⟨r0, h0, rfl⟩ := h
  exact k_withNotify (k_removeFilteredWN e sec pt fi vals r0 h0) _ _

theorem k_clearPolicy (e : Enf) : K e e.clearPolicy := by
  refine ⟨?_, .inl rfl⟩
  intro hl gt r hr
  have : e.clearPolicy.rm.lookup gt = (e.rm.lookup gt).map (fun r => r.clear) :=
    lookup_map_snd (fun _ (r : RM) => r.clear) e.rm gt
  rw [this] at hr
  cases h0 : e.rm.lookup gt with
  | none => rw [h0] at hr; cases hr
  | some r0 =>
    rw [h0] at hr
    cases hr
    exact hl gt r0 h0

/-! ### BuildRoleLinks -/

theorem rebuiltOf_maxLevel (md : ModelDef) (g : List (String × Store)) (k : String) (r : RM) :
    (rebuiltOf md g k r).maxLevel = r.maxLevel := by
  unfold rebuiltOf
  split
  · rw [applyRules_maxLevel]; rfl
  · rfl

theorem buildRoleLinks_eq (e : Enf) (hi : Casbin.Inv e) :
    e.buildRoleLinks = ({ e.invalidate with rm := e.rm.map (fun x => (x.1, rebuiltOf e.md e.g x.1 x.2)) }, true) := by
  have hok : ∀ x ∈ e.rm, ∀ count kind s, e.md.g.lookup x.1 = some (count, kind) → e.g.lookup x.1 = some s →
      (x.2.clear.applyRules count true s.policy).2 = true := by
    intro x _ count kind s hd hs
    obtain ⟨g0, hinj, _⟩ := wf_g_info hi.1 hs hd
    exact (applyRules_add count s.policy x.2.clear
      (fun r hr => by rw [plainRule_length (g0.plain r hr)]; exact Nat.le_refl _) hinj.c2).1
  unfold Enf.buildRoleLinks
  simp only [Enf.invalidate]
  rw [rebuildLinks_eq e.md e.rm e.g hok]

/-- under the mirror invariant the rebuilt managers answer like the old ones -/
theorem buildRoleLinks_rmeq (e : Enf) (hi : Casbin.Inv e) : RMEq e.rm e.buildRoleLinks.1.rm := by
  have hi' := inv_buildRoleLinks e hi
  rw [buildRoleLinks_eq e hi] at hi' ⊢
  have hr : ∀ x, (e.rm.map (fun x => (x.1, rebuiltOf e.md e.g x.1 x.2))).lookup x =
      (e.rm.lookup x).map (rebuiltOf e.md e.g x) := fun x =>
    lookup_map_snd (fun k (r : RM) => rebuiltOf e.md e.g k r) e.rm x
  refine ⟨?_, ?_⟩
  · simp only [List.map_map, Function.comp_def]
  · intro gt ra rb ha hb
    simp only at hb
    rw [hr gt, ha] at hb
    simp only [Option.map_some, Option.some.injEq] at hb
    subst hb
    refine ⟨(rebuiltOf_kind _ _ _ _).symm, (rebuiltOf_maxLevel _ _ _ _).symm, ?_⟩
    obtain ⟨count, hd⟩ := hi.1.2.2.2.2.2.2.2 gt ra ha
    obtain ⟨s, hs⟩ := lookup_some_of_keys (l' := e.g) (hi.1.2.1.trans hi.1.2.2.1.symm) ha
    intro l
    rw [hi.2 gt ra count ra.kind s ha hd hs l]
    have hb' : (e.rm.map (fun x => (x.1, rebuiltOf e.md e.g x.1 x.2))).lookup gt = some (rebuiltOf e.md e.g gt ra) := by
      rw [hr gt, ha]; rfl
    exact (hi'.2 gt (rebuiltOf e.md e.g gt ra) count ra.kind s hb' hd hs l).symm

theorem buildRoleLinks_lev (e : Enf) (hi : Casbin.Inv e) (hl : Lev e) : Lev e.buildRoleLinks.1 := by
  intro gt rb hb
  have h := buildRoleLinks_rmeq e hi
  obtain ⟨ra, ha⟩ := lookup_some_of_keys (l' := e.rm) h.1 hb
  rw [← (h.2 gt ra rb ha hb).2.1]
  exact hl gt ra ha

theorem buildRoleLinks_cache (e : Enf) : e.buildRoleLinks.1.cache = [] := rfl

theorem buildRoleLinks_cf (e : Enf) (_hi : Casbin.Inv e) (_hc : CF e) : CF e.buildRoleLinks.1 := by
  intro key snap hl
  rw [buildRoleLinks_cache] at hl
  simp at hl

/-! ### one management call -/

theorem k_applyM (e : Enf) (op : MOp) (e' : Enf) (res : Enf.MRes) (h : e.applyM op = some (e', res))
    (hne : op ≠ .buildLinks) : K e e' := by
  cases op with
  | add sec pt r =>
    simp only [Enf.applyM, Option.some.injEq] at h
    have := k_addPolicy e sec pt r
    rw [h] at this; exact this
  | addMany sec pt ex rs =>
    simp only [Enf.applyM, Option.some.injEq] at h
    have := k_addPolicies e sec pt rs ex
    rw [h] at this; exact this
  | remove sec pt r =>
    simp only [Enf.applyM, Option.some.injEq] at h
    have := k_removePolicy e sec pt r
    rw [h] at this; exact this
  | removeMany sec pt rs =>
    simp only [Enf.applyM, Option.some.injEq] at h
    have := k_removePolicies e sec pt rs
    rw [h] at this; exact this
  | update sec pt o n =>
    simp only [Enf.applyM, Option.some.injEq] at h
    have := k_updatePolicy e sec pt o n
    rw [h] at this; exact this
  | updateMany sec pt os ns =>
    simp only [Enf.applyM, Option.some.injEq] at h
    have := k_updatePolicies e sec pt os ns
    rw [h] at this; exact this
  | removeFiltered sec pt fi vals =>
    simp only [Enf.applyM] at h
    exact k_removeFiltered e sec pt fi vals (e', res) h
  | clear =>
    simp only [Enf.applyM, Option.some.injEq, Prod.mk.injEq] at h
    rw [← h.1]
    exact k_clearPolicy e
  | buildLinks => exact absurd rfl hne

/-- a management call keeps cache freshness and the default depth -/
theorem applyM_fresh (e : Enf) (op : MOp) (hi : Casbin.Inv e) (hc : CF e) (hl : Lev e)
    (e' : Enf) (res : Enf.MRes) (h : e.applyM op = some (e', res)) : CF e' ∧ Lev e' := by
  by_cases hb : op = .buildLinks
  · subst hb
    have he : e' = e.buildRoleLinks.1 := by
      simp only [Enf.applyM, Option.some.injEq, Prod.mk.injEq] at h
      exact h.1.symm
    subst he
    exact ⟨buildRoleLinks_cf e hi hc, buildRoleLinks_lev e hi hl⟩
  · have hk := k_applyM e op e' res h hb
    exact ⟨hk.cf hc, hk.1 hl⟩

end Fresh
end Casbin

namespace Casbin
namespace Fresh

/-! ### Enforce -/

/-- the `g()` of a compiled matcher that sees the managers `snap` -/
def linksOf (snap : List (String × RM)) : String → List String → Bool :=
  fun gt args =>
    match snap.lookup gt, args with
    | some rm, u :: v :: ds => rm.hasLink u v ds
    | _, _ => false

/-- Enforce changes at most the cache, by memoising the current managers under one key -/
theorem enforceStep_state (e : Enf) (ctx : EnforceCtx) (custom : Option String) (rvals : List Val) :
    (e.enforceStep ctx custom rvals).1 = e ∨
      ∃ key, (e.enforceStep ctx custom rvals).1 = { e with cache := assocSet e.cache key e.rm } := by
  unfold Enf.enforceStep
  split
  · exact .inl rfl
  · dsimp only
    split
    · exact .inl rfl
    · split
      · exact .inl rfl
      · exact .inr ⟨_, rfl⟩

/-- the answer of an enabled enforcer: `enforce` with the managers the compiled matcher sees, which
    are the current ones or a cached snapshot -/
theorem enforceStep_result (e : Enf) (hen : e.enabled = true) (ctx : EnforceCtx) (rvals : List Val)
    (m : Expr) (hm : e.md.m.lookup ctx.mType = some m) :
    ∃ snap, (snap = e.rm ∨ ∃ key, e.cache.lookup key = some snap) ∧
      (e.enforceStep ctx none rvals).2 =
        enforce e.md (fun pt => ((e.p.lookup pt).map (·.policy)).getD []) (linksOf snap) e.fn e.evalTab ctx (some m) rvals := by
  unfold Enf.enforceStep
  simp only [hen, Bool.not_true, Bool.false_eq_true, if_false, hm]
  split
  · rename_i snap hs
    refine ⟨snap, .inr ⟨Enf.matcherKey ctx none, ?_⟩, rfl⟩
    split at hs
    · cases hs
    · exact hs
  · exact ⟨e.rm, .inl rfl, rfl⟩

theorem cf_assocSet (e : Enf) (key : String) (hc : CF e) :
    CF { e with cache := assocSet e.cache key e.rm } := by
  intro k snap hl
  simp only at hl
  by_cases hk : k = key
  · subst hk
    rw [lookup_assocSet_self] at hl
    cases hl
    exact RMEq.refl _
  · rw [lookup_assocSet_other _ _ hk] at hl
    exact hc k snap hl

/-- answers of `HasLink` only depend on kind, depth and link set -/
theorem hasLink_congr' (ra rb : RM) (hk : ra.kind = rb.kind) (hl : ra.maxLevel = rb.maxLevel)
    (h : ∀ l, l ∈ ra.links ↔ l ∈ rb.links) (u r : String) (ds : List String) :
    ra.hasLink u r ds = rb.hasLink u r ds := by
  rw [Bool.eq_iff_iff, hasLink_iff_reach', hasLink_iff_reach', dom_eq_domOf, dom_eq_domOf, hk, hl]
  exact reachWithin_congr h _ _ _ _

/-- a matcher that sees managers answering like the current ones evaluates `g()` as the reference
    semantics does on the listed grouping rules -/
theorem linksOf_eq_specLink (e : Enf) (hi : Casbin.Inv e) (hl : Lev e) (snap : List (String × RM))
    (hs : RMEq snap e.rm) (gt : String) (args : List String) :
    linksOf snap gt args = specLink e.md (fun gt => ((e.g.lookup gt).map (·.policy)).getD []) 10 gt args := by
  unfold linksOf
  cases hsl : snap.lookup gt with
  | none =>
    have h1 : e.rm.lookup gt = none := lookup_none_of_keys hs.1.symm hsl
    have h2 : e.md.g.lookup gt = none := by
      apply lookup_none_of_keys (l := e.rm) _ h1
      exact hi.1.2.2.1.symm
    simp only [specLink, h2]
  | some ra =>
    obtain ⟨rb, hb⟩ := lookup_some_of_keys (l' := e.rm) hs.1.symm hsl
    obtain ⟨k1, m1, l1⟩ := hs.2 gt ra rb hsl hb
    match args with
    | [] => simp only [specLink]; split <;> simp_all
    | [_] => simp only [specLink]; split <;> simp_all
    | u :: v :: ds =>
      simp only
      rw [hasLink_congr' ra rb k1 m1 l1]
      exact hasLink_eq_specLink' e hi.1 hi.2 hl gt rb hb u v ds

end Fresh
end Casbin

namespace Casbin
namespace Fresh

/-! ### the pattern-manager wrapper without pattern managers -/

theorem syncCache_base (e : EnfP) : e.syncCache.base = e.base := by
  unfold EnfP.syncCache
  split <;> rfl

theorem syncCache_prm (e : EnfP) : e.syncCache.prm = e.prm := by
  unfold EnfP.syncCache
  split <;> rfl

theorem shadowRules_nil (x : EnfP) (h : x.prm = []) (gt : String) (add : Bool) (rules : List Rule) :
    x.shadowRules gt add rules = x := by
  unfold EnfP.shadowRules
  rw [h]
  rfl

theorem delta_nil (before : Enf) (op : MOp) (x : EnfP) (h : x.prm = []) :
    (EnfP.delta before op x).base = x.base ∧ (EnfP.delta before op x).prm = [] := by
  unfold EnfP.delta
  split
  all_goals (try simp only [shadowRules_nil x h])
  all_goals first
    | exact ⟨rfl, h⟩
    | exact ⟨trivial, h⟩
    | exact ⟨trivial, by rw [h]; rfl⟩
    | exact ⟨rfl, by unfold EnfP.shadowRebuild; rw [h]; rfl⟩

end Fresh
end Casbin
