import CasbinVerif.Proofs.GuardedStore
import CasbinVerif.Proofs.MirrorStep
/-
  C05 under the relaxed hypothesis `opWFg`: the two update calls behind the `updatable` guard keep the
  state well-formed and the role links in step with the listed rules, whatever the shape of the update.
-/
namespace Casbin

theorem opWFg_elim {e : Enf} {op : MOp} {sec pt : String} {sop : StoreOp} (h : e.opWFg op = true)
    (hop : op.storeOp = some (sec, pt, sop)) :
    ∃ n s, e.arity sec pt = some n ∧ e.getStore sec pt = some s ∧ WF06g n s.policy sop = true := by
  unfold Enf.opWFg at h
  rw [hop] at h
  dsimp only at h
  split at h
  · rename_i n s h1 h2
    exact ⟨n, s, h1, h2, h⟩
  · cases h

theorem wf06g_parts {n : Nat} {l : List Rule} {op : StoreOp} (h : WF06g n l op = true) :
    (∀ r ∈ op.rules, plainRule n r = true) ∧ n ≠ 0 := by
  simp only [WF06g, Bool.and_eq_true, bne_iff_ne, ne_eq, List.all_eq_true] at h
  exact ⟨h.1.1.1, h.1.2⟩

/-- for every call other than the two update calls the relaxed hypothesis is the old one -/
theorem opWF_of_opWFg {e : Enf} {op : MOp} (h : e.opWFg op = true)
    (h1 : ∀ sec pt o w, op ≠ .update sec pt o w) (h2 : ∀ sec pt os ns, op ≠ .updateMany sec pt os ns) :
    e.opWF op = true := by
  cases op with
  | update sec pt o w => exact absurd rfl (h1 sec pt o w)
  | updateMany sec pt os ns => exact absurd rfl (h2 sec pt os ns)
  | add sec pt r => exact h
  | addMany sec pt ex rs => exact h
  | remove sec pt r => exact h
  | removeMany sec pt rs => exact h
  | removeFiltered sec pt fi vals => exact h
  | clear => rfl
  | buildLinks => rfl

theorem inv_updatePolicyWN_g (e : Enf) (sec pt : String) (old new : Rule) (hi : Inv e)
    (hop : e.opWFg (.update sec pt old new) = true) : Inv (e.updatePolicyWN sec pt old new).1 := by
  obtain ⟨n, s, har, hs, hwf6⟩ := opWFg_elim hop rfl
  obtain ⟨hpl, hn⟩ := wf06g_parts hwf6
  have ho : plainRule n old = true := hpl old (by simp [StoreOp.rules])
  have hw : plainRule n new = true := hpl new (by simp [StoreOp.rules])
  rw [Enf.updatePolicyWN_eq, hs]
  dsimp only
  split
  · exact hi
  rename_i hu'
  have hu : Enf.updatable s [old] [new] = true := by simpa using hu'
  have g0' : Good n s := by
    rcases arity_cases har hs with ⟨rfl, hps, toks, ht, rfl⟩ | ⟨rfl, hgs, kind, hd⟩
    · exact wf_p_good hi.1 hps ht
    · exact (wf_g_info hi.1 hgs hd).1
  obtain ⟨hflag, s', hupd, g1, hpol⟩ := update_guarded hn g0' ho hw hu
  unfold Enf.updatePolicyBody
  split
  rename_i e1 okA hp
  have sc := sameCore_persist hp
  split
  · exact inv_same sc hi
  rw [sc.getStore, hs]
  simp only [hupd]
  rcases arity_cases har hs with ⟨rfl, hps, toks, ht, rfl⟩ | ⟨rfl, hgs, kind, hd⟩
  · simp only [str_pg, Bool.false_eq_true, if_false]
    exact inv_stepP hi (stepP_setStore sc hps _) hps ht g1
  · obtain ⟨g0, hinj, rm, hrm, hk⟩ := wf_g_info hi.1 hgs hd
    simp only [beq_self_eq_true, if_true]
    have st1 := stepG_setStore sc hgs hrm s'
    obtain ⟨st2, hok1⟩ := stepG_incr' st1 hd false [old]
    obtain ⟨st3, hok2⟩ := stepG_incr' st2 hd true [new]
    obtain ⟨h1, h2, h3⟩ := links_after_del_add (l1 := s'.policy) (dels := [old]) (adds := [new]) hk
      (hi.2 pt rm n kind s hrm hd hgs) hinj
      (fun r hr => plainRule_length (g0.plain r hr))
      (by intro r hr'; simp at hr'; subst hr'; exact plainRule_length ho)
      (by intro r hr'; simp at hr'; subst hr'; exact plainRule_length hw)
      (by
        intro x
        rw [hpol, mem_replace]
        simp only [List.mem_singleton]
        constructor
        · rintro (⟨h, _⟩ | h)
          · exact .inr h
          · exact .inl h
        · rintro (h | h)
          · exact .inr h
          · exact .inl ⟨h, hflag⟩)
    have := inv_stepG hi st3 hgs hrm hd g1 ((applyRules_kind _ _ _ _).trans (applyRules_kind _ _ _ _)) h3
    rw [hok1.trans h1]
    simp only [Bool.not_true, Bool.false_eq_true, if_false]
    split <;> exact this

theorem inv_updatePoliciesWN_g (e : Enf) (sec pt : String) (olds news : List Rule) (hi : Inv e)
    (hop : e.opWFg (.updateMany sec pt olds news) = true) : Inv (e.updatePoliciesWN sec pt olds news).1 := by
  obtain ⟨n, s, har, hs, hwf6⟩ := opWFg_elim hop rfl
  obtain ⟨hpl, hn⟩ := wf06g_parts hwf6
  have hpo : ∀ r ∈ olds, plainRule n r = true := fun r hr => hpl r (by simp [StoreOp.rules, hr])
  have hpn : ∀ r ∈ news, plainRule n r = true := fun r hr => hpl r (by simp [StoreOp.rules, hr])
  rw [Enf.updatePoliciesWN_eq]
  split
  · exact hi
  rename_i hlen'
  have hlen : olds.length = news.length := by simpa using hlen'
  rw [hs]
  dsimp only
  split
  · exact hi
  rename_i hu'
  have hu : Enf.updatable s olds news = true := by simpa using hu'
  have g0 : Good n s := by
    rcases arity_cases har hs with ⟨rfl, hps, toks, ht, rfl⟩ | ⟨rfl, hgs, kind, hd⟩
    · exact wf_p_good hi.1 hps ht
    · exact (wf_g_info hi.1 hgs hd).1
  obtain ⟨hall, s', hupd, g1, hpol, hmem⟩ := updateMany_guarded hn g0 olds news hlen hpo hpn hu
  unfold Enf.updatePoliciesBody
  split
  rename_i e1 okA hp
  have sc := sameCore_persist hp
  split
  · exact inv_same sc hi
  rw [sc.getStore, hs]
  simp only [hupd]
  rcases arity_cases har hs with ⟨rfl, hps, toks, ht, rfl⟩ | ⟨rfl, hgs, kind, hd⟩
  · simp only [str_pg, Bool.false_eq_true, if_false]
    exact inv_stepP hi (stepP_setStore sc hps _) hps ht g1
  · obtain ⟨_, hinj, rm, hrm, hk⟩ := wf_g_info hi.1 hgs hd
    simp only [beq_self_eq_true, if_true]
    have st1 := stepG_setStore sc hgs hrm s'
    obtain ⟨st2, hok1⟩ := stepG_incr' st1 hd false olds
    obtain ⟨st3, hok2⟩ := stepG_incr' st2 hd true news
    obtain ⟨h1, h2, h3⟩ := links_after_del_add (l1 := s'.policy) (dels := olds) (adds := news) hk
      (hi.2 pt rm n kind s hrm hd hgs) hinj
      (fun r hr => plainRule_length (g0.plain r hr))
      (fun r hr => plainRule_length (hpo r hr))
      (fun r hr => plainRule_length (hpn r hr))
      hmem
    have := inv_stepG hi st3 hgs hrm hd g1 ((applyRules_kind _ _ _ _).trans (applyRules_kind _ _ _ _)) h3
    rw [hok1.trans h1]
    simp only [Bool.not_true, Bool.false_eq_true, if_false]
    split <;> exact this

theorem mirror_step_g (e : Enf) (op : MOp) (hi : Inv e) (hop : e.opWFg op = true) :
    ∃ e' res, e.applyM op = some (e', res) ∧ Inv e' := by
  by_cases h1 : ∃ sec pt o w, op = .update sec pt o w
  · obtain ⟨sec, pt, o, w, rfl⟩ := h1
    refine ⟨_, _, rfl, ?_⟩
    exact inv_same (sameCore_withNotify _ _ _) (inv_updatePolicyWN_g e sec pt o w hi hop)
  by_cases h2 : ∃ sec pt os ns, op = .updateMany sec pt os ns
  · obtain ⟨sec, pt, os, ns, rfl⟩ := h2
    refine ⟨_, _, rfl, ?_⟩
    exact inv_same (sameCore_withNotify _ _ _) (inv_updatePoliciesWN_g e sec pt os ns hi hop)
  exact mirror_step' e op hi (opWF_of_opWFg hop
    (fun sec pt o w h => h1 ⟨sec, pt, o, w, h⟩) (fun sec pt os ns h => h2 ⟨sec, pt, os, ns, h⟩))

end Casbin
