import CasbinVerif.Proofs.GuardedMirror
import CasbinVerif.Proofs.C10Ops
/-
  C10 under the relaxed hypothesis `opWF10g`: the two update calls behind the `updatable` guard keep
  the adapter in step with memory, whatever the shape of the update.
-/
namespace Casbin

theorem c10_updatePolicyWN_g (e : Enf) (sec pt : String) (old new : Rule) (hi : Inv10 e)
    (hop : e.opWFg (.update sec pt old new) = true) : Inv10 (e.updatePolicyWN sec pt old new).1 := by
  obtain ⟨n, s, har, hs, hwf6⟩ := opWFg_elim hop rfl
  obtain ⟨hpl, hn⟩ := wf06g_parts hwf6
  have ho : plainRule n old = true := hpl old (by simp [StoreOp.rules])
  have hw : plainRule n new = true := hpl new (by simp [StoreOp.rules])
  have g0 := good_of hi.wf har hs
  rw [Enf.updatePolicyWN_eq, hs]
  dsimp only
  split
  · exact hi          -- refused by `updatable`: nothing is touched
  rename_i hu'
  have hu : Enf.updatable s [old] [new] = true := by simpa using hu'
  obtain ⟨_, s', hupd, g1, hpol⟩ := update_guarded hn g0 ho hw hu
  unfold Enf.updatePolicyBody
  split
  rename_i e1 okA hp
  have sc := sameCore_persist hp
  obtain ⟨hok, ad⟩ := persist_adrel hi.quiet hi.autoSave (effOK_update pt old new) hp
  split
  · rename_i hc; simp [hok] at hc
  rw [sc.getStore, hs]
  simp only [hupd]
  rcases arity_cases har hs with ⟨rfl, hps, toks, ht, rfl⟩ | ⟨rfl, hgs, kind, hd⟩
  · simp only [str_pg, Bool.false_eq_true, if_false]
    exact c10_stepP hi (stepP_setStore sc hps _) hps ht g1 (ad.trans_same (adSame_setStore _ _ _ _)) hpol
  · obtain ⟨_, hinj, rm, hrm, hk⟩ := wf_g_info hi.wf hgs hd
    simp only [beq_self_eq_true, if_true]
    have st1 := stepG_setStore sc hgs hrm s'
    obtain ⟨st2, hok1⟩ := stepG_incr' st1 hd false [old]
    have i2 := c10_stepG hi st2 hgs hrm hd g1 (applyRules_kind _ _ _ _)
      (ad.trans_same ((adSame_setStore _ _ _ _).trans (adSame_incrLinks _ _ _ _))) hpol
    obtain ⟨st3, hok2⟩ := stepG_incr' st2 hd true [new]
    have i3 := c10_stepG hi st3 hgs hrm hd g1 ((applyRules_kind _ _ _ _).trans (applyRules_kind _ _ _ _))
      (ad.trans_same (((adSame_setStore _ _ _ _).trans (adSame_incrLinks _ _ _ _)).trans (adSame_incrLinks _ _ _ _))) hpol
    split
    · exact i2
    · split <;> exact i3

theorem c10_updatePoliciesWN_g (e : Enf) (sec pt : String) (olds news : List Rule) (hi : Inv10 e)
    (hop : e.opWFg (.updateMany sec pt olds news) = true) : Inv10 (e.updatePoliciesWN sec pt olds news).1 := by
  obtain ⟨n, s, har, hs, hwf6⟩ := opWFg_elim hop rfl
  obtain ⟨hpl, hn⟩ := wf06g_parts hwf6
  have hpo : ∀ r ∈ olds, plainRule n r = true := fun r hr => hpl r (by simp [StoreOp.rules, hr])
  have hpn : ∀ r ∈ news, plainRule n r = true := fun r hr => hpl r (by simp [StoreOp.rules, hr])
  have g0 := good_of hi.wf har hs
  rw [Enf.updatePoliciesWN_eq]
  split
  · exact hi          -- the length error
  rename_i hlen'
  have hlen : olds.length = news.length := by simpa using hlen'
  rw [hs]
  dsimp only
  split
  · exact hi          -- refused by `updatable`: nothing is touched
  rename_i hu'
  have hu : Enf.updatable s olds news = true := by simpa using hu'
  obtain ⟨_, s', hupd, g1, hpol, _⟩ := updateMany_guarded hn g0 olds news hlen hpo hpn hu
  unfold Enf.updatePoliciesBody
  split
  rename_i e1 okA hp
  have sc := sameCore_persist hp
  obtain ⟨hok, ad⟩ := persist_adrel hi.quiet hi.autoSave
    (EffOK.foldl (fun (p : Rule × Rule) => effOK_update pt p.1 p.2) (olds.zip news)) hp
  split
  · rename_i hc; simp [hok] at hc
  rw [sc.getStore, hs]
  simp only [hupd]
  rcases arity_cases har hs with ⟨rfl, hps, toks, ht, rfl⟩ | ⟨rfl, hgs, kind, hd⟩
  · simp only [str_pg, Bool.false_eq_true, if_false]
    exact c10_stepP hi (stepP_setStore sc hps _) hps ht g1 (ad.trans_same (adSame_setStore _ _ _ _)) hpol
  · obtain ⟨_, hinj, rm, hrm, hk⟩ := wf_g_info hi.wf hgs hd
    simp only [beq_self_eq_true, if_true]
    have st1 := stepG_setStore sc hgs hrm s'
    obtain ⟨st2, hok1⟩ := stepG_incr' st1 hd false olds
    have i2 := c10_stepG hi st2 hgs hrm hd g1 (applyRules_kind _ _ _ _)
      (ad.trans_same ((adSame_setStore _ _ _ _).trans (adSame_incrLinks _ _ _ _))) hpol
    obtain ⟨st3, hok2⟩ := stepG_incr' st2 hd true news
    have i3 := c10_stepG hi st3 hgs hrm hd g1 ((applyRules_kind _ _ _ _).trans (applyRules_kind _ _ _ _))
      (ad.trans_same (((adSame_setStore _ _ _ _).trans (adSame_incrLinks _ _ _ _)).trans (adSame_incrLinks _ _ _ _))) hpol
    split
    · exact i2
    · split <;> exact i3

theorem opWFg_of_opWF10g {e : Enf} {op : MOp} (h : e.opWF10g op = true) : e.opWFg op = true := by
  simp only [Enf.opWF10g, Bool.and_eq_true] at h
  exact h.1

theorem opWF10_of_opWF10g {e : Enf} {op : MOp} (h : e.opWF10g op = true)
    (h1 : ∀ sec pt o w, op ≠ .update sec pt o w) (h2 : ∀ sec pt os ns, op ≠ .updateMany sec pt os ns) :
    e.opWF10 op = true := by
  simp only [Enf.opWF10g, Bool.and_eq_true] at h
  simp only [Enf.opWF10, Bool.and_eq_true]
  exact ⟨opWF_of_opWFg h.1 h1 h2, h.2⟩

theorem c10_step_g (e : Enf) (op : MOp) (hi : Inv10 e) (hop : e.opWF10g op = true) :
    ∃ e' res, e.applyM op = some (e', res) ∧ Inv10 e' := by
  have hop' := opWFg_of_opWF10g hop
  by_cases h1 : ∃ sec pt o w, op = .update sec pt o w
  · obtain ⟨sec, pt, o, w, rfl⟩ := h1
    exact ⟨_, _, rfl, inv10_withNotify (c10_updatePolicyWN_g e sec pt o w hi hop') _ _⟩
  by_cases h2 : ∃ sec pt os ns, op = .updateMany sec pt os ns
  · obtain ⟨sec, pt, os, ns, rfl⟩ := h2
    exact ⟨_, _, rfl, inv10_withNotify (c10_updatePoliciesWN_g e sec pt os ns hi hop') _ _⟩
  exact c10_step e op hi (opWF10_of_opWF10g hop
    (fun sec pt o w h => h1 ⟨sec, pt, o, w, h⟩) (fun sec pt os ns h => h2 ⟨sec, pt, os, ns, h⟩))

end Casbin
