import CasbinVerif.Spec.Guarded
import CasbinVerif.Proofs.StoreOps
import CasbinVerif.Proofs.Updatable
/-
  The store behind the `updatable` guard: the guard decides by keys what `specUpdatable` decides by
  rules; an accepted update (identity pairs included) is carried out by `Store.update` /
  `Store.updateMany` without rollback, keeps the store coherent and computes the in-place
  replacement of the specification.
-/
namespace Casbin

/-! ### identity replacement -/

theorem set_self_eq {α} {l : List α} {i : Nat} {a : α} (hi : l[i]? = some a) : l.set i a = l := by
  apply List.ext_getElem?
  intro j
  rw [List.getElem?_set]
  split
  · rename_i h
    subst h
    obtain ⟨hlt, rfl⟩ := List.getElem?_eq_some_iff.1 hi
    simp [hlt]
  · rfl

theorem replace_self (l : List Rule) (o : Rule) : SpecStore.replace l o o = l := by
  simp only [SpecStore.replace]
  conv => rhs; rw [← List.map_id l]
  apply List.map_congr_left
  intro a _
  by_cases h : a = o <;> simp [h]

/-- `Store.update old old` / an identity pair of the batch loop: same list, an index that answers alike -/
theorem good_set_self {n : Nat} {s : Store} (g : Good n s) {a : Rule} {i : Nat} (hi : s.policy[i]? = some a) :
    Good n ⟨s.policy.set i a, (s.index.del (ruleKey a)).set (ruleKey a) i⟩ := by
  have hpol := set_self_eq hi
  have hget : ∀ k, ((s.index.del (ruleKey a)).set (ruleKey a) i).get k = s.index.get k := by
    intro k
    rw [Index.get_set]
    split
    · rename_i h; rw [h]; exact (g.coh.2.1 a i hi).symm
    · rename_i h; rw [Index.get_del, if_neg h]
  obtain ⟨⟨hnd, h1, h2⟩, hp⟩ := g
  refine ⟨⟨?_, ?_, ?_⟩, ?_⟩
  · simp only [hpol]; exact hnd
  · intro r j hr
    simp only [hpol] at hr
    simp only [hget]
    exact h1 r j hr
  · intro k j hk
    simp only [hget] at hk
    simp only [hpol]
    exact h2 k j hk
  · intro q hq
    simp only [hpol] at hq
    exact hp q hq

/-! ### the guard, by keys and by rules -/

theorem contains_map_key {n : Nat} (hn : n ≠ 0) {l : List Rule} (hl : ∀ r ∈ l, plainRule n r = true)
    {r : Rule} (hr : plainRule n r = true) : (l.map ruleKey).contains (ruleKey r) = l.contains r := by
  rw [Bool.eq_iff_iff]
  simp only [List.contains_iff_mem, List.mem_map]
  constructor
  · rintro ⟨q, hq, hk⟩
    rw [← plain_key_inj hn (hl q hq) hr hk]; exact hq
  · intro h; exact ⟨r, h, rfl⟩

theorem key_beq_eq {n : Nat} (hn : n ≠ 0) {a b : Rule} (ha : plainRule n a = true) (hb : plainRule n b = true) :
    (ruleKey a == ruleKey b) = (a == b) := by
  rw [Bool.eq_iff_iff]
  simp only [beq_iff_eq]
  exact ⟨plain_key_inj hn ha hb, fun h => by rw [h]⟩

theorem has_eq_contains {n : Nat} (hn : n ≠ 0) {s : Store} (g : Good n s) {r : Rule} (hr : plainRule n r = true) :
    s.has r = s.policy.contains r := by
  rw [Bool.eq_iff_iff, g.has_iff hn hr]
  simp

theorem updatableFrom_eq_spec {n : Nat} (hn : n ≠ 0) {s : Store} (g : Good n s) :
    ∀ (ps : List (Rule × Rule)) (so sn : List Rule),
      (∀ p ∈ ps, plainRule n p.1 = true ∧ plainRule n p.2 = true) →
      (∀ r ∈ so, plainRule n r = true) → (∀ r ∈ sn, plainRule n r = true) →
      Enf.updatableFrom s (so.map ruleKey) (sn.map ruleKey) ps = specUpdatableFrom s.policy so sn ps := by
  intro ps
  induction ps with
  | nil => intro _ _ _ _ _; rfl
  | cons q rest ih =>
    obtain ⟨o, w⟩ := q
    intro so sn hps hso hsn
    obtain ⟨ho, hw⟩ := hps (o, w) List.mem_cons_self
    have hrest : ∀ p ∈ rest, plainRule n p.1 = true ∧ plainRule n p.2 = true :=
      fun p hp => hps p (List.mem_cons_of_mem _ hp)
    have hso' : ∀ r ∈ o :: so, plainRule n r = true := by
      intro r hr
      rcases List.mem_cons.1 hr with rfl | hr
      · exact ho
      · exact hso r hr
    have hsn' : ∀ r ∈ w :: sn, plainRule n r = true := by
      intro r hr
      rcases List.mem_cons.1 hr with rfl | hr
      · exact hw
      · exact hsn r hr
    have i1 := ih (o :: so) sn hrest hso' hsn
    have i2 := ih (o :: so) (w :: sn) hrest hso' hsn'
    simp only [List.map_cons] at i1 i2
    unfold Enf.updatableFrom specUpdatableFrom
    rw [has_eq_contains hn g ho, has_eq_contains hn g hw, contains_map_key hn hso ho,
      contains_map_key hn hsn hw, key_beq_eq hn hw ho, i1, i2]

theorem updatable_eq_spec' {n : Nat} (hn : n ≠ 0) {s : Store} (g : Good n s) (olds news : List Rule)
    (ho : ∀ r ∈ olds ++ news, plainRule n r = true) :
    Enf.updatable s olds news = specUpdatable s.policy olds news := by
  have := updatableFrom_eq_spec hn g (olds.zip news) [] []
    (by
      rintro ⟨a, b⟩ hp
      obtain ⟨h1, h2⟩ := List.of_mem_zip hp
      exact ⟨ho a (List.mem_append_left _ h1), ho b (List.mem_append_right _ h2)⟩)
    (by simp) (by simp)
  simpa [Enf.updatable, specUpdatable] using this

/-! ### what the guard says about a batch, on the list -/

theorem specFrom_cons {l so sn : List Rule} {o w : Rule} {rest : List (Rule × Rule)}
    (h : specUpdatableFrom l so sn ((o, w) :: rest) = true) :
    o ∈ l ∧ o ∉ so ∧
      ((w = o ∧ specUpdatableFrom l (o :: so) sn rest = true) ∨
       (w ≠ o ∧ w ∉ l ∧ w ∉ sn ∧ specUpdatableFrom l (o :: so) (w :: sn) rest = true)) := by
  unfold specUpdatableFrom at h
  split at h
  · cases h
  rename_i h1
  split at h
  · cases h
  rename_i h2
  have ho : o ∈ l := by simpa using h1
  have hso : o ∉ so := by simpa using h2
  refine ⟨ho, hso, ?_⟩
  split at h
  · rename_i h3; exact .inl ⟨by simpa using h3, h⟩
  rename_i h3
  split at h
  · cases h
  rename_i h4
  split at h
  · cases h
  rename_i h5
  exact .inr ⟨by simpa using h3, by simpa using h4, by simpa using h5, h⟩

theorem specFrom_olds (l : List Rule) : ∀ (ps : List (Rule × Rule)) (so sn : List Rule),
    specUpdatableFrom l so sn ps = true → ∀ p ∈ ps, p.1 ∈ l ∧ p.1 ∉ so := by
  intro ps
  induction ps with
  | nil => intro _ _ _ p hp; cases hp
  | cons q rest ih =>
    obtain ⟨o, w⟩ := q
    intro so sn h p hp
    obtain ⟨ho, hso, hc⟩ := specFrom_cons h
    rcases List.mem_cons.1 hp with rfl | hp
    · exact ⟨ho, hso⟩
    · rcases hc with ⟨_, h'⟩ | ⟨_, _, _, h'⟩
      · obtain ⟨a, b⟩ := ih _ _ h' p hp
        exact ⟨a, fun hx => b (List.mem_cons_of_mem _ hx)⟩
      · obtain ⟨a, b⟩ := ih _ _ h' p hp
        exact ⟨a, fun hx => b (List.mem_cons_of_mem _ hx)⟩

/-- every step of the batch finds its old rule listed, and its new rule equal to the old one or unlisted -/
def StepsOK : List Rule → List (Rule × Rule) → Prop
  | _, [] => True
  | l, (o, w) :: rest => o ∈ l ∧ (w = o ∨ w ∉ l) ∧ StepsOK (SpecStore.replace l o w) rest

theorem specFrom_fold {l0 : List Rule} : ∀ (ps : List (Rule × Rule)) (so sn l : List Rule),
    specUpdatableFrom l0 so sn ps = true →
    (∀ x ∈ l, x ∈ l0 ∨ x ∈ sn) → (∀ x ∈ l0, x ∉ so → x ∈ l) →
    StepsOK l ps ∧
      ∀ x, x ∈ ps.foldl (fun l p => SpecStore.replace l p.1 p.2) l ↔
        (x ∈ l ∧ x ∉ ps.map Prod.fst) ∨ x ∈ ps.map Prod.snd := by
  intro ps
  induction ps with
  | nil => intro _ _ l _ _ _; exact ⟨trivial, fun x => by simp⟩
  | cons q rest ih =>
    obtain ⟨o, w⟩ := q
    intro so sn l h hA hB
    obtain ⟨ho, hso, hc⟩ := specFrom_cons h
    have hol : o ∈ l := hB o ho hso
    rcases hc with ⟨rfl, h'⟩ | ⟨hne, hwl0, hwsn, h'⟩
    · -- identity pair
      have holds := specFrom_olds l0 rest _ _ h'
      have hnotin : w ∉ rest.map Prod.fst := by
        intro hx
        obtain ⟨p, hp, e⟩ := List.mem_map.1 hx
        exact (holds p hp).2 (e ▸ List.mem_cons_self)
      obtain ⟨i1, i2⟩ := ih (w :: so) sn l h' hA
        (fun x hx hxs => hB x hx (fun hx' => hxs (List.mem_cons_of_mem _ hx')))
      refine ⟨⟨hol, .inl rfl, by rw [replace_self]; exact i1⟩, ?_⟩
      intro x
      simp only [List.foldl_cons, replace_self, i2 x, List.map_cons, List.mem_cons, not_or]
      constructor
      · rintro (⟨h1, h2⟩ | h1)
        · by_cases e : x = w
          · exact .inr (.inl e)
          · exact .inl ⟨h1, e, h2⟩
        · exact .inr (.inr h1)
      · rintro (⟨h1, _, h3⟩ | rfl | h1)
        · exact .inl ⟨h1, h3⟩
        · exact .inl ⟨hol, hnotin⟩
        · exact .inr h1
    · -- a proper replacement
      have hwl : w ∉ l := by
        intro hx
        rcases hA w hx with h1 | h1
        · exact hwl0 h1
        · exact hwsn h1
      have holds := specFrom_olds l0 rest _ _ h'
      have hnotin : w ∉ rest.map Prod.fst := by
        intro hx
        obtain ⟨p, hp, e⟩ := List.mem_map.1 hx
        exact hwl0 (e ▸ (holds p hp).1)
      obtain ⟨i1, i2⟩ := ih (o :: so) (w :: sn) (SpecStore.replace l o w) h'
        (by
          intro x hx
          rw [mem_replace] at hx
          rcases hx with ⟨rfl, _⟩ | ⟨hx, _⟩
          · exact .inr List.mem_cons_self
          · rcases hA x hx with h1 | h1
            · exact .inl h1
            · exact .inr (List.mem_cons_of_mem _ h1))
        (by
          intro x hx hxs
          rw [mem_replace]
          right
          exact ⟨hB x hx (fun hx' => hxs (List.mem_cons_of_mem _ hx')),
            fun e => hxs (e ▸ List.mem_cons_self)⟩)
      refine ⟨⟨hol, .inr hwl, i1⟩, ?_⟩
      intro x
      simp only [List.foldl_cons, i2 x, mem_replace, List.map_cons, List.mem_cons, not_or]
      constructor
      · rintro (⟨(⟨rfl, _⟩ | ⟨h1, h2⟩), h3⟩ | h1)
        · exact .inr (.inl rfl)
        · exact .inl ⟨h1, h2, h3⟩
        · exact .inr (.inr h1)
      · rintro (⟨h1, h2, h3⟩ | rfl | h1)
        · exact .inl ⟨.inr ⟨h1, h2⟩, h3⟩
        · exact .inl ⟨.inl ⟨rfl, hol⟩, hnotin⟩
        · exact .inr h1

/-! ### the forward loop on an accepted batch -/

theorem updateLoop_stepsOK {n : Nat} (hn : n ≠ 0) : ∀ (ps : List (Rule × Rule)) {s : Store}
    (done : List (Nat × Rule × Rule)), Good n s → StepsOK s.policy ps →
    (∀ p ∈ ps, plainRule n p.1 = true ∧ plainRule n p.2 = true) →
    (s.updateLoop ps done).2.2 = true ∧ Good n (s.updateLoop ps done).1 ∧
      (s.updateLoop ps done).1.policy = ps.foldl (fun l p => SpecStore.replace l p.1 p.2) s.policy := by
  intro ps
  induction ps with
  | nil => intro s done g _ _; exact ⟨rfl, g, rfl⟩
  | cons q rest ih =>
    obtain ⟨o, w⟩ := q
    intro s done g hok hpl
    obtain ⟨hol, hw, hrest⟩ := hok
    obtain ⟨ho, hwp⟩ := hpl (o, w) List.mem_cons_self
    simp only [Store.updateLoop]
    cases hg : s.index.get (ruleKey o) with
    | none => exact absurd hol ((Coh.get_none_iff hn g.coh g.plain ho).1 hg)
    | some i =>
      have hi := (Coh.get_iff hn g.coh g.plain ho i).1 hg
      have hrepl := set_eq_replace g.coh.1 hi w
      have g1 : Good n ⟨s.policy.set i w, (s.index.del (ruleKey o)).set (ruleKey w) i⟩ := by
        rcases hw with rfl | hw
        · exact good_set_self g hi
        · exact good_set hn g hwp hi hw
      have := ih (s := ⟨s.policy.set i w, (s.index.del (ruleKey o)).set (ruleKey w) i⟩)
        ((i, o, w) :: done.filter (fun d => d.1 != i)) g1 (by simp only [hrepl]; exact hrest)
        (fun p hp => hpl p (List.mem_cons_of_mem _ hp))
      obtain ⟨a, b, c⟩ := this
      refine ⟨a, b, ?_⟩
      rw [c]
      simp only [List.foldl_cons, hrepl]

/-- an accepted batch of whatever shape: no rollback, coherent, the in-place replacement, and the
    set of listed rules afterwards -/
theorem updateMany_guarded {n : Nat} (hn : n ≠ 0) {s : Store} (g : Good n s) (olds news : List Rule)
    (hlen : olds.length = news.length)
    (hpo : ∀ r ∈ olds, plainRule n r = true) (hpn : ∀ r ∈ news, plainRule n r = true)
    (hu : Enf.updatable s olds news = true) :
    (∀ o ∈ olds, o ∈ s.policy) ∧ ∃ s', s.updateMany olds news = (s', true) ∧ Good n s' ∧
      s'.policy = (olds.zip news).foldl (fun l p => SpecStore.replace l p.1 p.2) s.policy ∧
      ∀ x, x ∈ s'.policy ↔ (x ∈ s.policy ∧ x ∉ olds) ∨ x ∈ news := by
  have hfst : (olds.zip news).map Prod.fst = olds := List.map_fst_zip (by omega)
  have hsnd : (olds.zip news).map Prod.snd = news := List.map_snd_zip (by omega)
  have hall : ∀ r ∈ olds ++ news, plainRule n r = true := by
    intro r hr
    rcases List.mem_append.1 hr with h | h
    · exact hpo r h
    · exact hpn r h
  have hsp : specUpdatableFrom s.policy [] [] (olds.zip news) = true := by
    have := updatable_eq_spec' hn g olds news hall
    rw [hu] at this
    exact this.symm
  have hin : ∀ o ∈ olds, o ∈ s.policy := by
    intro o ho
    rw [← hfst] at ho
    obtain ⟨p, hp, rfl⟩ := List.mem_map.1 ho
    exact (specFrom_olds s.policy _ _ _ hsp p hp).1
  obtain ⟨hok, hmem⟩ := specFrom_fold (olds.zip news) [] [] s.policy hsp (fun x hx => .inl hx) (fun x hx _ => hx)
  obtain ⟨h1, h2, h3⟩ := updateLoop_stepsOK hn (olds.zip news) [] g hok
    (by
      rintro ⟨a, b⟩ hp
      obtain ⟨ha, hb⟩ := List.of_mem_zip hp
      exact ⟨hpo a ha, hpn b hb⟩)
  refine ⟨hin, ?_⟩
  rcases hres : s.updateLoop (olds.zip news) [] with ⟨s', done, ok⟩
  rw [hres] at h1 h2 h3
  simp only at h1 h2 h3
  subst h1
  refine ⟨s', by simp only [Store.updateMany, hres], h2, h3, ?_⟩
  intro x
  rw [h3, hmem x, hfst, hsnd]

/-! ### one pair -/

theorem updatable_single' (s : Store) (old new : Rule) :
    Enf.updatable s [old] [new] = (s.has old && (ruleKey new == ruleKey old || !s.has new)) := by
  simp only [Enf.updatable, List.zip_cons_cons, List.zip_nil_right, Enf.updatableFrom]
  cases s.has old <;> cases ruleKey new == ruleKey old <;> cases s.has new <;> simp

/-- an accepted single update: the old rule is listed, the new one is the old one or unlisted -/
theorem update_guarded {n : Nat} (hn : n ≠ 0) {s : Store} (g : Good n s) {old new : Rule}
    (ho : plainRule n old = true) (hw : plainRule n new = true)
    (hu : Enf.updatable s [old] [new] = true) :
    old ∈ s.policy ∧ ∃ s', s.update old new = (s', true) ∧ Good n s' ∧
      s'.policy = SpecStore.replace s.policy old new := by
  rw [updatable_single', Bool.and_eq_true, Bool.or_eq_true] at hu
  obtain ⟨h1, h2⟩ := hu
  have hol : old ∈ s.policy := (g.has_iff hn ho).1 h1
  have hc : new = old ∨ new ∉ s.policy := by
    rcases h2 with h2 | h2
    · exact .inl (plain_key_inj hn hw ho (by simpa using h2))
    · right
      intro hm
      have := (g.has_iff hn hw).2 hm
      simp [this] at h2
  refine ⟨hol, ?_⟩
  simp only [Store.update]
  cases hg : s.index.get (ruleKey old) with
  | none => exact absurd hol ((Coh.get_none_iff hn g.coh g.plain ho).1 hg)
  | some i =>
    have hi := (Coh.get_iff hn g.coh g.plain ho i).1 hg
    refine ⟨_, rfl, ?_, set_eq_replace g.coh.1 hi new⟩
    rcases hc with rfl | hc
    · exact good_set_self g hi
    · exact good_set hn g hw hi hc

end Casbin
