import CasbinVerif.Spec.KeyMatch
/-
  Helper lemmas for C09 (path / address matchers).
-/
namespace Casbin.KM

/-! ### KeyMatch / KeyGet -/

theorem firstStar_lt {k : List Char} {i : Nat} (h : firstStar k = some i) : i < k.length := by
  induction k generalizing i with
  | nil => simp [firstStar] at h
  | cons c cs ih =>
    simp only [firstStar] at h
    split at h
    · simp at h; subst h; simp
    · cases h' : firstStar cs with
      | none => simp [h'] at h
      | some j =>
        simp [h'] at h; subst h
        have := ih h'
        simp; omega

theorem keyMatch_spec' (key1 key2 : List Char) :
    keyMatch key1 key2 =
      (match firstStar key2 with
       | none => decide (key1 = key2)
       | some i => (key2.take i).isPrefixOf key1) := by
  unfold keyMatch
  cases h : firstStar key2 with
  | none => simp only []; rw [Bool.eq_iff_iff]; simp
  | some i =>
    have hi := firstStar_lt h
    simp only
    rw [Bool.eq_iff_iff, List.isPrefixOf_iff_prefix]
    split
    · rename_i hl
      rw [List.prefix_iff_eq_take, List.length_take, Nat.min_eq_left (Nat.le_of_lt hi)]
      rw [beq_iff_eq]; exact eq_comm
    · rename_i hl
      simp only [beq_iff_eq]
      constructor
      · intro h; subst h; exact List.prefix_refl _
      · intro hp
        have := hp.length_le
        rw [List.length_take, Nat.min_eq_left (Nat.le_of_lt hi)] at this
        symm
        apply hp.eq_of_length
        rw [List.length_take, Nat.min_eq_left (Nat.le_of_lt hi)]
        omega

theorem keyGet_spec' (key1 key2 : List Char) (i : Nat) (hi : firstStar key2 = some i) (hlen : key1.length > i) :
    (keyMatch key1 key2 = true → key2.take i ++ keyGet key1 key2 = key1) ∧
    (keyMatch key1 key2 = false → keyGet key1 key2 = []) := by
  unfold keyMatch keyGet
  simp only [hi, hlen, if_true, decide_true, Bool.true_and]
  constructor
  · intro h
    simp only [h, if_true]
    rw [← eq_of_beq h]
    exact List.take_append_drop i key1
  · intro h
    simp [h]


/-! ### IPMatch -/

theorem splitOnChar_ne_nil (sep : Char) (l : List Char) : splitOnChar sep l ≠ [] := by
  cases l with
  | nil => simp [splitOnChar]
  | cons c cs =>
    simp only [splitOnChar]
    split
    · simp
    · split <;> simp

theorem splitOnChar_notMem {sep : Char} {l : List Char} (h : sep ∉ l) : splitOnChar sep l = [l] := by
  induction l with
  | nil => simp [splitOnChar]
  | cons c cs ih =>
    simp only [List.mem_cons, not_or] at h
    have hc : (c == sep) = false := by
      simp only [beq_eq_false_iff_ne, ne_eq]; exact fun e => h.1 e.symm
    simp [splitOnChar, ih h.2, hc]

theorem splitOnChar_append {sep : Char} {a b : List Char} (h : sep ∉ a) :
    splitOnChar sep (a ++ sep :: b) = a :: splitOnChar sep b := by
  induction a with
  | nil =>
    simp only [List.nil_append, splitOnChar]
    cases hb : splitOnChar sep b with
    | nil => exact absurd hb (splitOnChar_ne_nil _ _)
    | cons x y => simp
  | cons c cs ih =>
    simp only [List.mem_cons, not_or] at h
    have hc : (c == sep) = false := by
      simp only [beq_eq_false_iff_ne, ne_eq]; exact fun e => h.1 e.symm
    simp [splitOnChar, ih h.2, hc]

theorem div_eq_block (a n size : Nat) (hs : 0 < size) :
    (a / size == n / size) = (decide (n / size * size ≤ a) && decide (a < n / size * size + size)) := by
  rw [Bool.eq_iff_iff]
  simp only [beq_iff_eq, Bool.and_eq_true, decide_eq_true_eq]
  rw [Nat.div_eq_iff hs]
  omega

theorem ipMatch_cidr' (ip net len : List Char) (a n l : Nat)
    (ha : parseIPv4 ip = some a) (hn : parseIPv4 net = some n) (hl : parsePrefixLen len = some l)
    (hnoslash : '/' ∉ net ∧ '/' ∉ len) :
    ipMatch ip (net ++ '/' :: len) = some (inBlock a n l) := by
  unfold ipMatch
  simp only [ha, splitOnChar_append hnoslash.1, splitOnChar_notMem hnoslash.2, hn, hl, inBlock]
  rw [div_eq_block _ _ _ (Nat.pow_pos (by decide))]

theorem mapM_parseOctet_le : ∀ (l : List (List Char)) (r : List Nat),
    l.mapM parseOctet = some r → ∀ x ∈ r, x ≤ 255 := by
  intro l
  induction l with
  | nil => intro r h; simp at h; subst h; simp
  | cons s ss ih =>
    intro r h
    rw [List.mapM_cons] at h
    cases ho : parseOctet s with
    | none => simp [ho] at h
    | some o =>
      cases hm : ss.mapM parseOctet with
      | none => simp [ho, hm] at h
      | some os =>
        simp [ho, hm] at h
        subst h
        intro x hx
        simp only [List.mem_cons] at hx
        rcases hx with rfl | hx
        · unfold parseOctet at ho
          split at ho
          · simp at ho
          · split at ho
            · simp at ho
            · simp only at ho
              split at ho
              · rename_i hle; simp at ho; subst ho; exact hle
              · simp at ho
        · exact ih os hm x hx

theorem parseIPv4_lt' (s : List Char) (a : Nat) (h : parseIPv4 s = some a) : a < 2 ^ 32 := by
  unfold parseIPv4 at h
  split at h
  · rename_i a b c d hm
    have := mapM_parseOctet_le _ _ hm
    simp at this h
    omega
  · simp at h


/-! ### spanSeg -/
theorem spanSeg_slash (s : List Char) : spanSeg ('/' :: s) = ([], '/' :: s) := by
  simp [spanSeg]

theorem spanSeg_cons_ne {x : Char} (hx : x ≠ '/') (s : List Char) :
    spanSeg (x :: s) = (x :: (spanSeg s).1, (spanSeg s).2) := by
  simp [spanSeg, hx]

theorem spanSeg_append_eq (s : List Char) : (spanSeg s).1 ++ (spanSeg s).2 = s := by
  induction s with
  | nil => simp [spanSeg]
  | cons x s ih =>
    by_cases hx : x = '/'
    · subst hx; simp [spanSeg_slash]
    · simp [spanSeg_cons_ne hx, ih]

theorem spanSeg_snd_length_le (s : List Char) : (spanSeg s).2.length ≤ s.length := by
  have := congrArg List.length (spanSeg_append_eq s)
  simp at this; omega

/-- the text after a segment: the end, or a slash -/
def TailS (R : List Char) : Prop := R = [] ∨ ∃ R', R = '/' :: R'

theorem spanSeg_snd_tail (s : List Char) : TailS (spanSeg s).2 := by
  induction s with
  | nil => simp [spanSeg, TailS]
  | cons x s ih =>
    by_cases hx : x = '/'
    · subst hx; simp [spanSeg_slash, TailS]
    · simpa [spanSeg_cons_ne hx] using ih

theorem spanSeg_append {n R : List Char} (hn : ∀ c ∈ n, c ≠ '/') (hR : TailS R) :
    spanSeg (n ++ R) = (n, R) := by
  induction n with
  | nil =>
    rcases hR with rfl | ⟨R', rfl⟩
    · simp [spanSeg]
    · simp [spanSeg_slash]
  | cons c cs ih =>
    have hc : c ≠ '/' := hn c (by simp)
    have := ih (fun d hd => hn d (by simp [hd]))
    simp [spanSeg_cons_ne hc, this]

/-! ### fuel-free matcher -/
def rm : List RItem → List Char → Bool
  | [], s => s.isEmpty
  | .ch c :: rest, x :: s => x == c && rm rest s
  | .ch _ :: _, [] => false
  | .dotStar :: rest, [] => rm rest []
  | .dotStar :: rest, x :: s' => rm rest (x :: s') || (x != '\n' && rm (.dotStar :: rest) s')
  | .seg _ :: rest, x :: s => x != '/' && (rm rest s || rm (.seg none :: rest) s)
  | .seg _ :: _, [] => false
termination_by items s => items.length + s.length

theorem rmatch_eq_rm : ∀ (n : Nat) (items : List RItem) (s : List Char),
    items.length + s.length < n → rmatch items s n = rm items s := by
  intro n
  induction n with
  | zero => intro items s h; omega
  | succ n ih =>
    intro items s h
    match items, s with
    | [], s => simp [rmatch, rm]
    | .ch c :: rest, x :: s =>
      simp only [rmatch, rm]
      rw [ih rest s (by simp at h ⊢; omega)]
    | .ch _ :: _, [] => simp [rmatch, rm]
    | .dotStar :: rest, [] =>
      simp only [rmatch, rm]
      rw [ih rest [] (by simp at h ⊢; omega)]; simp
    | .dotStar :: rest, x :: s' =>
      simp only [rmatch, rm]
      rw [ih rest (x :: s') (by simp at h ⊢; omega), ih (.dotStar :: rest) s' (by simp at h ⊢; omega)]
    | .seg _ :: rest, x :: s =>
      simp only [rmatch, rm]
      rw [ih rest s (by simp at h ⊢; omega), ih (.seg none :: rest) s (by simp at h ⊢; omega)]
    | .seg _ :: _, [] => simp [rmatch, rm]

def rc : List RItem → List Char → Option (List (List Char))
  | [], s => if s.isEmpty then some [] else none
  | .ch c :: rest, x :: s => if x == c then rc rest s else none
  | .ch _ :: _, [] => none
  | .dotStar :: rest, [] => rc rest []
  | .dotStar :: rest, x :: s' =>
      match (if x != '\n' then rc (.dotStar :: rest) s' else none) with
      | some r => some r
      | none => rc rest (x :: s')
  | .seg _ :: rest, s =>
      if (spanSeg s).1.isEmpty then none else (rc rest (spanSeg s).2).map (fun r => (spanSeg s).1 :: r)
termination_by items s => items.length + s.length
decreasing_by
  all_goals simp_wf
  all_goals first | omega | (have := spanSeg_snd_length_le s; omega)

theorem rcapture_eq_rc : ∀ (n : Nat) (items : List RItem) (s : List Char),
    items.length + s.length < n → rcapture items s n = rc items s := by
  intro n
  induction n with
  | zero => intro items s h; omega
  | succ n ih =>
    intro items s h
    match items, s with
    | [], s => simp [rcapture, rc]
    | .ch c :: rest, x :: s =>
      simp only [rcapture, rc]
      rw [ih rest s (by simp at h ⊢; omega)]
    | .ch _ :: _, [] => simp [rcapture, rc]
    | .dotStar :: rest, [] =>
      simp only [rcapture, rc]
      rw [ih rest [] (by simp at h ⊢; omega)]
    | .dotStar :: rest, x :: s' =>
      simp only [rcapture, rc]
      rw [ih rest (x :: s') (by simp at h ⊢; omega), ih (.dotStar :: rest) s' (by simp at h ⊢; omega)]
      rfl
    | .seg _ :: rest, s =>
      simp only [rcapture]
      rw [rc]
      have := spanSeg_snd_length_le s
      rw [ih rest (spanSeg s).2 (by simp at h ⊢; omega)]
      


/-! ### compiling a rendered well-formed pattern -/
def segItems : PSeg → List RItem
  | .lit l => l.map .ch
  | .ph n => [.seg (some (String.ofList n))]

def itemsOf : List PSeg → Bool → List RItem
  | [], false => []
  | [], true => [.ch '/', .dotStar]
  | s :: more, w => .ch '/' :: (segItems s ++ itemsOf more w)

def segWF : PSeg → Bool
  | .lit l => l.all litOk
  | .ph n => !n.isEmpty && n.all nameOk

theorem PatWF_iff (p : Pat) : PatWF p = true ↔ ∀ s ∈ p.segs, segWF s = true := by
  unfold PatWF
  rw [List.all_eq_true]
  constructor
  · intro h s hs; have := h s hs; cases s <;> simpa [segWF] using this
  · intro h s hs; have := h s hs; cases s <;> simpa [segWF] using this

theorem render_nil_false (st : Style) : render st ⟨[], false⟩ = [] := by simp [render]
theorem render_nil_true (st : Style) : render st ⟨[], true⟩ = ['/', '*'] := by simp [render]
theorem render_cons (st : Style) (s : PSeg) (more : List PSeg) (w : Bool) :
    render st ⟨s :: more, w⟩ = '/' :: (renderSeg st s ++ render st ⟨more, w⟩) := by
  simp [render]

theorem render_tail (st : Style) (segs : List PSeg) (w : Bool) : TailS (render st ⟨segs, w⟩) := by
  cases segs with
  | nil => cases w <;> simp [render, TailS]
  | cons s more => simp [render_cons, TailS]

theorem litOk_facts {c : Char} (h : litOk c = true) :
    isMeta c = false ∧ c ≠ '/' ∧ c ≠ ':' ∧ c ≠ '\n' ∧ c ≠ '{' ∧ c ≠ '*' := by
  simp only [litOk, Bool.and_eq_true, Bool.not_eq_true', bne_iff_ne, ne_eq] at h
  obtain ⟨⟨⟨h1, h2⟩, h3⟩, h4⟩ := h
  refine ⟨h1, h2, h3, h4, ?_, ?_⟩
  · rintro rfl; revert h1; decide
  · rintro rfl; revert h1; decide

theorem compile_lit (st : Style) (l R : List Char) (hl : ∀ c ∈ l, litOk c = true) :
    ∀ fuel, l.length ≤ fuel →
      compile st (l ++ R) fuel = (compile st R (fuel - l.length)).map (fun r => l.map .ch ++ r) := by
  induction l with
  | nil => intro fuel _; simp
  | cons c cs ih =>
    intro fuel hf
    obtain ⟨m, rfl⟩ : ∃ m, fuel = m + 1 := ⟨fuel - 1, by simp at hf; omega⟩
    obtain ⟨h1, h2, h3, h4, h5, h6⟩ := litOk_facts (hl c (by simp))
    rw [List.cons_append, compile.eq_6 st c (cs ++ R) m (fun _ e _ => h2 e) h3 h5]
    rw [ih (fun d hd => hl d (by simp [hd])) m (by simp at hf; omega)]
    simp [h1, Option.map_map, Function.comp_def]

theorem compile_slash (st : Style) (X : List Char) (hX : ∀ r, X ≠ '*' :: r) (m : Nat) :
    compile st ('/' :: X) (m + 1) = (compile st X m).map (fun r => .ch '/' :: r) := by
  rw [compile.eq_6 st '/' X m (fun r _ e => hX r e) (by decide) (by decide)]
  have : isMeta '/' = false := by decide
  simp [this]

theorem nameOk_facts {c : Char} (h : nameOk c = true) : c ≠ '/' ∧ c ≠ '{' ∧ c ≠ '}' := by
  simpa [nameOk, and_assoc] using h

theorem compile_ph_colon (n R : List Char) (hne : n ≠ []) (hn : ∀ c ∈ n, nameOk c = true) (hR : TailS R)
    (m : Nat) :
    compile .colon (':' :: (n ++ R)) (m + 1) =
      (compile .colon R m).map (fun r => .seg (some (String.ofList n)) :: r) := by
  have hs : spanSeg (n ++ R) = (n, R) := spanSeg_append (fun c hc => (nameOk_facts (hn c hc)).1) hR
  rw [compile.eq_4]
  simp [hs, hne]

theorem compile_ph_brace (n R : List Char) (hne : n ≠ []) (hn : ∀ c ∈ n, nameOk c = true) (hR : TailS R)
    (m : Nat) :
    compile .brace ('{' :: (n ++ '}' :: R)) (m + 1) =
      (compile .brace R m).map (fun r => .seg (some (String.ofList n)) :: r) := by
  have hs : spanSeg ((n ++ ['}']) ++ R) = (n ++ ['}'], R) := by
    apply spanSeg_append _ hR
    intro c hc
    simp only [List.mem_append, List.mem_singleton] at hc
    rcases hc with hc | rfl
    · exact (nameOk_facts (hn c hc)).1
    · decide
  rw [List.append_assoc, List.singleton_append] at hs
  rw [compile.eq_5]
  simp only [hs, List.reverse_append, List.reverse_singleton, List.singleton_append, if_true, beq_self_eq_true]
  have h1 : n.reverse.isEmpty = false := by simp [hne]
  have h2 : (n.reverse.any fun c => c == '{' || c == '}') = false := by
    rw [List.any_eq_false]
    intro c hc
    have := nameOk_facts (hn c (by simpa using hc))
    simp [this]
  simp [h1, h2]


theorem renderSeg_not_star (st : Style) (s : PSeg) (hs : segWF s = true) (R : List Char) (hR : TailS R) :
    ∀ r, renderSeg st s ++ R ≠ '*' :: r := by
  intro r
  cases s with
  | lit l =>
    cases l with
    | nil =>
      rcases hR with rfl | ⟨R', rfl⟩ <;> simp [renderSeg]
    | cons c cs =>
      simp only [segWF, List.all_cons, Bool.and_eq_true] at hs
      have := (litOk_facts hs.1).2.2.2.2.2
      simp [renderSeg, this]
  | ph n => cases st <;> simp [renderSeg]

theorem compile_render (st : Style) (w : Bool) : ∀ (segs : List PSeg), (∀ s ∈ segs, segWF s = true) →
    ∀ fuel, (render st ⟨segs, w⟩).length ≤ fuel →
      compile st (render st ⟨segs, w⟩) fuel = some (itemsOf segs w) := by
  intro segs
  induction segs with
  | nil =>
    intro _ fuel hf
    cases w
    · simp [render_nil_false, compile, itemsOf]
    · rw [render_nil_true] at hf ⊢
      obtain ⟨m, rfl⟩ : ∃ m, fuel = m + 1 := ⟨fuel - 1, by simp at hf; omega⟩
      simp [compile, itemsOf]
  | cons s more ih =>
    intro hwf fuel hf
    have hs := hwf s (by simp)
    have ihm := ih (fun t ht => hwf t (by simp [ht]))
    have hR := render_tail st more w
    rw [render_cons] at hf ⊢
    obtain ⟨m, rfl⟩ : ∃ m, fuel = m + 1 := ⟨fuel - 1, by simp at hf; omega⟩
    rw [compile_slash st _ (renderSeg_not_star st s hs _ hR)]
    simp only [List.length_cons, List.length_append] at hf
    cases s with
    | lit l =>
      simp only [segWF, List.all_eq_true] at hs
      simp only [renderSeg] at hf ⊢
      rw [compile_lit st l _ hs m (by omega), ihm _ (by omega)]
      simp [itemsOf, segItems]
    | ph n =>
      simp only [segWF, Bool.and_eq_true, List.all_eq_true, Bool.not_eq_true', List.isEmpty_eq_false_iff] at hs
      cases st with
      | colon =>
        simp only [renderSeg, List.length_cons] at hf ⊢
        obtain ⟨k, rfl⟩ : ∃ k, m = k + 1 := ⟨m - 1, by omega⟩
        rw [List.cons_append, compile_ph_colon n _ hs.1 hs.2 hR, ihm _ (by omega)]
        simp [itemsOf, segItems]
      | brace =>
        simp only [renderSeg, List.length_cons, List.length_append] at hf ⊢
        obtain ⟨k, rfl⟩ : ∃ k, m = k + 1 := ⟨m - 1, by omega⟩
        simp only [List.cons_append, List.append_assoc, List.nil_append]
        rw [compile_ph_brace n _ hs.1 hs.2 hR, ihm _ (by simp at hf; omega)]
        simp [itemsOf, segItems]


/-! ### the matcher on compiled well-formed patterns = segment semantics -/

/-- the items after a block: the end, or a slash item -/
def TailR (R : List RItem) : Prop := R = [] ∨ ∃ R', R = .ch '/' :: R'

theorem itemsOf_tail (segs : List PSeg) (w : Bool) : TailR (itemsOf segs w) := by
  cases segs with
  | nil => cases w <;> simp [itemsOf, TailR]
  | cons s more => simp [itemsOf, TailR]

theorem rm_tail {R : List RItem} (hR : TailR R) {x : Char} (hx : x ≠ '/') (s : List Char) :
    rm R (x :: s) = false := by
  rcases hR with rfl | ⟨R', rfl⟩
  · simp [rm]
  · simp [rm, hx]

theorem rc_tail {R : List RItem} (hR : TailR R) {x : Char} (hx : x ≠ '/') (s : List Char) :
    rc R (x :: s) = none := by
  rcases hR with rfl | ⟨R', rfl⟩
  · simp [rc]
  · simp [rc, hx]

theorem rm_lit {R : List RItem} (hR : TailR R) : ∀ (l : List Char), (∀ c ∈ l, c ≠ '/') → ∀ s,
    rm (l.map .ch ++ R) s = ((spanSeg s).1 == l && rm R (spanSeg s).2) := by
  intro l
  induction l with
  | nil =>
    intro _ s
    cases s with
    | nil => simp [spanSeg]
    | cons x s =>
      by_cases hx : x = '/'
      · subst hx; simp [spanSeg_slash]
      · simp [spanSeg_cons_ne hx, rm_tail hR hx]
  | cons c cs ih =>
    intro hl s
    have hc : c ≠ '/' := hl c (by simp)
    have ih' := ih (fun d hd => hl d (by simp [hd]))
    cases s with
    | nil => simp [spanSeg, rm]
    | cons x s =>
      by_cases hx : x = '/'
      · subst hx
        have : ('/' == c) = false := by simp [Ne.symm hc]
        simp [spanSeg_slash, rm, this]
      · simp [spanSeg_cons_ne hx, rm, ih', Bool.and_assoc]

theorem rc_lit {R : List RItem} (hR : TailR R) : ∀ (l : List Char), (∀ c ∈ l, c ≠ '/') → ∀ s,
    rc (l.map .ch ++ R) s = if (spanSeg s).1 == l then rc R (spanSeg s).2 else none := by
  intro l
  induction l with
  | nil =>
    intro _ s
    cases s with
    | nil => simp [spanSeg]
    | cons x s =>
      by_cases hx : x = '/'
      · subst hx; simp [spanSeg_slash]
      · simp [spanSeg_cons_ne hx, rc_tail hR hx]
  | cons c cs ih =>
    intro hl s
    have hc : c ≠ '/' := hl c (by simp)
    have ih' := ih (fun d hd => hl d (by simp [hd]))
    cases s with
    | nil => simp [spanSeg, rc]
    | cons x s =>
      by_cases hx : x = '/'
      · subst hx
        have : ('/' == c) = false := by simp [Ne.symm hc]
        simp [spanSeg_slash, rc, this]
      · simp only [spanSeg_cons_ne hx, rc, ih', List.map_cons, List.cons_append]
        by_cases hxc : x = c
        · subst hxc; simp
        · simp [hxc]

theorem rm_seg {R : List RItem} (hR : TailR R) (cap : Option String) : ∀ s,
    rm (.seg cap :: R) s = (!(spanSeg s).1.isEmpty && rm R (spanSeg s).2) := by
  intro s
  induction s generalizing cap with
  | nil => simp [rm, spanSeg]
  | cons x s ih =>
    by_cases hx : x = '/'
    · subst hx; simp [rm, spanSeg_slash]
    · have hxb : (x != '/') = true := by simp [hx]
      rw [rm, ih none, hxb, spanSeg_cons_ne hx]
      simp only [Bool.true_and, List.isEmpty_cons, Bool.not_false]
      cases s with
      | nil => simp [spanSeg]
      | cons y s =>
        by_cases hy : y = '/'
        · subst hy; simp [spanSeg_slash]
        · simp [spanSeg_cons_ne hy, rm_tail hR hy]

theorem rm_wild (s : List Char) : rm [.dotStar] s = !s.contains '\n' := by
  induction s with
  | nil => simp [rm]
  | cons x s ih =>
    rw [rm, ih]
    simp only [rm, List.contains_cons]
    by_cases hx : x = '\n'
    · subst hx; simp
    · have : ('\n' == x) = false := by simp [Ne.symm hx]
      simp [hx, this]

theorem rc_wild (s : List Char) : rc [.dotStar] s = if s.contains '\n' then none else some [] := by
  induction s with
  | nil => simp [rc]
  | cons x s ih =>
    rw [rc, ih]
    simp only [List.contains_cons]
    by_cases hx : x = '\n'
    · subst hx; simp [rc]
    · have : ('\n' == x) = false := by simp [Ne.symm hx]
      by_cases hc : '\n' ∈ s
      · simp [hx, this, hc, rc]
      · simp [hx, this, hc]


theorem segCapture_cons_nil (seg : PSeg) (more : List PSeg) (w : Bool) :
    segCapture (seg :: more) w [] = none := by
  rw [segCapture.eq_5]; intro s h; simp at h

theorem segCapture_cons_ne (seg : PSeg) (more : List PSeg) (w : Bool) {x : Char} (hx : x ≠ '/') (s : List Char) :
    segCapture (seg :: more) w (x :: s) = none := by
  rw [segCapture.eq_5]; intro s' h; simp at h; exact hx h.1

theorem segCapture_wild (s : List Char) :
    segCapture [] true s = match s with
      | [] => none
      | x :: rest => if x = '/' then (if rest.contains '\n' then none else some []) else none := by
  cases s with
  | nil => simp [segCapture]
  | cons x rest =>
    by_cases hx : x = '/'
    · subst hx; simp [segCapture]
    · simp only [hx, if_false]
      rw [segCapture.eq_3]; intro r h; simp at h; exact hx h.1

theorem rm_itemsOf (w : Bool) : ∀ (segs : List PSeg), (∀ s ∈ segs, segWF s = true) → ∀ path,
    rm (itemsOf segs w) path = (segCapture segs w path).isSome := by
  intro segs
  induction segs with
  | nil =>
    intro _ path
    cases w
    · simp [itemsOf, rm, segCapture]
      cases path <;> simp
    · rw [segCapture_wild]
      cases path with
      | nil => simp [itemsOf, rm]
      | cons x rest =>
        simp only [itemsOf, rm, rm_wild]
        by_cases hx : x = '/'
        · subst hx; by_cases hc : '\n' ∈ rest <;> simp [hc]
        · simp [hx]
  | cons sg more ih =>
    intro hwf path
    have hs := hwf sg (by simp)
    have ihm := ih (fun t ht => hwf t (by simp [ht]))
    have hR := itemsOf_tail more w
    cases path with
    | nil => simp [itemsOf, rm, segCapture_cons_nil]
    | cons x s =>
      by_cases hx : x = '/'
      · subst hx
        rw [segCapture.eq_4]
        simp only [itemsOf, rm, beq_self_eq_true, Bool.true_and]
        cases sg with
        | lit l =>
          simp only [segWF, List.all_eq_true] at hs
          simp only [segItems]
          rw [rm_lit hR l (fun c hc => (litOk_facts (hs c hc)).2.1), ihm]
          by_cases hv : (spanSeg s).1 = l <;> simp [hv]
        | ph n =>
          simp only [segItems, List.singleton_append]
          rw [rm_seg hR, ihm]
          by_cases hv : (spanSeg s).1 = [] <;> simp [hv]
      · simp [itemsOf, rm, segCapture_cons_ne _ _ _ hx, hx]

theorem rc_itemsOf (w : Bool) : ∀ (segs : List PSeg), (∀ s ∈ segs, segWF s = true) → ∀ path,
    rc (itemsOf segs w) path = segCapture segs w path := by
  intro segs
  induction segs with
  | nil =>
    intro _ path
    cases w
    · simp [itemsOf, rc, segCapture]
    · rw [segCapture_wild]
      cases path with
      | nil => simp [itemsOf, rc]
      | cons x rest =>
        simp only [itemsOf, rc, rc_wild]
        by_cases hx : x = '/'
        · subst hx; simp
        · simp [hx]
  | cons sg more ih =>
    intro hwf path
    have hs := hwf sg (by simp)
    have ihm := ih (fun t ht => hwf t (by simp [ht]))
    have hR := itemsOf_tail more w
    cases path with
    | nil => simp [itemsOf, rc, segCapture_cons_nil]
    | cons x s =>
      by_cases hx : x = '/'
      · subst hx
        rw [segCapture.eq_4]
        simp only [itemsOf, rc, beq_self_eq_true, if_true]
        cases sg with
        | lit l =>
          simp only [segWF, List.all_eq_true] at hs
          simp only [segItems]
          rw [rc_lit hR l (fun c hc => (litOk_facts (hs c hc)).2.1), ihm]
        | ph n =>
          simp only [segItems, List.singleton_append]
          rw [rc, ihm]
      · simp [itemsOf, rc, segCapture_cons_ne _ _ _ hx, hx]


/-! ### placeholder names -/

def itemName : RItem → Option String
  | .seg (some nm) => some nm
  | _ => none

def phName : PSeg → Option (List Char)
  | .ph n => some n
  | _ => none

theorem itemName_eq : (fun i => match i with | RItem.seg (some nm) => some nm | _ => none) = itemName := by
  funext i
  cases i with
  | seg c => cases c <;> rfl
  | _ => rfl

@[simp] theorem itemName_ch (c : Char) : itemName (.ch c) = none := rfl
@[simp] theorem itemName_dotStar : itemName .dotStar = none := rfl
@[simp] theorem itemName_seg (n : String) : itemName (.seg (some n)) = some n := rfl
@[simp] theorem phName_lit (l : List Char) : phName (.lit l) = none := rfl
@[simp] theorem phName_ph (l : List Char) : phName (.ph l) = some l := rfl

theorem phNames_eq (p : Pat) : phNames p = p.segs.filterMap phName := by
  unfold phNames; congr

theorem names_itemsOf (w : Bool) (segs : List PSeg) :
    (itemsOf segs w).filterMap itemName = (segs.filterMap phName).map String.ofList := by
  induction segs with
  | nil => cases w <;> simp [itemsOf]
  | cons s more ih =>
    cases s with
    | lit l =>
      have : (l.map RItem.ch).filterMap itemName = [] := by
        simp [List.filterMap_eq_nil_iff]
      simp only [itemsOf, segItems]
      rw [List.filterMap_cons_none (itemName_ch _), List.filterMap_append, this,
        List.filterMap_cons_none (phName_lit _), List.nil_append, ih]
    | ph n =>
      simp only [itemsOf, segItems, List.singleton_append]
      rw [List.filterMap_cons_none (itemName_ch _), List.filterMap_cons_some (itemName_seg _),
        List.filterMap_cons_some (phName_ph _), ih, List.map_cons]

theorem ofList_beq (a b : List Char) : (String.ofList a == String.ofList b) = (a == b) := by
  rw [Bool.eq_iff_iff]; simp only [beq_iff_eq]
  exact ⟨String.ofList_injective, congrArg _⟩

theorem zip_names (ns : List (List Char)) (vals : List (List Char)) :
    (ns.map String.ofList).zip vals = (ns.zip vals).map (fun q => (String.ofList q.1, q.2)) := by
  induction ns generalizing vals with
  | nil => simp
  | cons n ns ih => cases vals <;> simp [ih]

theorem find_names (ps : List (List Char × List Char)) (var : List Char) :
    ((ps.map (fun q => (String.ofList q.1, q.2))).find? (fun p => p.1 == String.ofList var)).map (·.2)
      = (ps.find? (fun q => q.1 == var)).map (·.2) := by
  induction ps with
  | nil => simp
  | cons q ps ih =>
    simp only [List.map_cons, List.find?_cons, ofList_beq]
    cases h : q.1 == var
    · exact ih
    · rfl

theorem first_consistent (ps : List (List Char × List Char)) :
    (∀ q ∈ ps, (ps.find? (fun p => p.1 == q.1)).map (·.2) = some q.2) ↔
    (∀ q ∈ ps, ∀ q' ∈ ps, q.1 = q'.1 → q.2 = q'.2) := by
  constructor
  · intro h q hq q' hq' e
    have h1 := h q hq
    have h2 := h q' hq'
    rw [e, h2] at h1
    exact (Option.some.inj h1).symm
  · intro h q hq
    cases hf : ps.find? (fun p => p.1 == q.1) with
    | none =>
      have := List.find?_eq_none.mp hf q hq
      simp at this
    | some r =>
      have hr := List.mem_of_find?_eq_some hf
      have hk := List.find?_some hf
      simp only [beq_iff_eq] at hk
      simp [h r hr q hq hk]

theorem all_pairs (ps : List (List Char × List Char)) :
    (ps.map (fun q => (String.ofList q.1, q.2))).all
      (fun (nm, v) => ((ps.map (fun q => (String.ofList q.1, q.2))).find? (fun p => p.1 == nm)).map (·.2) == some v)
    = ps.all (fun (nm, v) => ps.all (fun (nm', v') => nm != nm' || v == v')) := by
  rw [Bool.eq_iff_iff]
  simp only [List.all_eq_true, List.mem_map, forall_exists_index, and_imp, beq_iff_eq]
  have := first_consistent ps
  constructor
  · intro h q hq q' hq'
    have h' : ∀ q ∈ ps, (ps.find? (fun p => p.1 == q.1)).map (·.2) = some q.2 := by
      intro q hq
      have := h _ q hq rfl
      simp only at this
      rw [find_names] at this
      exact this
    have := (first_consistent ps).mp h' q hq q' hq'
    by_cases e : q.1 = q'.1
    · simp [this e]
    · simp [e]
  · intro h x q hq hx
    subst hx
    simp only
    rw [find_names]
    apply (first_consistent ps).mpr _ q hq
    intro q hq q' hq' e
    have := h q hq q' hq'
    simpa [e] using this


/-! ### the Go-level functions on rendered well-formed patterns -/

theorem fuelFor_gt (items : List RItem) (s : List Char) : items.length + s.length < fuelFor items s := by
  unfold fuelFor; omega

theorem compile_render_pat (st : Style) (p : Pat) (h : PatWF p = true) :
    compile st (render st p) ((render st p).length + 1) = some (itemsOf p.segs p.wild) :=
  compile_render st p.wild p.segs ((PatWF_iff p).mp h) _ (Nat.le_succ _)

theorem names_itemsOf' (f : RItem → Option String) (hf : ∀ i, f i = itemName i) (w : Bool) (segs : List PSeg) :
    (itemsOf segs w).filterMap f = (segs.filterMap phName).map String.ofList := by
  rw [← names_itemsOf]; congr; funext i; exact hf i

theorem keyMatchRe_eq (st : Style) (p : Pat) (h : PatWF p = true) (path : List Char) :
    keyMatchRe st path (render st p) = some (segMatch p path) := by
  unfold keyMatchRe segMatch
  rw [compile_render_pat st p h, Option.map_some, rmatch_eq_rm _ _ _ (fuelFor_gt _ _),
    rm_itemsOf p.wild p.segs ((PatWF_iff p).mp h)]

theorem keyMatch4_eq (p : Pat) (h : PatWF p = true) (path : List Char) :
    keyMatch4 path (render .brace p) = some (segMatch4 p path) := by
  unfold keyMatch4 segMatch4
  rw [compile_render_pat .brace p h, Option.map_some, rcapture_eq_rc _ _ _ (fuelFor_gt _ _),
    rc_itemsOf p.wild p.segs ((PatWF_iff p).mp h), 
    names_itemsOf' _ (by intro i; cases i with | seg c => cases c <;> rfl | _ => rfl), phNames_eq]
  cases segCapture p.segs p.wild path with
  | none => rfl
  | some vals =>
    simp only [zip_names]
    rw [all_pairs]

theorem keyGetRe_eq (st : Style) (p : Pat) (h : PatWF p = true) (path : List Char) (var : List Char) :
    keyGetRe st path (render st p) (String.ofList var) = some (segGet p path var) := by
  unfold keyGetRe segGet
  rw [compile_render_pat st p h, Option.map_some, rcapture_eq_rc _ _ _ (fuelFor_gt _ _),
    rc_itemsOf p.wild p.segs ((PatWF_iff p).mp h), 
    names_itemsOf' _ (by intro i; cases i with | seg c => cases c <;> rfl | _ => rfl), phNames_eq]
  cases segCapture p.segs p.wild path with
  | none => rfl
  | some vals =>
    simp only [zip_names]
    rw [find_names]


end Casbin.KM
