import CasbinVerif.Spec.Perm
import CasbinVerif.Spec.Store
import CasbinVerif.Proofs.RoleGraph
import CasbinVerif.Proofs.StoreOps
/-
  Link lemmas for C05: the link a grouping rule stands for, how the set of links of a rule list
  changes under the list operations of `SpecStore`, and what `RM.applyRules` does to the links.
-/
namespace Casbin

/-- the link of one rule for a manager of the given kind -/
def linkOf (count : Nat) (kind : RMKind) (rule : Rule) : Option Link :=
  match linkOfRule count rule with
  | some (u, v, ds) => some (u, v, match kind with | .plain => "" | .domain => ds.headD "")
  | none => none

theorem linksOfRules_eq (count : Nat) (kind : RMKind) (rules : List Rule) :
    linksOfRules count kind rules = rules.filterMap (linkOf count kind) := rfl

theorem mem_linksOfRules {count : Nat} {kind : RMKind} {rules : List Rule} {l : Link} :
    l ∈ linksOfRules count kind rules ↔ ∃ r ∈ rules, linkOf count kind r = some l := by
  rw [linksOfRules_eq, List.mem_filterMap]

theorem linkOf_eq_of_linkOfRule {count : Nat} {rule : Rule} {u v : String} {ds : List String}
    (h : linkOfRule count rule = some (u, v, ds)) (rm : RM) :
    linkOf count rm.kind rule = some (u, v, rm.dom ds) := by
  simp only [linkOf, h, dom_eq]
  rfl

theorem linkOf_isSome {count : Nat} (kind : RMKind) {rule : Rule} (hlen : count ≤ rule.length) (hc : 2 ≤ count) :
    ∃ l, linkOf count kind rule = some l := by
  obtain ⟨u, v, ds, h⟩ := linkOfRule_some count rule hlen hc
  simp only [linkOf, h]
  exact ⟨_, rfl⟩

/-- rule ↦ link is injective on rules of the definition's arity (two places, or three with a domain manager) -/
theorem linkOf_inj {count : Nat} {kind : RMKind} (hc2 : 2 ≤ count) (hc3 : count ≤ 3)
    (hk : kind = .plain → count = 2) {a b : Rule} (ha : a.length = count) (hb : b.length = count)
    {l : Link} (h1 : linkOf count kind a = some l) (h2 : linkOf count kind b = some l) : a = b := by
  have hcc : count = 2 ∨ count = 3 := by omega
  rcases hcc with rfl | rfl
  · rcases a with _ | ⟨u, _ | ⟨v, _ | ⟨d, a⟩⟩⟩ <;> simp at ha
    rcases b with _ | ⟨u', _ | ⟨v', _ | ⟨d', b⟩⟩⟩ <;> simp at hb
    simp only [linkOf, linkOfRule] at h1 h2
    simp at h1 h2
    rw [← h2] at h1
    simp only [Prod.mk.injEq] at h1
    rw [h1.1, h1.2.1]
  · cases kind with
    | plain => exact absurd (hk rfl) (by decide)
    | domain =>
      rcases a with _ | ⟨u, _ | ⟨v, _ | ⟨d, _ | ⟨x, a⟩⟩⟩⟩ <;> simp at ha
      rcases b with _ | ⟨u', _ | ⟨v', _ | ⟨d', _ | ⟨x', b⟩⟩⟩⟩ <;> simp at hb
      simp only [linkOf, linkOfRule] at h1 h2
      simp at h1 h2
      rw [← h2] at h1
      simp only [Prod.mk.injEq] at h1
      rw [h1.1, h1.2.1, h1.2.2]

/-- the hypotheses under which rule ↦ link is injective on a rule list -/
structure LinkInj (count : Nat) (kind : RMKind) : Prop where
  c2 : 2 ≤ count
  c3 : count ≤ 3
  pl : kind = .plain → count = 2

/-! ### links of the lists the store specification produces -/

theorem mem_links_append {count : Nat} {kind : RMKind} {l₁ l₂ : List Rule} {l : Link} :
    l ∈ linksOfRules count kind (l₁ ++ l₂) ↔ l ∈ linksOfRules count kind l₁ ∨ l ∈ linksOfRules count kind l₂ := by
  simp only [linksOfRules_eq, List.filterMap_append, List.mem_append]

theorem mem_foldl_addOne (rs : List Rule) (l : List Rule) (x : Rule) :
    x ∈ rs.foldl SpecStore.addOne l ↔ x ∈ l ∨ x ∈ rs := by
  induction rs generalizing l with
  | nil => simp
  | cons r rs ih =>
    simp only [List.foldl_cons, ih, SpecStore.addOne, List.mem_cons]
    split
    · rename_i h
      constructor
      · rintro (h' | h')
        · exact .inl h'
        · exact .inr (.inr h')
      · rintro (h' | rfl | h')
        · exact .inl h'
        · exact .inl h
        · exact .inr h'
    · simp only [List.mem_append, List.mem_singleton]
      constructor
      · rintro ((h' | h') | h')
        · exact .inl h'
        · exact .inr (.inl h')
        · exact .inr (.inr h')
      · rintro (h' | h' | h')
        · exact .inl (.inl h')
        · exact .inl (.inr h')
        · exact .inr h'

theorem nodup_foldl_erase (rs : List Rule) {l : List Rule} (hnd : l.Nodup) : (rs.foldl List.erase l).Nodup := by
  induction rs generalizing l with
  | nil => exact hnd
  | cons r rs ih => exact ih (hnd.erase r)

theorem mem_foldl_erase (rs : List Rule) {l : List Rule} (hnd : l.Nodup) (x : Rule) :
    x ∈ rs.foldl List.erase l ↔ x ∈ l ∧ x ∉ rs := by
  induction rs generalizing l with
  | nil => simp
  | cons r rs ih =>
    simp only [List.foldl_cons, ih (hnd.erase r), hnd.mem_erase_iff, List.mem_cons, not_or]
    constructor
    · rintro ⟨⟨h1, h2⟩, h3⟩; exact ⟨h2, h1, h3⟩
    · rintro ⟨h2, h1, h3⟩; exact ⟨⟨h1, h2⟩, h3⟩

/-- membership after the batch replacement of `UpdatePolicies` -/
theorem mem_foldl_replace_iff (olds news : List Rule) (l : List Rule) (hlen : olds.length = news.length)
    (hin : ∀ o ∈ olds, o ∈ l) (hod : olds.Nodup) (hnd : news.Nodup)
    (hnew : ∀ r ∈ news, r ∉ l ∧ r ∉ olds) (x : Rule) :
    x ∈ (olds.zip news).foldl (fun l p => SpecStore.replace l p.1 p.2) l ↔ (x ∈ l ∧ x ∉ olds) ∨ x ∈ news := by
  induction olds generalizing news l with
  | nil =>
    cases news with
    | nil => simp
    | cons n news => simp at hlen
  | cons o olds ih =>
    cases news with
    | nil => simp at hlen
    | cons n news =>
      simp only [List.zip_cons_cons, List.foldl_cons]
      have ho : o ∈ l := hin o List.mem_cons_self
      have hod' := List.nodup_cons.1 hod
      have hnd' := List.nodup_cons.1 hnd
      have hn := hnew n List.mem_cons_self
      rw [ih news (SpecStore.replace l o n) (by simpa using hlen)]
      · simp only [mem_replace, List.mem_cons, not_or]
        constructor
        · rintro (⟨(⟨rfl, _⟩ | ⟨h1, h2⟩), h3⟩ | h)
          · exact .inr (.inl rfl)
          · exact .inl ⟨h1, h2, h3⟩
          · exact .inr (.inr h)
        · rintro (⟨h1, h2, h3⟩ | rfl | h)
          · exact .inl ⟨.inr ⟨h1, h2⟩, h3⟩
          · refine .inl ⟨.inl ⟨rfl, ho⟩, ?_⟩
            intro hx
            exact hn.2 (List.mem_cons_of_mem _ hx)
          · exact .inr h
      · intro o' ho'
        rw [mem_replace]
        right
        refine ⟨hin o' (List.mem_cons_of_mem _ ho'), ?_⟩
        intro e; subst e; exact hod'.1 ho'
      · exact hod'.2
      · exact hnd'.2
      · intro r hr
        have := hnew r (List.mem_cons_of_mem _ hr)
        refine ⟨?_, fun h => this.2 (List.mem_cons_of_mem _ h)⟩
        rw [mem_replace]
        rintro (⟨rfl, _⟩ | ⟨h1, _⟩)
        · exact hnd'.1 hr
        · exact this.1 h1

/-- removing rules from a duplicate-free list of rules of the right arity removes exactly their links -/
theorem mem_links_diff {count : Nat} {kind : RMKind} (hi : LinkInj count kind) {l l' rs : List Rule}
    (hl : ∀ r ∈ l, r.length = count) (hrs : ∀ r ∈ rs, r.length = count)
    (hmem : ∀ x, x ∈ l' ↔ x ∈ l ∧ x ∉ rs) (k : Link) :
    k ∈ linksOfRules count kind l' ↔ k ∈ linksOfRules count kind l ∧ k ∉ linksOfRules count kind rs := by
  simp only [mem_linksOfRules, hmem]
  constructor
  · rintro ⟨r, ⟨h1, h2⟩, h3⟩
    refine ⟨⟨r, h1, h3⟩, ?_⟩
    rintro ⟨q, hq, hq'⟩
    have := linkOf_inj hi.c2 hi.c3 hi.pl (hl r h1) (hrs q hq) h3 hq'
    subst this
    exact h2 hq
  · rintro ⟨⟨r, h1, h3⟩, h⟩
    exact ⟨r, ⟨h1, fun hr => h ⟨r, hr, h3⟩⟩, h3⟩

theorem mem_links_union {count : Nat} {kind : RMKind} {l l' rs : List Rule}
    (hmem : ∀ x, x ∈ l' ↔ x ∈ l ∨ x ∈ rs) (k : Link) :
    k ∈ linksOfRules count kind l' ↔ k ∈ linksOfRules count kind l ∨ k ∈ linksOfRules count kind rs := by
  simp only [mem_linksOfRules, hmem]
  constructor
  · rintro ⟨r, (h | h), h3⟩
    · exact .inl ⟨r, h, h3⟩
    · exact .inr ⟨r, h, h3⟩
  · rintro (⟨r, h, h3⟩ | ⟨r, h, h3⟩)
    · exact ⟨r, .inl h, h3⟩
    · exact ⟨r, .inr h, h3⟩

/-! ### `RM.applyRules` -/

theorem deleteLink_kind (rm : RM) (u r : String) (ds : List String) : (rm.deleteLink u r ds).kind = rm.kind := rfl

theorem addLink_maxLevel (rm : RM) (u r : String) (ds : List String) : (rm.addLink u r ds).maxLevel = rm.maxLevel := by
  unfold RM.addLink
  simp only
  split <;> rfl

theorem deleteLink_maxLevel (rm : RM) (u r : String) (ds : List String) :
    (rm.deleteLink u r ds).maxLevel = rm.maxLevel := rfl

theorem mem_deleteLink (rm : RM) (u r : String) (ds : List String) (l : Link) :
    l ∈ (rm.deleteLink u r ds).links ↔ l ∈ rm.links ∧ l ≠ (u, r, rm.dom ds) := by
  simp [RM.deleteLink, List.mem_filter]

theorem applyRules_kind (count : Nat) (add : Bool) (rules : List Rule) (rm : RM) :
    (rm.applyRules count add rules).1.kind = rm.kind := by
  induction rules generalizing rm with
  | nil => rfl
  | cons rule rest ih =>
    simp only [RM.applyRules]
    split
    · rfl
    · rw [ih]
      cases add
      · exact deleteLink_kind _ _ _ _
      · exact addLink_kind _ _ _ _

theorem applyRules_maxLevel (count : Nat) (add : Bool) (rules : List Rule) (rm : RM) :
    (rm.applyRules count add rules).1.maxLevel = rm.maxLevel := by
  induction rules generalizing rm with
  | nil => rfl
  | cons rule rest ih =>
    simp only [RM.applyRules]
    split
    · rfl
    · rw [ih]
      cases add
      · exact deleteLink_maxLevel _ _ _ _
      · exact addLink_maxLevel _ _ _ _

theorem applyRules_add (count : Nat) (rules : List Rule) (rm : RM)
    (hlen : ∀ r ∈ rules, count ≤ r.length) (hc : 2 ≤ count) :
    (rm.applyRules count true rules).2 = true ∧
      ∀ l, l ∈ (rm.applyRules count true rules).1.links ↔ l ∈ rm.links ∨ l ∈ linksOfRules count rm.kind rules := by
  obtain ⟨rm', h1, _, h3⟩ := applyRules_links_gen count rules rm hlen hc
  rw [h1]
  exact ⟨rfl, h3⟩

theorem applyRules_del (count : Nat) (rules : List Rule) (rm : RM)
    (hlen : ∀ r ∈ rules, count ≤ r.length) (hc : 2 ≤ count) :
    (rm.applyRules count false rules).2 = true ∧
      ∀ l, l ∈ (rm.applyRules count false rules).1.links ↔ l ∈ rm.links ∧ l ∉ linksOfRules count rm.kind rules := by
  induction rules generalizing rm with
  | nil => exact ⟨rfl, by simp [RM.applyRules, linksOfRules]⟩
  | cons rule rest ih =>
    obtain ⟨u, v, ds, hl⟩ := linkOfRule_some count rule (hlen rule (by simp)) hc
    obtain ⟨h1, h3⟩ := ih (rm.deleteLink u v ds) (fun r hr => hlen r (by simp [hr]))
    simp only [RM.applyRules, hl, Bool.false_eq_true, if_false]
    refine ⟨h1, ?_⟩
    intro l
    rw [h3 l, mem_deleteLink, deleteLink_kind]
    simp only [linksOfRules, List.filterMap_cons, hl, List.mem_cons, not_or]
    rw [dom_eq]
    constructor
    · rintro ⟨⟨h, h'⟩, h''⟩; exact ⟨h, h', h''⟩
    · rintro ⟨h, h', h''⟩; exact ⟨⟨h, h'⟩, h''⟩

/-! ### reachability only depends on the set of links -/

theorem reachWithin_mono {L L' : List Link} {d : String} (h : ∀ u v, (u, v, d) ∈ L → (u, v, d) ∈ L')
    {n : Nat} {u r : String} (hr : ReachWithin L d n u r) : ReachWithin L' d n u r := by
  induction hr with
  | refl n u => exact .refl n u
  | step he _ ih => exact .step (h _ _ he) ih

theorem reachWithin_congr {L L' : List Link} (h : ∀ l, l ∈ L ↔ l ∈ L') (d : String) (n : Nat) (u r : String) :
    ReachWithin L d n u r ↔ ReachWithin L' d n u r :=
  ⟨reachWithin_mono (fun _ _ hm => (h _).1 hm), reachWithin_mono (fun _ _ hm => (h _).2 hm)⟩

end Casbin
