import CasbinVerif.Spec.Mirror
import CasbinVerif.Proofs.Assoc
import CasbinVerif.Proofs.Links
/-
  State-level lemmas for C05: the initial state, and the consequences of `WFState`/`LinksMirror`.
-/
namespace Casbin

theorem init_wf' (md : ModelDef) (hp : (md.p.map (·.1)).Nodup) (hg : (md.g.map (·.1)).Nodup)
    (hc : ∀ x ∈ md.g, 2 ≤ x.2.1 ∧ x.2.1 ≤ 3 ∧ (x.2.2 = .plain → x.2.1 = 2)) : (Enf.init md).WFState := by
  refine ⟨?_, ?_, ?_, hp, hg, ?_, ?_, ?_⟩
  · simp [Enf.init, List.map_map, Function.comp_def]
  · simp [Enf.init, List.map_map, Function.comp_def]
  · simp [Enf.init, List.map_map, Function.comp_def]
  · intro pt s h
    have h' : (md.p.lookup pt).map (fun _ => Store.empty) = some s := by
      rw [← lookup_map_snd (fun _ _ => Store.empty)]; exact h
    cases hl : md.p.lookup pt with
    | none => rw [hl] at h'; cases h'
    | some toks =>
      rw [hl] at h'
      cases h'
      exact ⟨coh_empty', toks, hl, by simp [Store.empty]⟩
  · intro gt s h
    have h' : (md.g.lookup gt).map (fun _ => Store.empty) = some s := by
      rw [← lookup_map_snd (fun _ _ => Store.empty)]; exact h
    cases hl : md.g.lookup gt with
    | none => rw [hl] at h'; cases h'
    | some ck =>
      rw [hl] at h'
      cases h'
      obtain ⟨count, kind⟩ := ck
      have := hc _ (lookup_mem hl)
      exact ⟨coh_empty', count, kind, hl, this.1, this.2.1, this.2.2, by simp [Store.empty]⟩
  · intro gt rm h
    have h' : (md.g.lookup gt).map (fun v => RM.empty v.2) = some rm := by
      rw [← lookup_map_snd (fun _ (v : Nat × RMKind) => RM.empty v.2)]; exact h
    cases hl : md.g.lookup gt with
    | none => rw [hl] at h'; cases h'
    | some ck =>
      rw [hl] at h'
      cases h'
      obtain ⟨c, k⟩ := ck
      exact ⟨c, hl⟩

theorem init_mirror' (md : ModelDef) : (Enf.init md).LinksMirror := by
  intro gt rm count kind s h1 _ h3 l
  have h1' : (md.g.lookup gt).map (fun v => RM.empty v.2) = some rm := by
    rw [← lookup_map_snd (fun _ (v : Nat × RMKind) => RM.empty v.2)]; exact h1
  have h3' : (md.g.lookup gt).map (fun _ => Store.empty) = some s := by
    rw [← lookup_map_snd (fun _ _ => Store.empty)]; exact h3
  cases hl : md.g.lookup gt with
  | none => rw [hl] at h1'; cases h1'
  | some ck =>
    rw [hl] at h1' h3'
    cases h1'; cases h3'
    simp [RM.empty, Store.empty, linksOfRules]

/-! ### consequences -/

theorem wf_kind {e : Enf} (hwf : e.WFState) {gt : String} {rm : RM} {count : Nat} {kind : RMKind}
    (h1 : e.rm.lookup gt = some rm) (h2 : e.md.g.lookup gt = some (count, kind)) : rm.kind = kind := by
  obtain ⟨c, hc⟩ := hwf.2.2.2.2.2.2.2 gt rm h1
  rw [h2] at hc
  cases hc
  rfl

/-- the domain a manager of the given kind files a link under -/
def domOf : RMKind → List String → String
  | .plain, _ => ""
  | .domain, ds => ds.headD ""

theorem dom_eq_domOf (rm : RM) (ds : List String) : rm.dom ds = domOf rm.kind ds := by
  unfold RM.dom
  cases rm.kind <;> rfl

theorem hasLink_iff_listed_reach' (e : Enf) (hwf : e.WFState) (hm : e.LinksMirror)
    (gt : String) (rm : RM) (count : Nat) (kind : RMKind) (s : Store)
    (h1 : e.rm.lookup gt = some rm) (h2 : e.md.g.lookup gt = some (count, kind)) (h3 : e.g.lookup gt = some s)
    (u r : String) (ds : List String) :
    rm.hasLink u r ds = true ↔
      ReachWithin (linksOfRules count kind s.policy) (domOf kind ds) rm.maxLevel u r := by
  have hk := wf_kind hwf h1 h2
  rw [hasLink_iff_reach', dom_eq_domOf, hk]
  exact reachWithin_congr (hm gt rm count kind s h1 h2 h3) _ _ _ _

theorem hasLink_eq_specLink' (e : Enf) (hwf : e.WFState) (hm : e.LinksMirror)
    (hlev : ∀ gt rm, e.rm.lookup gt = some rm → rm.maxLevel = 10)
    (gt : String) (rm : RM) (h1 : e.rm.lookup gt = some rm) (u r : String) (ds : List String) :
    rm.hasLink u r ds = specLink e.md (fun gt => ((e.g.lookup gt).map (·.policy)).getD []) 10 gt (u :: r :: ds) := by
  obtain ⟨count, h2⟩ := hwf.2.2.2.2.2.2.2 gt rm h1
  obtain ⟨s, h3⟩ := lookup_some_of_keys (l' := e.g) (hwf.2.1.trans hwf.2.2.1.symm) h1
  rw [Bool.eq_iff_iff, hasLink_iff_listed_reach' e hwf hm gt rm count rm.kind s h1 h2 h3, hlev gt rm h1]
  simp only [specLink, h2, h3, Option.map_some, Option.getD_some]
  rw [reachB_iff']
  split <;> rename_i hk <;> simp only [hk, domOf]

theorem answers_like_rebuild' (e : Enf) (hwf : e.WFState) (hm : e.LinksMirror)
    (gt : String) (rm : RM) (count : Nat) (kind : RMKind) (s : Store)
    (h1 : e.rm.lookup gt = some rm) (h2 : e.md.g.lookup gt = some (count, kind)) (h3 : e.g.lookup gt = some s)
    (hlev : rm.maxLevel = 10) (u r : String) (ds : List String) :
    ∃ rm', (RM.empty kind).applyRules count true s.policy = (rm', true) ∧
      rm.hasLink u r ds = rm'.hasLink u r ds := by
  obtain ⟨_, count', kind', h2', hc2, _, _, hpl⟩ := hwf.2.2.2.2.2.2.1 gt s h3
  rw [h2] at h2'
  cases h2'
  have hlen : ∀ q ∈ s.policy, count ≤ q.length := fun q hq => by rw [plainRule_length (hpl q hq)]; exact Nat.le_refl _
  obtain ⟨hok, hl⟩ := applyRules_add count s.policy (RM.empty kind) hlen hc2
  have hk := applyRules_kind count true s.policy (RM.empty kind)
  have hml := applyRules_maxLevel count true s.policy (RM.empty kind)
  generalize (RM.empty kind).applyRules count true s.policy = res at hok hl hk hml
  obtain ⟨rm', ok⟩ := res
  simp only at hok hl hk hml
  subst hok
  refine ⟨rm', rfl, ?_⟩
  rw [Bool.eq_iff_iff, hasLink_iff_listed_reach' e hwf hm gt rm count kind s h1 h2 h3, hasLink_iff_reach', dom_eq_domOf,
    hk, hml, hlev]
  simp only [RM.empty] at hl ⊢
  apply reachWithin_congr
  intro l
  rw [hl l]
  simp

theorem no_domain_leak' (rm : RM) (hk : rm.kind = .domain) (u r d : String) (extra : Link) (hd : extra.2.2 ≠ d) :
    ({ rm with links := rm.links ++ [extra] } : RM).hasLink u r [d] = rm.hasLink u r [d] := by
  rw [Bool.eq_iff_iff, hasLink_iff_reach', hasLink_iff_reach']
  simp only [RM.dom, hk, List.headD_cons]
  constructor
  · apply reachWithin_mono
    intro a b hab
    rcases List.mem_append.1 hab with h | h
    · exact h
    · simp only [List.mem_singleton] at h
      exact absurd (by rw [← h]) hd
  · apply reachWithin_mono
    intro a b hab
    exact List.mem_append_left _ hab

end Casbin
