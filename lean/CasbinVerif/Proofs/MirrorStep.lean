import CasbinVerif.Proofs.Enforcer
import CasbinVerif.Proofs.Mirror
/-
  C05: every management call keeps the state well-formed and the role links in step with the
  listed grouping rules.
-/
namespace Casbin

def Inv (e : Enf) : Prop := e.WFState ∧ e.LinksMirror

theorem inv_same {e e' : Enf} (h : SameCore e e') (hi : Inv e) : Inv e' := by
  unfold Inv Enf.WFState Enf.LinksMirror at *
  rw [h.md, h.p, h.g, h.rm]
  exact hi

/-- `e'` is `e` with the policy store of `pt` replaced by `s'` -/
structure StepP (e e' : Enf) (pt : String) (s' : Store) : Prop where
  md : e'.md = e.md
  g : e'.g = e.g
  rm : e'.rm = e.rm
  pk : e'.p.map (·.1) = e.p.map (·.1)
  pl : ∀ x, e'.p.lookup x = if x = pt then some s' else e.p.lookup x

/-- `e'` is `e` with the grouping store of `pt` replaced by `s'` and its manager by `rm'` -/
structure StepG (e e' : Enf) (pt : String) (s' : Store) (rm' : RM) : Prop where
  md : e'.md = e.md
  p : e'.p = e.p
  gk : e'.g.map (·.1) = e.g.map (·.1)
  rk : e'.rm.map (·.1) = e.rm.map (·.1)
  gl : ∀ gt, e'.g.lookup gt = if gt = pt then some s' else e.g.lookup gt
  rl : ∀ gt, e'.rm.lookup gt = if gt = pt then some rm' else e.rm.lookup gt

theorem str_gp : ("g" == "p") = false := by decide
theorem str_pg : ("p" == "g") = false := by decide

theorem stepP_setStore {e e1 : Enf} (h : SameCore e e1) {pt : String} {s : Store} (hs : e.p.lookup pt = some s)
    (s' : Store) : StepP e (e1.setStore "p" pt s') pt s' := by
  unfold Enf.setStore
  simp only [beq_self_eq_true, if_true]
  refine ⟨h.md, h.g, h.rm, ?_, ?_⟩
  · simp only [h.p]; exact assocSet_keys_of_lookup _ _ hs
  · intro x
    simp only [h.p]
    split
    · rename_i hx; subst hx; exact lookup_assocSet_self _ _ _
    · rename_i hx; exact lookup_assocSet_other _ _ hx

theorem stepG_setStore {e e1 : Enf} (h : SameCore e e1) {pt : String} {s : Store} {rm : RM}
    (hs : e.g.lookup pt = some s) (hr : e.rm.lookup pt = some rm)
    (s' : Store) : StepG e (e1.setStore "g" pt s') pt s' rm := by
  unfold Enf.setStore
  simp only [str_gp, Bool.false_eq_true, if_false]
  refine ⟨h.md, h.p, ?_, ?_, ?_, ?_⟩
  · simp only [h.g]; exact assocSet_keys_of_lookup _ _ hs
  · simp only [h.rm]
  · intro x
    simp only [h.g]
    split
    · rename_i hx; subst hx; exact lookup_assocSet_self _ _ _
    · rename_i hx; exact lookup_assocSet_other _ _ hx
  · intro x
    simp only [h.rm]
    split
    · rename_i hx; subst hx; exact hr
    · rfl

theorem stepG_incr {e e2 : Enf} {pt : String} {s' : Store} {rm1 : RM} (h : StepG e e2 pt s' rm1)
    {count : Nat} {kind : RMKind} (hd : e.md.g.lookup pt = some (count, kind))
    {add : Bool} {rules : List Rule} {e3 : Enf} {ok : Bool} (heq : e2.incrLinks add pt rules = (e3, ok)) :
    StepG e e3 pt s' (rm1.applyRules count add rules).1 ∧ ok = (rm1.applyRules count add rules).2 := by
  unfold Enf.incrLinks at heq
  have h1 : e2.invalidate.rm.lookup pt = some rm1 := by
    simp only [Enf.invalidate, h.rl pt, if_true]
  have h2 : e2.invalidate.md.g.lookup pt = some (count, kind) := by
    simp only [Enf.invalidate, h.md, hd]
  simp only [h1, h2] at heq
  cases heq
  refine ⟨⟨h.md, h.p, h.gk, ?_, h.gl, ?_⟩, rfl⟩
  · simp only [Enf.invalidate]
    rw [assocSet_keys_of_lookup _ _ (by simpa [Enf.invalidate] using h1)]
    exact h.rk
  · intro x
    simp only [Enf.invalidate]
    split
    · rename_i hx; subst hx; exact lookup_assocSet_self _ _ _
    · rename_i hx
      rw [lookup_assocSet_other _ _ hx, h.rl x, if_neg hx]

theorem inv_stepP {e e' : Enf} (hi : Inv e) {pt : String} {s s' : Store} (h : StepP e e' pt s')
    (_hs : e.p.lookup pt = some s) {toks : List String} (ht : e.md.p.lookup pt = some toks)
    (hg : Good toks.length s') : Inv e' := by
  obtain ⟨⟨a1, a2, a3, a4, a5, a6, a7, a8⟩, hm⟩ := hi
  refine ⟨⟨?_, ?_, ?_, ?_, ?_, ?_, ?_, ?_⟩, ?_⟩
  · rw [h.pk, h.md]; exact a1
  · rw [h.g, h.md]; exact a2
  · rw [h.rm, h.md]; exact a3
  · rw [h.md]; exact a4
  · rw [h.md]; exact a5
  · intro x sx hx
    rw [h.pl x] at hx
    rw [h.md]
    split at hx
    · rename_i e1; subst e1; cases hx
      exact ⟨hg.coh, toks, ht, hg.plain⟩
    · exact a6 x sx hx
  · rw [h.g, h.md]; exact a7
  · rw [h.rm, h.md]; exact a8
  · unfold Enf.LinksMirror
    rw [h.rm, h.md, h.g]; exact hm

theorem inv_stepG {e e' : Enf} (hi : Inv e) {pt : String} {s s' : Store} {rm rm' : RM} (h : StepG e e' pt s' rm')
    (hs : e.g.lookup pt = some s) (hr : e.rm.lookup pt = some rm)
    {count : Nat} {kind : RMKind} (hd : e.md.g.lookup pt = some (count, kind))
    (hg : Good count s') (hk : rm'.kind = rm.kind)
    (hl : ∀ l, l ∈ rm'.links ↔ l ∈ linksOfRules count kind s'.policy) : Inv e' := by
  obtain ⟨⟨a1, a2, a3, a4, a5, a6, a7, a8⟩, hm⟩ := hi
  refine ⟨⟨?_, ?_, ?_, ?_, ?_, ?_, ?_, ?_⟩, ?_⟩
  · rw [h.p, h.md]; exact a1
  · rw [h.gk, h.md]; exact a2
  · rw [h.rk, h.md]; exact a3
  · rw [h.md]; exact a4
  · rw [h.md]; exact a5
  · rw [h.p, h.md]; exact a6
  · intro x sx hx
    rw [h.gl x] at hx
    rw [h.md]
    split at hx
    · rename_i e1; subst e1; cases hx
      obtain ⟨_, c, k, hd', h2, h3, h4, _⟩ := a7 x s hs
      rw [hd] at hd'; cases hd'
      exact ⟨hg.coh, count, kind, hd, h2, h3, h4, hg.plain⟩
    · exact a7 x sx hx
  · intro x rx hx
    rw [h.rl x] at hx
    rw [h.md]
    split at hx
    · rename_i e1; subst e1; cases hx
      rw [hk]; exact a8 x rm hr
    · exact a8 x rx hx
  · intro x rx c k sx h1 h2 h3
    rw [h.rl x] at h1
    rw [h.gl x] at h3
    rw [h.md] at h2
    by_cases e1 : x = pt
    · subst e1
      rw [if_pos rfl] at h1 h3
      cases h1; cases h3
      rw [hd] at h2; cases h2
      exact hl
    · rw [if_neg e1] at h1 h3
      exact hm x rx c k sx h1 h2 h3

/-! ### what `WFState` and `opWF` give -/

theorem opWF_elim {e : Enf} {op : MOp} {sec pt : String} {sop : StoreOp} (h : e.opWF op = true)
    (hop : op.storeOp = some (sec, pt, sop)) :
    ∃ n s, e.arity sec pt = some n ∧ e.getStore sec pt = some s ∧ WF06 n s.policy sop = true := by
  unfold Enf.opWF at h
  rw [hop] at h
  dsimp only at h
  split at h
  · rename_i n s h1 h2
    exact ⟨n, s, h1, h2, h⟩
  · cases h

theorem arity_cases {e : Enf} {sec pt : String} {n : Nat} {s : Store} (h : e.arity sec pt = some n)
    (hs : e.getStore sec pt = some s) :
    (sec = "p" ∧ e.p.lookup pt = some s ∧ ∃ toks, e.md.p.lookup pt = some toks ∧ toks.length = n) ∨
    (sec = "g" ∧ e.g.lookup pt = some s ∧ ∃ kind, e.md.g.lookup pt = some (n, kind)) := by
  unfold Enf.arity at h
  split at h
  · rename_i hp
    have : sec = "p" := by simpa using hp
    subst this
    left
    simp only [Enf.getStore, Enf.stores, beq_self_eq_true, Bool.true_or, if_true] at hs
    simp only [Option.map_eq_some_iff] at h
    exact ⟨rfl, hs, h⟩
  · split at h
    · rename_i hp hg
      have : sec = "g" := by simpa using hg
      subst this
      right
      simp only [Enf.getStore, Enf.stores, str_gp, beq_self_eq_true, Bool.or_true, if_true,
        Bool.false_eq_true, if_false] at hs
      simp only [Option.map_eq_some_iff] at h
      obtain ⟨⟨c, k⟩, h1, h2⟩ := h
      simp only at h2
      subst h2
      exact ⟨rfl, hs, k, h1⟩
    · cases h

theorem wf_p_good {e : Enf} (hwf : e.WFState) {pt : String} {s : Store} (hs : e.p.lookup pt = some s)
    {toks : List String} (ht : e.md.p.lookup pt = some toks) : Good toks.length s := by
  obtain ⟨hc, toks', ht', hp⟩ := hwf.2.2.2.2.2.1 pt s hs
  rw [ht] at ht'; cases ht'
  exact ⟨hc, hp⟩

theorem wf_g_info {e : Enf} (hwf : e.WFState) {pt : String} {s : Store} (hs : e.g.lookup pt = some s)
    {count : Nat} {kind : RMKind} (hd : e.md.g.lookup pt = some (count, kind)) :
    Good count s ∧ LinkInj count kind ∧ ∃ rm, e.rm.lookup pt = some rm ∧ rm.kind = kind := by
  obtain ⟨hc, c, k, hd', h2, h3, h4, hp⟩ := hwf.2.2.2.2.2.2.1 pt s hs
  rw [hd] at hd'; cases hd'
  obtain ⟨rm, hr⟩ := lookup_some_of_keys (l' := e.rm) (hwf.2.2.1.trans hwf.2.1.symm) hs
  exact ⟨⟨hc, hp⟩, ⟨h2, h3, h4⟩, rm, hr, wf_kind hwf hr hd⟩

/-! ### store facts for an arbitrary priority index -/

theorem good_add_any {n : Nat} (hn : n ≠ 0) (prio : Option Nat) {s : Store} (g : Good n s) {r : Rule}
    (hr : plainRule n r = true) (hnew : r ∉ s.policy) : Good n (s.add prio r) := by
  cases prio with
  | none => exact (good_add_none hn g hr hnew).1
  | some pi => exact (good_add_prio hn pi g hr hnew).1

theorem good_addMany_any {n : Nat} (hn : n ≠ 0) (prio : Option Nat) (rs : List Rule) {s : Store} (g : Good n s)
    (hrs : ∀ r ∈ rs, plainRule n r = true) : Good n (s.addMany prio rs).1 := by
  induction rs generalizing s with
  | nil => exact g
  | cons r rs ih =>
    have hr := hrs r List.mem_cons_self
    have hrs' : ∀ r ∈ rs, plainRule n r = true := fun q hq => hrs q (List.mem_cons_of_mem _ hq)
    simp only [Store.addMany]
    by_cases hh : s.has r = true
    · rw [if_pos hh]; exact ih g hrs'
    · rw [if_neg hh]
      have hm : r ∉ s.policy := fun h => hh ((g.has_iff hn hr).2 h)
      exact ih (good_add_any hn prio g hr hm) hrs'

theorem filterScan_eff (fi : Nat) (vals : List String) (rs tmp : List Rule) (ix : Index) (eff : List Rule)
    (hm : ∀ r ∈ rs, Store.matchFilter r fi vals = some (filterMatches fi vals r))
    (res : List Rule × Index × List Rule) (h : Store.filterScan fi vals rs tmp ix eff = some res) :
    res.2.2 = (rs.filter (filterMatches fi vals)).reverse ++ eff := by
  induction rs generalizing tmp ix eff with
  | nil => simp only [Store.filterScan, Option.some.injEq] at h; subst h; simp
  | cons r rs ih =>
    have hm' : ∀ r ∈ rs, Store.matchFilter r fi vals = some (filterMatches fi vals r) :=
      fun q hq => hm q (List.mem_cons_of_mem _ hq)
    simp only [Store.filterScan, hm r List.mem_cons_self] at h
    cases hf : filterMatches fi vals r with
    | true =>
      simp only [hf] at h
      rw [ih _ _ _ hm' h]
      simp [hf]
    | false =>
      simp only [hf] at h
      rw [ih _ _ _ hm' h]
      simp [hf]

theorem removeFiltered_eff {n : Nat} {s : Store} (g : Good n s) (fi : Nat) (vals : List String)
    (hr : fi + vals.length ≤ n) {s' : Store} {b : Bool} {eff : List Rule}
    (h : s.removeFiltered fi vals = some (s', b, eff)) : eff = s.policy.filter (filterMatches fi vals) := by
  have hm : ∀ r ∈ s.policy, Store.matchFilter r fi vals = some (filterMatches fi vals r) :=
    fun r hr' => matchFilter_eq r vals fi (by rw [plainRule_length (g.plain r hr')]; exact hr)
  unfold Store.removeFiltered at h
  split at h
  · cases h
  · rename_i tmp ix eff0 hscan
    have := filterScan_eff fi vals s.policy [] [] [] hm _ hscan
    simp only [List.append_nil] at this
    split at h <;> (cases h; rw [this]; simp)

/-! ### links after an incremental edit -/

theorem links_after_add {rm : RM} {count : Nat} {kind : RMKind} {l0 l1 rs : List Rule} (hk : rm.kind = kind)
    (hm : ∀ l, l ∈ rm.links ↔ l ∈ linksOfRules count kind l0)
    (hlen : ∀ r ∈ rs, r.length = count) (hc : 2 ≤ count)
    (hmem : ∀ x, x ∈ l1 ↔ x ∈ l0 ∨ x ∈ rs) :
    (rm.applyRules count true rs).2 = true ∧
      ∀ l, l ∈ (rm.applyRules count true rs).1.links ↔ l ∈ linksOfRules count kind l1 := by
  obtain ⟨h1, h2⟩ := applyRules_add count rs rm (fun r hr => by rw [hlen r hr]; exact Nat.le_refl _) hc
  refine ⟨h1, fun l => ?_⟩
  rw [h2 l, hk, hm l, mem_links_union hmem]

theorem links_after_del {rm : RM} {count : Nat} {kind : RMKind} {l0 l1 rs : List Rule} (hk : rm.kind = kind)
    (hm : ∀ l, l ∈ rm.links ↔ l ∈ linksOfRules count kind l0)
    (hi : LinkInj count kind) (hl0 : ∀ r ∈ l0, r.length = count)
    (hlen : ∀ r ∈ rs, r.length = count)
    (hmem : ∀ x, x ∈ l1 ↔ x ∈ l0 ∧ x ∉ rs) :
    (rm.applyRules count false rs).2 = true ∧
      ∀ l, l ∈ (rm.applyRules count false rs).1.links ↔ l ∈ linksOfRules count kind l1 := by
  obtain ⟨h1, h2⟩ := applyRules_del count rs rm (fun r hr => by rw [hlen r hr]; exact Nat.le_refl _) hi.c2
  refine ⟨h1, fun l => ?_⟩
  rw [h2 l, hk, hm l, mem_links_diff hi hl0 hlen hmem]

/-! ### the management calls -/

theorem wf06_parts {n : Nat} {l : List Rule} {op : StoreOp} (h : WF06 n l op = true) :
    (∀ r ∈ op.rules, plainRule n r = true) ∧ n ≠ 0 := by
  simp only [WF06, Bool.and_eq_true, bne_iff_ne, ne_eq, List.all_eq_true] at h
  exact ⟨h.1.1.1, h.1.2⟩

theorem wf06_update {n : Nat} {l : List Rule} {old new : Rule} (h : WF06 n l (.update old new) = true) :
    new ∉ l := by
  simp only [WF06, Bool.and_eq_true, bne_iff_ne, ne_eq, List.all_eq_true, Bool.not_eq_true',
    List.contains_eq_mem, decide_eq_false_iff_not] at h
  exact h.2.2

theorem wf06_updateMany {n : Nat} {l : List Rule} {olds news : List Rule} (h : WF06 n l (.updateMany olds news) = true) :
    olds.length = news.length ∧ olds.Nodup ∧ news.Nodup ∧ ∀ r ∈ news, r ∉ l ∧ r ∉ olds := by
  simp only [WF06, Bool.and_eq_true, bne_iff_ne, ne_eq, List.all_eq_true, beq_iff_eq, decide_eq_true_eq,
    Bool.not_eq_true', List.contains_eq_mem, decide_eq_false_iff_not] at h
  obtain ⟨_, ⟨⟨⟨hlen, _⟩, hod⟩, hnd⟩, hnew⟩ := h
  exact ⟨hlen, hod, hnd, hnew⟩

theorem wf06_removeFiltered {n : Nat} {l : List Rule} {fi : Nat} {vals : List String}
    (h : WF06 n l (.removeFiltered fi vals) = true) : vals.isEmpty = false ∧ fi + vals.length ≤ n := by
  simp only [WF06, Bool.and_eq_true, bne_iff_ne, ne_eq, List.all_eq_true, decide_eq_true_eq,
    Bool.not_eq_true'] at h
  exact ⟨h.2.1, h.2.2⟩

theorem stepG_incr' {e e2 : Enf} {pt : String} {s' : Store} {rm1 : RM} (h : StepG e e2 pt s' rm1)
    {count : Nat} {kind : RMKind} (hd : e.md.g.lookup pt = some (count, kind))
    (add : Bool) (rules : List Rule) :
    StepG e (e2.incrLinks add pt rules).1 pt s' (rm1.applyRules count add rules).1 ∧
      (e2.incrLinks add pt rules).2 = (rm1.applyRules count add rules).2 :=
  stepG_incr h hd rfl

theorem links_after_del_add {rm : RM} {count : Nat} {kind : RMKind} {l0 l1 dels adds : List Rule} (hk : rm.kind = kind)
    (hm : ∀ l, l ∈ rm.links ↔ l ∈ linksOfRules count kind l0)
    (hi : LinkInj count kind) (hl0 : ∀ r ∈ l0, r.length = count)
    (hdl : ∀ r ∈ dels, r.length = count) (hal : ∀ r ∈ adds, r.length = count)
    (hmem : ∀ x, x ∈ l1 ↔ (x ∈ l0 ∧ x ∉ dels) ∨ x ∈ adds) :
    (rm.applyRules count false dels).2 = true ∧
    ((rm.applyRules count false dels).1.applyRules count true adds).2 = true ∧
      ∀ l, l ∈ ((rm.applyRules count false dels).1.applyRules count true adds).1.links ↔
        l ∈ linksOfRules count kind l1 := by
  obtain ⟨h1, h2⟩ := links_after_del (l1 := l0.filter (fun x => !dels.contains x)) hk hm hi hl0 hdl
    (by intro x; simp [List.mem_filter])
  obtain ⟨h3, h4⟩ := links_after_add (rm := (rm.applyRules count false dels).1) (l1 := l1) (rs := adds)
    ((applyRules_kind _ _ _ _).trans hk) h2 hal hi.c2
    (by intro x; rw [hmem x]; simp [List.mem_filter])
  exact ⟨h1, h3, h4⟩

theorem inv_addPoliciesWN (e : Enf) (sec pt : String) (rules : List Rule) (ex : Bool) (hi : Inv e)
    (hop : e.opWF (.addMany sec pt ex rules) = true) : Inv (e.addPoliciesWN sec pt rules ex).1 := by
  obtain ⟨n, s, har, hs, hwf6⟩ := opWF_elim hop rfl
  obtain ⟨hpl, hn⟩ := wf06_parts hwf6
  have hrs : ∀ r ∈ rules, plainRule n r = true := fun r hr => hpl r (by simpa [StoreOp.rules] using hr)
  unfold Enf.addPoliciesWN
  split
  · split <;> exact hi
  rename_i s0 hs0
  rw [hs] at hs0; cases hs0
  split
  · exact hi
  · split
    rename_i e1 okA hp
    have sc := sameCore_persist hp
    split
    · exact inv_same sc hi
    · rcases arity_cases har hs with ⟨rfl, hps, toks, ht, rfl⟩ | ⟨rfl, hgs, kind, hd⟩
      · have g0 := wf_p_good hi.1 hps ht
        simp only [str_pg, Bool.false_eq_true, if_false]
        exact inv_stepP hi (stepP_setStore sc hps _) hps ht (good_addMany_any hn _ rules g0 hrs)
      · obtain ⟨g0, hinj, rm, hrm, hk⟩ := wf_g_info hi.1 hgs hd
        have hprio : e1.prioOf "g" pt = none := by simp [Enf.prioOf, str_gp]
        simp only [beq_self_eq_true, if_true, hprio]
        obtain ⟨g1, hpol⟩ := addMany_spec hn rules g0 hrs
        have st1 := stepG_setStore sc hgs hrm (s.addMany none rules).1
        obtain ⟨st2, hok⟩ := stepG_incr' st1 hd true rules
        obtain ⟨h1, h2⟩ := links_after_add (l1 := (s.addMany none rules).1.policy) hk (hi.2 pt rm n kind s hrm hd hgs)
          (rs := rules) (fun r hr => plainRule_length (hrs r hr)) hinj.c2
          (by intro x; rw [hpol, mem_foldl_addOne])
        have := inv_stepG hi st2 hgs hrm hd g1 (applyRules_kind _ _ _ _) h2
        split <;> exact this

theorem inv_removePolicyWN (e : Enf) (sec pt : String) (rule : Rule) (hi : Inv e)
    (hop : e.opWF (.remove sec pt rule) = true) : Inv (e.removePolicyWN sec pt rule).1 := by
  obtain ⟨n, s, har, hs, hwf6⟩ := opWF_elim hop rfl
  obtain ⟨hpl, hn⟩ := wf06_parts hwf6
  have hr : plainRule n rule = true := hpl rule (by simp [StoreOp.rules])
  unfold Enf.removePolicyWN
  split
  rename_i e1 okA hp
  have sc := sameCore_persist hp
  split
  · exact inv_same sc hi
  rw [sc.getStore, hs]
  split
  · exact inv_same sc hi
  rename_i s0 hs0
  cases hs0
  split
  · exact inv_same sc hi
  rename_i s' hrem
  rcases arity_cases har hs with ⟨rfl, hps, toks, ht, rfl⟩ | ⟨rfl, hgs, kind, hd⟩
  · have g0 := wf_p_good hi.1 hps ht
    obtain ⟨g1, _, _⟩ := remove_spec hn g0 hr
    rw [hrem] at g1
    simp only [str_pg, Bool.false_eq_true, if_false]
    exact inv_stepP hi (stepP_setStore sc hps _) hps ht g1
  · obtain ⟨g0, hinj, rm, hrm, hk⟩ := wf_g_info hi.1 hgs hd
    obtain ⟨g1, hpol, _⟩ := remove_spec hn g0 hr
    rw [hrem] at g1 hpol
    simp only [beq_self_eq_true, if_true]
    have st1 := stepG_setStore sc hgs hrm s'
    obtain ⟨st2, hok⟩ := stepG_incr' st1 hd false [rule]
    obtain ⟨h1, h2⟩ := links_after_del (l1 := s'.policy) hk (hi.2 pt rm n kind s hrm hd hgs) hinj
      (fun r hr => plainRule_length (g0.plain r hr))
      (rs := [rule]) (by intro r hr'; simp at hr'; subst hr'; exact plainRule_length hr)
      (by intro x; simp only at hpol; rw [hpol, g0.coh.1.mem_erase_iff]; simp [and_comm])
    have := inv_stepG hi st2 hgs hrm hd g1 (applyRules_kind _ _ _ _) h2
    split <;> exact this

theorem inv_addPolicyWN (e : Enf) (sec pt : String) (rule : Rule) (hi : Inv e)
    (hop : e.opWF (.add sec pt rule) = true) : Inv (e.addPolicyWN sec pt rule).1 := by
  obtain ⟨n, s, har, hs, hwf6⟩ := opWF_elim hop rfl
  obtain ⟨hpl, hn⟩ := wf06_parts hwf6
  have hr : plainRule n rule = true := hpl rule (by simp [StoreOp.rules])
  unfold Enf.addPolicyWN
  split
  · exact hi
  rename_i s0 hs0
  rw [hs] at hs0; cases hs0
  split
  · exact hi
  · rename_i hhas
    split
    rename_i e1 okA hp
    have sc := sameCore_persist hp
    split
    · exact inv_same sc hi
    · rcases arity_cases har hs with ⟨rfl, hps, toks, ht, rfl⟩ | ⟨rfl, hgs, kind, hd⟩
      · have g0 := wf_p_good hi.1 hps ht
        have hnew : rule ∉ s.policy := fun h => hhas ((g0.has_iff hn hr).2 h)
        simp only [str_pg, Bool.false_eq_true, if_false]
        exact inv_stepP hi (stepP_setStore sc hps _) hps ht (good_add_any hn _ g0 hr hnew)
      · obtain ⟨g0, hinj, rm, hrm, hk⟩ := wf_g_info hi.1 hgs hd
        have hnew : rule ∉ s.policy := fun h => hhas ((g0.has_iff hn hr).2 h)
        have hprio : e1.prioOf "g" pt = none := by simp [Enf.prioOf, str_gp]
        simp only [beq_self_eq_true, if_true, hprio]
        have st1 := stepG_setStore sc hgs hrm (s.add none rule)
        obtain ⟨st2, hok⟩ := stepG_incr' st1 hd true [rule]
        obtain ⟨h1, h2⟩ := links_after_add (l1 := (s.add none rule).policy) hk (hi.2 pt rm n kind s hrm hd hgs)
          (rs := [rule]) (by intro r hr'; simp at hr'; subst hr'; exact plainRule_length hr) hinj.c2
          (by intro x; simp [Store.add])
        have g1 := good_add_any hn none g0 hr hnew
        have := inv_stepG hi st2 hgs hrm hd g1 (applyRules_kind _ _ _ _) h2
        split <;> exact this

theorem inv_removePoliciesWN (e : Enf) (sec pt : String) (rules : List Rule) (hi : Inv e)
    (hop : e.opWF (.removeMany sec pt rules) = true) : Inv (e.removePoliciesWN sec pt rules).1 := by
  obtain ⟨n, s, har, hs, hwf6⟩ := opWF_elim hop rfl
  obtain ⟨hpl, hn⟩ := wf06_parts hwf6
  have hrs : ∀ r ∈ rules, plainRule n r = true := fun r hr => hpl r (by simpa [StoreOp.rules] using hr)
  unfold Enf.removePoliciesWN
  split
  · split <;> exact hi
  rename_i s0 hs0
  rw [hs] at hs0; cases hs0
  split
  · exact hi
  split
  rename_i e1 okA hp
  have sc := sameCore_persist hp
  split
  · exact inv_same sc hi
  split
  rename_i s' aff hrem
  split
  · exact inv_same sc hi
  rcases arity_cases har hs with ⟨rfl, hps, toks, ht, rfl⟩ | ⟨rfl, hgs, kind, hd⟩
  · have g0 := wf_p_good hi.1 hps ht
    obtain ⟨g1, _, _⟩ := removeMany_spec hn rules g0 hrs
    rw [hrem] at g1
    simp only [str_pg, Bool.false_eq_true, if_false]
    exact inv_stepP hi (stepP_setStore sc hps _) hps ht g1
  · obtain ⟨g0, hinj, rm, hrm, hk⟩ := wf_g_info hi.1 hgs hd
    obtain ⟨g1, hpol, _⟩ := removeMany_spec hn rules g0 hrs
    rw [hrem] at g1 hpol
    simp only [beq_self_eq_true, if_true]
    have st1 := stepG_setStore sc hgs hrm s'
    obtain ⟨st2, hok⟩ := stepG_incr' st1 hd false rules
    obtain ⟨h1, h2⟩ := links_after_del (l1 := s'.policy) hk (hi.2 pt rm n kind s hrm hd hgs) hinj
      (fun r hr => plainRule_length (g0.plain r hr))
      (rs := rules) (fun r hr => plainRule_length (hrs r hr))
      (by intro x; simp only at hpol; rw [hpol, mem_foldl_erase rules g0.coh.1])
    have := inv_stepG hi st2 hgs hrm hd g1 (applyRules_kind _ _ _ _) h2
    split <;> exact this

theorem inv_updatePolicyWN (e : Enf) (sec pt : String) (old new : Rule) (hi : Inv e)
    (hop : e.opWF (.update sec pt old new) = true) : Inv (e.updatePolicyWN sec pt old new).1 := by
  obtain ⟨n, s, har, hs, hwf6⟩ := opWF_elim hop rfl
  obtain ⟨hpl, hn⟩ := wf06_parts hwf6
  have ho : plainRule n old = true := hpl old (by simp [StoreOp.rules])
  have hw : plainRule n new = true := hpl new (by simp [StoreOp.rules])
  have hnew := wf06_update hwf6
  unfold Enf.updatePolicyWN
  split
  · exact hi
  split
  · exact hi
  split
  rename_i e1 okA hp
  have sc := sameCore_persist hp
  split
  · exact inv_same sc hi
  rw [sc.getStore, hs]
  split
  · exact inv_same sc hi
  rename_i s0 hs0
  cases hs0
  split
  · exact inv_same sc hi
  rename_i s' hupd
  have g0' : Good n s := by
    rcases arity_cases har hs with ⟨rfl, hps, toks, ht, rfl⟩ | ⟨rfl, hgs, kind, hd⟩
    · exact wf_p_good hi.1 hps ht
    · exact (wf_g_info hi.1 hgs hd).1
  obtain ⟨g1, hpol, hflag⟩ := update_spec hn (old := old) (new := new) g0' ho hw hnew
  rw [hupd] at g1 hpol hflag
  simp only [true_iff] at hflag hpol
  rcases arity_cases har hs with ⟨rfl, hps, toks, ht, rfl⟩ | ⟨rfl, hgs, kind, hd⟩
  · simp only [str_pg, Bool.false_eq_true, if_false]
    exact inv_stepP hi (stepP_setStore sc hps _) hps ht g1
  · obtain ⟨g0, hinj, rm, hrm, hk⟩ := wf_g_info hi.1 hgs hd
    simp only [beq_self_eq_true, if_true]
    have st1 := stepG_setStore sc hgs hrm s'
    obtain ⟨st2, hok1⟩ := stepG_incr' st1 hd false [old]
    obtain ⟨st3, hok2⟩ := stepG_incr' st2 hd true [new]
    obtain ⟨h1, h2, h3⟩ := links_after_del_add (l1 := s'.policy) (dels := [old]) (adds := [new]) hk
      (hi.2 pt rm n kind s hrm hd hgs) hinj
      (fun r hr => plainRule_length (g0.plain r hr))
      (by intro r hr'; simp at hr'; subst hr'; exact plainRule_length ho)
      (by intro r hr'; simp at hr'; subst hr'; exact plainRule_length hw)
      (by
        intro x
        rw [hpol, mem_replace]
        simp only [List.mem_singleton]
        constructor
        · rintro (⟨h, _⟩ | h)
          · exact .inr h
          · exact .inl h
        · rintro (h | h)
          · exact .inr h
          · exact .inl ⟨h, hflag⟩)
    have := inv_stepG hi st3 hgs hrm hd g1 ((applyRules_kind _ _ _ _).trans (applyRules_kind _ _ _ _)) h3
    rw [hok1.trans h1]
    simp only [Bool.not_true, Bool.false_eq_true, if_false]
    split <;> exact this

theorem inv_updatePoliciesWN (e : Enf) (sec pt : String) (olds news : List Rule) (hi : Inv e)
    (hop : e.opWF (.updateMany sec pt olds news) = true) : Inv (e.updatePoliciesWN sec pt olds news).1 := by
  obtain ⟨n, s, har, hs, hwf6⟩ := opWF_elim hop rfl
  obtain ⟨hpl, hn⟩ := wf06_parts hwf6
  have hpo : ∀ r ∈ olds, plainRule n r = true := fun r hr => hpl r (by simp [StoreOp.rules, hr])
  have hpn : ∀ r ∈ news, plainRule n r = true := fun r hr => hpl r (by simp [StoreOp.rules, hr])
  obtain ⟨hlen, hod, hnd, hnew⟩ := wf06_updateMany hwf6
  unfold Enf.updatePoliciesWN
  split
  · exact hi
  split
  · exact hi
  split
  · exact hi
  split
  rename_i e1 okA hp
  have sc := sameCore_persist hp
  split
  · exact inv_same sc hi
  rw [sc.getStore, hs]
  split
  · exact inv_same sc hi
  rename_i s0 hs0
  cases hs0
  have g0 : Good n s := by
    rcases arity_cases har hs with ⟨rfl, hps, toks, ht, rfl⟩ | ⟨rfl, hgs, kind, hd⟩
    · exact wf_p_good hi.1 hps ht
    · exact (wf_g_info hi.1 hgs hd).1
  obtain ⟨g1, hspec⟩ := updateMany_spec hn g0 olds news hlen hpo hpn hod hnd hnew
  simp only [SpecStore.apply] at hspec
  split
  · -- the batch was rolled back: same rules, fresh index
    rename_i s' hupd
    rw [hupd] at g1 hspec
    simp only at g1 hspec
    have hpol : s'.policy = s.policy := by
      split at hspec
      · exact absurd (Prod.mk.inj hspec).2 (by simp)
      · exact (Prod.mk.inj hspec).1
    rcases arity_cases har hs with ⟨rfl, hps, toks, ht, rfl⟩ | ⟨rfl, hgs, kind, hd⟩
    · exact inv_stepP hi (stepP_setStore sc hps _) hps ht g1
    · obtain ⟨_, hinj, rm, hrm, hk⟩ := wf_g_info hi.1 hgs hd
      have st1 := stepG_setStore sc hgs hrm s'
      exact inv_stepG hi st1 hgs hrm hd g1 rfl (by rw [hpol]; exact hi.2 pt rm n kind s hrm hd hgs)
  · rename_i s' hupd
    rw [hupd] at g1 hspec
    simp only at g1 hspec
    have hall : ∀ o ∈ olds, o ∈ s.policy := by
      split at hspec
      · rename_i h; simpa using h
      · exact absurd (Prod.mk.inj hspec).2 (by simp)
    have hpol : s'.policy = (olds.zip news).foldl (fun l p => SpecStore.replace l p.1 p.2) s.policy := by
      split at hspec
      · exact (Prod.mk.inj hspec).1
      · exact absurd (Prod.mk.inj hspec).2 (by simp)
    rcases arity_cases har hs with ⟨rfl, hps, toks, ht, rfl⟩ | ⟨rfl, hgs, kind, hd⟩
    · simp only [str_pg, Bool.false_eq_true, if_false]
      exact inv_stepP hi (stepP_setStore sc hps _) hps ht g1
    · obtain ⟨_, hinj, rm, hrm, hk⟩ := wf_g_info hi.1 hgs hd
      simp only [beq_self_eq_true, if_true]
      have st1 := stepG_setStore sc hgs hrm s'
      obtain ⟨st2, hok1⟩ := stepG_incr' st1 hd false olds
      obtain ⟨st3, hok2⟩ := stepG_incr' st2 hd true news
      obtain ⟨h1, h2, h3⟩ := links_after_del_add (l1 := s'.policy) (dels := olds) (adds := news) hk
        (hi.2 pt rm n kind s hrm hd hgs) hinj
        (fun r hr => plainRule_length (g0.plain r hr))
        (fun r hr => plainRule_length (hpo r hr))
        (fun r hr => plainRule_length (hpn r hr))
        (by intro x; rw [hpol]; exact mem_foldl_replace_iff olds news s.policy hlen hall hod hnd hnew x)
      have := inv_stepG hi st3 hgs hrm hd g1 ((applyRules_kind _ _ _ _).trans (applyRules_kind _ _ _ _)) h3
      rw [hok1.trans h1]
      simp only [Bool.not_true, Bool.false_eq_true, if_false]
      split <;> exact this

/-- the call does not panic and its result state satisfies the invariant -/
def OptInv (o : Option (Enf × Enf.MRes)) : Prop := ∃ r, o = some r ∧ Inv r.1

theorem optInv_some {e : Enf} {res : Enf.MRes} (h : Inv e) : OptInv (some (e, res)) := ⟨(e, res), rfl, h⟩

theorem inv_removeFilteredWN (e : Enf) (sec pt : String) (fi : Nat) (vals : List String) (hi : Inv e)
    (hop : e.opWF (.removeFiltered sec pt fi vals) = true) : OptInv (e.removeFilteredWN sec pt fi vals) := by
  obtain ⟨n, s, har, hs, hwf6⟩ := opWF_elim hop rfl
  obtain ⟨_, hn⟩ := wf06_parts hwf6
  obtain ⟨hne, hfl⟩ := wf06_removeFiltered hwf6
  unfold Enf.removeFilteredWN
  split
  · exact optInv_some hi
  split
  rename_i e1 okA hp
  have sc := sameCore_persist hp
  split
  · exact optInv_some (inv_same sc hi)
  rw [sc.getStore, hs]
  have g0 : Good n s := by
    rcases arity_cases har hs with ⟨rfl, hps, toks, ht, rfl⟩ | ⟨rfl, hgs, kind, hd⟩
    · exact wf_p_good hi.1 hps ht
    · exact (wf_g_info hi.1 hgs hd).1
  obtain ⟨s', b, eff, hrf, g1, hspec⟩ := removeFiltered_spec hn g0 fi vals hfl
  have heff := removeFiltered_eff g0 fi vals hfl hrf
  simp only [SpecStore.apply] at hspec
  have hpol : s'.policy = s.policy.filter (fun r => !filterMatches fi vals r) := (Prod.mk.inj hspec).1
  simp only [hrf]
  cases b with
  | false =>
    simp only
    rcases arity_cases har hs with ⟨rfl, hps, toks, ht, rfl⟩ | ⟨rfl, hgs, kind, hd⟩
    · exact optInv_some (inv_stepP hi (stepP_setStore sc hps _) hps ht g1)
    · obtain ⟨_, hinj, rm, hrm, hk⟩ := wf_g_info hi.1 hgs hd
      have st1 := stepG_setStore sc hgs hrm s'
      have hlen : (s.policy.filter (fun r => !filterMatches fi vals r)).length = s.policy.length := by
        have := (Prod.mk.inj hspec).2
        simpa using this.symm
      have hfe : s.policy.filter (fun r => !filterMatches fi vals r) = s.policy :=
        List.filter_eq_self.2 (List.length_filter_eq_length_iff.1 hlen)
      exact optInv_some (inv_stepG hi st1 hgs hrm hd g1 rfl (by rw [hpol, hfe]; exact hi.2 pt rm n kind s hrm hd hgs))
  | true =>
    simp only
    rcases arity_cases har hs with ⟨rfl, hps, toks, ht, rfl⟩ | ⟨rfl, hgs, kind, hd⟩
    · simp only [str_pg, Bool.false_eq_true, if_false]
      exact optInv_some (inv_stepP hi (stepP_setStore sc hps _) hps ht g1)
    · obtain ⟨_, hinj, rm, hrm, hk⟩ := wf_g_info hi.1 hgs hd
      simp only [beq_self_eq_true, if_true]
      have st1 := stepG_setStore sc hgs hrm s'
      obtain ⟨st2, hok⟩ := stepG_incr' st1 hd false eff
      obtain ⟨h1, h2⟩ := links_after_del (l1 := s'.policy) hk (hi.2 pt rm n kind s hrm hd hgs) hinj
        (fun r hr => plainRule_length (g0.plain r hr))
        (rs := eff) (by
          intro r hr
          rw [heff] at hr
          exact plainRule_length (g0.plain r (List.mem_filter.1 hr).1))
        (by
          intro x
          rw [hpol, heff]
          simp only [List.mem_filter, Bool.not_eq_true', not_and, Bool.not_eq_true]
          constructor
          · rintro ⟨h, h'⟩; exact ⟨h, fun _ => h'⟩
          · rintro ⟨h, h'⟩; exact ⟨h, h' h⟩)
      have := inv_stepG hi st2 hgs hrm hd g1 (applyRules_kind _ _ _ _) h2
      split <;> exact optInv_some this

/-! ### ClearPolicy, BuildRoleLinks -/

theorem inv_clearPolicy (e : Enf) (hi : Inv e) : Inv e.clearPolicy := by
  obtain ⟨⟨a1, a2, a3, a4, a5, a6, a7, a8⟩, hm⟩ := hi
  have hp : ∀ x, (e.clearPolicy).p.lookup x = (e.p.lookup x).map (fun _ => Store.empty) := fun x =>
    lookup_map_snd (fun _ _ => Store.empty) e.p x
  have hg : ∀ x, (e.clearPolicy).g.lookup x = (e.g.lookup x).map (fun _ => Store.empty) := fun x =>
    lookup_map_snd (fun _ _ => Store.empty) e.g x
  have hr : ∀ x, (e.clearPolicy).rm.lookup x = (e.rm.lookup x).map (fun r => r.clear) := fun x =>
    lookup_map_snd (fun _ (r : RM) => r.clear) e.rm x
  have hmd : e.clearPolicy.md = e.md := rfl
  refine ⟨⟨?_, ?_, ?_, a4, a5, ?_, ?_, ?_⟩, ?_⟩
  · rw [hmd, ← a1]; simp [Enf.clearPolicy, Enf.invalidate, List.map_map, Function.comp_def]
  · rw [hmd, ← a2]; simp [Enf.clearPolicy, Enf.invalidate, List.map_map, Function.comp_def]
  · rw [hmd, ← a3]; simp [Enf.clearPolicy, Enf.invalidate, List.map_map, Function.comp_def]
  · intro x sx hx
    rw [hp x] at hx
    rw [hmd]
    cases hl : e.p.lookup x with
    | none => rw [hl] at hx; cases hx
    | some s0 =>
      rw [hl] at hx; cases hx
      obtain ⟨_, toks, ht, _⟩ := a6 x s0 hl
      exact ⟨coh_empty', toks, ht, by simp [Store.empty]⟩
  · intro x sx hx
    rw [hg x] at hx
    rw [hmd]
    cases hl : e.g.lookup x with
    | none => rw [hl] at hx; cases hx
    | some s0 =>
      rw [hl] at hx; cases hx
      obtain ⟨_, c, k, hd, h2, h3, h4, _⟩ := a7 x s0 hl
      exact ⟨coh_empty', c, k, hd, h2, h3, h4, by simp [Store.empty]⟩
  · intro x rx hx
    rw [hr x] at hx
    rw [hmd]
    cases hl : e.rm.lookup x with
    | none => rw [hl] at hx; cases hx
    | some r0 =>
      rw [hl] at hx; cases hx
      exact a8 x r0 hl
  · intro x rx c k sx h1 _ h3 l
    rw [hr x] at h1
    rw [hg x] at h3
    cases hl : e.rm.lookup x with
    | none => rw [hl] at h1; cases h1
    | some r0 =>
      cases hl' : e.g.lookup x with
      | none => rw [hl'] at h3; cases h3
      | some s0 =>
        rw [hl] at h1; rw [hl'] at h3
        cases h1; cases h3
        simp [RM.clear, Store.empty, linksOfRules]

/-- the manager `rebuildLinks` produces for definition `k` -/
def rebuiltOf (md : ModelDef) (g : List (String × Store)) (k : String) (r : RM) : RM :=
  match md.g.lookup k, g.lookup k with
  | some (count, _), some s => (r.clear.applyRules count true s.policy).1
  | _, _ => r.clear

theorem rebuildLinks_gen (md : ModelDef) (g : List (String × Store)) (l : List (String × RM))
    (acc : List (String × RM))
    (hok : ∀ x ∈ l, ∀ count kind s, md.g.lookup x.1 = some (count, kind) → g.lookup x.1 = some s →
      (x.2.clear.applyRules count true s.policy).2 = true) :
    l.foldl (fun (acc : List (String × RM) × Bool) (x : String × RM) =>
      if !acc.2 then (acc.1 ++ [(x.1, x.2.clear)], false)
      else
        match md.g.lookup x.1, g.lookup x.1 with
        | some (count, _), some s =>
            let (rm', ok) := x.2.clear.applyRules count true s.policy
            (acc.1 ++ [(x.1, rm')], ok)
        | _, _ => (acc.1 ++ [(x.1, x.2.clear)], true)) (acc, true) =
      (acc ++ l.map (fun x => (x.1, rebuiltOf md g x.1 x.2)), true) := by
  induction l generalizing acc with
  | nil => simp
  | cons x l ih =>
    have hok' : ∀ x ∈ l, ∀ count kind s, md.g.lookup x.1 = some (count, kind) → g.lookup x.1 = some s →
        (x.2.clear.applyRules count true s.policy).2 = true :=
      fun y hy => hok y (List.mem_cons_of_mem _ hy)
    rw [List.foldl_cons]
    simp only [Bool.not_true, Bool.false_eq_true, if_false]
    have hx := hok x List.mem_cons_self
    have : (match md.g.lookup x.1, g.lookup x.1 with
        | some (count, _), some s =>
            let (rm', ok) := x.2.clear.applyRules count true s.policy
            (acc ++ [(x.1, rm')], ok)
        | _, _ => (acc ++ [(x.1, x.2.clear)], true)) = (acc ++ [(x.1, rebuiltOf md g x.1 x.2)], true) := by
      unfold rebuiltOf
      split
      · rename_i count kind s h1 h2
        have := hx count kind s h1 h2
        simp only [this]
      · rfl
    rw [this, ih _ hok']
    simp [List.append_assoc]

theorem rebuildLinks_eq (md : ModelDef) (rm : List (String × RM)) (g : List (String × Store))
    (hok : ∀ x ∈ rm, ∀ count kind s, md.g.lookup x.1 = some (count, kind) → g.lookup x.1 = some s →
      (x.2.clear.applyRules count true s.policy).2 = true) :
    Enf.rebuildLinks md rm g = (rm.map (fun x => (x.1, rebuiltOf md g x.1 x.2)), true) := by
  have := rebuildLinks_gen md g rm [] hok
  simp only [List.nil_append] at this
  unfold Enf.rebuildLinks
  exact this

theorem rebuiltOf_kind (md : ModelDef) (g : List (String × Store)) (k : String) (r : RM) :
    (rebuiltOf md g k r).kind = r.kind := by
  unfold rebuiltOf
  split
  · rw [applyRules_kind]; rfl
  · rfl

theorem inv_buildRoleLinks (e : Enf) (hi : Inv e) : Inv e.buildRoleLinks.1 := by
  have hi' := hi
  obtain ⟨⟨a1, a2, a3, a4, a5, a6, a7, a8⟩, hm⟩ := hi
  have hok : ∀ x ∈ e.rm, ∀ count kind s, e.md.g.lookup x.1 = some (count, kind) → e.g.lookup x.1 = some s →
      (x.2.clear.applyRules count true s.policy).2 = true := by
    intro x _ count kind s hd hs
    obtain ⟨g0, hinj, _⟩ := wf_g_info hi'.1 hs hd
    exact (applyRules_add count s.policy x.2.clear
      (fun r hr => by rw [plainRule_length (g0.plain r hr)]; exact Nat.le_refl _) hinj.c2).1
  unfold Enf.buildRoleLinks
  simp only [Enf.invalidate]
  rw [rebuildLinks_eq e.md e.rm e.g hok]
  simp only
  have hr : ∀ x, (e.rm.map (fun x => (x.1, rebuiltOf e.md e.g x.1 x.2))).lookup x =
      (e.rm.lookup x).map (rebuiltOf e.md e.g x) := fun x =>
    lookup_map_snd (fun k (r : RM) => rebuiltOf e.md e.g k r) e.rm x
  refine ⟨⟨a1, a2, ?_, a4, a5, a6, a7, ?_⟩, ?_⟩
  · simp only [List.map_map, Function.comp_def]; exact a3
  · intro x rx hx
    simp only at hx
    rw [hr x] at hx
    cases hl : e.rm.lookup x with
    | none => rw [hl] at hx; cases hx
    | some r0 =>
      rw [hl] at hx; cases hx
      rw [rebuiltOf_kind]
      exact a8 x r0 hl
  · intro x rx c k sx h1 h2 h3 l
    simp only at h1 h2 h3
    rw [hr x] at h1
    cases hl : e.rm.lookup x with
    | none => rw [hl] at h1; cases h1
    | some r0 =>
      rw [hl] at h1; cases h1
      obtain ⟨g0, hinj, _⟩ := wf_g_info hi'.1 h3 h2
      have hk := wf_kind hi'.1 hl h2
      obtain ⟨_, hl2⟩ := applyRules_add c sx.policy r0.clear
        (fun r hr => by rw [plainRule_length (g0.plain r hr)]; exact Nat.le_refl _) hinj.c2
      simp only [rebuiltOf, h2, h3]
      rw [hl2 l]
      simp only [RM.clear, List.not_mem_nil, false_or, hk]

theorem mirror_step' (e : Enf) (op : MOp) (hi : Inv e) (hop : e.opWF op = true) :
    ∃ e' res, e.applyM op = some (e', res) ∧ Inv e' := by
  cases op with
  | add sec pt r =>
    refine ⟨_, _, rfl, ?_⟩
    exact inv_same (sameCore_withNotify _ _ _) (inv_addPolicyWN e sec pt r hi hop)
  | addMany sec pt ex rs =>
    refine ⟨_, _, rfl, ?_⟩
    exact inv_same (sameCore_withNotify _ _ _) (inv_addPoliciesWN e sec pt rs ex hi hop)
  | remove sec pt r =>
    refine ⟨_, _, rfl, ?_⟩
    exact inv_same (sameCore_withNotify _ _ _) (inv_removePolicyWN e sec pt r hi hop)
  | removeMany sec pt rs =>
    refine ⟨_, _, rfl, ?_⟩
    exact inv_same (sameCore_withNotify _ _ _) (inv_removePoliciesWN e sec pt rs hi hop)
  | update sec pt o n =>
    refine ⟨_, _, rfl, ?_⟩
    exact inv_same (sameCore_withNotify _ _ _) (inv_updatePolicyWN e sec pt o n hi hop)
  | updateMany sec pt os ns =>
    refine ⟨_, _, rfl, ?_⟩
    exact inv_same (sameCore_withNotify _ _ _) (inv_updatePoliciesWN e sec pt os ns hi hop)
  | removeFiltered sec pt fi vals =>
    obtain ⟨r, h1, h2⟩ := inv_removeFilteredWN e sec pt fi vals hi hop
    obtain ⟨x, y, happ⟩ : ∃ x y, e.applyM (.removeFiltered sec pt fi vals) = some (Enf.withNotify r x y) := by
      refine ⟨some s!"RemoveFilteredPolicy({sec};{pt};{fi};{Enf.showRule vals})", none, ?_⟩
      rw [Enf.applyM, Enf.removeFiltered, h1]
      rfl
    exact ⟨(Enf.withNotify r x y).1, (Enf.withNotify r x y).2, happ, inv_same (sameCore_withNotify r x y) h2⟩
  | clear => exact ⟨_, _, rfl, inv_clearPolicy e hi⟩
  | buildLinks => exact ⟨_, _, rfl, inv_buildRoleLinks e hi⟩

theorem mirror_hist' (e : Enf) (ops : List MOp) (hi : Inv e) (hops : e.histWF ops = true) :
    ∃ e', e.runM ops = some e' ∧ Inv e' := by
  induction ops generalizing e with
  | nil => exact ⟨e, rfl, hi⟩
  | cons op ops ih =>
    simp only [Enf.histWF, Bool.and_eq_true] at hops
    obtain ⟨e1, res, h1, hi1⟩ := mirror_step' e op hi hops.1
    rw [h1] at hops
    obtain ⟨e2, h2, hi2⟩ := ih e1 hi1 hops.2
    exact ⟨e2, by simp only [Enf.runM, h1, h2], hi2⟩
end Casbin
