import CasbinVerif.Spec.PatternRM
/- helper lemmas for Properties/C05PatternDom.lean -/
namespace Casbin

theorem prmLookup_map_set {β : Type} (doms : List (String × β)) (d d' : String) (x : β) :
    (doms.map (fun p => if p.1 == d then (d, x) else p)).lookup d' =
      if d' = d then (doms.lookup d').map (fun _ => x) else doms.lookup d' := by
  induction doms with
  | nil => simp
  | cons p ps ih =>
    obtain ⟨k, v⟩ := p
    rw [List.map_cons]
    by_cases hkd : k = d
    · subst hkd
      simp only [beq_self_eq_true, if_true]
      rw [List.lookup_cons, List.lookup_cons, ih]
      by_cases hd : d' = k
      · subst hd; simp
      · have : (d' == k) = false := by simpa using hd
        simp [this, hd]
    · have hkd' : (k == d) = false := by simpa using hkd
      simp only [hkd', Bool.false_eq_true, if_false]
      rw [List.lookup_cons, List.lookup_cons, ih]
      by_cases hd : d' = k
      · subst hd; simp [hkd]
      · have : (d' == k) = false := by simpa using hd
        simp [this]

theorem prmLookup_of_any_false {β : Type} (doms : List (String × β)) (d : String)
    (h : doms.any (·.1 == d) = false) : doms.lookup d = none := by
  induction doms with
  | nil => rfl
  | cons p ps ih =>
    obtain ⟨k, v⟩ := p
    simp only [List.any_cons, Bool.or_eq_false_iff] at h
    have hk : (d == k) = false := by
      have := h.1
      simp only [beq_eq_false_iff_ne, ne_eq] at this ⊢
      exact fun e => this e.symm
    simp only [List.lookup_cons, hk]
    exact ih h.2

theorem prmLookup_of_any_true {β : Type} (doms : List (String × β)) (d : String)
    (h : doms.any (·.1 == d) = true) : ∃ y, doms.lookup d = some y := by
  induction doms with
  | nil => simp at h
  | cons p ps ih =>
    obtain ⟨k, v⟩ := p
    simp only [List.lookup_cons]
    by_cases hk : d = k
    · subst hk; exact ⟨v, by simp⟩
    · have hk' : (d == k) = false := by simpa using hk
      simp only [hk']
      simp only [List.any_cons, Bool.or_eq_true, beq_iff_eq] at h
      rcases h with h | h
      · exact absurd h.symm hk
      · exact ih h

namespace PRM

theorem setDom_domFn (rm : PRM) (d : String) (x : PRM1) : (rm.setDom d x).domFn = rm.domFn := by
  unfold setDom; split <;> rfl

theorem setDom_kind (rm : PRM) (d : String) (x : PRM1) : (rm.setDom d x).kind = rm.kind := by
  unfold setDom; split <;> rfl

theorem setDom_matchFn (rm : PRM) (d : String) (x : PRM1) : (rm.setDom d x).matchFn = rm.matchFn := by
  unfold setDom; split <;> rfl

theorem setDom_maxLevel (rm : PRM) (d : String) (x : PRM1) : (rm.setDom d x).maxLevel = rm.maxLevel := by
  unfold setDom; split <;> rfl

theorem lookup_setDom (rm : PRM) (d d' : String) (x : PRM1) :
    (rm.setDom d x).doms.lookup d' = if d' = d then some x else rm.doms.lookup d' := by
  unfold setDom
  split
  · rename_i h
    simp only
    rw [prmLookup_map_set]
    by_cases hd : d' = d
    · subst hd
      obtain ⟨y, hy⟩ := prmLookup_of_any_true _ _ h
      simp [hy]
    · simp [hd]
  · rename_i h
    have h' : rm.doms.any (·.1 == d) = false := Bool.eq_false_iff.2 h
    simp only [List.lookup_append]
    by_cases hd : d' = d
    · subst hd
      simp [prmLookup_of_any_false _ _ h']
    · have : (d' == d) = false := by simpa using hd
      cases rm.doms.lookup d' <;> simp [hd]

theorem getDom_of_none (t : String → String → String → Bool) (rm : PRM) (hf : rm.domFn = none) (d : String) :
    rm.getDom t d = (rm.doms.lookup d).getD {} := by
  unfold getDom
  cases h : rm.doms.lookup d with
  | some x => simp
  | none => simp [hf]

theorem getDom_setDom (t : String → String → String → Bool) (rm : PRM) (hf : rm.domFn = none)
    (d d' : String) (x : PRM1) :
    (rm.setDom d x).getDom t d' = if d' = d then x else rm.getDom t d' := by
  rw [getDom_of_none t _ (by rw [setDom_domFn]; exact hf), getDom_of_none t _ hf, lookup_setDom]
  split <;> simp

theorem affected_of_none (t : String → String → String → Bool) (rm : PRM) (hf : rm.domFn = none) (d : String) :
    rm.affected t d = [] := by
  unfold affected; simp [hf]

theorem addLink_of_none (t : String → String → String → Bool) (rm : PRM) (hf : rm.domFn = none)
    (u r : String) (ds : List String) :
    rm.addLink t u r ds = rm.setDom (rm.dom ds) ((rm.getDom t (rm.dom ds)).addLink u r) := by
  unfold addLink
  simp only
  rw [affected_of_none t _ (by rw [setDom_domFn]; exact hf)]
  rfl

theorem deleteLink_of_none (t : String → String → String → Bool) (rm : PRM) (hf : rm.domFn = none)
    (u r : String) (ds : List String) :
    rm.deleteLink t u r ds = rm.setDom (rm.dom ds) ((rm.getDom t (rm.dom ds)).deleteLink u r) := by
  unfold deleteLink
  simp only
  rw [affected_of_none t _ (by rw [setDom_domFn]; exact hf)]
  rfl

theorem dom_singleton (rm : PRM) (hk : rm.kind = .domain) (d : String) : rm.dom [d] = d := by
  unfold dom; rw [hk]; rfl

end PRM
end Casbin
