import CasbinVerif.Spec.PatternRM
import CasbinVerif.Proofs.RoleGraph
/-
  Helper lemmas for Properties/C05Pattern.lean.
-/
namespace Casbin

namespace PRM1

/-! ### names and edges under withName / addLink / deleteLink -/

theorem withName_edges (rm : PRM1) (n : String) : (rm.withName n).edges = rm.edges := by
  unfold withName
  split <;> rfl

theorem mem_withName_names (rm : PRM1) (n x : String) :
    x ∈ (rm.withName n).names ↔ x ∈ rm.names ∨ x = n := by
  unfold withName
  split
  · rename_i hc
    have hm : n ∈ rm.names := by simpa using hc
    constructor
    · intro h; exact .inl h
    · rintro (h | h)
      · exact h
      · subst h; exact hm
  · simp

theorem mem_withName2_names (rm : PRM1) (u r x : String) :
    x ∈ ((rm.withName u).withName r).names ↔ x ∈ rm.names ∨ x = u ∨ x = r := by
  rw [mem_withName_names, mem_withName_names]
  constructor
  · rintro ((h | h) | h)
    · exact .inl h
    · exact .inr (.inl h)
    · exact .inr (.inr h)
  · rintro (h | h | h)
    · exact .inl (.inl h)
    · exact .inl (.inr h)
    · exact .inr h

theorem withName2_edges (rm : PRM1) (u r : String) : ((rm.withName u).withName r).edges = rm.edges := by
  rw [withName_edges, withName_edges]

theorem mem_addLink_edges (rm : PRM1) (u r : String) (e : String × String) :
    e ∈ (rm.addLink u r).edges ↔ e ∈ rm.edges ∨ e = (u, r) := by
  unfold addLink
  simp only
  split
  · rename_i hc
    have hm : (u, r) ∈ rm.edges := by
      have : (u, r) ∈ ((rm.withName u).withName r).edges := by simpa using hc
      rwa [withName2_edges] at this
    rw [withName2_edges]
    constructor
    · intro h; exact .inl h
    · rintro (h | h)
      · exact h
      · subst h; exact hm
  · simp [withName2_edges]

theorem mem_addLink_names (rm : PRM1) (u r n : String) :
    n ∈ (rm.addLink u r).names ↔ n ∈ rm.names ∨ n = u ∨ n = r := by
  unfold addLink
  simp only
  split
  · exact mem_withName2_names rm u r n
  · exact mem_withName2_names rm u r n

theorem mem_deleteLink_edges (rm : PRM1) (u r : String) (e : String × String) :
    e ∈ (rm.deleteLink u r).edges ↔ e ∈ rm.edges ∧ e ≠ (u, r) := by
  unfold deleteLink
  simp only [withName2_edges, List.mem_filter, bne_iff_ne]

theorem mem_deleteLink_names (rm : PRM1) (u r n : String) :
    n ∈ (rm.deleteLink u r).names ↔ n ∈ rm.names ∨ n = u ∨ n = r := by
  unfold deleteLink
  exact mem_withName2_names rm u r n

/-! ### rangeRoles as a relation on the name set and the link set -/

theorem mem_rolesOf {rm : PRM1} {x y : String} : y ∈ rm.rolesOf x ↔ (x, y) ∈ rm.edges := by
  simp only [rolesOf, List.mem_map, List.mem_filter, beq_iff_eq]
  constructor
  · rintro ⟨⟨a, b⟩, ⟨hm, ha⟩, hb⟩
    simp only at ha hb
    subst ha; subst hb; exact hm
  · intro h; exact ⟨(x, y), ⟨h, rfl⟩, rfl⟩

theorem mem_matched {m : String → String → Bool} {rm : PRM1} {x y : String} :
    y ∈ matched m rm x ↔ y ∈ rm.names ∧ y ≠ x ∧ pmatch m y x = true := by
  simp [matched, List.mem_filter]

theorem mem_matchedBy {m : String → String → Bool} {rm : PRM1} {x y : String} :
    y ∈ matchedBy m rm x ↔ y ∈ rm.names ∧ y ≠ x ∧ pmatch m x y = true := by
  simp [matchedBy, List.mem_filter]

theorem mem_rangeRoles {m : String → String → Bool} {rm : PRM1} {x y : String} :
    y ∈ rangeRoles m rm x ↔
      (x, y) ∈ rm.edges ∨
      (∃ z, (x, z) ∈ rm.edges ∧ y ∈ rm.names ∧ y ≠ z ∧ pmatch m y z = true) ∨
      (∃ z, z ∈ rm.names ∧ z ≠ x ∧ pmatch m x z = true ∧ (z, y) ∈ rm.edges) := by
  simp only [rangeRoles, List.mem_append, List.mem_flatMap, mem_rolesOf, mem_matched, mem_matchedBy]
  constructor
  · rintro ((h | ⟨z, hz, h⟩) | ⟨z, ⟨h1, h2, h3⟩, h4⟩)
    · exact .inl h
    · exact .inr (.inl ⟨z, hz, h⟩)
    · exact .inr (.inr ⟨z, h1, h2, h3, h4⟩)
  · rintro (h | ⟨z, hz, h⟩ | ⟨z, h1, h2, h3, h4⟩)
    · exact .inl (.inl h)
    · exact .inl (.inr ⟨z, hz, h⟩)
    · exact .inr ⟨z, ⟨h1, h2, h3⟩, h4⟩

theorem rangeRoles_mono {m : String → String → Bool} {a b : PRM1} (h : a.le b) {x y : String}
    (hy : y ∈ rangeRoles m a x) : y ∈ rangeRoles m b x := by
  rw [mem_rangeRoles] at hy ⊢
  rcases hy with h1 | ⟨z, h1, h2, h3, h4⟩ | ⟨z, h1, h2, h3, h4⟩
  · exact .inl (h.2 _ h1)
  · exact .inr (.inl ⟨z, h.2 _ h1, h.1 _ h2, h3, h4⟩)
  · exact .inr (.inr ⟨z, h.1 _ h1, h2, h3, h.2 _ h4⟩)

/-! ### le / sameAs -/

theorem le_refl (a : PRM1) : a.le a := ⟨fun _ h => h, fun _ h => h⟩

theorem sameAs_le {a b : PRM1} (h : a.sameAs b) : a.le b :=
  ⟨fun n hn => (h.1 n).1 hn, fun e he => (h.2 e).1 he⟩

theorem sameAs_ge {a b : PRM1} (h : a.sameAs b) : b.le a :=
  ⟨fun n hn => (h.1 n).2 hn, fun e he => (h.2 e).2 he⟩

theorem withName_le {a b : PRM1} (h : a.le b) (n : String) : (a.withName n).le (b.withName n) := by
  refine ⟨fun x hx => ?_, fun e he => ?_⟩
  · rw [mem_withName_names] at hx ⊢
    rcases hx with hx | hx
    · exact .inl (h.1 _ hx)
    · exact .inr hx
  · rw [withName_edges] at he ⊢
    exact h.2 _ he

theorem le_addLink (rm : PRM1) (a b : String) : rm.le (rm.addLink a b) :=
  ⟨fun n hn => (mem_addLink_names rm a b n).2 (.inl hn),
   fun e he => (mem_addLink_edges rm a b e).2 (.inl he)⟩

end PRM1

/-! ### PReach -/

theorem PReach.mono {m : String → String → Bool} {a b : PRM1} (h : a.le b) {target x : String} {k : Nat}
    (hr : PReach m a target x k) : PReach m b target x k := by
  induction hr with
  | here x k hx => exact .here x k hx
  | step x y k hy _ ih => exact .step x y k (PRM1.rangeRoles_mono h hy) ih

theorem pbfs_iff' (m : String → String → Bool) (rm : PRM1) (target : String) (n : Nat) (fr : List String) :
    PRM1.pbfs m rm target fr (n + 1) = true ↔ ∃ x ∈ fr, PReach m rm target x n := by
  induction n generalizing fr with
  | zero =>
    simp only [PRM1.pbfs]
    constructor
    · intro h
      split at h
      · cases h
      · split at h
        · rename_i hc
          obtain ⟨x, hx, hp⟩ := List.any_eq_true.1 hc
          exact ⟨x, hx, .here x 0 hp⟩
        · cases h
    · rintro ⟨x, hx, hr⟩
      cases hr with
      | here _ _ hp =>
        have hne : fr.isEmpty = false := by cases fr <;> simp_all
        have hany : fr.any (fun x => x == target || pmatch m x target) = true :=
          List.any_eq_true.2 ⟨x, hx, hp⟩
        simp [hne, hany]
  | succ n ih =>
    rw [PRM1.pbfs]
    constructor
    · intro h
      split at h
      · cases h
      · split at h
        · rename_i hc
          obtain ⟨x, hx, hp⟩ := List.any_eq_true.1 hc
          exact ⟨x, hx, .here x _ hp⟩
        · obtain ⟨y, hy, hr⟩ := (ih _).1 h
          obtain ⟨x, hx, hyx⟩ := List.mem_flatMap.1 (List.mem_eraseDups.1 hy)
          exact ⟨x, hx, .step x y _ hyx hr⟩
    · rintro ⟨x, hx, hr⟩
      have hne : fr.isEmpty = false := by cases fr <;> simp_all
      simp only [hne]
      by_cases hc : fr.any (fun x => x == target || pmatch m x target) = true
      · simp [hc]
      · simp only [hc]
        cases hr with
        | here _ _ hp => exact absurd (List.any_eq_true.2 ⟨x, hx, hp⟩) hc
        | step _ y _ hy hr' =>
          exact (ih _).2 ⟨y, List.mem_eraseDups.2 (List.mem_flatMap.2 ⟨x, hx, hy⟩), hr'⟩

theorem PRM1.hasLink_iff' (m : String → String → Bool) (rm : PRM1) (u r : String) (L : Nat) :
    rm.hasLink m u r L = true ↔
      (u = r ∨ pmatch m u r = true ∨ PReach m ((rm.withName u).withName r) r u L) := by
  unfold PRM1.hasLink
  by_cases h : (u == r || pmatch m u r) = true
  · simp only [h, if_true, true_iff]
    rcases Bool.or_eq_true _ _ ▸ h with h | h
    · exact .inl (by simpa using h)
    · exact .inr (.inl h)
  · have hb : (u == r || pmatch m u r) = false := by simpa using h
    simp only [hb, Bool.false_eq_true, if_false]
    rw [pbfs_iff']
    have h1 : ¬ u = r := fun e => h (by simp [e])
    have h2 : ¬ pmatch m u r = true := fun e => h (by simp [e])
    simp [h1, h2]

theorem PRM1.hasLink_mono' (m : String → String → Bool) (a b : PRM1) (h : a.le b) (u r : String) (L : Nat)
    (hl : a.hasLink m u r L = true) : b.hasLink m u r L = true := by
  rw [PRM1.hasLink_iff'] at hl ⊢
  rcases hl with hl | hl | hl
  · exact .inl hl
  · exact .inr (.inl hl)
  · exact .inr (.inr (hl.mono (PRM1.withName_le (PRM1.withName_le h u) r)))

/-! ### a matching function that never matches -/

theorem pmatch_noMatch (x y : String) : pmatch (fun _ _ => false) x y = (x == y) := by
  simp [pmatch]

theorem mem_rangeRoles_noMatch {rm : PRM1} {x y : String} :
    y ∈ PRM1.rangeRoles (fun _ _ => false) rm x ↔ (x, y) ∈ rm.edges := by
  rw [PRM1.mem_rangeRoles]
  constructor
  · rintro (h | ⟨z, _, _, h3, h4⟩ | ⟨z, _, h2, h3, _⟩)
    · exact h
    · rw [pmatch_noMatch] at h4
      exact absurd (by simpa using h4) h3
    · rw [pmatch_noMatch] at h3
      exact absurd (by simpa using h3 : x = z).symm h2
  · intro h; exact .inl h

theorem mem_plainLinks {edges : List (String × String)} {x y : String} :
    (x, y, "") ∈ edges.map (fun e => ((e.1, e.2, "") : Link)) ↔ (x, y) ∈ edges := by
  simp only [List.mem_map]
  constructor
  · rintro ⟨⟨a, b⟩, hm, he⟩
    simp only [Prod.mk.injEq] at he
    obtain ⟨ha, hb, _⟩ := he
    subst ha; subst hb; exact hm
  · intro h; exact ⟨(x, y), h, rfl⟩

theorem PReach_noMatch_iff (rm : PRM1) (target x : String) (n : Nat) :
    PReach (fun _ _ => false) rm target x n ↔
      ReachWithin (rm.edges.map (fun e => ((e.1, e.2, "") : Link))) "" n x target := by
  constructor
  · intro h
    induction h with
    | here x k hp =>
      rw [pmatch_noMatch] at hp
      have : x = target := by simpa using hp
      subst this; exact .refl _ _
    | step x y k hy _ ih =>
      exact .step (mem_plainLinks.2 (mem_rangeRoles_noMatch.1 hy)) ih
  · intro h
    induction h with
    | refl n u => exact .here u n (by simp)
    | step he _ ih =>
      exact .step _ _ _ (mem_rangeRoles_noMatch.2 (mem_plainLinks.1 he)) ih

theorem PRM1.noMatch_hasLink' (rm : PRM1) (u r : String) (L : Nat) :
    rm.hasLink (fun _ _ => false) u r L =
      RM.hasLink { kind := .plain, links := rm.edges.map (fun e => (e.1, e.2, "")), maxLevel := L } u r [] := by
  rw [Bool.eq_iff_iff, PRM1.hasLink_iff', hasLink_iff_reach', pmatch_noMatch]
  simp only [RM.dom]
  constructor
  · rintro (h | h | h)
    · subst h; exact .refl _ _
    · have : u = r := by simpa using h
      subst this; exact .refl _ _
    · have := (PReach_noMatch_iff _ _ _ _).1 h
      rwa [PRM1.withName2_edges] at this
  · intro h
    refine .inr (.inr ((PReach_noMatch_iff _ _ _ _).2 ?_))
    rwa [PRM1.withName2_edges]

end Casbin
