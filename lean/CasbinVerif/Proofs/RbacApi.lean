import CasbinVerif.Spec.RbacApi
import CasbinVerif.Properties.C05
import CasbinVerif.Properties.C06
/-
  Helper lemmas for Properties/C05Rbac.lean and Properties/C10Rbac.lean.
-/
namespace Casbin

namespace Rbac

/-- two outcomes of a program are related: both panic, or both return related states and the same
    result -/
def ORel {σ₁ σ₂ : Type} (R : σ₁ → σ₂ → Prop) : Option (σ₁ × Enf.MRes) → Option (σ₂ × Enf.MRes) → Prop
  | none, none => True
  | some (a, r), some (b, r') => R a b ∧ r = r'
  | _, _ => False

theorem ORel.bind {σ₁ σ₂ : Type} {R : σ₁ → σ₂ → Prop} {x : Option (σ₁ × Enf.MRes)} {y : Option (σ₂ × Enf.MRes)}
    {f : σ₁ × Enf.MRes → Option (σ₁ × Enf.MRes)} {g : σ₂ × Enf.MRes → Option (σ₂ × Enf.MRes)}
    (hxy : ORel R x y) (hfg : ∀ a b r, R a b → ORel R (f (a, r)) (g (b, r))) :
    ORel R (x >>= f) (y >>= g) := by
  cases x with
  | none => cases y with
    | none => exact trivial
    | some b => exact hxy.elim
  | some a => cases y with
    | none => obtain ⟨a, r⟩ := a; exact hxy.elim
    | some b =>
      obtain ⟨a, r⟩ := a; obtain ⟨b, r'⟩ := b
      obtain ⟨h1, h2⟩ := hxy
      subst h2
      exact hfg a b r h1

theorem ORel.some {σ₁ σ₂ : Type} {R : σ₁ → σ₂ → Prop} {a : σ₁} {b : σ₂} (h : R a b) (r : Enf.MRes) :
    ORel R (some (a, r)) (some (b, r)) := ⟨h, rfl⟩

theorem steps_shape (e : Enf) (d : String) (op1 : MOp) (op2 : Enf → MOp)
    (h : deleteAllUsersByDomainSteps e d = some (op1, op2)) :
    (∃ rs, op1 = .removeMany "g" "g" rs) ∧ ∀ e', ∃ rs, op2 e' = .removeMany "p" "p" rs := by
  unfold deleteAllUsersByDomainSteps at h
  split at h
  · simp only [Option.some.injEq, Prod.mk.injEq] at h
    obtain ⟨h1, h2⟩ := h
    subst h1; subst h2
    exact ⟨⟨_, rfl⟩, fun e' => ⟨_, rfl⟩⟩
  · exact absurd h (by simp)

section sim
variable {σ₁ σ₂ : Type} (R : σ₁ → σ₂ → Prop)
  (step₁ : σ₁ → MOp → Option (σ₁ × Enf.MRes)) (view₁ : σ₁ → Enf)
  (step₂ : σ₂ → MOp → Option (σ₂ × Enf.MRes)) (view₂ : σ₂ → Enf)
  (hv : ∀ a b, R a b → view₁ a = view₂ b)
  (hs : ∀ a b op, op ≠ .clear → R a b → ORel R (step₁ a op) (step₂ b op))

include hv hs in
theorem sim_deleteAllUsersByDomain (a : σ₁) (b : σ₂) (d : String) (h : R a b) :
    ORel R (deleteAllUsersByDomain step₁ view₁ a d) (deleteAllUsersByDomain step₂ view₂ b d) := by
  unfold deleteAllUsersByDomain
  rw [hv a b h]
  cases hst : deleteAllUsersByDomainSteps (view₂ b) d with
  | none => exact ORel.some h _
  | some ops =>
    obtain ⟨op1, op2⟩ := ops
    obtain ⟨⟨rs1, hop1⟩, hop2⟩ := steps_shape _ _ _ _ hst
    refine ORel.bind (hs a b op1 (by rw [hop1]; simp) h) ?_
    intro a1 b1 r1 h1
    dsimp only
    cases r1.isErr with
    | true => exact ORel.some h1 _
    | false =>
      rw [hv a1 b1 h1]
      obtain ⟨rs2, hop2'⟩ := hop2 (view₂ b1)
      refine ORel.bind (hs a1 b1 _ (by rw [hop2']; simp) h1) ?_
      intro a2 b2 r2 h2
      dsimp only
      cases r2.isErr with
      | true => exact ORel.some h2 _
      | false => exact ORel.some h2 _

include hv hs in
theorem sim_deleteDomainsLoop (ds : List String) : ∀ (a : σ₁) (b : σ₂), R a b →
    ORel R (deleteDomainsLoop step₁ view₁ a ds) (deleteDomainsLoop step₂ view₂ b ds) := by
  induction ds with
  | nil => intro a b h; exact ORel.some h _
  | cons d ds ih =>
    intro a b h
    unfold deleteDomainsLoop
    refine ORel.bind (sim_deleteAllUsersByDomain R step₁ view₁ step₂ view₂ hv hs a b d h) ?_
    intro a1 b1 r1 h1
    dsimp only
    cases r1.isErr with
    | true => exact ORel.some h1 _
    | false => exact ih a1 b1 h1

include hv hs in
/-- the simulation lemma: related step functions give related runs of every convenience call that
    does not issue `ClearPolicy` -/
theorem sim_run (a : σ₁) (b : σ₂) (op : RbacOp) (hop : op ≠ .deleteDomains []) (h : R a b) :
    ORel R (run step₁ view₁ a op) (run step₂ view₂ b op) := by
  cases op with
  | addRoleForUser u r ds => exact hs a b _ (by simp) h
  | addRolesForUser u rs ds => exact hs a b _ (by simp) h
  | deleteRoleForUser u r ds => exact hs a b _ (by simp) h
  | deleteRolesForUser u ds =>
    unfold run
    match ds with
    | [] => exact hs a b _ (by simp) h
    | [d] => exact hs a b _ (by simp) h
    | _ :: _ :: _ => exact ORel.some h _
  | deleteUser u =>
    unfold run
    refine ORel.bind (hs a b _ (by simp) h) ?_
    intro a1 b1 r1 h1
    dsimp only
    cases r1.isErr with
    | true => exact ORel.some h1 _
    | false =>
      rw [hv a1 b1 h1]
      cases fieldIndex (view₂ b1) "sub" with
      | none => exact ORel.some h1 _
      | some si =>
        refine ORel.bind (hs a1 b1 _ (by simp) h1) ?_
        intro a2 b2 r2 h2
        exact ORel.some h2 _
  | deleteRole r =>
    unfold run
    refine ORel.bind (hs a b _ (by simp) h) ?_
    intro a1 b1 r1 h1
    dsimp only
    cases r1.isErr with
    | true => exact ORel.some h1 _
    | false =>
      refine ORel.bind (hs a1 b1 _ (by simp) h1) ?_
      intro a2 b2 r2 h2
      dsimp only
      cases r2.isErr with
      | true => exact ORel.some h2 _
      | false =>
        rw [hv a2 b2 h2]
        cases fieldIndex (view₂ b2) "sub" with
        | none => exact ORel.some h2 _
        | some si =>
          refine ORel.bind (hs a2 b2 _ (by simp) h2) ?_
          intro a3 b3 r3 h3
          exact ORel.some h3 _
  | deletePermission perm => exact hs a b _ (by simp) h
  | addPermissionForUser u perm => exact hs a b _ (by simp) h
  | addPermissionsForUser u perms => exact hs a b _ (by simp) h
  | deletePermissionForUser u perm => exact hs a b _ (by simp) h
  | deletePermissionsForUser u =>
    unfold run
    rw [hv a b h]
    cases fieldIndex (view₂ b) "sub" with
    | none => exact ORel.some h _
    | some si => exact hs a b _ (by simp) h
  | deleteRolesForUserInDomain u d =>
    unfold run
    rw [hv a b h]
    cases (view₂ b).rm.lookup "g" with
    | none => exact ORel.some h _
    | some rm => exact hs a b _ (by simp) h
  | deleteAllUsersByDomain d => exact sim_deleteAllUsersByDomain R step₁ view₁ step₂ view₂ hv hs a b d h
  | deleteDomains ds =>
    unfold run
    match ds with
    | [] => exact absurd rfl hop
    | d :: ds => exact sim_deleteDomainsLoop R step₁ view₁ step₂ view₂ hv hs (d :: ds) a b h

end sim

theorem sim_run_all {σ₁ σ₂ : Type} (R : σ₁ → σ₂ → Prop)
    (step₁ : σ₁ → MOp → Option (σ₁ × Enf.MRes)) (view₁ : σ₁ → Enf)
    (step₂ : σ₂ → MOp → Option (σ₂ × Enf.MRes)) (view₂ : σ₂ → Enf)
    (hv : ∀ a b, R a b → view₁ a = view₂ b)
    (hs : ∀ a b op, R a b → ORel R (step₁ a op) (step₂ b op))
    (a : σ₁) (b : σ₂) (op : RbacOp) (h : R a b) :
    ORel R (run step₁ view₁ a op) (run step₂ view₂ b op) := by
  by_cases hop : op = .deleteDomains []
  · subst hop
    unfold run
    refine ORel.bind (hs a b _ h) ?_
    intro a1 b1 r1 h1
    exact ORel.some h1 _
  · exact sim_run R step₁ view₁ step₂ view₂ hv (fun a b op _ h => hs a b op h) a b op hop h

end Rbac

theorem Enf.runM_append (e : Enf) (ops : List MOp) (op : MOp) (e1 e2 : Enf) (r : Enf.MRes)
    (h1 : e.runM ops = some e1) (h2 : e1.applyM op = some (e2, r)) : e.runM (ops ++ [op]) = some e2 := by
  induction ops generalizing e with
  | nil =>
    simp only [Enf.runM, Option.some.injEq] at h1
    subst h1
    simp only [List.nil_append, Enf.runM, h2]
  | cons o ops ih =>
    simp only [Enf.runM] at h1
    simp only [List.cons_append, Enf.runM]
    cases ha : e.applyM o with
    | none => rw [ha] at h1; exact absurd h1 (by simp)
    | some x =>
      rw [ha] at h1
      exact ih x.1 h1

theorem Enf.histWF_append (e : Enf) (ops : List MOp) (op : MOp) (e1 e2 : Enf) (r : Enf.MRes)
    (h1 : e.runM ops = some e1) (hw : e.histWF ops = true) (h2 : e1.applyM op = some (e2, r))
    (hop : e1.opWF op = true) : e.histWF (ops ++ [op]) = true := by
  induction ops generalizing e with
  | nil =>
    simp only [Enf.runM, Option.some.injEq] at h1
    subst h1
    simp only [List.nil_append, Enf.histWF, h2, hop, Bool.and_self]
  | cons o ops ih =>
    simp only [Enf.runM] at h1
    simp only [Enf.histWF, Bool.and_eq_true] at hw
    simp only [List.cons_append, Enf.histWF, Bool.and_eq_true]
    refine ⟨hw.1, ?_⟩
    cases ha : e.applyM o with
    | none => rw [ha] at h1; exact absurd h1 (by simp)
    | some x =>
      rw [ha] at h1
      have hw2 := hw.2
      rw [ha] at hw2
      exact ih x.1 h1 hw2

namespace Rbac

/-- the relation between the plain run and the instrumented run, started in `e0`: the same state,
    reached by a history of management calls that is well-formed while the flag is up -/
def HistRel (e0 : Enf) (e : Enf) (s : Enf × Bool) : Prop :=
  s.1 = e ∧ ∃ ops, e0.runM ops = some e ∧ (s.2 = true → e0.histWF ops = true)

theorem histRel_step (e0 : Enf) (a : Enf) (b : Enf × Bool) (op : MOp) (h : HistRel e0 a b) :
    ORel (HistRel e0) (a.applyM op) (stepW b op) := by
  obtain ⟨b1, b2⟩ := b
  obtain ⟨h1, ops, h2, h3⟩ := h
  simp only at h1 h3
  subst h1
  unfold stepW
  cases ha : b1.applyM op with
  | none => exact trivial
  | some x =>
    obtain ⟨e', r⟩ := x
    refine ⟨⟨rfl, ops ++ [op], Enf.runM_append e0 ops op b1 e' r h2 ha, ?_⟩, rfl⟩
    intro hb
    simp only [Bool.and_eq_true] at hb
    exact Enf.histWF_append e0 ops op b1 e' r h2 (h3 hb.1) ha hb.2

theorem histRel_run (e : Enf) (op : RbacOp) :
    ORel (HistRel e) (e.applyRbac op) (run stepW (·.1) (e, true) op) := by
  refine sim_run_all (HistRel e) Enf.applyM id stepW (·.1) ?_ (histRel_step e) e (e, true) op ?_
  · intro a b h; exact h.1.symm
  · exact ⟨rfl, [], rfl, fun _ => rfl⟩

end Rbac

end Casbin
