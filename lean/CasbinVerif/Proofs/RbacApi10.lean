import CasbinVerif.Proofs.RbacApi
import CasbinVerif.Properties.C10
/-
  Helper lemmas for Properties/C10Rbac.lean: the auto-save invariant along a convenience call.
-/
namespace Casbin

namespace Rbac

/-- the same state, and the auto-save invariant while the flag is up -/
def InvRel (e : Enf) (s : Enf × Bool) : Prop := s.1 = e ∧ (s.2 = true → C10.Inv e)

theorem invRel_step (a : Enf) (b : Enf × Bool) (op : MOp) (hc : op ≠ .clear) (h : InvRel a b) :
    ORel InvRel (a.applyM op) (stepW b op) := by
  obtain ⟨b1, b2⟩ := b
  obtain ⟨h1, h3⟩ := h
  simp only at h1 h3
  subst h1
  unfold stepW
  cases ha : b1.applyM op with
  | none => exact trivial
  | some x =>
    obtain ⟨e', r⟩ := x
    refine ⟨⟨rfl, ?_⟩, rfl⟩
    intro hb
    simp only [Bool.and_eq_true] at hb
    have h10 : b1.opWF10 op = true := by
      unfold Enf.opWF10
      rw [hb.2]
      cases op <;> first | rfl | exact absurd rfl hc
    obtain ⟨e'', res, h4, h5⟩ := C10.autosave_step b1 op (h3 hb.1) h10
    rw [ha] at h4
    simp only [Option.some.injEq, Prod.mk.injEq] at h4
    rw [h4.1]; exact h5

theorem invRel_run (e : Enf) (op : RbacOp) (hop : op ≠ .deleteDomains []) (h : C10.Inv e) :
    ORel InvRel (e.applyRbac op) (run stepW (·.1) (e, true) op) := by
  refine sim_run InvRel Enf.applyM id stepW (·.1) ?_ invRel_step e (e, true) op hop ?_
  · intro a b h; exact h.1.symm
  · exact ⟨rfl, fun _ => h⟩

end Rbac

end Casbin
