import CasbinVerif.Proofs.RbacApi
import CasbinVerif.Proofs.C11
import CasbinVerif.Proofs.C10Step
/-
  Helper lemmas for `C05Rbac.rbacWF_of_args`: the model definition is not touched by the removing
  management calls, and plain arguments of the right width give well-formed management calls.
-/
namespace Casbin

def MdSame (e e' : Enf) : Prop := e'.md = e.md

theorem MdSame.refl (e : Enf) : MdSame e e := rfl
theorem MdSame.trans {a b c : Enf} (h1 : MdSame a b) (h2 : MdSame b c) : MdSame a c := Eq.trans h2 h1

theorem mdSame_incrLinks_of_eq {e : Enf} {add : Bool} {pt : String} {rules : List Rule} {e1 : Enf} {ok : Bool}
    (h : e.incrLinks add pt rules = (e1, ok)) : MdSame e e1 := by
  have := incrLinks_md e add pt rules
  rw [h] at this
  exact this

theorem mdSame_persist {e : Enf} {entry : String} {eff : AdapterSt → AdapterSt} {e1 : Enf} {ok : Bool}
    (h : (if e.shouldPersist = true then e.adapterCall entry eff else (e, true)) = (e1, ok)) : MdSame e e1 :=
  (sameCore_persist h).md

macro "mdsame_tac" : tactic => `(tactic| (
  try dsimp only
  repeat (first
    | exact MdSame.refl _
    | exact mdSame_persist (by assumption)
    | refine MdSame.trans ?_ (setStore_md _ _ _ _)
    | refine MdSame.trans ?_ (incrLinks_md _ _ _ _)
    | refine MdSame.trans ?_ (mdSame_incrLinks_of_eq (by assumption)))))

theorem mdSame_removeFilteredWN (e : Enf) (sec pt : String) (fi : Nat) (vals : List String)
    (r : Enf × Enf.MRes) : e.removeFilteredWN sec pt fi vals = some r → MdSame e r.1 := by
  unfold Enf.removeFilteredWN
  repeat' first | split | (dsimp only; split)
  all_goals (intro h; cases h)
  all_goals mdsame_tac

theorem mdSame_removeFiltered (e : Enf) (sec pt : String) (fi : Nat) (vals : List String)
    (r : Enf × Enf.MRes) (h : e.removeFiltered sec pt fi vals = some r) : MdSame e r.1 := by
  unfold Enf.removeFiltered at h
  simp only [Option.map_eq_some_iff] at h
  obtain ⟨r0, h0, rfl⟩ := h
  exact (mdSame_removeFilteredWN e sec pt fi vals r0 h0).trans (sameCore_withNotify _ _ _).md

theorem mdSame_removePoliciesWN (e : Enf) (sec pt : String) (rules : List Rule) :
    MdSame e (e.removePoliciesWN sec pt rules).1 := by
  unfold Enf.removePoliciesWN
  repeat' first | split | (dsimp only; split)
  all_goals mdsame_tac

theorem mdSame_removePolicies (e : Enf) (sec pt : String) (rules : List Rule) :
    MdSame e (e.removePolicies sec pt rules).1 :=
  (mdSame_removePoliciesWN e sec pt rules).trans (sameCore_withNotify _ _ _).md

/-! ### well-formed management calls from plain arguments -/

theorem arity_md {e e' : Enf} (h : e'.md = e.md) (sec pt : String) : e'.arity sec pt = e.arity sec pt := by
  unfold Enf.arity; rw [h]

theorem fieldIndex_md {e e' : Enf} (h : e'.md = e.md) (f : String) : Rbac.fieldIndex e' f = Rbac.fieldIndex e f := by
  unfold Rbac.fieldIndex; rw [h]

theorem store_of_arity_g {e : Enf} (hwf : e.WFState) {pt : String} {n : Nat} (h : e.arity "g" pt = some n) :
    ∃ s, e.getStore "g" pt = some s ∧ e.g.lookup pt = some s ∧ Good n s ∧ 2 ≤ n := by
  have h' := h
  simp only [Enf.arity, str_gp, Bool.false_eq_true, if_false, beq_self_eq_true, if_true,
    Option.map_eq_some_iff] at h'
  obtain ⟨⟨c, k⟩, h1, h2⟩ := h'
  simp only at h2; subst h2
  obtain ⟨s, hs⟩ := lookup_some_of_keys (l' := e.g) hwf.2.1 h1
  have hgs : e.getStore "g" pt = some s := by
    simp only [Enf.getStore, Enf.stores, str_gp, beq_self_eq_true, Bool.or_true, if_true,
      Bool.false_eq_true, if_false]
    exact hs
  obtain ⟨_, c', k', hd', h2, _, _, _⟩ := hwf.2.2.2.2.2.2.1 pt s hs
  rw [h1] at hd'; cases hd'
  exact ⟨s, hgs, hs, good_of hwf h hgs, h2⟩

theorem store_of_arity_p {e : Enf} (hwf : e.WFState) {pt : String} {n : Nat} (h : e.arity "p" pt = some n) :
    ∃ s, e.getStore "p" pt = some s ∧ e.p.lookup pt = some s ∧ Good n s := by
  have h' := h
  simp only [Enf.arity, beq_self_eq_true, if_true, Option.map_eq_some_iff] at h'
  obtain ⟨toks, h1, h2⟩ := h'
  obtain ⟨s, hs⟩ := lookup_some_of_keys (l' := e.p) hwf.1 h1
  have hgs : e.getStore "p" pt = some s := by
    simp only [Enf.getStore, Enf.stores, beq_self_eq_true, Bool.true_or, if_true]
    exact hs
  exact ⟨s, hgs, hs, good_of hwf h hgs⟩

theorem sub_lt {e : Enf} {pN si : Nat} (hp : e.arity "p" "p" = some pN) (hs : Rbac.fieldIndex e "sub" = some si) :
    si < pN := by
  simp only [Enf.arity, beq_self_eq_true, if_true, Option.map_eq_some_iff] at hp
  obtain ⟨toks, h1, h2⟩ := hp
  simp only [Rbac.fieldIndex, h1, Option.bind_some] at hs
  subst h2
  unfold List.idxOf? at hs
  exact (List.findIdx?_eq_some_iff_getElem.1 hs).1

theorem opWF_of {e : Enf} {op : MOp} {sec pt : String} {sop : StoreOp} (hop : op.storeOp = some (sec, pt, sop))
    {n : Nat} {s : Store} (har : e.arity sec pt = some n) (hs : e.getStore sec pt = some s)
    (hw : WF06 n s.policy sop = true) : e.opWF op = true := by
  unfold Enf.opWF
  rw [hop]
  simp only [har, hs]
  exact hw

/-- the shape clause of `WF06` for the calls the convenience layer makes -/
def shapeOk (n : Nat) : StoreOp → Bool
  | .add _ | .remove _ | .removeMany _ => true
  | .addMany _ rs => !rs.isEmpty
  | .removeFiltered fi vals => !vals.isEmpty && decide (fi + vals.length ≤ n)
  | _ => false

theorem wf06_of {n : Nat} {s : Store} (g : Good n s) (hn : n ≠ 0) {sop : StoreOp}
    (hr : ∀ r ∈ sop.rules, plainRule n r = true)
    (hsh : shapeOk n sop = true) : WF06 n s.policy sop = true := by
  have h1 : sop.rules.all (plainRule n) = true := List.all_eq_true.2 hr
  have h2 : s.policy.all (plainRule n) = true := List.all_eq_true.2 g.plain
  have h3 : (n != 0) = true := by simpa using hn
  unfold WF06
  rw [h1, h2, h3]
  cases sop <;> simp_all [shapeOk]

/-! ### the context of `rbacArgsOk` along a run -/

structure Ctx (gN pN si : Nat) (e : Enf) : Prop where
  wf : e.WFState
  lm : e.LinksMirror
  g : e.arity "g" "g" = some gN
  p : e.arity "p" "p" = some pN
  sub : Rbac.fieldIndex e "sub" = some si

theorem stepW_ok {e : Enf} (hwf : e.WFState) (hlm : e.LinksMirror) {op : MOp} (hop : e.opWF op = true) :
    ∃ e' r, Rbac.stepW (e, true) op = some ((e', true), r) ∧ e.applyM op = some (e', r) ∧
      e'.WFState ∧ e'.LinksMirror := by
  obtain ⟨e', r, h1, h2, h3⟩ := C05.mirror_step e op hwf hlm hop
  refine ⟨e', r, ?_, h1, h2, h3⟩
  simp only [Rbac.stepW, h1, hop, Option.map_some, Bool.and_self]

theorem Ctx.step {gN pN si : Nat} {e : Enf} (c : Ctx gN pN si e) {op : MOp} (hop : e.opWF op = true)
    (hmd : ∀ e' r, e.applyM op = some (e', r) → e'.md = e.md) :
    ∃ e' r, Rbac.stepW (e, true) op = some ((e', true), r) ∧ Ctx gN pN si e' := by
  obtain ⟨e', r, h1, h2, h3, h4⟩ := stepW_ok c.wf c.lm hop
  have h5 := hmd e' r h2
  exact ⟨e', r, h1, h3, h4, (arity_md h5 _ _).trans c.g, (arity_md h5 _ _).trans c.p,
    (fieldIndex_md h5 _).trans c.sub⟩

theorem md_removeFiltered {e : Enf} {sec pt : String} {fi : Nat} {vals : List String} :
    ∀ e' r, e.applyM (.removeFiltered sec pt fi vals) = some (e', r) → e'.md = e.md :=
  fun e' r h => mdSame_removeFiltered e sec pt fi vals (e', r) h

theorem md_removeMany {e : Enf} {sec pt : String} {rs : List Rule} :
    ∀ e' r, e.applyM (.removeMany sec pt rs) = some (e', r) → e'.md = e.md := by
  intro e' r h
  simp only [Enf.applyM, Option.some.injEq] at h
  have := mdSame_removePolicies e sec pt rs
  rw [h] at this
  exact this

theorem Ctx.wf_g {gN pN si : Nat} {e : Enf} (c : Ctx gN pN si e) {op : MOp} {sop : StoreOp}
    (hop : op.storeOp = some ("g", "g", sop))
    (hr : ∀ r ∈ sop.rules, plainRule gN r = true)
    (hsh : shapeOk gN sop = true) : e.opWF op = true := by
  obtain ⟨s, h1, _, h2, h3⟩ := store_of_arity_g c.wf c.g
  exact opWF_of hop c.g h1 (wf06_of h2 (by omega) hr hsh)

theorem Ctx.wf_p {gN pN si : Nat} {e : Enf} (c : Ctx gN pN si e) {op : MOp} {sop : StoreOp}
    (hop : op.storeOp = some ("p", "p", sop))
    (hr : ∀ r ∈ sop.rules, plainRule pN r = true)
    (hsh : shapeOk pN sop = true) : e.opWF op = true := by
  obtain ⟨s, h1, _, h2⟩ := store_of_arity_p c.wf c.p
  have := sub_lt c.p c.sub
  exact opWF_of hop c.p h1 (wf06_of h2 (by omega) hr hsh)

theorem mem_rulesOfDomain {i : Nat} {l : List Rule} {d : String} {r : Rule} (h : r ∈ Rbac.rulesOfDomain i l d) :
    r ∈ l := by
  unfold Rbac.rulesOfDomain at h
  split at h
  · cases h
  · split at h
    · cases h
    · exact (List.mem_filter.1 h).1

theorem steps_shape' (e : Enf) (d : String) (op1 : MOp) (op2 : Enf → MOp)
    (h : Rbac.deleteAllUsersByDomainSteps e d = some (op1, op2)) :
    (∃ gs, e.getStore "g" "g" = some gs ∧ op1 = .removeMany "g" "g" (Rbac.rulesOfDomain 2 gs.policy d)) ∧
    ∃ index, ∀ e', op2 e' = .removeMany "p" "p" (Rbac.rulesOfDomain index (e'.listed "p" "p") d) := by
  unfold Rbac.deleteAllUsersByDomainSteps at h
  split at h
  · rename_i gs _ index hg _ _
    simp only [Option.some.injEq, Prod.mk.injEq] at h
    obtain ⟨h1, h2⟩ := h
    subst h1; subst h2
    exact ⟨⟨gs, hg, rfl⟩, index, fun e' => rfl⟩
  · exact absurd h (by simp)

theorem Ctx.deleteAllUsersByDomain {gN pN si : Nat} {e : Enf} (c : Ctx gN pN si e) (d : String) :
    ∃ e' r, Rbac.deleteAllUsersByDomain Rbac.stepW (·.1) (e, true) d = some ((e', true), r) ∧ Ctx gN pN si e' := by
  unfold Rbac.deleteAllUsersByDomain
  cases hst : Rbac.deleteAllUsersByDomainSteps e d with
  | none => exact ⟨e, _, rfl, c⟩
  | some ops =>
    obtain ⟨op1, op2⟩ := ops
    obtain ⟨⟨gs, hgs, hop1⟩, index, hop2⟩ := steps_shape' _ _ _ _ hst
    subst hop1
    obtain ⟨s, h1, _, h2, h3⟩ := store_of_arity_g c.wf c.g
    rw [hgs] at h1; cases h1
    have w1 : e.opWF (.removeMany "g" "g" (Rbac.rulesOfDomain 2 gs.policy d)) = true :=
      c.wf_g rfl (fun r hr => h2.plain r (mem_rulesOfDomain hr)) rfl
    obtain ⟨e1, r1, hs1, c1⟩ := c.step w1 md_removeMany
    simp only [hs1, Option.bind_eq_bind, Option.bind_some]
    cases r1.isErr with
    | true => exact ⟨e1, _, rfl, c1⟩
    | false =>
      simp only [Bool.false_eq_true, if_false]
      rw [hop2 e1]
      obtain ⟨s', h1', h1'', h2'⟩ := store_of_arity_p c1.wf c1.p
      have hl : e1.listed "p" "p" = s'.policy := by simp only [Enf.listed, h1', Option.map_some, Option.getD_some]
      have w2 : e1.opWF (.removeMany "p" "p" (Rbac.rulesOfDomain index (e1.listed "p" "p") d)) = true :=
        c1.wf_p rfl (fun r hr => h2'.plain r (by rw [hl] at hr; exact mem_rulesOfDomain hr)) rfl
      obtain ⟨e2, r2, hs2, c2⟩ := c1.step w2 md_removeMany
      simp only [hs2, Option.bind_some]
      cases r2.isErr with
      | true => exact ⟨e2, _, rfl, c2⟩
      | false => exact ⟨e2, _, rfl, c2⟩

theorem Ctx.deleteDomainsLoop {gN pN si : Nat} (ds : List String) : ∀ {e : Enf}, Ctx gN pN si e →
    ∃ e' r, Rbac.deleteDomainsLoop Rbac.stepW (·.1) (e, true) ds = some ((e', true), r) ∧ Ctx gN pN si e' := by
  induction ds with
  | nil => intro e c; exact ⟨e, _, rfl, c⟩
  | cons d ds ih =>
    intro e c
    unfold Rbac.deleteDomainsLoop
    obtain ⟨e1, r1, h1, c1⟩ := c.deleteAllUsersByDomain d
    simp only [h1, Option.bind_eq_bind, Option.bind_some]
    cases r1.isErr with
    | true => exact ⟨e1, _, rfl, c1⟩
    | false =>
      simp only [Bool.false_eq_true, if_false]
      exact ih c1

theorem linkOf_role_commaFree {count : Nat} {kind : RMKind} {rule : Rule} {l : Link}
    (h : linkOf count kind rule = some l) (hp : rule.all commaFree = true) : commaFree l.2.1 = true := by
  unfold linkOf at h
  split at h
  · rename_i u v ds hl
    cases h
    simp only
    unfold linkOfRule at hl
    split at hl
    · cases hl
    · dsimp only at hl
      split at hl
      · rename_i u' v' ds' ht
        cases hl
        have : v ∈ rule := List.mem_of_mem_take (by rw [ht]; simp)
        exact List.all_eq_true.1 hp v this
      · cases hl
  · cases h

theorem Ctx.roles_commaFree {gN pN si : Nat} {e : Enf} (c : Ctx gN pN si e) {rm : RM}
    (hrm : e.rm.lookup "g" = some rm) {u d r : String} (hr : r ∈ rm.getRoles u [d]) : commaFree r = true := by
  obtain ⟨s, _, hgs, hgood, _⟩ := store_of_arity_g c.wf c.g
  have h' := c.g
  simp only [Enf.arity, str_gp, Bool.false_eq_true, if_false, beq_self_eq_true, if_true,
    Option.map_eq_some_iff] at h'
  obtain ⟨⟨cnt, k⟩, h1, h2⟩ := h'
  simp only at h2; subst h2
  have hm := c.lm "g" rm cnt k s hrm h1 hgs
  unfold RM.getRoles at hr
  rw [List.mem_eraseDups] at hr
  unfold RM.succs at hr
  simp only [List.mem_map, List.mem_filter] at hr
  obtain ⟨l, ⟨hl, _⟩, rfl⟩ := hr
  obtain ⟨rule, hrule, hlo⟩ := mem_linksOfRules.1 ((hm l).1 hl)
  have hp := hgood.plain rule hrule
  simp only [plainRule, Bool.and_eq_true] at hp
  exact linkOf_role_commaFree hlo hp.2

theorem rbacWF_of_args' (e : Enf) (op : RbacOp) (hwf : e.WFState) (hm : e.LinksMirror)
    (h : e.rbacArgsOk op = true) : e.rbacWF op = true := by
  unfold Enf.rbacArgsOk at h
  split at h
  · rename_i gN pN si hg hp hsub
    have c : Ctx gN pN si e := ⟨hwf, hm, hg, hp, hsub⟩
    have hsi := sub_lt hp hsub
    have fin : ∀ {mop : MOp}, e.opWF mop = true →
        (match Rbac.stepW (e, true) mop with | some ((_, ok), _) => ok | none => false) = true := by
      intro mop hw
      obtain ⟨e', r, h1, _⟩ := stepW_ok hwf hm hw
      rw [h1]
    cases op with
    | addRoleForUser u r ds =>
      simp only at h
      have w : e.opWF (.add "g" "g" (u :: r :: ds)) = true :=
        c.wf_g (sop := .add (u :: r :: ds)) rfl (by simpa [StoreOp.rules] using h) rfl
      exact fin w
    | addRolesForUser u rs ds =>
      simp only [Bool.and_eq_true, List.all_eq_true] at h
      have w : e.opWF (.addMany "g" "g" false (rs.map (fun r => u :: r :: ds))) = true :=
        c.wf_g (sop := .addMany false (rs.map (fun r => u :: r :: ds))) rfl
          (by
            intro x hx
            simp only [StoreOp.rules, List.mem_map] at hx
            obtain ⟨r, hr, rfl⟩ := hx
            exact h.2 r hr)
          (by simpa [shapeOk] using h.1)
      exact fin w
    | deleteRoleForUser u r ds =>
      simp only at h
      have w : e.opWF (.remove "g" "g" (u :: r :: ds)) = true :=
        c.wf_g (sop := .remove (u :: r :: ds)) rfl (by simpa [StoreOp.rules] using h) rfl
      exact fin w
    | deleteRolesForUser u ds =>
      have h2 := (store_of_arity_g c.wf c.g).choose_spec.2.2.2
      match ds, h with
      | [], _ =>
        have w : e.opWF (.removeFiltered "g" "g" 0 [u]) = true :=
          c.wf_g (sop := .removeFiltered 0 [u]) rfl (by simp [StoreOp.rules]) (by simp [shapeOk]; omega)
        exact fin w
      | [d], h =>
        simp only [beq_iff_eq] at h
        have w : e.opWF (.removeFiltered "g" "g" 0 [u, "", d]) = true :=
          c.wf_g (sop := .removeFiltered 0 [u, "", d]) rfl (by simp [StoreOp.rules]) (by simp [shapeOk]; omega)
        exact fin w
      | _ :: _ :: _, _ => rfl
    | deletePermission perm =>
      simp only [Bool.and_eq_true, decide_eq_true_eq] at h
      have w : e.opWF (.removeFiltered "p" "p" 1 perm) = true :=
        c.wf_p (sop := .removeFiltered 1 perm) rfl (by simp [StoreOp.rules]) (by simpa [shapeOk] using h)
      exact fin w
    | addPermissionForUser u perm =>
      simp only at h
      have w : e.opWF (.add "p" "p" (u :: perm)) = true :=
        c.wf_p (sop := .add (u :: perm)) rfl (by simpa [StoreOp.rules] using h) rfl
      exact fin w
    | addPermissionsForUser u perms =>
      simp only [Bool.and_eq_true, List.all_eq_true] at h
      have w : e.opWF (.addMany "p" "p" false (perms.map (fun p => u :: p))) = true :=
        c.wf_p (sop := .addMany false (perms.map (fun p => u :: p))) rfl
          (by
            intro x hx
            simp only [StoreOp.rules, List.mem_map] at hx
            obtain ⟨r, hr, rfl⟩ := hx
            exact h.2 r hr)
          (by simpa [shapeOk] using h.1)
      exact fin w
    | deletePermissionForUser u perm =>
      simp only at h
      have w : e.opWF (.remove "p" "p" (u :: perm)) = true :=
        c.wf_p (sop := .remove (u :: perm)) rfl (by simpa [StoreOp.rules] using h) rfl
      exact fin w
    | deletePermissionsForUser u =>
      have w : e.opWF (.removeFiltered "p" "p" si [u]) = true :=
        c.wf_p (sop := .removeFiltered si [u]) rfl (by simp [StoreOp.rules]) (by simp [shapeOk]; omega)
      have := fin w
      simp only [Enf.rbacWF, Rbac.run, hsub]
      exact this
    | deleteRolesForUserInDomain u d =>
      simp only [Bool.and_eq_true, beq_iff_eq] at h
      obtain ⟨⟨h3, hu⟩, hd⟩ := h
      cases hrm : e.rm.lookup "g" with
      | none => simp only [Enf.rbacWF, Rbac.run, hrm]
      | some rm =>
        simp only [Enf.rbacWF, Rbac.run, hrm]
        have w : e.opWF (.removeMany "g" "g" ((rm.getRoles u [d]).map (fun r => [u, r, d]))) = true :=
          c.wf_g (sop := .removeMany ((rm.getRoles u [d]).map (fun r => [u, r, d]))) rfl
            (by
              intro x hx
              simp only [StoreOp.rules, List.mem_map] at hx
              obtain ⟨r, hr, rfl⟩ := hx
              have := c.roles_commaFree hrm hr
              simp [plainRule, h3, hu, hd, this])
            rfl
        exact fin w
    | deleteAllUsersByDomain d =>
      obtain ⟨e', r, h1, _⟩ := c.deleteAllUsersByDomain d
      simp only [Enf.rbacWF, Rbac.run, h1]
    | deleteDomains ds =>
      match ds with
      | [] =>
        have w : e.opWF .clear = true := rfl
        obtain ⟨e', r, h1, _⟩ := stepW_ok hwf hm w
        simp only [Enf.rbacWF, Rbac.run, h1, Option.bind_eq_bind, Option.bind_some]
        rfl
      | d :: ds =>
        obtain ⟨e', r, h1, _⟩ := Ctx.deleteDomainsLoop (d :: ds) c
        simp only [Enf.rbacWF, Rbac.run, h1]
    | deleteUser u =>
      have h2 := (store_of_arity_g c.wf c.g).choose_spec.2.2.2
      have w : e.opWF (.removeFiltered "g" "g" 0 [u]) = true :=
        c.wf_g (sop := .removeFiltered 0 [u]) rfl (by simp [StoreOp.rules]) (by simp [shapeOk]; omega)
      obtain ⟨e1, r1, hs1, c1⟩ := c.step w md_removeFiltered
      simp only [Enf.rbacWF, Rbac.run, hs1, Option.bind_eq_bind, Option.bind_some]
      cases r1.isErr with
      | true => rfl
      | false =>
        simp only [Bool.false_eq_true, if_false, c1.sub]
        have w2 : e1.opWF (.removeFiltered "p" "p" si [u]) = true :=
          c1.wf_p (sop := .removeFiltered si [u]) rfl (by simp [StoreOp.rules]) (by simp [shapeOk]; omega)
        obtain ⟨e2, r2, hs2, _⟩ := stepW_ok c1.wf c1.lm w2
        simp only [hs2, Option.bind_some]
        rfl
    | deleteRole r =>
      have h2 := (store_of_arity_g c.wf c.g).choose_spec.2.2.2
      have w : e.opWF (.removeFiltered "g" "g" 0 [r]) = true :=
        c.wf_g (sop := .removeFiltered 0 [r]) rfl (by simp [StoreOp.rules]) (by simp [shapeOk]; omega)
      obtain ⟨e1, r1, hs1, c1⟩ := c.step w md_removeFiltered
      simp only [Enf.rbacWF, Rbac.run, hs1, Option.bind_eq_bind, Option.bind_some]
      cases r1.isErr with
      | true => rfl
      | false =>
        simp only [Bool.false_eq_true, if_false]
        have w1 : e1.opWF (.removeFiltered "g" "g" 1 [r]) = true :=
          c1.wf_g (sop := .removeFiltered 1 [r]) rfl (by simp [StoreOp.rules]) (by simp [shapeOk]; omega)
        obtain ⟨e2, r2, hs2, c2⟩ := c1.step w1 md_removeFiltered
        simp only [hs2, Option.bind_some]
        cases r2.isErr with
        | true => rfl
        | false =>
          simp only [Bool.false_eq_true, if_false, c2.sub]
          have w2 : e2.opWF (.removeFiltered "p" "p" si [r]) = true :=
            c2.wf_p (sop := .removeFiltered si [r]) rfl (by simp [StoreOp.rules]) (by simp [shapeOk]; omega)
          obtain ⟨e3, r3, hs3, _⟩ := stepW_ok c2.wf c2.lm w2
          simp only [hs3, Option.bind_some]
          rfl
  · cases h

end Casbin
