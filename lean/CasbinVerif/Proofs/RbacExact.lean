import CasbinVerif.Proofs.RbacArgs
/-
  Helper lemmas for the exactness theorems of Properties/C05Rbac.lean: what a filtered removal that
  reports no error leaves listed.
-/
namespace Casbin

theorem incrLinks_pg (e : Enf) (add : Bool) (pt : String) (rules : List Rule) :
    (e.incrLinks add pt rules).1.p = e.p ∧ (e.incrLinks add pt rules).1.g = e.g := by
  unfold Enf.incrLinks
  simp only [Enf.invalidate]
  split <;> exact ⟨rfl, rfl⟩

theorem getStore_g (e : Enf) (pt : String) : e.getStore "g" pt = e.g.lookup pt := by
  simp only [Enf.getStore, Enf.stores, str_gp, beq_self_eq_true, Bool.or_true, if_true,
    Bool.false_eq_true, if_false]

theorem getStore_p (e : Enf) (pt : String) : e.getStore "p" pt = e.p.lookup pt := by
  simp only [Enf.getStore, Enf.stores, beq_self_eq_true, Bool.true_or, if_true]

/-- what a filtered removal on a grouping definition that reports no error leaves -/
structure PostG (e e' : Enf) (pt : String) (l : List Rule) : Prop where
  md : e'.md = e.md
  p : e'.p = e.p
  g : ∃ s', e'.g.lookup pt = some s' ∧ s'.policy = l

structure PostP (e e' : Enf) (pt : String) (l : List Rule) : Prop where
  md : e'.md = e.md
  g : e'.g = e.g
  p : ∃ s', e'.p.lookup pt = some s' ∧ s'.policy = l

theorem removeFilteredWN_g_exact {e : Enf} {pt : String} {fi : Nat} {vals : List String} {n : Nat} {s : Store}
    (g0 : Good n s) (hs : e.g.lookup pt = some s) (hfl : fi + vals.length ≤ n) (hn : n ≠ 0)
    {r0 : Enf × Enf.MRes} (h : e.removeFilteredWN "g" pt fi vals = some r0) (hok : r0.2.isErr = false) :
    PostG e r0.1 pt (s.policy.filter (fun r => !filterMatches fi vals r)) := by
  unfold Enf.removeFilteredWN at h
  split at h
  · cases h; cases hok
  split at h
  rename_i e1 okA hp
  have sc := sameCore_persist hp
  split at h
  · cases h; cases hok
  rw [getStore_g, sc.g, hs] at h
  obtain ⟨s', b, eff, hrf, g1, hspec⟩ := removeFiltered_spec hn g0 fi vals hfl
  simp only [SpecStore.apply] at hspec
  have hpol : s'.policy = s.policy.filter (fun r => !filterMatches fi vals r) := (Prod.mk.inj hspec).1
  simp only [hrf] at h
  have base : PostG e (e1.setStore "g" pt s') pt (s.policy.filter (fun r => !filterMatches fi vals r)) := by
    refine ⟨(setStore_md _ _ _ _).trans sc.md, ?_, s', ?_, hpol⟩
    · simp only [Enf.setStore, str_gp, Bool.false_eq_true, if_false]; exact sc.p
    · simp only [Enf.setStore, str_gp, Bool.false_eq_true, if_false]; exact lookup_assocSet_self _ _ _
  cases b with
  | false =>
    simp only [Option.some.injEq] at h
    subst h
    exact base
  | true =>
    simp only [beq_self_eq_true, if_true] at h
    have h2 := incrLinks_pg (e1.setStore "g" pt s') false pt eff
    have h3 := incrLinks_md (e1.setStore "g" pt s') false pt eff
    have : PostG e ((e1.setStore "g" pt s').incrLinks false pt eff).1 pt
        (s.policy.filter (fun r => !filterMatches fi vals r)) := by
      refine ⟨h3.trans base.md, h2.1.trans base.p, ?_⟩
      rw [h2.2]; exact base.g
    split at h <;> (simp only [Option.some.injEq] at h; subst h)
    · exact this
    · cases hok

theorem removeFilteredWN_p_exact {e : Enf} {pt : String} {fi : Nat} {vals : List String} {n : Nat} {s : Store}
    (g0 : Good n s) (hs : e.p.lookup pt = some s) (hfl : fi + vals.length ≤ n) (hn : n ≠ 0)
    {r0 : Enf × Enf.MRes} (h : e.removeFilteredWN "p" pt fi vals = some r0) (hok : r0.2.isErr = false) :
    PostP e r0.1 pt (s.policy.filter (fun r => !filterMatches fi vals r)) := by
  unfold Enf.removeFilteredWN at h
  split at h
  · cases h; cases hok
  split at h
  rename_i e1 okA hp
  have sc := sameCore_persist hp
  split at h
  · cases h; cases hok
  rw [getStore_p, sc.p, hs] at h
  obtain ⟨s', b, eff, hrf, g1, hspec⟩ := removeFiltered_spec hn g0 fi vals hfl
  simp only [SpecStore.apply] at hspec
  have hpol : s'.policy = s.policy.filter (fun r => !filterMatches fi vals r) := (Prod.mk.inj hspec).1
  simp only [hrf] at h
  have base : PostP e (e1.setStore "p" pt s') pt (s.policy.filter (fun r => !filterMatches fi vals r)) := by
    refine ⟨(setStore_md _ _ _ _).trans sc.md, ?_, s', ?_, hpol⟩
    · simp only [Enf.setStore, beq_self_eq_true, if_true]; exact sc.g
    · simp only [Enf.setStore, beq_self_eq_true, if_true]; exact lookup_assocSet_self _ _ _
  cases b with
  | false =>
    simp only [Option.some.injEq] at h
    subst h
    exact base
  | true =>
    simp only [str_pg, Bool.false_eq_true, if_false, Option.some.injEq] at h
    subst h
    exact base

theorem withNotify_isErr (r : Enf × Enf.MRes) (x y : Option String) : (Enf.withNotify r x y).2.isErr = r.2.isErr := by
  unfold Enf.withNotify
  split
  · split <;> rfl
  · rfl

theorem removeFiltered_g_exact {e : Enf} {pt : String} {fi : Nat} {vals : List String} {n : Nat} {s : Store}
    (g0 : Good n s) (hs : e.g.lookup pt = some s) (hfl : fi + vals.length ≤ n) (hn : n ≠ 0)
    {e' : Enf} {res : Enf.MRes} (h : e.removeFiltered "g" pt fi vals = some (e', res)) (hok : res.isErr = false) :
    PostG e e' pt (s.policy.filter (fun r => !filterMatches fi vals r)) := by
  unfold Enf.removeFiltered at h
  simp only [Option.map_eq_some_iff] at h
  obtain ⟨r0, h0, h1⟩ := h
  have hE := withNotify_isErr r0 (some s!"RemoveFilteredPolicy({"g"};{pt};{fi};{Enf.showRule vals})") none
  have sc := sameCore_withNotify r0 (some s!"RemoveFilteredPolicy({"g"};{pt};{fi};{Enf.showRule vals})") none
  rw [h1] at hE sc
  have := removeFilteredWN_g_exact g0 hs hfl hn h0 (by rw [← hE]; exact hok)
  exact ⟨sc.md.trans this.md, sc.p.trans this.p, by rw [sc.g]; exact this.g⟩

theorem removeFiltered_p_exact {e : Enf} {pt : String} {fi : Nat} {vals : List String} {n : Nat} {s : Store}
    (g0 : Good n s) (hs : e.p.lookup pt = some s) (hfl : fi + vals.length ≤ n) (hn : n ≠ 0)
    {e' : Enf} {res : Enf.MRes} (h : e.removeFiltered "p" pt fi vals = some (e', res)) (hok : res.isErr = false) :
    PostP e e' pt (s.policy.filter (fun r => !filterMatches fi vals r)) := by
  unfold Enf.removeFiltered at h
  simp only [Option.map_eq_some_iff] at h
  obtain ⟨r0, h0, h1⟩ := h
  have hE := withNotify_isErr r0 (some s!"RemoveFilteredPolicy({"p"};{pt};{fi};{Enf.showRule vals})") none
  have sc := sameCore_withNotify r0 (some s!"RemoveFilteredPolicy({"p"};{pt};{fi};{Enf.showRule vals})") none
  rw [h1] at hE sc
  have := removeFilteredWN_p_exact g0 hs hfl hn h0 (by rw [← hE]; exact hok)
  exact ⟨sc.md.trans this.md, sc.g.trans this.g, by rw [sc.p]; exact this.p⟩

/-- a filtered removal that reports no error addressed an existing definition -/
theorem removeFiltered_store {e : Enf} {sec pt : String} {fi : Nat} {vals : List String}
    {e' : Enf} {res : Enf.MRes} (h : e.removeFiltered sec pt fi vals = some (e', res)) (hok : res.isErr = false) :
    ∃ s, e.getStore sec pt = some s := by
  unfold Enf.removeFiltered at h
  simp only [Option.map_eq_some_iff] at h
  obtain ⟨r0, h0, h1⟩ := h
  have hE := withNotify_isErr r0 (some s!"RemoveFilteredPolicy({sec};{pt};{fi};{Enf.showRule vals})") none
  rw [h1] at hE
  have hok0 : r0.2.isErr = false := by rw [← hE]; exact hok
  unfold Enf.removeFilteredWN at h0
  split at h0
  · cases h0; cases hok0
  split at h0
  rename_i e1 okA hp
  have sc := sameCore_persist hp
  split at h0
  · cases h0; cases hok0
  rw [sc.getStore] at h0
  cases hs : e.getStore sec pt with
  | none => rw [hs] at h0; simp only [Option.some.injEq] at h0; subst h0; cases hok0
  | some s => exact ⟨s, rfl⟩

theorem not_filterMatches_single (fi : Nat) (v : String) (hv : v ≠ "") (r : Rule) :
    (!filterMatches fi [v] r) = (r.getD fi "" != v) := by
  have hv' : (v == "") = false := by simpa using hv
  simp only [filterMatches, List.zipIdx_cons, List.zipIdx_nil, List.all_cons, List.all_nil, Bool.and_true, hv',
    Bool.false_or, List.getD_eq_getElem?_getD]
  cases h : r[fi]? with
  | none => simp [Ne.symm hv]
  | some a => simp only [Option.getD_some, bne, Option.some_beq_some]

theorem listed_g (e : Enf) (pt : String) : e.listed "g" pt = ((e.g.lookup pt).map (·.policy)).getD [] := by
  simp only [Enf.listed, getStore_g]

theorem listed_p (e : Enf) (pt : String) : e.listed "p" pt = ((e.p.lookup pt).map (·.policy)).getD [] := by
  simp only [Enf.listed, getStore_p]

theorem wf_g_store {e : Enf} (hwf : e.WFState) {pt : String} {s : Store} (hs : e.g.lookup pt = some s) :
    ∃ n, Good n s ∧ 2 ≤ n ∧ e.arity "g" pt = some n := by
  obtain ⟨hc, c, k, hd, h2, _, _, hp⟩ := hwf.2.2.2.2.2.2.1 pt s hs
  refine ⟨c, ⟨hc, hp⟩, h2, ?_⟩
  simp only [Enf.arity, str_gp, Bool.false_eq_true, if_false, beq_self_eq_true, if_true, hd, Option.map_some]

theorem wf_p_store {e : Enf} (hwf : e.WFState) {pt : String} {s : Store} (hs : e.p.lookup pt = some s) :
    ∃ n, Good n s ∧ e.arity "p" pt = some n := by
  obtain ⟨hc, toks, hd, hp⟩ := hwf.2.2.2.2.2.1 pt s hs
  refine ⟨toks.length, ⟨hc, hp⟩, ?_⟩
  simp only [Enf.arity, beq_self_eq_true, if_true, hd, Option.map_some]

theorem rf_g_step {e : Enf} (hwf : e.WFState) (hlm : e.LinksMirror) {fi : Nat} {v : String} (hv : v ≠ "") (hfi : fi < 2)
    {e' : Enf} {res : Enf.MRes} (h : e.removeFiltered "g" "g" fi [v] = some (e', res)) (hok : res.isErr = false) :
    e'.WFState ∧ e'.LinksMirror ∧ e'.md = e.md ∧ e'.p = e.p ∧
      e'.listed "g" "g" = (e.listed "g" "g").filter (fun r => r.getD fi "" != v) := by
  obtain ⟨s, hs⟩ := removeFiltered_store h hok
  have hs' := hs
  rw [getStore_g] at hs'
  obtain ⟨n, g0, h2, har⟩ := wf_g_store hwf hs'
  have hfl : fi + [v].length ≤ n := by simp only [List.length_cons, List.length_nil]; omega
  have hop : e.opWF (.removeFiltered "g" "g" fi [v]) = true :=
    opWF_of (sop := .removeFiltered fi [v]) rfl har hs
      (wf06_of g0 (by omega) (by simp [StoreOp.rules]) (by simp only [shapeOk]; simpa using hfl))
  obtain ⟨e'', res'', h1, hw, hl⟩ := C05.mirror_step e _ hwf hlm hop
  simp only [Enf.applyM] at h1
  rw [h] at h1
  simp only [Option.some.injEq, Prod.mk.injEq] at h1
  obtain ⟨rfl, rfl⟩ := h1
  have post := removeFiltered_g_exact g0 hs' hfl (by omega) h hok
  obtain ⟨s', hs1, hpol⟩ := post.g
  refine ⟨hw, hl, post.md, post.p, ?_⟩
  simp only [listed_g, hs1, hs', Option.map_some, Option.getD_some, hpol]
  exact List.filter_congr (fun r _ => not_filterMatches_single fi v hv r)

theorem rf_p_step {e : Enf} (hwf : e.WFState) {si : Nat} {v : String} (hv : v ≠ "")
    (hsi : Rbac.fieldIndex e "sub" = some si)
    {e' : Enf} {res : Enf.MRes} (h : e.removeFiltered "p" "p" si [v] = some (e', res)) (hok : res.isErr = false) :
    e'.g = e.g ∧ e'.listed "p" "p" = (e.listed "p" "p").filter (fun r => r.getD si "" != v) := by
  obtain ⟨s, hs⟩ := removeFiltered_store h hok
  have hs' := hs
  rw [getStore_p] at hs'
  obtain ⟨n, g0, har⟩ := wf_p_store hwf hs'
  have hlt := sub_lt har hsi
  have hfl : si + [v].length ≤ n := by simp only [List.length_cons, List.length_nil]; omega
  have post := removeFiltered_p_exact g0 hs' hfl (by omega) h hok
  obtain ⟨s', hs1, hpol⟩ := post.p
  refine ⟨post.g, ?_⟩
  simp only [listed_p, hs1, hs', Option.map_some, Option.getD_some, hpol]
  exact List.filter_congr (fun r _ => not_filterMatches_single si v hv r)

theorem withVal_isErr (r : Enf.MRes) (b : Bool) : (r.withVal b).isErr = r.isErr := by
  cases r <;> rfl

end Casbin
