import CasbinVerif.Spec.RbacNames
import CasbinVerif.Proofs.RbacApi
/- helper lemmas for Properties/C05RbacNames.lean -/
namespace Casbin
namespace Rbac

/-- a logging step appends the name of the call -/
theorem stepL_log {s : Enf × List String} {op : MOp} {s' : Enf} {l : List String} {r : Enf.MRes}
    (h : stepL s op = some ((s', l), r)) : l = s.2 ++ [op.apiName] := by
  unfold stepL at h
  cases ha : s.1.applyM op with
  | none => rw [ha] at h; simp at h
  | some x =>
    rw [ha] at h
    simp only [Option.map_some, Option.some.injEq, Prod.mk.injEq] at h
    exact h.1.2.symm

/-- the logging step against the plain step -/
theorem stepL_sim (a : Enf × List String) (b : Enf) (op : MOp) (h : a.1 = b) :
    ORel (fun (a : Enf × List String) (b : Enf) => a.1 = b) (stepL a op) (b.applyM op) := by
  subst h
  unfold stepL
  cases a.1.applyM op with
  | none => exact trivial
  | some x => exact ⟨rfl, rfl⟩

/-- the log of DeleteAllUsersByDomain -/
theorem dau_log (s : Enf × List String) (d : String) (s' : Enf) (l : List String) (r : Enf.MRes)
    (h : deleteAllUsersByDomain stepL (·.1) s d = some ((s', l), r)) :
    (l = s.2 ∧ r.isErr = true) ∨ (l = s.2 ++ ["RemoveGroupingPolicies"] ∧ r.isErr = true) ∨
      l = s.2 ++ ["RemoveGroupingPolicies", "RemovePolicies"] := by
  unfold deleteAllUsersByDomain at h
  cases hst : deleteAllUsersByDomainSteps s.1 d with
  | none =>
    simp only [hst, Option.some.injEq, Prod.mk.injEq] at h
    obtain ⟨h1, h2⟩ := h
    subst h1; subst h2
    exact Or.inl ⟨rfl, rfl⟩
  | some ops =>
    obtain ⟨op1, op2⟩ := ops
    obtain ⟨⟨rs1, hop1⟩, hop2⟩ := steps_shape _ _ _ _ hst
    simp only [hst] at h
    cases hx1 : stepL s op1 with
    | none => rw [hx1] at h; exact absurd h (by simp)
    | some x1 =>
      rw [hx1] at h
      obtain ⟨⟨s1, l1⟩, r1⟩ := x1
      have hl1 := stepL_log hx1
      subst hop1
      have hn1 : (MOp.removeMany "g" "g" rs1).apiName = "RemoveGroupingPolicies" := by simp [MOp.apiName]
      rw [hn1] at hl1
      simp only [Option.bind_eq_bind, Option.bind_some] at h
      cases hr1 : r1.isErr with
      | true =>
        simp only [hr1, if_true, pure, Option.some.injEq, Prod.mk.injEq] at h
        obtain ⟨⟨_, h2⟩, h3⟩ := h
        subst h2; subst h3
        exact Or.inr (Or.inl ⟨hl1, rfl⟩)
      | false =>
        simp only [hr1, Bool.false_eq_true, if_false] at h
        obtain ⟨rs2, hop2'⟩ := hop2 s1
        rw [hop2'] at h
        cases hx2 : stepL (s1, l1) (MOp.removeMany "p" "p" rs2) with
        | none => rw [hx2] at h; exact absurd h (by simp)
        | some x2 =>
          rw [hx2] at h
          obtain ⟨⟨s2, l2⟩, r2⟩ := x2
          have hl2 := stepL_log hx2
          have hn2 : (MOp.removeMany "p" "p" rs2).apiName = "RemovePolicies" := by simp [MOp.apiName]
          rw [hn2] at hl2
          dsimp only at hl2
          rw [hl1] at hl2
          refine Or.inr (Or.inr ?_)
          simp only [Option.bind_some] at h
          cases hr2 : r2.isErr with
          | true =>
            simp only [hr2, if_true, pure, Option.some.injEq, Prod.mk.injEq] at h
            rw [← h.1.2, hl2, List.append_assoc]; rfl
          | false =>
            simp only [hr2, Bool.false_eq_true, if_false, pure, Option.some.injEq, Prod.mk.injEq] at h
            rw [← h.1.2, hl2, List.append_assoc]; rfl

/-- the log of the loop of DeleteDomains only grows by the calls of DeleteAllUsersByDomain -/
theorem loop_log (ds : List String) : ∀ (s : Enf × List String) (s' : Enf) (l : List String) (r : Enf.MRes),
    deleteDomainsLoop stepL (·.1) s ds = some ((s', l), r) →
    ∀ n ∈ l, n ∈ s.2 ∨ n = "RemoveGroupingPolicies" ∨ n = "RemovePolicies" := by
  induction ds with
  | nil =>
    intro s s' l r h n hn
    simp only [deleteDomainsLoop, Option.some.injEq, Prod.mk.injEq] at h
    obtain ⟨h1, _⟩ := h
    subst h1
    exact Or.inl hn
  | cons d ds ih =>
    intro s s' l r h n hn
    unfold deleteDomainsLoop at h
    cases hx1 : deleteAllUsersByDomain stepL (·.1) s d with
    | none => rw [hx1] at h; exact absurd h (by simp)
    | some x1 =>
    rw [hx1] at h
    obtain ⟨⟨s1, l1⟩, r1⟩ := x1
    have hl1 := dau_log s d s1 l1 r1 hx1
    have hsub : ∀ n ∈ l1, n ∈ s.2 ∨ n = "RemoveGroupingPolicies" ∨ n = "RemovePolicies" := by
      intro n hn
      rcases hl1 with ⟨h1, _⟩ | ⟨h1, _⟩ | h1
      · rw [h1] at hn; exact Or.inl hn
      · rw [h1] at hn
        simp only [List.mem_append, List.mem_singleton] at hn
        rcases hn with hn | hn
        · exact Or.inl hn
        · exact Or.inr (Or.inl hn)
      · rw [h1] at hn
        simp only [List.mem_append, List.mem_cons, List.not_mem_nil, or_false] at hn
        rcases hn with hn | hn | hn
        · exact Or.inl hn
        · exact Or.inr (Or.inl hn)
        · exact Or.inr (Or.inr hn)
    simp only [Option.bind_eq_bind, Option.bind_some] at h
    cases hr1 : r1.isErr with
    | true =>
      simp only [hr1, if_true, pure, Option.some.injEq, Prod.mk.injEq] at h
      rw [← h.1.2] at hn
      exact hsub n hn
    | false =>
      simp only [hr1, Bool.false_eq_true, if_false] at h
      rcases ih (s1, l1) s' l r h n hn with h1 | h1
      · exact hsub n h1
      · exact Or.inr h1

/-- a program of one management call -/
theorem single_calls {e s' : Enf} {m : MOp} {src log : List String} {res : Enf.MRes}
    (hsrc : src = [m.apiName]) (h : stepL (e, []) m = some ((s', log), res)) :
    log <+: src ∧ (res.isErr = false → log = src) := by
  have hl := stepL_log h
  simp only [List.nil_append] at hl
  rw [hl, hsrc]
  exact ⟨List.prefix_refl _, fun _ => rfl⟩

/-- a program that stops before its first call, with an error -/
theorem no_calls {s s' : Enf × List String} {src : List String} {res : Enf.MRes}
    (hs : s.2 = []) (h : some (s, Enf.MRes.err false) = some (s', res)) :
    s'.2 <+: src ∧ (res.isErr = false → s'.2 = src) := by
  simp only [Option.some.injEq, Prod.mk.injEq] at h
  obtain ⟨h1, h2⟩ := h
  subst h1; subst h2
  rw [hs]
  exact ⟨List.nil_prefix, fun h => absurd h (by simp [Enf.MRes.isErr])⟩

theorem src_addRoleForUser (u r ds) : (RbacOp.addRoleForUser u r ds).sourceCalls = ["AddGroupingPolicy"] := by
  simp [RbacOp.sourceCalls, RbacOp.goName, RbacExpected.programs, List.lookup]
theorem src_addRolesForUser (u rs ds) : (RbacOp.addRolesForUser u rs ds).sourceCalls = ["AddGroupingPolicies"] := by
  simp [RbacOp.sourceCalls, RbacOp.goName, RbacExpected.programs, List.lookup]
theorem src_deleteRoleForUser (u r ds) : (RbacOp.deleteRoleForUser u r ds).sourceCalls = ["RemoveGroupingPolicy"] := by
  simp [RbacOp.sourceCalls, RbacOp.goName, RbacExpected.programs, List.lookup]
theorem src_deleteRolesForUser (u ds) : (RbacOp.deleteRolesForUser u ds).sourceCalls = ["RemoveFilteredGroupingPolicy"] := by
  simp [RbacOp.sourceCalls, RbacOp.goName, RbacExpected.programs, List.lookup]
theorem src_deleteUser (u) : (RbacOp.deleteUser u).sourceCalls = ["RemoveFilteredGroupingPolicy", "RemoveFilteredPolicy"] := by
  simp [RbacOp.sourceCalls, RbacOp.goName, RbacExpected.programs, List.lookup]
theorem src_deleteRole (r) : (RbacOp.deleteRole r).sourceCalls =
    ["RemoveFilteredGroupingPolicy", "RemoveFilteredGroupingPolicy", "RemoveFilteredPolicy"] := by
  simp [RbacOp.sourceCalls, RbacOp.goName, RbacExpected.programs, List.lookup]
theorem src_deletePermission (p) : (RbacOp.deletePermission p).sourceCalls = ["RemoveFilteredPolicy"] := by
  simp [RbacOp.sourceCalls, RbacOp.goName, RbacExpected.programs, List.lookup]
theorem src_addPermissionForUser (u p) : (RbacOp.addPermissionForUser u p).sourceCalls = ["AddPolicy"] := by
  simp [RbacOp.sourceCalls, RbacOp.goName, RbacExpected.programs, List.lookup]
theorem src_addPermissionsForUser (u p) : (RbacOp.addPermissionsForUser u p).sourceCalls = ["AddPolicies"] := by
  simp [RbacOp.sourceCalls, RbacOp.goName, RbacExpected.programs, List.lookup]
theorem src_deletePermissionForUser (u p) : (RbacOp.deletePermissionForUser u p).sourceCalls = ["RemovePolicy"] := by
  simp [RbacOp.sourceCalls, RbacOp.goName, RbacExpected.programs, List.lookup]
theorem src_deletePermissionsForUser (u) : (RbacOp.deletePermissionsForUser u).sourceCalls = ["RemoveFilteredPolicy"] := by
  simp [RbacOp.sourceCalls, RbacOp.goName, RbacExpected.programs, List.lookup]
theorem src_deleteRolesForUserInDomain (u d) : (RbacOp.deleteRolesForUserInDomain u d).sourceCalls = ["RemoveGroupingPolicies"] := by
  simp [RbacOp.sourceCalls, RbacOp.goName, RbacExpected.programs, List.lookup]
theorem src_deleteAllUsersByDomain (d) : (RbacOp.deleteAllUsersByDomain d).sourceCalls =
    ["RemoveGroupingPolicies", "RemovePolicies"] := by
  simp [RbacOp.sourceCalls, RbacOp.goName, RbacExpected.programs, List.lookup]

theorem calls_deleteUser (e : Enf) (u : String) (s' : Enf) (log : List String) (res : Enf.MRes)
    (h : run stepL (·.1) (e, []) (.deleteUser u) = some ((s', log), res)) :
    log <+: (RbacOp.deleteUser u).sourceCalls ∧ (res.isErr = false → log = (RbacOp.deleteUser u).sourceCalls) := by
  rw [src_deleteUser]
  simp only [run] at h
  cases hx1 : stepL (e, []) (.removeFiltered "g" "g" 0 [u]) with
  | none => rw [hx1] at h; exact absurd h (by simp)
  | some x1 =>
    rw [hx1] at h
    obtain ⟨⟨s1, l1⟩, r1⟩ := x1
    have hl1 := stepL_log hx1
    have hn1 : (MOp.removeFiltered "g" "g" 0 [u]).apiName = "RemoveFilteredGroupingPolicy" := by simp [MOp.apiName]
    rw [hn1] at hl1
    simp only [List.nil_append] at hl1
    subst hl1
    simp only [Option.bind_eq_bind, Option.bind_some] at h
    cases hr1 : r1.isErr with
    | true =>
      simp only [hr1, if_true, pure, Option.some.injEq, Prod.mk.injEq] at h
      obtain ⟨⟨_, h2⟩, h3⟩ := h
      subst h2; subst h3
      exact ⟨⟨["RemoveFilteredPolicy"], rfl⟩, fun hh => absurd hh (by simp [hr1])⟩
    | false =>
      simp only [hr1, Bool.false_eq_true, if_false] at h
      cases hfi : fieldIndex s1 "sub" with
      | none =>
        simp only [hfi, pure, Option.some.injEq, Prod.mk.injEq] at h
        obtain ⟨⟨_, h2⟩, h3⟩ := h
        subst h2; subst h3
        exact ⟨⟨["RemoveFilteredPolicy"], rfl⟩, fun hh => absurd hh (by simp [Enf.MRes.isErr])⟩
      | some si =>
        simp only [hfi] at h
        cases hx2 : stepL (s1, ["RemoveFilteredGroupingPolicy"]) (.removeFiltered "p" "p" si [u]) with
        | none => rw [hx2] at h; exact absurd h (by simp)
        | some x2 =>
          rw [hx2] at h
          obtain ⟨⟨s2, l2⟩, r2⟩ := x2
          have hl2 := stepL_log hx2
          have hn2 : (MOp.removeFiltered "p" "p" si [u]).apiName = "RemoveFilteredPolicy" := by simp [MOp.apiName]
          rw [hn2] at hl2
          simp only [Option.bind_some, pure, Option.some.injEq, Prod.mk.injEq] at h
          rw [← h.1.2, hl2]
          exact ⟨List.prefix_refl _, fun _ => rfl⟩

theorem calls_deleteRole (e : Enf) (u : String) (s' : Enf) (log : List String) (res : Enf.MRes)
    (h : run stepL (·.1) (e, []) (.deleteRole u) = some ((s', log), res)) :
    log <+: (RbacOp.deleteRole u).sourceCalls ∧ (res.isErr = false → log = (RbacOp.deleteRole u).sourceCalls) := by
  rw [src_deleteRole]
  simp only [run] at h
  cases hx1 : stepL (e, []) (.removeFiltered "g" "g" 0 [u]) with
  | none => rw [hx1] at h; exact absurd h (by simp)
  | some x1 =>
    rw [hx1] at h
    obtain ⟨⟨s1, l1⟩, r1⟩ := x1
    have hl1 := stepL_log hx1
    have hn1 : (MOp.removeFiltered "g" "g" 0 [u]).apiName = "RemoveFilteredGroupingPolicy" := by simp [MOp.apiName]
    rw [hn1] at hl1
    simp only [List.nil_append] at hl1
    subst hl1
    simp only [Option.bind_eq_bind, Option.bind_some] at h
    cases hr1 : r1.isErr with
    | true =>
      simp only [hr1, if_true, pure, Option.some.injEq, Prod.mk.injEq] at h
      obtain ⟨⟨_, h2⟩, h3⟩ := h
      subst h2; subst h3
      exact ⟨⟨["RemoveFilteredGroupingPolicy", "RemoveFilteredPolicy"], rfl⟩, fun hh => absurd hh (by simp [hr1])⟩
    | false =>
      simp only [hr1, Bool.false_eq_true, if_false] at h
      cases hx2 : stepL (s1, ["RemoveFilteredGroupingPolicy"]) (.removeFiltered "g" "g" 1 [u]) with
      | none => rw [hx2] at h; exact absurd h (by simp)
      | some x2 =>
        rw [hx2] at h
        obtain ⟨⟨s2, l2⟩, r2⟩ := x2
        have hl2 := stepL_log hx2
        have hn2 : (MOp.removeFiltered "g" "g" 1 [u]).apiName = "RemoveFilteredGroupingPolicy" := by simp [MOp.apiName]
        rw [hn2] at hl2
        simp only [List.cons_append, List.nil_append] at hl2
        subst hl2
        simp only [Option.bind_some] at h
        cases hr2 : r2.isErr with
        | true =>
          simp only [hr2, if_true, pure, Option.some.injEq, Prod.mk.injEq] at h
          obtain ⟨⟨_, h2⟩, h3⟩ := h
          subst h2; subst h3
          exact ⟨⟨["RemoveFilteredPolicy"], rfl⟩, fun hh => absurd hh (by simp [Enf.MRes.isErr])⟩
        | false =>
          simp only [hr2, Bool.false_eq_true, if_false] at h
          cases hfi : fieldIndex s2 "sub" with
          | none =>
            simp only [hfi, pure, Option.some.injEq, Prod.mk.injEq] at h
            obtain ⟨⟨_, h2⟩, h3⟩ := h
            subst h2; subst h3
            exact ⟨⟨["RemoveFilteredPolicy"], rfl⟩, fun hh => absurd hh (by simp [Enf.MRes.isErr])⟩
          | some si =>
            simp only [hfi] at h
            cases hx3 : stepL (s2, ["RemoveFilteredGroupingPolicy", "RemoveFilteredGroupingPolicy"])
                (.removeFiltered "p" "p" si [u]) with
            | none => rw [hx3] at h; exact absurd h (by simp)
            | some x3 =>
              rw [hx3] at h
              obtain ⟨⟨s3, l3⟩, r3⟩ := x3
              have hl3 := stepL_log hx3
              have hn3 : (MOp.removeFiltered "p" "p" si [u]).apiName = "RemoveFilteredPolicy" := by simp [MOp.apiName]
              rw [hn3] at hl3
              simp only [Option.bind_some, pure, Option.some.injEq, Prod.mk.injEq] at h
              rw [← h.1.2, hl3]
              exact ⟨List.prefix_refl _, fun _ => rfl⟩

/-- the calls of the model against the calls of the source -/
theorem calls_spec (e : Enf) (op : RbacOp) (hnd : ∀ ds, op ≠ .deleteDomains ds)
    (s' : Enf) (log : List String) (res : Enf.MRes)
    (h : run stepL (·.1) (e, []) op = some ((s', log), res)) :
    log <+: op.sourceCalls ∧ (res.isErr = false → log = op.sourceCalls) := by
  cases op with
  | addRoleForUser u r ds => exact single_calls (by rw [src_addRoleForUser]; simp [MOp.apiName]) h
  | addRolesForUser u rs ds => exact single_calls (by rw [src_addRolesForUser]; simp [MOp.apiName]) h
  | deleteRoleForUser u r ds => exact single_calls (by rw [src_deleteRoleForUser]; simp [MOp.apiName]) h
  | deleteRolesForUser u ds =>
    simp only [run] at h
    match ds, h with
    | [], h => exact single_calls (by rw [src_deleteRolesForUser]; simp [MOp.apiName]) h
    | [d], h => exact single_calls (by rw [src_deleteRolesForUser]; simp [MOp.apiName]) h
    | _ :: _ :: _, h => exact no_calls (s := (e, [])) (s' := (s', log)) rfl h
  | deleteUser u => exact calls_deleteUser e u s' log res h
  | deleteRole r => exact calls_deleteRole e r s' log res h
  | deletePermission perm => exact single_calls (by rw [src_deletePermission]; simp [MOp.apiName]) h
  | addPermissionForUser u perm => exact single_calls (by rw [src_addPermissionForUser]; simp [MOp.apiName]) h
  | addPermissionsForUser u perms => exact single_calls (by rw [src_addPermissionsForUser]; simp [MOp.apiName]) h
  | deletePermissionForUser u perm => exact single_calls (by rw [src_deletePermissionForUser]; simp [MOp.apiName]) h
  | deletePermissionsForUser u =>
    simp only [run] at h
    cases hfi : fieldIndex e "sub" with
    | none => rw [hfi] at h; exact no_calls (s := (e, [])) (s' := (s', log)) rfl h
    | some si =>
      rw [hfi] at h
      exact single_calls (by rw [src_deletePermissionsForUser]; simp [MOp.apiName]) h
  | deleteRolesForUserInDomain u d =>
    simp only [run] at h
    cases hrm : e.rm.lookup "g" with
    | none => rw [hrm] at h; exact no_calls (s := (e, [])) (s' := (s', log)) rfl h
    | some rm =>
      rw [hrm] at h
      exact single_calls (by rw [src_deleteRolesForUserInDomain]; simp [MOp.apiName]) h
  | deleteAllUsersByDomain d =>
    rw [src_deleteAllUsersByDomain]
    rcases dau_log (e, []) d s' log res h with ⟨h1, h2⟩ | ⟨h1, h2⟩ | h1
    · rw [h1]; exact ⟨List.nil_prefix, fun hh => absurd hh (by simp [h2])⟩
    · rw [h1]; exact ⟨⟨["RemovePolicies"], rfl⟩, fun hh => absurd hh (by simp [h2])⟩
    · rw [h1]; exact ⟨List.prefix_refl _, fun _ => rfl⟩
  | deleteDomains ds => exact absurd rfl (hnd ds)

/-- the log of DeleteDomains -/
theorem deleteDomains_log (e : Enf) (ds : List String) (s' : Enf) (log : List String) (res : Enf.MRes)
    (h : run stepL (·.1) (e, []) (.deleteDomains ds) = some ((s', log), res)) :
    (ds = [] → log = ["ClearPolicy"]) ∧ (ds ≠ [] → ∀ n ∈ log, n = "RemoveGroupingPolicies" ∨ n = "RemovePolicies") := by
  simp only [run] at h
  match ds, h with
  | [], h =>
    refine ⟨fun _ => ?_, fun hh => absurd rfl hh⟩
    cases hx1 : stepL (e, []) .clear with
    | none => rw [hx1] at h; exact absurd h (by simp)
    | some x1 =>
      rw [hx1] at h
      obtain ⟨⟨s1, l1⟩, r1⟩ := x1
      have hl1 := stepL_log hx1
      simp only [Option.bind_eq_bind, Option.bind_some, pure, Option.some.injEq, Prod.mk.injEq] at h
      rw [← h.1.2, hl1]
      rfl
  | d :: ds, h =>
    refine ⟨fun hh => absurd hh (by simp), fun _ n hn => ?_⟩
    rcases loop_log (d :: ds) (e, []) s' log res h n hn with h1 | h1
    · exact absurd h1 (by simp)
    · exact h1

/-- the logging run against the plain run -/
theorem logging_run (e : Enf) (op : RbacOp) :
    (run stepL (·.1) (e, []) op).map (fun x => (x.1.1, x.2)) = e.applyRbac op := by
  have h := sim_run_all (fun (a : Enf × List String) (b : Enf) => a.1 = b) stepL (·.1) Enf.applyM id
    (fun _ _ h => h) stepL_sim (e, []) e op rfl
  unfold Enf.applyRbac
  cases h1 : run stepL (·.1) (e, []) op with
  | none =>
    cases h2 : run Enf.applyM id e op with
    | none => rfl
    | some b => rw [h1, h2] at h; exact h.elim
  | some a =>
    obtain ⟨a, r⟩ := a
    cases h2 : run Enf.applyM id e op with
    | none => rw [h1, h2] at h; exact h.elim
    | some b =>
      obtain ⟨b, r'⟩ := b
      rw [h1, h2] at h
      obtain ⟨h3, h4⟩ := h
      subst h3; subst h4
      rfl

end Rbac
end Casbin
