import CasbinVerif.Spec.Perm
/-
  Helper lemmas for C01: the breadth-first search of the role manager decides `ReachWithin`,
  `reachB` decides `ReachWithin`, and `applyRules` builds the links of the listed rules.
-/
namespace Casbin

theorem mem_succs {links : List Link} {d u v : String} :
    v ∈ RM.succs links d u ↔ (u, v, d) ∈ links := by
  simp only [RM.succs, List.mem_map, List.mem_filter, Bool.and_eq_true, beq_iff_eq]
  constructor
  · rintro ⟨⟨a, b, c⟩, ⟨hm, ha, hc⟩, hb⟩
    simp only at ha hb hc
    subst ha; subst hb; subst hc; exact hm
  · intro h; exact ⟨(u, v, d), ⟨h, rfl, rfl⟩, rfl⟩

theorem bfs_iff (links : List Link) (d target : String) (n : Nat) (fr : List String) :
    RM.bfs links d target fr (n + 1) = true ↔ ∃ u ∈ fr, ReachWithin links d n u target := by
  induction n generalizing fr with
  | zero =>
    simp only [RM.bfs]
    constructor
    · intro h
      split at h
      · cases h
      · split at h
        · rename_i hc
          exact ⟨target, by simpa using hc, .refl 0 target⟩
        · cases h
    · rintro ⟨u, hu, hr⟩
      cases hr
      have hne : fr.isEmpty = false := by cases fr <;> simp_all
      simp [hne, hu]
  | succ n ih =>
    rw [RM.bfs]
    constructor
    · intro h
      split at h
      · cases h
      · split at h
        · rename_i hc
          exact ⟨target, by simpa using hc, .refl _ target⟩
        · obtain ⟨v, hv, hr⟩ := (ih _).1 h
          obtain ⟨u, hu, hvu⟩ := List.mem_flatMap.1 hv
          exact ⟨u, hu, .step (mem_succs.1 hvu) hr⟩
    · rintro ⟨u, hu, hr⟩
      have hne : fr.isEmpty = false := by cases fr <;> simp_all
      simp only [hne]
      by_cases hc : fr.contains target
      · have : target ∈ fr := by simpa using hc
        simp [this]
      · simp only [hc]
        cases hr with
        | refl => exact absurd (by simpa using hu) hc
        | step he hr' =>
          exact (ih _).2 ⟨_, List.mem_flatMap.2 ⟨u, hu, mem_succs.2 he⟩, hr'⟩

theorem hasLink_iff_reach' (rm : RM) (u r : String) (ds : List String) :
    rm.hasLink u r ds = true ↔ ReachWithin rm.links (rm.dom ds) rm.maxLevel u r := by
  unfold RM.hasLink
  by_cases h : u = r
  · subst h
    simp only [beq_self_eq_true, if_true, true_iff]
    exact .refl _ _
  · have hb : (u == r) = false := by simpa using h
    simp only [hb, Bool.false_eq_true, if_false]
    rw [bfs_iff]
    simp

theorem reachB_iff' (links : List Link) (d : String) (n : Nat) (u r : String) :
    reachB links d n u r = true ↔ ReachWithin links d n u r := by
  induction n generalizing u with
  | zero =>
    simp only [reachB, beq_iff_eq]
    constructor
    · intro h; subst h; exact .refl _ _
    · intro h; cases h; rfl
  | succ n ih =>
    simp only [reachB, Bool.or_eq_true, beq_iff_eq, List.any_eq_true, Bool.and_eq_true]
    constructor
    · rintro (h | ⟨⟨a, b, c⟩, hm, ⟨ha, hc⟩, hr⟩)
      · subst h; exact .refl _ _
      · simp only at ha hc hr
        subst ha; subst hc
        exact .step hm ((ih _).1 hr)
    · intro h
      cases h with
      | refl => exact .inl rfl
      | step he hr => exact .inr ⟨_, he, ⟨rfl, rfl⟩, (ih _).2 hr⟩

/-! ### applyRules -/

theorem linkOfRule_some (count : Nat) (rule : Rule) (hlen : count ≤ rule.length) (hc : 2 ≤ count) :
    ∃ u v ds, linkOfRule count rule = some (u, v, ds) := by
  unfold linkOfRule
  have h1 : ¬ rule.length < count := by omega
  simp only [h1, if_false]
  have hl : (rule.take count).length = count := by simp [List.length_take]; omega
  match hm : rule.take count, hl with
  | [], hl => simp at hl; omega
  | [_], hl => simp at hl; omega
  | u :: v :: ds, _ => exact ⟨u, v, ds, rfl⟩

theorem addLink_kind (rm : RM) (u r : String) (ds : List String) : (rm.addLink u r ds).kind = rm.kind := by
  unfold RM.addLink
  simp only
  split <;> rfl

theorem mem_addLink (rm : RM) (u r : String) (ds : List String) (l : Link) :
    l ∈ (rm.addLink u r ds).links ↔ l ∈ rm.links ∨ l = (u, r, rm.dom ds) := by
  unfold RM.addLink
  simp only
  split
  · rename_i hc
    have hm : (u, r, rm.dom ds) ∈ rm.links := by simpa using hc
    constructor
    · intro h; exact .inl h
    · rintro (h | h)
      · exact h
      · subst h; exact hm
  · simp

theorem dom_eq (rm : RM) (ds : List String) :
    rm.dom ds = (match rm.kind with | .plain => "" | .domain => ds.headD "") := by
  unfold RM.dom; rfl

theorem applyRules_links_gen (count : Nat) (rules : List Rule) (rm : RM)
    (hlen : ∀ r ∈ rules, count ≤ r.length) (hc : 2 ≤ count) :
    ∃ rm', rm.applyRules count true rules = (rm', true) ∧ rm'.kind = rm.kind ∧
      ∀ l, l ∈ rm'.links ↔ l ∈ rm.links ∨ l ∈ linksOfRules count rm.kind rules := by
  induction rules generalizing rm with
  | nil => exact ⟨rm, rfl, rfl, by simp [linksOfRules]⟩
  | cons rule rest ih =>
    obtain ⟨u, v, ds, hl⟩ := linkOfRule_some count rule (hlen rule (by simp)) hc
    obtain ⟨rm', h1, h2, h3⟩ := ih (rm.addLink u v ds) (fun r hr => hlen r (by simp [hr]))
    refine ⟨rm', ?_, ?_, ?_⟩
    · simp only [RM.applyRules, hl, if_true]; exact h1
    · rw [h2, addLink_kind]
    · intro l
      rw [h3 l, mem_addLink, addLink_kind]
      simp only [linksOfRules, List.filterMap_cons, hl, List.mem_cons]
      rw [dom_eq]
      constructor
      · rintro ((h | h) | h)
        · exact .inl h
        · exact .inr (.inl h)
        · exact .inr (.inr h)
      · rintro (h | h | h)
        · exact .inl (.inl h)
        · exact .inl (.inr h)
        · exact .inr h

end Casbin
