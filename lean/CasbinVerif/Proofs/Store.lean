import CasbinVerif.Spec.Store
/-
  Helper lemmas for the policy store (C06, C07): association-list index laws, coherence.
-/
namespace Casbin

@[simp] theorem Index.get_set_self (ix : Index) (k v) : (ix.set k v).get k = some v := by
  simp [Index.get, Index.set]

theorem Index.get_filter_ne (ix : Index) {k k' : String} (h : k' ≠ k) :
    Index.get (ix.filter (fun p => p.1 != k)) k' = ix.get k' := by
  simp only [Index.get]
  congr 1
  induction ix with
  | nil => rfl
  | cons p ps ih =>
    simp only [List.filter_cons]
    by_cases hp : p.1 = k
    · have hb : (k == k') = false := by simpa using fun e => h e.symm
      simp [hp, List.find?_cons, ih, hb]
    · simp [hp, List.find?_cons, ih]

@[simp] theorem Index.get_set_other (ix : Index) {k k' : String} (v) (h : k' ≠ k) :
    (ix.set k v).get k' = ix.get k' := by
  have hb : ((k == k') = false) := by simpa using fun e => h e.symm
  have := Index.get_filter_ne ix h
  simp only [Index.get, Index.set, List.find?_cons, hb] at this ⊢
  exact this

@[simp] theorem Index.get_del_self (ix : Index) (k) : (ix.del k).get k = none := by
  simp [Index.get, Index.del, List.find?_eq_none]

@[simp] theorem Index.get_del_other (ix : Index) {k k' : String} (h : k' ≠ k) :
    (ix.del k).get k' = ix.get k' := Index.get_filter_ne ix h

end Casbin
