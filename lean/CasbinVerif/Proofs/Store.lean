import CasbinVerif.Spec.Store
/-
  Helper lemmas for the policy store (C06, C07): association-list index laws, coherence.
-/
namespace Casbin

@[simp] theorem Index.get_set_self (ix : Index) (k v) : (ix.set k v).get k = some v := by
  simp [Index.get, Index.set]

theorem Index.get_filter_ne (ix : Index) {k k' : String} (h : k' ≠ k) :
    Index.get (ix.filter (fun p => p.1 != k)) k' = ix.get k' := by
  simp only [Index.get]
  congr 1
  induction ix with
  | nil => rfl
  | cons p ps ih =>
    simp only [List.filter_cons]
    by_cases hp : p.1 = k
    · have hb : (k == k') = false := by simpa using fun e => h e.symm
      simp [hp, ih, hb]
    · simp [hp, List.find?_cons, ih]

@[simp] theorem Index.get_set_other (ix : Index) {k k' : String} (v) (h : k' ≠ k) :
    (ix.set k v).get k' = ix.get k' := by
  have hb : ((k == k') = false) := by simpa using fun e => h e.symm
  have := Index.get_filter_ne ix h
  simp only [Index.get, Index.set, List.find?_cons, hb] at this ⊢
  exact this

@[simp] theorem Index.get_del_self (ix : Index) (k) : (ix.del k).get k = none := by
  simp [Index.get, Index.del, List.find?_eq_none]

@[simp] theorem Index.get_del_other (ix : Index) {k k' : String} (h : k' ≠ k) :
    (ix.del k).get k' = ix.get k' := Index.get_filter_ne ix h

/-! ### the key is injective on non-empty comma-free rules -/

theorem ruleKey_injective {r₁ r₂ : Rule}
    (h₁ : ∀ f ∈ r₁, commaFree f = true) (h₂ : ∀ f ∈ r₂, commaFree f = true)
    (n₁ : r₁ ≠ []) (n₂ : r₂ ≠ []) (h : ruleKey r₁ = ruleKey r₂) : r₁ = r₂ := by
  have hc := congrArg String.toList h
  simp only [ruleKey, String.toList_intercalate] at hc
  have hs : ",".toList = [','] := by decide
  rw [hs] at hc
  have e₁ := List.splitOn_intercalate (ls := r₁.map String.toList) ','
    (by
      intro l hl
      simp only [List.mem_map] at hl
      obtain ⟨f, hf, rfl⟩ := hl
      have := h₁ f hf
      simpa [commaFree] using this)
    (by simpa using n₁)
  have e₂ := List.splitOn_intercalate (ls := r₂.map String.toList) ','
    (by
      intro l hl
      simp only [List.mem_map] at hl
      obtain ⟨f, hf, rfl⟩ := hl
      have := h₂ f hf
      simpa [commaFree] using this)
    (by simpa using n₂)
  rw [hc, e₂] at e₁
  exact ((List.map_inj_right (fun a b hab => String.toList_inj.1 hab)).1 e₁).symm

theorem plain_key_inj {n : Nat} (hn : n ≠ 0) {a b : Rule} (ha : plainRule n a = true) (hb : plainRule n b = true)
    (h : ruleKey a = ruleKey b) : a = b := by
  simp only [plainRule, Bool.and_eq_true, beq_iff_eq, List.all_eq_true] at ha hb
  refine ruleKey_injective ha.2 hb.2 ?_ ?_ h
  · intro e; rw [e] at ha; simp at ha; omega
  · intro e; rw [e] at hb; simp at hb; omega


/-! ### index laws, coherence -/

theorem Index.get_set (ix : Index) (k : String) (v : Nat) (k' : String) :
    (ix.set k v).get k' = if k' = k then some v else ix.get k' := by
  split
  · subst_vars; simp
  · rename_i h; simp [h]

theorem Index.get_del (ix : Index) (k k' : String) :
    (ix.del k).get k' = if k' = k then none else ix.get k' := by
  split
  · subst_vars; simp
  · rename_i h; simp [h]

theorem Coh.get_iff {n : Nat} (hn : n ≠ 0) {s : Store} (h : Coh s)
    (hl : ∀ q ∈ s.policy, plainRule n q = true) {r : Rule} (hr : plainRule n r = true) (i : Nat) :
    s.index.get (ruleKey r) = some i ↔ s.policy[i]? = some r := by
  constructor
  · intro hg
    obtain ⟨q, hq, hk⟩ := h.2.2 _ _ hg
    have := plain_key_inj hn (hl q (List.mem_of_getElem? hq)) hr hk
    rw [← this]; exact hq
  · exact h.2.1 r i

theorem Coh.has_iff {n : Nat} (hn : n ≠ 0) {s : Store} (h : Coh s)
    (hl : ∀ q ∈ s.policy, plainRule n q = true) {r : Rule} (hr : plainRule n r = true) :
    s.has r = true ↔ r ∈ s.policy := by
  simp only [Store.has, Option.isSome_iff_exists, Coh.get_iff hn h hl hr, List.mem_iff_getElem?]

theorem Coh.get_none_iff {n : Nat} (hn : n ≠ 0) {s : Store} (h : Coh s)
    (hl : ∀ q ∈ s.policy, plainRule n q = true) {r : Rule} (hr : plainRule n r = true) :
    s.index.get (ruleKey r) = none ↔ r ∉ s.policy := by
  rw [← Coh.has_iff hn h hl hr, Store.has]
  cases s.index.get (ruleKey r) <;> simp

theorem coh_append {n : Nat} (hn : n ≠ 0) {s : Store} (h : Coh s)
    (hl : ∀ q ∈ s.policy, plainRule n q = true) {r : Rule} (hr : plainRule n r = true)
    (hnew : r ∉ s.policy) :
    Coh ⟨s.policy ++ [r], s.index.set (ruleKey r) s.policy.length⟩ := by
  obtain ⟨hnd, h1, h2⟩ := h
  refine ⟨?_, ?_, ?_⟩
  · simp only
    rw [List.nodup_append]
    simp [hnd]
    grind
  · intro q i hq
    simp only at hq ⊢
    rw [Index.get_set]
    rw [List.getElem?_append] at hq
    split at hq
    · have hqm := List.mem_of_getElem? hq
      have : ruleKey q ≠ ruleKey r := fun e => hnew (plain_key_inj hn (hl q hqm) hr e ▸ hqm)
      simp [this, h1 q i hq]
    · have : i = s.policy.length ∧ q = r := by
        rcases hi : i - s.policy.length with _ | m
        · simp [hi] at hq; exact ⟨by omega, hq.symm⟩
        · simp [hi] at hq
      simp [this.1, this.2]
  · intro k i hg
    simp only at hg ⊢
    rw [Index.get_set] at hg
    split at hg
    · simp at hg; subst hg; subst_vars; exact ⟨r, by simp, rfl⟩
    · obtain ⟨q, hq, hk⟩ := h2 k i hg
      refine ⟨q, ?_, hk⟩
      rw [List.getElem?_append_left]; exact hq
      exact (List.getElem?_eq_some_iff.1 hq).1


theorem nodup_iff_getElem? {α} {l : List α} :
    l.Nodup ↔ ∀ (i j : Nat) (a : α), l[i]? = some a → l[j]? = some a → i = j := by
  rw [List.Nodup, List.pairwise_iff_getElem]
  constructor
  · intro h i j a hi hj
    obtain ⟨hi', rfl⟩ := List.getElem?_eq_some_iff.1 hi
    obtain ⟨hj', hj⟩ := List.getElem?_eq_some_iff.1 hj
    rcases Nat.lt_trichotomy i j with hlt | heq | hgt
    · exact absurd hj.symm (h i j hi' hj' hlt)
    · exact heq
    · exact absurd hj (h j i hj' hi' hgt)
  · intro h i j hi hj hij e
    have := h i j l[i] (List.getElem?_eq_getElem hi) (by rw [e]; exact List.getElem?_eq_getElem hj)
    omega

theorem nodup_set {α} {l : List α} (hnd : l.Nodup) {i : Nat} {b : α} (hb : b ∉ l) : (l.set i b).Nodup := by
  rw [nodup_iff_getElem?] at hnd ⊢
  intro j k a hj hk
  rw [List.getElem?_set] at hj hk
  grind


theorem coh_set {n : Nat} (hn : n ≠ 0) {s : Store} (h : Coh s)
    (hl : ∀ q ∈ s.policy, plainRule n q = true) {a b : Rule} (hb : plainRule n b = true)
    {i : Nat} (hi : s.policy[i]? = some a) (hnew : b ∉ s.policy) :
    Coh ⟨s.policy.set i b, (s.index.del (ruleKey a)).set (ruleKey b) i⟩ := by
  obtain ⟨hnd, h1, h2⟩ := h
  have hilt : i < s.policy.length := (List.getElem?_eq_some_iff.1 hi).1
  have ham : a ∈ s.policy := List.mem_of_getElem? hi
  have hab : ruleKey b ≠ ruleKey a := fun e => hnew (plain_key_inj hn hb (hl a ham) e ▸ ham)
  refine ⟨nodup_set hnd hnew, ?_, ?_⟩
  · intro q j hq
    simp only at hq ⊢
    rw [List.getElem?_set] at hq
    rw [Index.get_set]
    split at hq
    · subst_vars; simp at hq; subst hq; simp
    · have hqm := List.mem_of_getElem? hq
      have hqb : ruleKey q ≠ ruleKey b := fun e => hnew (plain_key_inj hn (hl q hqm) hb e ▸ hqm)
      have hqa : ruleKey q ≠ ruleKey a := by
        intro e
        have := plain_key_inj hn (hl q hqm) (hl a ham) e
        subst this
        exact absurd ((nodup_iff_getElem?.1 hnd) _ _ _ hi hq) (by assumption)
      rw [if_neg hqb, Index.get_del, if_neg hqa]
      exact h1 q j hq
  · intro k j hg
    simp only at hg ⊢
    rw [Index.get_set] at hg
    split at hg
    · simp at hg; subst hg; subst_vars
      exact ⟨b, by simp [hilt], rfl⟩
    · rw [Index.get_del] at hg
      split at hg
      · simp at hg
      · obtain ⟨q, hq, hk⟩ := h2 k j hg
        refine ⟨q, ?_, hk⟩
        rw [List.getElem?_set]
        have : i ≠ j := by
          intro e; subst e; rw [hi] at hq; simp at hq; subst hq; subst hk; contradiction
        simp [this, hq]

theorem reindex_get_of_not_mem (ix : Index) (suf : List Rule) (j : Nat) (k : String)
    (hk : ∀ q ∈ suf, ruleKey q ≠ k) : (Store.reindex ix suf j).get k = ix.get k := by
  induction suf generalizing ix j with
  | nil => rfl
  | cons r rs ih =>
    simp only [Store.reindex]
    rw [ih _ _ (fun q hq => hk q (List.mem_cons_of_mem _ hq)), Index.get_set,
      if_neg (fun e => hk r List.mem_cons_self e.symm)]

theorem reindex_get_of_mem (ix : Index) (suf : List Rule) (j : Nat)
    (hinj : ∀ (m m' : Nat) (q q' : Rule), suf[m]? = some q → suf[m']? = some q' → ruleKey q = ruleKey q' → m = m')
    {m : Nat} {q : Rule} (hq : suf[m]? = some q) :
    (Store.reindex ix suf j).get (ruleKey q) = some (j + m) := by
  induction suf generalizing ix j m with
  | nil => simp at hq
  | cons r rs ih =>
    simp only [Store.reindex]
    cases m with
    | zero =>
      simp at hq; subst hq
      rw [reindex_get_of_not_mem]
      · simp
      · intro q' hq' e
        obtain ⟨m', hm'⟩ := List.mem_iff_getElem?.1 hq'
        have := hinj (m' + 1) 0 q' r (by simpa using hm') (by simp) e
        omega
    | succ m =>
      have := ih (ix.set (ruleKey r) j) (j + 1)
        (fun a b x y hx hy e => by
          have := hinj (a + 1) (b + 1) x y (by simpa using hx) (by simpa using hy) e
          omega) (m := m) (by simpa using hq)
      rw [this]; congr 1; omega

/-- distinct slots of a coherent plain store carry distinct keys -/
theorem Coh.slot_inj {n : Nat} (hn : n ≠ 0) {s : Store} (h : Coh s)
    (hl : ∀ q ∈ s.policy, plainRule n q = true) {i j : Nat} {q q' : Rule}
    (hi : s.policy[i]? = some q) (hj : s.policy[j]? = some q') (e : ruleKey q = ruleKey q') : i = j := by
  have := plain_key_inj hn (hl q (List.mem_of_getElem? hi)) (hl q' (List.mem_of_getElem? hj)) e
  subst this
  exact nodup_iff_getElem?.1 h.1 _ _ _ hi hj

theorem coh_remove {n : Nat} (hn : n ≠ 0) {s : Store} (h : Coh s)
    (hl : ∀ q ∈ s.policy, plainRule n q = true) {r : Rule} {i : Nat} (hi : s.policy[i]? = some r) :
    Coh ⟨s.policy.eraseIdx i, Store.reindex (s.index.del (ruleKey r)) (s.policy.drop (i + 1)) i⟩ := by
  have hslot := @Coh.slot_inj n hn s h hl
  obtain ⟨hnd, h1, h2⟩ := h
  have hsufinj : ∀ (m m' : Nat) (q q' : Rule), (s.policy.drop (i + 1))[m]? = some q →
      (s.policy.drop (i + 1))[m']? = some q' → ruleKey q = ruleKey q' → m = m' := by
    intro m m' q q' hq hq' e
    rw [List.getElem?_drop] at hq hq'
    have := hslot hq hq' e
    omega
  refine ⟨hnd.eraseIdx i, ?_, ?_⟩
  · intro q j hq
    simp only at hq ⊢
    rw [List.getElem?_eraseIdx] at hq
    split at hq
    · rw [reindex_get_of_not_mem]
      · rw [Index.get_del, if_neg]
        · exact h1 q j hq
        · intro e; have := hslot hq hi e; omega
      · intro q' hq' e
        obtain ⟨m, hm⟩ := List.mem_iff_getElem?.1 hq'
        rw [List.getElem?_drop] at hm
        have := hslot hm hq e; omega
    · have hq' : (s.policy.drop (i + 1))[j - i]? = some q := by
        rw [List.getElem?_drop]; rw [← hq]; congr 1; omega
      rw [reindex_get_of_mem _ _ _ hsufinj hq']
      congr 1; omega
  · intro k j hg
    simp only at hg ⊢
    by_cases hk : ∃ q ∈ s.policy.drop (i + 1), ruleKey q = k
    · obtain ⟨q, hqm, rfl⟩ := hk
      obtain ⟨m, hm⟩ := List.mem_iff_getElem?.1 hqm
      rw [reindex_get_of_mem _ _ _ hsufinj hm] at hg
      simp at hg; subst hg
      refine ⟨q, ?_, rfl⟩
      rw [List.getElem?_eraseIdx, if_neg (by omega)]
      rw [List.getElem?_drop] at hm
      rw [← hm]; congr 1; omega
    · rw [reindex_get_of_not_mem _ _ _ _ (fun q hq e => hk ⟨q, hq, e⟩), Index.get_del] at hg
      split at hg
      · simp at hg
      · rename_i hkr
        obtain ⟨q, hq, hqk⟩ := h2 k j hg
        refine ⟨q, ?_, hqk⟩
        rw [List.getElem?_eraseIdx]
        have hji : j ≠ i := by
          intro e; subst e; rw [hi] at hq; simp at hq; subst hq; exact hkr hqk.symm
        have : ¬ i < j := by
          intro hlt
          apply hk
          refine ⟨q, ?_, hqk⟩
          apply List.mem_iff_getElem?.2
          refine ⟨j - (i + 1), ?_⟩
          rw [List.getElem?_drop, ← hq]; congr 1; omega
        rw [if_pos (by omega)]; exact hq

theorem erase_eq_eraseIdx_of_getElem? {l : List Rule} (hnd : l.Nodup) {i : Nat} {r : Rule}
    (hi : l[i]? = some r) : l.erase r = l.eraseIdx i := by
  obtain ⟨hlt, rfl⟩ := List.getElem?_eq_some_iff.1 hi
  exact List.erase_eq_eraseIdx_of_idxOf (hnd.idxOf_getElem i hlt)

end Casbin
