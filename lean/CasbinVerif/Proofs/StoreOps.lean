import CasbinVerif.Proofs.Store
/-
  Per-operation refinement lemmas for the policy store (C06): each model operation keeps the store
  coherent and computes the specification's list and boolean.
-/
namespace Casbin

/-! ### per-operation refinement lemmas -/

/-- the invariant the loops carry: coherent, and every listed rule has the definition's shape -/
structure Good (n : Nat) (s : Store) : Prop where
  coh : Coh s
  plain : ∀ q ∈ s.policy, plainRule n q = true

theorem Good.has_iff {n : Nat} (hn : n ≠ 0) {s : Store} (g : Good n s) {r : Rule}
    (hr : plainRule n r = true) : s.has r = true ↔ r ∈ s.policy :=
  Coh.has_iff hn g.coh g.plain hr

theorem good_add_none {n : Nat} (hn : n ≠ 0) {s : Store} (g : Good n s) {r : Rule}
    (hr : plainRule n r = true) (hnew : r ∉ s.policy) :
    Good n (s.add none r) ∧ (s.add none r).policy = s.policy ++ [r] := by
  refine ⟨⟨coh_append hn g.coh g.plain hr hnew, ?_⟩, rfl⟩
  intro q hq
  simp only [Store.add, List.mem_append, List.mem_singleton] at hq
  rcases hq with hq | rfl
  · exact g.plain q hq
  · exact hr

theorem addMany_spec {n : Nat} (hn : n ≠ 0) (rs : List Rule) {s : Store} (g : Good n s)
    (hrs : ∀ r ∈ rs, plainRule n r = true) :
    Good n (s.addMany none rs).1 ∧ (s.addMany none rs).1.policy = rs.foldl SpecStore.addOne s.policy := by
  induction rs generalizing s with
  | nil => exact ⟨g, rfl⟩
  | cons r rs ih =>
    have hr := hrs r List.mem_cons_self
    have hrs' : ∀ r ∈ rs, plainRule n r = true := fun q hq => hrs q (List.mem_cons_of_mem _ hq)
    simp only [Store.addMany, List.foldl_cons]
    by_cases hh : s.has r = true
    · rw [if_pos hh]
      have hm := (g.has_iff hn hr).1 hh
      simp only [SpecStore.addOne, if_pos hm]
      exact ih g hrs'
    · rw [if_neg hh]
      have hm : r ∉ s.policy := fun h => hh ((g.has_iff hn hr).2 h)
      obtain ⟨g', hp⟩ := good_add_none hn g hr hm
      simp only [SpecStore.addOne, if_neg hm]
      have := ih g' hrs'
      rw [hp] at this
      exact this

theorem mgmt_add_spec {n : Nat} (hn : n ≠ 0) {s : Store} (g : Good n s) {r : Rule}
    (hr : plainRule n r = true) :
    Good n (Mgmt.add none s r).1 ∧
      ((Mgmt.add none s r).1.policy, (Mgmt.add none s r).2) = SpecStore.apply s.policy (.add r) := by
  simp only [Mgmt.add, SpecStore.apply]
  by_cases hh : s.has r = true
  · have hm := (g.has_iff hn hr).1 hh
    simp [hh, hm, g]
  · have hm : r ∉ s.policy := fun h => hh ((g.has_iff hn hr).2 h)
    obtain ⟨g', hp⟩ := good_add_none hn g hr hm
    simp [hh, hm, g', hp]

theorem any_has_eq {n : Nat} (hn : n ≠ 0) {s : Store} (g : Good n s) (rs : List Rule)
    (hrs : ∀ r ∈ rs, plainRule n r = true) : rs.any s.has = rs.any (· ∈ s.policy) := by
  rw [Bool.eq_iff_iff]
  simp only [List.any_eq_true, decide_eq_true_eq]
  constructor
  · rintro ⟨r, hr, h⟩; exact ⟨r, hr, (g.has_iff hn (hrs r hr)).1 h⟩
  · rintro ⟨r, hr, h⟩; exact ⟨r, hr, (g.has_iff hn (hrs r hr)).2 h⟩

theorem mgmt_addMany_spec {n : Nat} (hn : n ≠ 0) {s : Store} (g : Good n s) (ex : Bool) (rs : List Rule)
    (hrs : ∀ r ∈ rs, plainRule n r = true) :
    Good n (Mgmt.addMany none ex s rs).1 ∧
      ((Mgmt.addMany none ex s rs).1.policy, (Mgmt.addMany none ex s rs).2) =
        SpecStore.apply s.policy (.addMany ex rs) := by
  simp only [Mgmt.addMany, SpecStore.apply, any_has_eq hn g rs hrs]
  split
  · exact ⟨g, rfl⟩
  · obtain ⟨g', hp⟩ := addMany_spec hn rs g hrs
    exact ⟨g', by rw [hp]⟩

theorem remove_spec {n : Nat} (hn : n ≠ 0) {s : Store} (g : Good n s) {r : Rule}
    (hr : plainRule n r = true) :
    Good n (s.remove r).1 ∧ (s.remove r).1.policy = s.policy.erase r ∧
      ((s.remove r).2 = true ↔ r ∈ s.policy) := by
  simp only [Store.remove]
  cases hg : s.index.get (ruleKey r) with
  | none =>
    have hm := (Coh.get_none_iff hn g.coh g.plain hr).1 hg
    exact ⟨g, (List.erase_of_not_mem hm).symm, by simp [hm]⟩
  | some i =>
    have hi := (Coh.get_iff hn g.coh g.plain hr i).1 hg
    have hm := List.mem_of_getElem? hi
    have hlt := (List.getElem?_eq_some_iff.1 hi).1
    have e1 : s.policy.take i ++ s.policy.drop (i + 1) = s.policy.eraseIdx i :=
      (List.eraseIdx_eq_take_drop_succ _ _).symm
    have e2 : (s.policy.take i ++ s.policy.drop (i + 1)).drop i = s.policy.drop (i + 1) := by
      rw [List.drop_append_of_le_length (by simp; omega)]
      simp
    simp only [e2]
    simp only [e1]
    refine ⟨⟨coh_remove hn g.coh g.plain hi, ?_⟩, (erase_eq_eraseIdx_of_getElem? g.coh.1 hi).symm, by simp [hm]⟩
    intro q hq
    exact g.plain q (List.mem_of_mem_eraseIdx hq)

theorem removeMany_spec {n : Nat} (hn : n ≠ 0) (rs : List Rule) {s : Store} (g : Good n s)
    (hrs : ∀ r ∈ rs, plainRule n r = true) :
    Good n (s.removeMany rs).1 ∧ (s.removeMany rs).1.policy = rs.foldl List.erase s.policy ∧
      ((s.removeMany rs).2 = [] → ∀ r ∈ rs, r ∉ s.policy) := by
  induction rs generalizing s with
  | nil => exact ⟨g, rfl, by simp⟩
  | cons r rs ih =>
    have hr := hrs r List.mem_cons_self
    have hrs' : ∀ r ∈ rs, plainRule n r = true := fun q hq => hrs q (List.mem_cons_of_mem _ hq)
    obtain ⟨g', hp, hb⟩ := remove_spec hn g hr
    simp only [Store.removeMany, List.foldl_cons]
    rcases hrm : s.remove r with ⟨s', b⟩
    rw [hrm] at g' hp hb
    cases b with
    | true =>
      simp only
      obtain ⟨g'', hp', _⟩ := ih g' hrs'
      simp only at hp
      refine ⟨g'', by rw [hp', hp], by simp⟩
    | false =>
      simp only
      have hm : r ∉ s.policy := by simpa using hb
      obtain ⟨g'', hp', hb'⟩ := ih g hrs'
      refine ⟨g'', by rw [hp', List.erase_of_not_mem hm], ?_⟩
      intro he q hq
      rcases List.mem_cons.1 hq with rfl | hq
      · exact hm
      · exact hb' he q hq

theorem mgmt_removeMany_spec {n : Nat} (hn : n ≠ 0) {s : Store} (g : Good n s) (rs : List Rule)
    (hrs : ∀ r ∈ rs, plainRule n r = true) :
    Good n (Mgmt.removeMany s rs).1 ∧
      ((Mgmt.removeMany s rs).1.policy, (Mgmt.removeMany s rs).2) =
        SpecStore.apply s.policy (.removeMany rs) := by
  simp only [Mgmt.removeMany, SpecStore.apply, any_has_eq hn g rs hrs]
  split
  · exact ⟨g, rfl⟩
  · rename_i hany
    obtain ⟨g', hp, hb⟩ := removeMany_spec hn rs g hrs
    refine ⟨g', ?_⟩
    simp only [hp, Prod.mk.injEq, true_and]
    cases haff : (s.removeMany rs).2 with
    | nil =>
      exfalso
      apply hany
      have := hb haff
      simp only [Bool.not_eq_true', List.any_eq_false, decide_eq_true_eq]
      exact this
    | cons a as => rfl

theorem set_eq_replace {l : List Rule} (hnd : l.Nodup) {i : Nat} {old : Rule} (hi : l[i]? = some old)
    (new : Rule) : l.set i new = SpecStore.replace l old new := by
  apply List.ext_getElem?
  intro j
  simp only [SpecStore.replace, List.getElem?_set, List.getElem?_map]
  have hlt := (List.getElem?_eq_some_iff.1 hi).1
  split
  · subst_vars; rw [hi]; simp
  · cases hj : l[j]? with
    | none => rfl
    | some x =>
      have : x ≠ old := by
        intro e; subst e
        have := nodup_iff_getElem?.1 hnd _ _ _ hi hj
        contradiction
      simp [this]

theorem replace_of_not_mem {l : List Rule} {old : Rule} (h : old ∉ l) (new : Rule) :
    SpecStore.replace l old new = l := by
  simp only [SpecStore.replace]
  conv => rhs; rw [← List.map_id l]
  apply List.map_congr_left
  intro a ha
  have : a ≠ old := fun e => h (e ▸ ha)
  simp [this]

theorem mem_replace {l : List Rule} {old new x : Rule} :
    x ∈ SpecStore.replace l old new ↔ (x = new ∧ old ∈ l) ∨ (x ∈ l ∧ x ≠ old) := by
  simp only [SpecStore.replace, List.mem_map]
  constructor
  · rintro ⟨a, ha, rfl⟩
    by_cases e : a = old
    · subst e; simp [ha]
    · simp [e, ha]
  · rintro (⟨rfl, h⟩ | ⟨h, hne⟩)
    · exact ⟨old, h, by simp⟩
    · exact ⟨x, h, by simp [hne]⟩

/-- one in-place replacement, as done by `update`, the forward loop and the rollback -/
theorem good_set {n : Nat} (hn : n ≠ 0) {s : Store} (g : Good n s) {a b : Rule}
    (hb : plainRule n b = true) {i : Nat} (hi : s.policy[i]? = some a) (hnew : b ∉ s.policy) :
    Good n ⟨s.policy.set i b, (s.index.del (ruleKey a)).set (ruleKey b) i⟩ := by
  refine ⟨coh_set hn g.coh g.plain hb hi hnew, ?_⟩
  intro q hq
  rcases List.mem_or_eq_of_mem_set hq with h | rfl
  · exact g.plain q h
  · exact hb

theorem update_spec {n : Nat} (hn : n ≠ 0) {s : Store} (g : Good n s) {old new : Rule}
    (ho : plainRule n old = true) (hw : plainRule n new = true) (hnew : new ∉ s.policy) :
    Good n (s.update old new).1 ∧ (s.update old new).1.policy = SpecStore.replace s.policy old new ∧
      ((s.update old new).2 = true ↔ old ∈ s.policy) := by
  simp only [Store.update]
  cases hg : s.index.get (ruleKey old) with
  | none =>
    have hm := (Coh.get_none_iff hn g.coh g.plain ho).1 hg
    exact ⟨g, (replace_of_not_mem hm new).symm, by simp [hm]⟩
  | some i =>
    have hi := (Coh.get_iff hn g.coh g.plain ho i).1 hg
    have hm := List.mem_of_getElem? hi
    exact ⟨good_set hn g hw hi hnew, set_eq_replace g.coh.1 hi new, by simp [hm]⟩

/-! ### `UpdatePolicies`: forward loop and rollback -/

/-- what the rollback needs to know about the journal `done`, relative to the list `l0` the batch
    started from -/
structure RB (n : Nat) (l0 : List Rule) (s : Store) (done : List (Nat × Rule × Rule)) : Prop where
  len : l0.length = s.policy.length
  old0 : ∀ d ∈ done, l0[d.1]? = some d.2.1
  rest : ∀ j : Nat, (∀ d ∈ done, d.1 ≠ j) → l0[j]? = s.policy[j]?
  cur : ∀ d ∈ done, s.policy[d.1]? = some d.2.2
  slots : done.Pairwise (fun d d' => d.1 ≠ d'.1)
  oldout : ∀ d ∈ done, d.2.1 ∉ s.policy
  plain : ∀ d ∈ done, plainRule n d.2.1 = true

theorem RB.perm {n : Nat} {l0 : List Rule} {s : Store} {ds ds' : List (Nat × Rule × Rule)}
    (h : RB n l0 s ds) (p : ds'.Perm ds) : RB n l0 s ds' where
  len := h.len
  old0 := fun d hd => h.old0 d (p.mem_iff.1 hd)
  rest := fun j hj => h.rest j (fun d hd => hj d (p.mem_iff.2 hd))
  cur := fun d hd => h.cur d (p.mem_iff.1 hd)
  slots := (p.pairwise_iff (fun hab => Ne.symm hab)).2 h.slots
  oldout := fun d hd => h.oldout d (p.mem_iff.1 hd)
  plain := fun d hd => h.plain d (p.mem_iff.1 hd)

def rbStep (s : Store) (d : Nat × Rule × Rule) : Store :=
  { policy := s.policy.set d.1 d.2.1, index := (s.index.del (ruleKey d.2.2)).set (ruleKey d.2.1) d.1 }

theorem rollback_fold {n : Nat} (hn : n ≠ 0) {l0 : List Rule} (hnd0 : l0.Nodup)
    (ds : List (Nat × Rule × Rule)) {s : Store} (g : Good n s) (rb : RB n l0 s ds) :
    Good n (ds.foldl rbStep s) ∧ (ds.foldl rbStep s).policy = l0 := by
  induction ds generalizing s with
  | nil =>
    refine ⟨g, ?_⟩
    apply List.ext_getElem?
    intro j
    exact (rb.rest j (by simp)).symm
  | cons d ds ih =>
    simp only [List.foldl_cons]
    have hd : d ∈ d :: ds := List.mem_cons_self
    have hcur := rb.cur d hd
    have hlt := (List.getElem?_eq_some_iff.1 hcur).1
    have g1 : Good n (rbStep s d) := good_set hn g (rb.plain d hd) hcur (rb.oldout d hd)
    have hsl := List.pairwise_cons.1 rb.slots
    refine ih g1 ⟨?_, ?_, ?_, ?_, hsl.2, ?_, ?_⟩
    · simp [rbStep, rb.len]
    · exact fun d' hd' => rb.old0 d' (List.mem_cons_of_mem _ hd')
    · intro j hj
      simp only [rbStep, List.getElem?_set]
      split
      · subst_vars; simp [rb.old0 d hd]
      · rename_i hne
        apply rb.rest j
        intro d' hd'
        rcases List.mem_cons.1 hd' with rfl | hd'
        · exact hne
        · exact hj d' hd'
    · intro d' hd'
      simp only [rbStep, List.getElem?_set]
      rw [if_neg (hsl.1 d' hd')]
      exact rb.cur d' (List.mem_cons_of_mem _ hd')
    · intro d' hd' hmem
      rcases List.mem_or_eq_of_mem_set hmem with h | h
      · exact rb.oldout d' (List.mem_cons_of_mem _ hd') h
      · have h1 := rb.old0 d' (List.mem_cons_of_mem _ hd')
        have h2 := rb.old0 d hd
        rw [h] at h1
        exact hsl.1 d' hd' (nodup_iff_getElem?.1 hnd0 _ _ _ h2 h1)
    · exact fun d' hd' => rb.plain d' (List.mem_cons_of_mem _ hd')

theorem rollback_spec {n : Nat} (hn : n ≠ 0) {l0 : List Rule} (hnd0 : l0.Nodup)
    (ds : List (Nat × Rule × Rule)) {s : Store} (g : Good n s) (rb : RB n l0 s ds) :
    Good n (s.rollback ds) ∧ (s.rollback ds).policy = l0 := by
  have := rollback_fold hn hnd0 (ds.mergeSort (fun a b => a.1 ≤ b.1)) g
    (rb.perm (List.mergeSort_perm _ _))
  exact this

theorem updateLoop_spec {n : Nat} (hn : n ≠ 0) {l0 : List Rule}
    (ps : List (Rule × Rule)) {s : Store} {done : List (Nat × Rule × Rule)}
    (g : Good n s) (rb : RB n l0 s done)
    (hpo : ∀ p ∈ ps, plainRule n p.1 = true) (hpn : ∀ p ∈ ps, plainRule n p.2 = true)
    (hod : (ps.map Prod.fst).Nodup) (hnd : (ps.map Prod.snd).Nodup)
    (hnew : ∀ p ∈ ps, p.2 ∉ s.policy)
    (hno : ∀ p ∈ ps, ∀ p' ∈ ps, p.2 ≠ p'.1)
    (h6 : ∀ d ∈ done, ∀ p ∈ ps, d.2.2 ≠ p.1)
    (h8 : ∀ d ∈ done, ∀ p ∈ ps, d.2.1 ≠ p.2) :
    Good n (s.updateLoop ps done).1 ∧ RB n l0 (s.updateLoop ps done).1 (s.updateLoop ps done).2.1 ∧
    ((s.updateLoop ps done).2.2 = true ↔ ∀ p ∈ ps, p.1 ∈ s.policy) ∧
    ((s.updateLoop ps done).2.2 = true →
      (s.updateLoop ps done).1.policy = ps.foldl (fun l p => SpecStore.replace l p.1 p.2) s.policy) := by
  induction ps generalizing s done with
  | nil => exact ⟨g, rb, by simp [Store.updateLoop], fun _ => rfl⟩
  | cons p rest ih =>
    obtain ⟨old, new⟩ := p
    have hhd : (old, new) ∈ (old, new) :: rest := List.mem_cons_self
    have ho := hpo _ hhd
    have hw := hpn _ hhd
    simp only [Store.updateLoop]
    cases hg : s.index.get (ruleKey old) with
    | none =>
      have hm := (Coh.get_none_iff hn g.coh g.plain ho).1 hg
      refine ⟨g, rb, ?_, by simp⟩
      simp only [Bool.false_eq_true, false_iff]
      intro h; exact hm (h _ hhd)
    | some i =>
      have hi := (Coh.get_iff hn g.coh g.plain ho i).1 hg
      have hm := List.mem_of_getElem? hi
      have hlt := (List.getElem?_eq_some_iff.1 hi).1
      have hnw : new ∉ s.policy := hnew _ hhd
      have hslot : ∀ d ∈ done, d.1 ≠ i := by
        intro d hd e
        have := rb.cur d hd
        rw [e, hi] at this
        exact h6 d hd _ hhd (Option.some.inj this).symm
      have hfil : done.filter (fun d => d.1 != i) = done := by
        rw [List.filter_eq_self]
        intro d hd; simpa using hslot d hd
      simp only [hfil]
      have g1 := good_set hn g hw hi hnw
      have hrepl := set_eq_replace g.coh.1 hi new
      have hod' := List.nodup_cons.1 (by simpa using hod : (old :: rest.map Prod.fst).Nodup)
      have hnd' := List.nodup_cons.1 (by simpa using hnd : (new :: rest.map Prod.snd).Nodup)
      have rb1 : RB n l0 ⟨s.policy.set i new, (s.index.del (ruleKey old)).set (ruleKey new) i⟩
          ((i, old, new) :: done) := by
        refine ⟨by simp [rb.len], ?_, ?_, ?_, ?_, ?_, ?_⟩
        · intro d hd
          rcases List.mem_cons.1 hd with rfl | hd
          · simp only; rw [rb.rest i hslot, hi]
          · exact rb.old0 d hd
        · intro j hj
          have hji : i ≠ j := hj _ List.mem_cons_self
          simp only [List.getElem?_set, if_neg hji]
          exact rb.rest j (fun d hd => hj d (List.mem_cons_of_mem _ hd))
        · intro d hd
          rcases List.mem_cons.1 hd with rfl | hd
          · simp [hlt]
          · simp only [List.getElem?_set, if_neg (hslot d hd).symm]
            exact rb.cur d hd
        · exact List.pairwise_cons.2 ⟨fun d hd => (hslot d hd).symm, rb.slots⟩
        · intro d hd hmem
          rcases List.mem_cons.1 hd with rfl | hd
          · simp only at hmem
            rw [hrepl, mem_replace] at hmem
            rcases hmem with ⟨e, _⟩ | ⟨_, e⟩
            · exact hnw (e ▸ hm)
            · exact e rfl
          · rcases List.mem_or_eq_of_mem_set hmem with h | h
            · exact rb.oldout d hd h
            · exact h8 d hd _ hhd h
        · intro d hd
          rcases List.mem_cons.1 hd with rfl | hd
          · exact ho
          · exact rb.plain d hd
      have hmr : ∀ p, p ∈ rest → p ∈ (old, new) :: rest := fun p hp => List.mem_cons_of_mem _ hp
      obtain ⟨g2, rb2, hok, hpol⟩ := ih (s := ⟨s.policy.set i new, (s.index.del (ruleKey old)).set (ruleKey new) i⟩)
        (done := (i, old, new) :: done) g1 rb1
        (fun p hp => hpo p (hmr p hp)) (fun p hp => hpn p (hmr p hp)) hod'.2 hnd'.2
        (by
          intro p hp hmem
          rcases List.mem_or_eq_of_mem_set hmem with h | h
          · exact hnew p (hmr p hp) h
          · exact hnd'.1 (h ▸ List.mem_map_of_mem hp))
        (fun p hp p' hp' => hno p (hmr p hp) p' (hmr p' hp'))
        (by
          intro d hd p hp
          rcases List.mem_cons.1 hd with rfl | hd
          · exact hno _ hhd p (hmr p hp)
          · exact h6 d hd p (hmr p hp))
        (by
          intro d hd p hp
          rcases List.mem_cons.1 hd with rfl | hd
          · exact (hno p (hmr p hp) _ hhd).symm
          · exact h8 d hd p (hmr p hp))
      refine ⟨g2, rb2, ?_, ?_⟩
      · rw [hok]
        simp only [hrepl]
        constructor
        · intro h p hp
          rcases List.mem_cons.1 hp with rfl | hp
          · exact hm
          · have := h p hp
            rw [mem_replace] at this
            rcases this with ⟨e, _⟩ | ⟨h, _⟩
            · exact absurd e.symm (hno _ hhd p (hmr p hp))
            · exact h
        · intro h p hp
          rw [mem_replace]
          right
          refine ⟨h p (hmr p hp), ?_⟩
          intro e
          exact hod'.1 (e ▸ List.mem_map_of_mem hp)
      · intro h
        rw [hpol h, List.foldl_cons]
        simp only [hrepl]

theorem updateMany_spec {n : Nat} (hn : n ≠ 0) {s : Store} (g : Good n s) (olds news : List Rule)
    (hlen : olds.length = news.length)
    (hpo : ∀ r ∈ olds, plainRule n r = true) (hpn : ∀ r ∈ news, plainRule n r = true)
    (hod : olds.Nodup) (hnd : news.Nodup)
    (hnew : ∀ r ∈ news, r ∉ s.policy ∧ r ∉ olds) :
    Good n (s.updateMany olds news).1 ∧
      ((s.updateMany olds news).1.policy, (s.updateMany olds news).2) =
        SpecStore.apply s.policy (.updateMany olds news) := by
  have hfst : (olds.zip news).map Prod.fst = olds := List.map_fst_zip (by omega)
  have hsnd : (olds.zip news).map Prod.snd = news := List.map_snd_zip (by omega)
  have mfst : ∀ p ∈ olds.zip news, p.1 ∈ olds := fun p hp => hfst ▸ List.mem_map_of_mem hp
  have msnd : ∀ p ∈ olds.zip news, p.2 ∈ news := fun p hp => hsnd ▸ List.mem_map_of_mem hp
  have rb0 : RB n s.policy s [] :=
    ⟨rfl, by simp, fun _ _ => rfl, by simp, List.Pairwise.nil, by simp, by simp⟩
  obtain ⟨g', rb', hok, hpol⟩ := updateLoop_spec hn (olds.zip news) g rb0
    (fun p hp => hpo _ (mfst p hp)) (fun p hp => hpn _ (msnd p hp))
    (hfst.symm ▸ hod) (hsnd.symm ▸ hnd)
    (fun p hp => (hnew _ (msnd p hp)).1)
    (fun p hp p' hp' e => (hnew _ (msnd p hp)).2 (e ▸ mfst p' hp'))
    (by simp) (by simp)
  have hall : (∀ p ∈ olds.zip news, p.1 ∈ s.policy) ↔ olds.all (· ∈ s.policy) = true := by
    simp only [List.all_eq_true, decide_eq_true_eq]
    constructor
    · intro h r hr
      rw [← hfst] at hr
      obtain ⟨p, hp, rfl⟩ := List.mem_map.1 hr
      exact h p hp
    · intro h p hp; exact h _ (mfst p hp)
  rw [hall] at hok
  simp only [Store.updateMany, SpecStore.apply]
  rcases hres : s.updateLoop (olds.zip news) [] with ⟨s', done, ok⟩
  rw [hres] at g' rb' hok hpol
  cases ok with
  | true =>
    simp only at hok hpol ⊢
    rw [if_pos (hok.1 trivial)]
    exact ⟨g', by rw [hpol trivial]⟩
  | false =>
    simp only at hok ⊢
    have : ¬ (olds.all (· ∈ s.policy) = true) := fun h => by simpa using hok.2 h
    rw [if_neg this]
    obtain ⟨g'', hp⟩ := rollback_spec hn g.coh.1 done g' rb'
    exact ⟨g'', by rw [hp]⟩

/-! ### filters -/

theorem matchFilter_eq (rule : Rule) (vals : List String) (fi : Nat) (h : fi + vals.length ≤ rule.length) :
    Store.matchFilter rule fi vals = some (filterMatches fi vals rule) := by
  induction vals generalizing fi with
  | nil => simp [Store.matchFilter, filterMatches]
  | cons v vs ih =>
    have ih' := ih (fi + 1) (by simp at h; omega)
    have hlt : fi < rule.length := by simp at h; omega
    simp only [Store.matchFilter, filterMatches, List.zipIdx_cons, List.all_cons] at ih' ⊢
    by_cases hv : v = ""
    · simp [hv, ih']
    · have hb : (v == "") = false := by simpa using hv
      simp only [hb, Bool.false_eq_true, if_false, Bool.false_or]
      rw [List.getElem?_eq_getElem hlt]
      simp only
      by_cases hf : rule[fi] = v
      · simp [hf, ih']
      · simp [hf]

theorem getFiltered_eq (s : Store) (fi : Nat) (vals : List String)
    (hm : ∀ q ∈ s.policy, Store.matchFilter q fi vals = some (filterMatches fi vals q)) :
    s.getFiltered fi vals = some (s.policy.filter (filterMatches fi vals)) := by
  simp only [Store.getFiltered]
  generalize s.policy = l at hm
  induction l with
  | nil => rfl
  | cons q l ih =>
    have ih' := ih (fun r hr => hm r (List.mem_cons_of_mem _ hr))
    simp only [List.foldr_cons, ih', hm q List.mem_cons_self, List.filter_cons]
    cases filterMatches fi vals q <;> rfl

theorem filterScan_spec {n : Nat} (hn : n ≠ 0) (fi : Nat) (vals : List String) (rs : List Rule)
    (tmp : List Rule) (ix : Index) (eff : List Rule)
    (hm : ∀ r ∈ rs, Store.matchFilter r fi vals = some (filterMatches fi vals r))
    (g : Good n ⟨tmp.reverse, ix⟩) (hp : ∀ r ∈ rs, plainRule n r = true)
    (hnd : (tmp.reverse ++ rs).Nodup) :
    ∃ ix' eff', Store.filterScan fi vals rs tmp ix eff =
        some ((rs.filter (fun r => !filterMatches fi vals r)).reverse ++ tmp, ix', eff') ∧
      Good n ⟨tmp.reverse ++ rs.filter (fun r => !filterMatches fi vals r), ix'⟩ := by
  induction rs generalizing tmp ix eff with
  | nil => exact ⟨ix, eff, by simp [Store.filterScan], by simpa using g⟩
  | cons r rs ih =>
    have hm' : ∀ r ∈ rs, Store.matchFilter r fi vals = some (filterMatches fi vals r) :=
      fun q hq => hm q (List.mem_cons_of_mem _ hq)
    have hp' : ∀ r ∈ rs, plainRule n r = true := fun q hq => hp q (List.mem_cons_of_mem _ hq)
    simp only [Store.filterScan, hm r List.mem_cons_self, List.filter_cons]
    cases hf : filterMatches fi vals r with
    | true =>
      simp only [Bool.not_true, Bool.false_eq_true, if_false]
      apply ih tmp ix (r :: eff) hm' g hp'
      have : (tmp.reverse ++ rs).Sublist (tmp.reverse ++ r :: rs) :=
        List.Sublist.append_left (List.sublist_cons_self _ _) _
      exact hnd.sublist this
    | false =>
      simp only [Bool.not_false, if_true]
      have hr : r ∉ tmp.reverse := by
        intro h
        have := (List.nodup_append.1 hnd).2.2 r h r List.mem_cons_self
        exact this rfl
      have hc := coh_append hn g.coh g.plain (hp r List.mem_cons_self) hr
      simp only [List.length_reverse] at hc
      have g1 : Good n ⟨(r :: tmp).reverse, ix.set (ruleKey r) tmp.length⟩ := by
        refine ⟨by simpa using hc, ?_⟩
        intro q hq
        simp only [List.reverse_cons, List.mem_append, List.mem_singleton] at hq
        rcases hq with hq | rfl
        · exact g.plain q hq
        · exact hp _ List.mem_cons_self
      obtain ⟨ix', eff', h1, h2⟩ := ih (r :: tmp) (ix.set (ruleKey r) tmp.length) eff hm' g1 hp'
        (by simpa using hnd)
      refine ⟨ix', eff', ?_, ?_⟩
      · rw [h1]; simp
      · simpa using h2

theorem plainRule_length {n : Nat} {r : Rule} (h : plainRule n r = true) : r.length = n := by
  simp only [plainRule, Bool.and_eq_true, beq_iff_eq] at h
  exact h.1

theorem removeFiltered_spec {n : Nat} (hn : n ≠ 0) {s : Store} (g : Good n s) (fi : Nat)
    (vals : List String) (hr : fi + vals.length ≤ n) :
    ∃ s' b eff, s.removeFiltered fi vals = some (s', b, eff) ∧ Good n s' ∧
      (s'.policy, b) = SpecStore.apply s.policy (.removeFiltered fi vals) := by
  have hm : ∀ r ∈ s.policy, Store.matchFilter r fi vals = some (filterMatches fi vals r) :=
    fun r hr' => matchFilter_eq r vals fi (by rw [plainRule_length (g.plain r hr')]; exact hr)
  have g0 : Good n ⟨([] : List Rule).reverse, []⟩ := by
    refine ⟨⟨by simp, ?_, ?_⟩, by simp⟩
    · intro r i h; simp at h
    · intro k i h; simp [Index.get] at h
  obtain ⟨ix', eff', h1, h2⟩ := filterScan_spec hn fi vals s.policy [] [] [] hm g0 g.plain
    (by simpa using g.coh.1)
  simp only [List.append_nil, List.reverse_nil, List.nil_append] at h1 h2
  simp only [Store.removeFiltered, h1, SpecStore.apply, List.length_reverse, List.reverse_reverse]
  split
  · rename_i hne
    exact ⟨_, _, _, rfl, h2, by rw [hne]⟩
  · rename_i hne
    have hlen : (s.policy.filter (fun r => !filterMatches fi vals r)).length = s.policy.length := by
      simpa using hne
    have hfe : s.policy.filter (fun r => !filterMatches fi vals r) = s.policy :=
      List.filter_eq_self.2 (List.length_filter_eq_length_iff.1 hlen)
    refine ⟨_, _, _, rfl, ?_, ?_⟩
    · rw [hfe] at h2; exact h2
    · simp only [hfe]; simp

/-! ### one management call -/

theorem coh_empty' : Coh Store.empty := by
  refine ⟨List.nodup_nil, ?_, ?_⟩
  · intro r i h; simp [Store.empty] at h
  · intro k i h; simp [Store.empty, Index.get] at h

theorem bool_eq_false_of_not {b : Bool} {p : Prop} (h : b = true ↔ p) (hp : ¬ p) : b = false := by
  cases b with
  | false => rfl
  | true => exact absurd (h.1 rfl) hp

theorem mgmt_remove_spec {n : Nat} (hn : n ≠ 0) {s : Store} (g : Good n s) {r : Rule}
    (hr : plainRule n r = true) :
    Good n (Mgmt.remove s r).1 ∧
      ((Mgmt.remove s r).1.policy, (Mgmt.remove s r).2) = SpecStore.apply s.policy (.remove r) := by
  obtain ⟨g', hp, hb⟩ := remove_spec hn g hr
  refine ⟨g', ?_⟩
  simp only [Mgmt.remove, SpecStore.apply]
  by_cases hmem : r ∈ s.policy
  · rw [if_pos hmem, hp, hb.2 hmem]
  · rw [if_neg hmem, hp, List.erase_of_not_mem hmem, bool_eq_false_of_not hb hmem]

theorem mgmt_update_spec {n : Nat} (hn : n ≠ 0) {s : Store} (g : Good n s) {old new : Rule}
    (ho : plainRule n old = true) (hw : plainRule n new = true) (hnew : new ∉ s.policy) :
    Good n (Mgmt.update s old new).1 ∧
      ((Mgmt.update s old new).1.policy, (Mgmt.update s old new).2) =
        SpecStore.apply s.policy (.update old new) := by
  obtain ⟨g', hp, hb⟩ := update_spec hn g ho hw hnew
  refine ⟨g', ?_⟩
  simp only [Mgmt.update, SpecStore.apply]
  by_cases hmem : old ∈ s.policy
  · rw [if_pos hmem, hp, hb.2 hmem]
  · rw [if_neg hmem, hp, replace_of_not_mem hmem, bool_eq_false_of_not hb hmem]

theorem mgmt_apply_spec {n : Nat} {s : Store} {op : StoreOp} (g : Good n s)
    (hwf : WF06 n s.policy op = true) :
    ∃ s' b, Mgmt.apply s op = some (s', b) ∧ Good n s' ∧ (s'.policy, b) = SpecStore.apply s.policy op := by
  simp only [WF06, Bool.and_eq_true, bne_iff_ne, ne_eq, List.all_eq_true] at hwf
  obtain ⟨⟨⟨hop, _⟩, hn⟩, hm⟩ := hwf
  cases op with
  | add r =>
    obtain ⟨g', e⟩ := mgmt_add_spec hn g (hop r (by simp [StoreOp.rules]))
    exact ⟨_, _, rfl, g', e⟩
  | addMany ex rs =>
    obtain ⟨g', e⟩ := mgmt_addMany_spec hn g ex rs (fun r hr => hop r (by simpa [StoreOp.rules] using hr))
    exact ⟨_, _, rfl, g', e⟩
  | remove r =>
    obtain ⟨g', e⟩ := mgmt_remove_spec hn g (hop r (by simp [StoreOp.rules]))
    exact ⟨_, _, rfl, g', e⟩
  | removeMany rs =>
    obtain ⟨g', e⟩ := mgmt_removeMany_spec hn g rs (fun r hr => hop r (by simpa [StoreOp.rules] using hr))
    exact ⟨_, _, rfl, g', e⟩
  | update old new =>
    simp only [Bool.and_eq_true, bne_iff_ne, ne_eq, Bool.not_eq_true', List.contains_eq_mem,
      decide_eq_false_iff_not] at hm
    obtain ⟨g', e⟩ := mgmt_update_spec hn g (hop old (by simp [StoreOp.rules]))
      (hop new (by simp [StoreOp.rules])) hm.2
    exact ⟨_, _, rfl, g', e⟩
  | updateMany olds news =>
    simp only [Bool.and_eq_true, beq_iff_eq, decide_eq_true_eq, List.all_eq_true, Bool.not_eq_true',
      List.contains_eq_mem, decide_eq_false_iff_not] at hm
    obtain ⟨⟨⟨⟨hlen, _⟩, hod⟩, hnd⟩, hnew⟩ := hm
    obtain ⟨g', e⟩ := updateMany_spec hn g olds news hlen
      (fun r hr => hop r (by simp [StoreOp.rules, hr])) (fun r hr => hop r (by simp [StoreOp.rules, hr]))
      hod hnd hnew
    refine ⟨_, _, ?_, g', e⟩
    simp [Mgmt.apply, Mgmt.updateMany, hlen]
  | removeFiltered fi vals =>
    simp only [Bool.and_eq_true, decide_eq_true_eq] at hm
    obtain ⟨s', b, eff, h1, g', e⟩ := removeFiltered_spec hn g fi vals hm.2
    exact ⟨s', b, by simp [Mgmt.apply, Mgmt.removeFiltered, h1], g', e⟩

/-! ### facts about the specification alone -/

theorem length_foldl_addOne (rs : List Rule) (l : List Rule) :
    l.length ≤ (rs.foldl SpecStore.addOne l).length := by
  induction rs generalizing l with
  | nil => exact Nat.le_refl _
  | cons r rs ih =>
    simp only [List.foldl_cons]
    refine Nat.le_trans ?_ (ih _)
    simp only [SpecStore.addOne]
    split <;> simp

theorem length_foldl_erase_le (rs : List Rule) (l : List Rule) :
    (rs.foldl List.erase l).length ≤ l.length := by
  induction rs generalizing l with
  | nil => exact Nat.le_refl _
  | cons r rs ih =>
    simp only [List.foldl_cons]
    exact Nat.le_trans (ih _) (List.length_erase_le)

theorem length_foldl_erase_lt (rs : List Rule) (l : List Rule) (h : ∃ r ∈ rs, r ∈ l) :
    (rs.foldl List.erase l).length < l.length := by
  induction rs generalizing l with
  | nil => obtain ⟨r, hr, _⟩ := h; simp at hr
  | cons r rs ih =>
    simp only [List.foldl_cons]
    by_cases hr : r ∈ l
    · have h1 := length_foldl_erase_le rs (l.erase r)
      have h2 := List.length_erase_of_mem hr
      have : 0 < l.length := List.length_pos_of_mem hr
      omega
    · rw [List.erase_of_not_mem hr]
      apply ih
      obtain ⟨q, hq, hql⟩ := h
      rcases List.mem_cons.1 hq with rfl | hq
      · exact absurd hql hr
      · exact ⟨q, hq, hql⟩

theorem mem_foldl_replace (ps : List (Rule × Rule)) (l : List Rule) {x : Rule} (hx : x ∈ l)
    (hne : ∀ p ∈ ps, p.1 ≠ x) : x ∈ ps.foldl (fun l p => SpecStore.replace l p.1 p.2) l := by
  induction ps generalizing l with
  | nil => exact hx
  | cons p ps ih =>
    simp only [List.foldl_cons]
    apply ih
    · rw [mem_replace]; right; exact ⟨hx, (hne p List.mem_cons_self).symm⟩
    · exact fun q hq => hne q (List.mem_cons_of_mem _ hq)

theorem spec_false_iff_unchanged (n : Nat) (l : List Rule) (op : StoreOp)
    (hwf : WF06 n l op = true) (hex : ∀ rs, op ≠ .addMany true rs) :
    (SpecStore.apply l op).2 = false ↔ (SpecStore.apply l op).1 = l := by
  simp only [WF06, Bool.and_eq_true, bne_iff_ne, ne_eq, List.all_eq_true] at hwf
  obtain ⟨_, hm⟩ := hwf
  cases op with
  | add r =>
    simp only [SpecStore.apply]
    split <;> simp
  | addMany ex rs =>
    cases ex with
    | true => exact absurd rfl (hex rs)
    | false =>
      simp only [SpecStore.apply, Bool.not_false, Bool.true_and]
      split
      · simp
      · rename_i hany
        simp only [Bool.true_eq_false, false_iff]
        intro e
        cases rs with
        | nil => simp at hm
        | cons r rs =>
          have hr : r ∉ l := by
            intro h; apply hany; simp [h]
          have h1 := length_foldl_addOne rs (SpecStore.addOne l r)
          simp only [List.foldl_cons] at e
          rw [e] at h1
          simp [SpecStore.addOne, hr] at h1
          omega
  | remove r =>
    simp only [SpecStore.apply]
    split
    · rename_i h
      simp only [Bool.true_eq_false, false_iff]
      intro e
      have := List.length_erase_of_mem h
      rw [e] at this
      have : 0 < l.length := List.length_pos_of_mem h
      omega
    · simp
  | removeMany rs =>
    simp only [SpecStore.apply]
    split
    · simp
    · rename_i hany
      simp only [Bool.true_eq_false, false_iff]
      intro e
      have hex' : ∃ r ∈ rs, r ∈ l := by
        simpa using hany
      have := length_foldl_erase_lt rs l hex'
      rw [e] at this
      omega
  | update old new =>
    simp only [Bool.and_eq_true, bne_iff_ne, ne_eq, Bool.not_eq_true', List.contains_eq_mem,
      decide_eq_false_iff_not] at hm
    simp only [SpecStore.apply]
    split
    · rename_i h
      simp only [Bool.true_eq_false, false_iff]
      intro e
      have : new ∈ SpecStore.replace l old new := mem_replace.2 (Or.inl ⟨rfl, h⟩)
      rw [e] at this
      exact hm.2 this
    · simp
  | updateMany olds news =>
    simp only [Bool.and_eq_true, beq_iff_eq, decide_eq_true_eq, List.all_eq_true, Bool.not_eq_true',
      List.contains_eq_mem, decide_eq_false_iff_not] at hm
    obtain ⟨⟨⟨⟨hlen, hne⟩, hod⟩, hnd⟩, hnew⟩ := hm
    simp only [SpecStore.apply]
    split
    · rename_i hall
      simp only [Bool.true_eq_false, false_iff]
      intro e
      cases olds with
      | nil => simp at hne
      | cons o os =>
        cases news with
        | nil => simp at hlen
        | cons w ws =>
          simp only [List.zip_cons_cons, List.foldl_cons] at e
          have ho : o ∈ l := by
            simp only [List.all_eq_true, decide_eq_true_eq] at hall
            exact hall o List.mem_cons_self
          have hw := hnew w List.mem_cons_self
          have : w ∈ (os.zip ws).foldl (fun l p => SpecStore.replace l p.1 p.2) (SpecStore.replace l o w) := by
            apply mem_foldl_replace
            · exact mem_replace.2 (Or.inl ⟨rfl, ho⟩)
            · intro p hp e'
              have : p.1 ∈ os := (List.of_mem_zip hp).1
              exact hw.2 (e' ▸ List.mem_cons_of_mem _ this)
          rw [e] at this
          exact hw.1 this
    · simp
  | removeFiltered fi vals =>
    simp only [SpecStore.apply]
    constructor
    · intro h
      have hlen : (l.filter (fun r => !filterMatches fi vals r)).length = l.length := by simpa using h
      exact List.filter_eq_self.2 (List.length_filter_eq_length_iff.1 hlen)
    · intro h; rw [h]; simp

/-! ### the priority insertion of `AddPolicy` -/

theorem insert_getElem? (l : List Rule) (r : Rule) {keep : Nat} (hk : keep ≤ l.length) (j : Nat) :
    (l.take keep ++ [r] ++ l.drop keep)[j]? =
      if j < keep then l[j]? else if j = keep then some r else l[j - 1]? := by
  rw [List.append_assoc, List.getElem?_append]
  have hlen : (l.take keep).length = keep := by simp; omega
  rw [hlen]
  split
  · rw [List.getElem?_take]; simp [*]
  · rename_i h
    split
    · subst_vars; simp
    · have : j - keep = (j - keep - 1) + 1 := by omega
      rw [this]
      simp only [List.singleton_append, List.getElem?_cons_succ, List.getElem?_drop]
      congr 1; omega

theorem foldl_incr_get_of_not_mem (qs : List Rule) (ix : Index) (k : String)
    (hk : ∀ q ∈ qs, ruleKey q ≠ k) :
    (qs.foldl (fun ix q => ix.incr (ruleKey q)) ix).get k = ix.get k := by
  induction qs generalizing ix with
  | nil => rfl
  | cons q qs ih =>
    simp only [List.foldl_cons]
    rw [ih _ (fun q' hq' => hk q' (List.mem_cons_of_mem _ hq')), Index.incr, Index.get_set,
      if_neg (fun e => hk q List.mem_cons_self e.symm)]

theorem foldl_incr_get_of_mem (qs : List Rule) (ix : Index) (hnd : (qs.map ruleKey).Nodup)
    {q : Rule} (hq : q ∈ qs) :
    (qs.foldl (fun ix q => ix.incr (ruleKey q)) ix).get (ruleKey q) =
      some ((ix.get (ruleKey q)).getD 0 + 1) := by
  induction qs generalizing ix with
  | nil => simp at hq
  | cons a qs ih =>
    simp only [List.foldl_cons]
    simp only [List.map_cons, List.nodup_cons] at hnd
    by_cases e : ruleKey q = ruleKey a
    · rw [foldl_incr_get_of_not_mem]
      · rw [e]; simp [Index.incr]
      · intro q' hq' e'
        exact hnd.1 (by rw [← e, ← e']; exact List.mem_map_of_mem hq')
    · have hq' : q ∈ qs := by
        rcases List.mem_cons.1 hq with rfl | h
        · exact absurd rfl e
        · exact h
      rw [ih _ hnd.2 hq', Index.incr, Index.get_set, if_neg e]

theorem insert_perm (l : List Rule) (r : Rule) (keep : Nat) :
    (l.take keep ++ [r] ++ l.drop keep).Perm (r :: l) := by
  rw [List.append_assoc, List.singleton_append]
  have := List.perm_middle (a := r) (l₁ := l.take keep) (l₂ := l.drop keep)
  rwa [List.take_append_drop] at this

theorem good_insert {n : Nat} (hn : n ≠ 0) {s : Store} (g : Good n s) {r : Rule}
    (hr : plainRule n r = true) (hnew : r ∉ s.policy) {keep : Nat} (hk : keep ≤ s.policy.length) :
    Good n ⟨s.policy.take keep ++ [r] ++ s.policy.drop keep,
      ((s.policy.drop keep).reverse.foldl (fun ix q => ix.incr (ruleKey q))
        (s.index.set (ruleKey r) s.policy.length)).set (ruleKey r) keep⟩ := by
  have hslot := @Coh.slot_inj n hn s g.coh g.plain
  have hperm := insert_perm s.policy r keep
  have hkr : ∀ q ∈ s.policy, ruleKey q ≠ ruleKey r :=
    fun q hq e => hnew (plain_key_inj hn (g.plain q hq) hr e ▸ hq)
  have hmnd : ((s.policy.drop keep).reverse.map ruleKey).Nodup := by
    rw [List.map_reverse, (List.reverse_perm _).nodup_iff, nodup_iff_getElem?]
    intro i j k hi hj
    simp only [List.getElem?_map, List.getElem?_drop, Option.map_eq_some_iff] at hi hj
    obtain ⟨q, hq, rfl⟩ := hi
    obtain ⟨q', hq', e⟩ := hj
    have := hslot hq' hq e
    omega
  have hmem_moved : ∀ q, q ∈ (s.policy.drop keep).reverse ↔ ∃ p, keep ≤ p ∧ s.policy[p]? = some q := by
    intro q
    rw [List.mem_reverse, List.mem_iff_getElem?]
    simp only [List.getElem?_drop]
    constructor
    · rintro ⟨i, hi⟩; exact ⟨keep + i, by omega, hi⟩
    · rintro ⟨p, hp, hq⟩; exact ⟨p - keep, by rw [← hq]; congr 1; omega⟩
  obtain ⟨hnd, h1, h2⟩ := g.coh
  refine ⟨⟨hperm.symm.nodup (List.nodup_cons.2 ⟨hnew, hnd⟩), ?_, ?_⟩, ?_⟩
  · intro q j hq
    simp only at hq ⊢
    rw [insert_getElem? _ _ hk] at hq
    rw [Index.get_set]
    split at hq
    · rename_i hj
      have hqm := List.mem_of_getElem? hq
      rw [if_neg (hkr q hqm), foldl_incr_get_of_not_mem, Index.get_set, if_neg (hkr q hqm)]
      · exact h1 q j hq
      · intro q' hq' e
        obtain ⟨p, hp, hq''⟩ := (hmem_moved q').1 hq'
        have := hslot hq'' hq e
        omega
    · split at hq
      · subst_vars; simp at hq; subst hq; simp
      · have hqm := List.mem_of_getElem? hq
        rw [if_neg (hkr q hqm), foldl_incr_get_of_mem _ _ hmnd ((hmem_moved q).2 ⟨j - 1, by omega, hq⟩),
          Index.get_set, if_neg (hkr q hqm), h1 q (j - 1) hq]
        simp only [Option.getD_some]
        congr 1; omega
  · intro k j hg
    simp only at hg ⊢
    rw [Index.get_set] at hg
    split at hg
    · simp at hg; subst hg; subst_vars
      exact ⟨r, by rw [insert_getElem? _ _ hk]; simp, rfl⟩
    · rename_i hkne
      by_cases hmv : ∃ q ∈ (s.policy.drop keep).reverse, ruleKey q = k
      · obtain ⟨q, hqm, rfl⟩ := hmv
        obtain ⟨p, hp, hq⟩ := (hmem_moved q).1 hqm
        rw [foldl_incr_get_of_mem _ _ hmnd hqm, Index.get_set, if_neg hkne, h1 q p hq] at hg
        simp only [Option.getD_some, Option.some.injEq] at hg
        subst hg
        refine ⟨q, ?_, rfl⟩
        rw [insert_getElem? _ _ hk, if_neg (by omega), if_neg (by omega)]
        simpa using hq
      · rw [foldl_incr_get_of_not_mem _ _ _ (fun q hq e => hmv ⟨q, hq, e⟩), Index.get_set,
          if_neg hkne] at hg
        obtain ⟨q, hq, hqk⟩ := h2 k j hg
        refine ⟨q, ?_, hqk⟩
        have : j < keep := by
          apply Nat.lt_of_not_le
          intro hle
          exact hmv ⟨q, (hmem_moved q).2 ⟨j, hle, hq⟩, hqk⟩
        rw [insert_getElem? _ _ hk, if_pos this]; exact hq
  · intro q hq
    rcases List.mem_cons.1 (hperm.mem_iff.1 hq) with rfl | h
    · exact hr
    · exact g.plain q h

theorem good_add_prio {n : Nat} (hn : n ≠ 0) (pi : Nat) {s : Store} (g : Good n s) {r : Rule}
    (hr : plainRule n r = true) (hnew : r ∉ s.policy) :
    Good n (s.add (some pi) r) ∧ (s.add (some pi) r).policy.Perm (r :: s.policy) := by
  simp only [Store.add]
  split
  · exact ⟨(good_add_none hn g hr hnew).1, List.perm_append_singleton _ _⟩
  · exact ⟨good_insert hn g hr hnew (Nat.sub_le _ _), insert_perm _ _ _⟩

end Casbin
