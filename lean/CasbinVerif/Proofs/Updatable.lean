import CasbinVerif.Model.Enforcer
/-
  The `Enf.updatable` guard of `updatePolicyWN` / `updatePoliciesWN` (the repair of D12/D18).

  Proof-side vocabulary only: the part of the two functions that runs once the guard has let the call
  through gets a name, so that a proof can deal with the two early returns (no store: `.err false`,
  refused: `.ok false`, the state untouched in both) without unfolding the rest.
-/
namespace Casbin
namespace Enf

/-- what `updatePolicyWN` does once `updatable` has let the call through (its body before the repair) -/
def updatePolicyBody (e : Enf) (sec pt : String) (old new : Rule) : Enf × MRes :=
  let (e, okA) := if e.shouldPersist
    then e.adapterCall s!"UpdatePolicy({pt};{showRule old};{showRule new})"
      (fun a => if a.has pt old then { a with lines := a.lines.map (fun l => if l == (pt, old) then (pt, new) else l) } else a)
    else (e, true)
  if !okA then (e, .err false)
  else
    match e.getStore sec pt with
    | none => (e, .err false)
    | some s =>
      match s.update old new with
      | (_, false) => (e, .ok false)
      | (s', true) =>
        let e := e.setStore sec pt s'
        if sec == "g" then
          let (e, ok1) := e.incrLinks false pt [old]
          if !ok1 then (e, .err true)
          else
            let (e, ok2) := e.incrLinks true pt [new]
            if ok2 then (e, .ok true) else (e, .err true)
        else (e, .ok true)

/-- what `updatePoliciesWN` does once `updatable` has let the call through -/
def updatePoliciesBody (e : Enf) (sec pt : String) (olds news : List Rule) : Enf × MRes :=
  let (e, okA) := if e.shouldPersist
    then e.adapterCall s!"UpdatePolicies({pt};{showRules olds};{showRules news})"
      (fun a => (olds.zip news).foldl (fun a (o, n) =>
        if a.has pt o then { a with lines := a.lines.map (fun l => if l == (pt, o) then (pt, n) else l) } else a) a)
    else (e, true)
  if !okA then (e, .err false)
  else
    match e.getStore sec pt with
    | none => (e, .err false)
    | some s =>
      match s.updateMany olds news with
      | (s', false) => (e.setStore sec pt s', .ok false)
      | (s', true) =>
        let e := e.setStore sec pt s'
        if sec == "g" then
          let (e, ok1) := e.incrLinks false pt olds
          if !ok1 then (e, .err true)
          else
            let (e, ok2) := e.incrLinks true pt news
            if ok2 then (e, .ok true) else (e, .err true)
        else (e, .ok true)

theorem updatePolicyWN_eq (e : Enf) (sec pt : String) (old new : Rule) :
    e.updatePolicyWN sec pt old new =
      match e.getStore sec pt with
      | none => (e, .err false)
      | some s0 => if !updatable s0 [old] [new] then (e, .ok false) else e.updatePolicyBody sec pt old new := rfl

theorem updatePoliciesWN_eq (e : Enf) (sec pt : String) (olds news : List Rule) :
    e.updatePoliciesWN sec pt olds news =
      if olds.length != news.length then (e, .err false)
      else
        match e.getStore sec pt with
        | none => (e, .err false)
        | some s0 => if !updatable s0 olds news then (e, .ok false) else e.updatePoliciesBody sec pt olds news := rfl

end Enf
end Casbin
