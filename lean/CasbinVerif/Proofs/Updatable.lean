import CasbinVerif.Model.Enforcer
/-
  The `Enf.updatable` guard of `updatePolicyWN` / `updatePoliciesWN` (the repair of D12/D18).

  Proof-side vocabulary only: the part of the two functions that runs once the guard has let the call
  through gets a name, so that a proof can deal with the two early returns (no store: `.err false`,
  refused: `.ok false`, the state untouched in both) without unfolding the rest.
-/
namespace Casbin
namespace Enf

/-- what `updatePolicyWN` does once `updatable` has let the call through (its body before the repair) -/
def updatePolicyBody (e : Enf) (sec pt : String) (old new : Rule) : Enf × MRes :=
  let (e, okA) := if e.shouldPersist
    then e.adapterCall s!"UpdatePolicy({pt};{showRule old};{showRule new})"
      (fun a => if a.has pt old then { a with lines := a.lines.map (fun l => if l == (pt, old) then (pt, new) else l) } else a)
    else (e, true)
  if !okA then (e, .err false)
  else
    match e.getStore sec pt with
    | none => (e, .err false)
    | some s =>
      match s.update old new with
      | (_, false) => (e, .ok false)
      | (s', true) =>
        let e := e.setStore sec pt s'
        if sec == "g" then
          let (e, ok1) := e.incrLinks false pt [old]
          if !ok1 then (e, .err true)
          else
            let (e, ok2) := e.incrLinks true pt [new]
            if ok2 then (e, .ok true) else (e, .err true)
        else (e, .ok true)

/-- what `updatePoliciesWN` does once `updatable` has let the call through -/
def updatePoliciesBody (e : Enf) (sec pt : String) (olds news : List Rule) : Enf × MRes :=
  let (e, okA) := if e.shouldPersist
    then e.adapterCall s!"UpdatePolicies({pt};{showRules olds};{showRules news})"
      (fun a => (olds.zip news).foldl (fun a (o, n) =>
        if a.has pt o then { a with lines := a.lines.map (fun l => if l == (pt, o) then (pt, n) else l) } else a) a)
    else (e, true)
  if !okA then (e, .err false)
  else
    match e.getStore sec pt with
    | none => (e, .err false)
    | some s =>
      match s.updateMany olds news with
      | (s', false) => (e.setStore sec pt s', .ok false)
      | (s', true) =>
        let e := e.setStore sec pt s'
        if sec == "g" then
          let (e, ok1) := e.incrLinks false pt olds
          if !ok1 then (e, .err true)
          else
            let (e, ok2) := e.incrLinks true pt news
            if ok2 then (e, .ok true) else (e, .err true)
        else (e, .ok true)

theorem updatePolicyWN_eq (e : Enf) (sec pt : String) (old new : Rule) :
    e.updatePolicyWN sec pt old new =
      match e.getStore sec pt with
      | none => (e, .err false)
      | some s0 => if !updatable s0 [old] [new] then (e, .ok false) else e.updatePolicyBody sec pt old new := rfl

theorem updatePoliciesWN_eq (e : Enf) (sec pt : String) (olds news : List Rule) :
    e.updatePoliciesWN sec pt olds news =
      if olds.length != news.length then (e, .err false)
      else
        match e.getStore sec pt with
        | none => (e, .err false)
        | some s0 => if !updatable s0 olds news then (e, .ok false) else e.updatePoliciesBody sec pt olds news := rfl

/-- the guard lets a batch through only if every old rule it pairs is held (whatever was seen before) -/
theorem updatableFrom_has (s : Store) : ∀ (ps : List (Rule × Rule)) (seenOld seenNew : List String),
    updatableFrom s seenOld seenNew ps = true → ∀ p ∈ ps, s.has p.1 = true := by
  intro ps
  induction ps with
  | nil => intro _ _ _ p hp; cases hp
  | cons q rest ih =>
    obtain ⟨o, n⟩ := q
    intro seenOld seenNew h p hp
    unfold updatableFrom at h
    cases hho : s.has o with
    | false => simp [hho] at h
    | true =>
      rcases List.mem_cons.1 hp with rfl | hp
      · exact hho
      · simp only [hho, Bool.not_true, Bool.false_eq_true, if_false] at h
        split at h
        · cases h
        · split at h
          · exact ih _ _ h p hp
          · split at h
            · cases h
            · split at h
              · cases h
              · exact ih _ _ h p hp

/-- what the clause of `opWF10` on batch updates used to assume, now provided by the guard: a batch that
    `updatable` lets through names held old rules only -/
theorem updatable_olds_has {s : Store} {olds news : List Rule} (h : updatable s olds news = true)
    (hlen : olds.length = news.length) : ∀ o ∈ olds, s.has o = true := by
  intro o ho
  have hm : o ∈ (olds.zip news).map Prod.fst := by
    rw [List.map_fst_zip (Nat.le_of_eq hlen)]; exact ho
  obtain ⟨p, hp, rfl⟩ := List.mem_map.1 hm
  exact updatableFrom_has s _ _ _ h p hp

end Enf
end Casbin
