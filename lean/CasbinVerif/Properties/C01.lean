import CasbinVerif.Spec.Perm
import CasbinVerif.Proofs.RoleGraph
import CasbinVerif.Proofs.Enforce
/-
  C01 — Enforce decisions equal the PERM semantics of model, policy and role links.

  `enforce` mirrors `enforcer.go: enforce()`, `RM.hasLink` mirrors the role manager's breadth-first
  search, `specEnforce` is the reference evaluator (no streaming, no effector code, reachability by
  direct recursion on the depth).  Built-in functions (`fn`) and the `eval()` table are arbitrary
  parameters: the theorems hold for keyMatch*, regexMatch, ipMatch, globMatch and custom functions alike.
-/
namespace Casbin.C01

/-- the executable reachability of the specification is the inductive relation -/
theorem reachB_iff (links : List Link) (d : String) (n : Nat) (u r : String) :
    reachB links d n u r = true ↔ ReachWithin links d n u r := by
  exact reachB_iff' links d n u r

/-- the role manager's breadth-first search decides reachability within the depth bound:
    `HasLink` holds exactly for names at most `maxLevel` links away (and for equal names) -/
theorem hasLink_iff_reach (rm : RM) (u r : String) (ds : List String) :
    rm.hasLink u r ds = true ↔ ReachWithin rm.links (rm.dom ds) rm.maxLevel u r := by
  exact hasLink_iff_reach' rm u r ds

/-- the links held after building them from the listed grouping rules are the rules' links -/
theorem applyRules_links (k : RMKind) (count : Nat) (rules : List Rule)
    (hlen : ∀ r ∈ rules, count ≤ r.length) (hc : 2 ≤ count) :
    ∃ rm, (RM.empty k).applyRules count true rules = (rm, true) ∧
      ∀ l, l ∈ rm.links ↔ l ∈ linksOfRules count k rules := by
  obtain ⟨rm, h1, _, h3⟩ := applyRules_links_gen count rules (RM.empty k) hlen hc
  refine ⟨rm, h1, fun l => ?_⟩
  rw [h3 l]
  simp [RM.empty]

/-- the matcher evaluation depends on the role links only through their answers -/
theorem evalExpr_congr_link (fuel : Nat) (ρ ρ' : Env) (e : Expr)
    (hr : ρ.r = ρ'.r) (hp : ρ.p = ρ'.p) (hf : ρ.fn = ρ'.fn) (ht : ρ.evalTab = ρ'.evalTab)
    (hl : ∀ gt args, ρ.link gt args = ρ'.link gt args) :
    evalExpr fuel ρ e = evalExpr fuel ρ' e := by
  exact evalExpr_congr fuel ρ ρ' e hr hp hf ht hl

/-- the hypothesis about the empty-policy shortcut of `enforce()` (finding D24): when the policy is
    empty and the matcher mentions it, the code evaluates the matcher against an all-empty allow
    pseudo-rule; that agrees with "no rule, no match" unless the request satisfies the matcher
    against the all-empty rule (or the matcher uses eval(), which then is an error) -/
def emptyPolicyOk (md : ModelDef) (policy : String → List Rule) (links : String → List String → Bool)
    (fn : String → List Val → Res) (evalTab : String → Option Expr) (ctx : EnforceCtx) (rvals : List Val) : Bool :=
  match md.m.lookup ctx.mType, md.p.lookup ctx.pType, md.e.lookup ctx.eType with
  | some m, some tokens, some eexpr =>
      if (policy ctx.pType).isEmpty && m.mentionsP then
        !m.hasEval &&
        (match evalExpr evalFuel { r := rvals, p := List.replicate tokens.length "", fn := fn, link := links, evalTab := evalTab } m with
         | some (.bool b) => !b || EffectKind.ofExpr eexpr == some .denyOverride
         | _ => false)
      else true
  | _, _, _ => true

/-- **main theorem**: whenever the reference semantics specifies a decision, `enforce` returns it,
    for every model definition, policy, grouping rule set, request, built-in functions and eval table.
    `links` is any `HasLink` oracle that answers like reachability through the listed grouping rules
    (the role manager's does: `hasLink_iff_reach`, `applyRules_links`). -/
theorem enforce_eq_perm (md : ModelDef) (policy grouping : String → List Rule)
    (links : String → List String → Bool) (fn : String → List Val → Res) (evalTab : String → Option Expr)
    (ctx : EnforceCtx) (rvals : List Val) (d : Bool)
    (hlinks : ∀ gt args, links gt args = specLink md grouping 10 gt args)
    (hwf : emptyPolicyOk md policy links fn evalTab ctx rvals = true)
    (hs : specEnforce md policy grouping fn evalTab ctx rvals = some d) :
    (enforce md policy links fn evalTab ctx none rvals).map (·.1) = some d := by
  have hl : links = specLink md grouping 10 := funext fun gt => funext fun args => hlinks gt args
  subst hl
  unfold specEnforce at hs
  simp only [Option.bind_eq_bind, Option.bind_eq_some_iff] at hs
  obtain ⟨m, hm, rArity, hr, tokens, hp, eexpr, he, k, hk, hs⟩ := hs
  simp only [emptyPolicyOk, hm, hp, he] at hwf
  simp only [enforce, hm, hr, hp, he, hk]
  split at hs
  · cases hs
  rename_i har
  rw [if_neg har]
  split at hs
  · cases hs
  rename_i hev
  split at hs
  · -- the matcher mentions the policy
    rename_i hmp
    simp only [Option.bind_eq_some_iff, Option.some.injEq] at hs
    obtain ⟨cells, hcells, hd⟩ := hs
    cases hpol : policy ctx.pType with
    | nil =>
      -- empty policy: the all-empty pseudo-rule, covered by `emptyPolicyOk`
      rw [hpol] at hcells hev hwf
      simp only [List.mapM_nil] at hcells
      cases hcells
      simp only [List.isEmpty_nil, hmp, Bool.and_self, if_true, Bool.and_eq_true,
        Bool.not_eq_true'] at hwf
      obtain ⟨hne, hwf⟩ := hwf
      simp only [List.isEmpty_nil, Bool.not_true, Bool.false_and, Bool.false_eq_true, if_false,
        hne, List.length_nil]
      split at hwf
      · rename_i b hb
        rw [hb]
        simp only [Option.map_some, Option.some.injEq]
        rw [← hd]
        apply else_empty
        rw [hk] at hwf
        cases k <;> cases b <;> first | rfl | (exact absurd hwf (by decide))
      · cases hwf
    | cons rule rest =>
      rw [hpol] at hcells
      have hb := policy_branch k (rule :: rest) _ cells (by simp) hcells
      simp only [List.isEmpty_cons, Bool.not_false, hmp, Bool.and_self, if_true]
      rw [hb.1]
      simp only [Option.map_some, Option.some.injEq]
      rw [hb.2, hd]
  · -- the matcher does not look at the policy
    rename_i hmp
    have hmp' : m.mentionsP = false := by simpa using hmp
    simp only [hmp', Bool.and_false, Bool.false_eq_true, if_false]
    rw [if_neg hev]
    split at hs
    · rename_i b hb
      simp only [Option.some.injEq] at hs
      rw [hb]
      simp only [Option.map_some, Option.some.injEq]
      rw [← hs]
      exact else_spec k b
    · cases hs

/-- when every rule evaluates without error, the streaming loop with errors is the plain loop -/
theorem loopFromE_ok (k : EffectKind) (len : Nat) (filled cells : List Cell) :
    loopFromE k len filled (cells.map some) = some (loopFrom k len filled cells) := by
  exact loopFromE_ok' k len filled cells

/-- an error-free answer only depends on the rules up to the deciding one: if the loop answers,
    the rules it looked at all evaluated without error, it answers what the error-free loop answers
    on them, and it stopped early only with a determinate effect -/
theorem loopFromE_some_prefix (k : EffectKind) (len : Nat) (filled : List Cell) (todo : List (Option Cell))
    (r : Eft × Option Nat) (h : loopFromE k len filled todo = some r) :
    ∃ cells rest, todo = cells.map some ++ rest ∧ r = loopFrom k len filled cells ∧
      (r.1 = .indeterminate → rest = []) := by
  exact loopFromE_some_prefix' k len filled todo r h

/-- Enforce, EnforceEx, BatchEnforce are one call of `enforce` in Go; EnforceWithMatcher given the
    model's own matcher returns the same result -/
theorem withMatcher_own (md : ModelDef) (policy : String → List Rule) (links : String → List String → Bool)
    (fn : String → List Val → Res) (evalTab : String → Option Expr) (ctx : EnforceCtx) (rvals : List Val)
    (m : Expr) (hm : md.m.lookup ctx.mType = some m) :
    enforce md policy links fn evalTab ctx (some m) rvals = enforce md policy links fn evalTab ctx none rvals := by
  simp only [enforce, hm]

/-- the g() memo key is injective on NUL-free arguments -/
theorem gMemoKey_injective (as bs : List String)
    (ha : ∀ a ∈ as, Char.ofNat 0 ∉ a.toList) (hb : ∀ b ∈ bs, Char.ofNat 0 ∉ b.toList)
    (h : gMemoKey as = gMemoKey bs) : as = bs := by
  exact gMemoKey_injective' as bs ha hb h

end Casbin.C01
