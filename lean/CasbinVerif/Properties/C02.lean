import CasbinVerif.Proofs.Explain
/-
  C02 — Effect merging is exact for every match/effect vector; explanations are truthful.

  `enforceLoop k v` is the mirror of the fill–merge–break loop of `enforce()` over the pre-sized
  arrays, `mergeEffects` the mirror of `DefaultEffector.MergeEffects`, `effectSpec` the four
  sentences of the property.  `v` is the vector of (matched?, effect) of the stored rules, in
  stored order; it is arbitrary (any length, any content).
-/
namespace Casbin.C02

/-- the decision of the streaming loop is the specified one, for every effect and every non-empty vector -/
theorem stream_eq_spec (k : EffectKind) (v : List Cell) (h : v ≠ []) :
    decision (enforceLoop k v) = effectSpec k v := by
  cases k with
  | allowOverride => simp [enforceLoop, effectSpec, loop_allowOverride]
  | denyOverride =>
    simp only [enforceLoop, effectSpec]
    rw [loop_denyOverride _ _ _ (by simp) h]
  | allowAndDeny =>
    simp only [enforceLoop, effectSpec]
    rw [loop_allowAndDeny _ _ _ (by simp) (by simp) h]
    rfl
  | priority =>
    simp only [enforceLoop, effectSpec]
    rw [loop_priority _ _ _ (by simp)]
    rfl
  | subjectPriority =>
    simp only [enforceLoop, effectSpec]
    rw [loopFrom_subjectPriority, loop_priority _ _ _ (by simp)]
    rfl

/-- the empty vector never reaches the loop in `enforce()` (the else-branch handles it);
    the mirror returns indeterminate, i.e. deny, for it -/
theorem stream_empty (k : EffectKind) : decision (enforceLoop k []) = false := by
  simp [enforceLoop, loopFrom, decision]

/-- else-branch of `enforce()` (one pseudo-rule): allow iff the matcher holds, except that
    deny-override, having seen no deny, always allows -/
theorem else_branch (k : EffectKind) (b : Bool) :
    decision (elseBranch k b) = (if k = .denyOverride then true else b) := by
  cases k <;> cases b <;> decide

/-- the three order-insensitive effects do not depend on rule order -/
theorem spec_perm (k : EffectKind) (hk : k = .allowOverride ∨ k = .denyOverride ∨ k = .allowAndDeny)
    {v₁ v₂ : List Cell} (hp : v₁.Perm v₂) : effectSpec k v₁ = effectSpec k v₂ := by
  have hany : ∀ p : Cell → Bool, v₁.any p = v₂.any p := by
    intro p
    rw [Bool.eq_iff_iff]
    simp only [List.any_eq_true]
    constructor
    · rintro ⟨x, hx, hpx⟩; exact ⟨x, hp.mem_iff.1 hx, hpx⟩
    · rintro ⟨x, hx, hpx⟩; exact ⟨x, hp.mem_iff.2 hx, hpx⟩
  rcases hk with hk | hk | hk <;> subst hk <;> simp [effectSpec, hany]

/-- ... and so neither does the real loop (on non-empty policies) -/
theorem stream_perm (k : EffectKind) (hk : k = .allowOverride ∨ k = .denyOverride ∨ k = .allowAndDeny)
    {v₁ v₂ : List Cell} (hp : v₁.Perm v₂) (h : v₁ ≠ []) :
    decision (enforceLoop k v₁) = decision (enforceLoop k v₂) := by
  have h2 : v₂ ≠ [] := by
    intro e; subst e; exact h (List.perm_nil.1 hp)
  rw [stream_eq_spec k v₁ h, stream_eq_spec k v₂ h2, spec_perm k hk hp]

/-- priority: the effect of the first matched rule whose effect is allow or deny, otherwise deny -/
theorem priority_first_determinate (v : List Cell) (h : v ≠ []) :
    decision (enforceLoop .priority v) =
      ((v.find? (fun c => c.matched && c.eft ≠ .indeterminate)).map (fun c => decide (c.eft = .allow))).getD false := by
  rw [stream_eq_spec _ _ h]
  simp only [effectSpec]
  have : det = (fun c : Cell => c.matched && decide (c.eft ≠ .indeterminate)) := rfl
  rw [this]
  cases List.find? (fun c => c.matched && decide (c.eft ≠ Eft.indeterminate)) v <;> simp

/-- whenever the loop names a rule, the rule is in the policy, matched the request, and carries
    the effect that produced the decision (allow for an allowed request, deny for a denied one) -/
theorem explain_truthful (k : EffectKind) (v : List Cell) (i : Nat)
    (h : (enforceLoop k v).2 = some i) :
    ∃ c, v[i]? = some c ∧ c.matched = true ∧
      c.eft = (if decision (enforceLoop k v) then .allow else .deny) := by
  have := loop_truthful k v.length [] v i h
  simp only [List.nil_append] at this
  obtain ⟨x, hx, hm, hor⟩ := this
  refine ⟨x, hx, hm, ?_⟩
  rcases hor with ⟨h1, h2⟩ | ⟨h1, h2⟩ <;> simp [decision, enforceLoop, h1, h2]

/-- an effect expression outside the five built-in ones fails closed -/
theorem unsupported_fails_closed (expr : String) (cells : List Cell) (idx len : Nat)
    (h : EffectKind.ofExpr expr = none) : mergeEffectsExpr expr cells idx len = .error () := by
  simp [mergeEffectsExpr, h]

/-! ### non-vacuity: concrete non-trivial vectors -/

-- a matched indeterminate before a matched allow, then a matched deny
def ex1 : List Cell := [⟨true, .indeterminate⟩, ⟨false, .deny⟩, ⟨true, .allow⟩, ⟨true, .deny⟩]
example : decision (enforceLoop .allowOverride ex1) = true := by decide
example : decision (enforceLoop .denyOverride ex1) = false := by decide
example : decision (enforceLoop .allowAndDeny ex1) = false := by decide
example : decision (enforceLoop .priority ex1) = true := by decide
example : (enforceLoop .priority ex1).2 = some 2 := by decide
example : (enforceLoop .allowAndDeny ex1).2 = some 3 := by decide
-- the last rule unmatched: allow-and-deny must still find the earlier allow
example : enforceLoop .allowAndDeny [⟨true, .allow⟩, ⟨false, .deny⟩] = (.allow, some 0) := by decide
example : ex1.Perm ex1.reverse := (List.reverse_perm ex1).symm

end Casbin.C02
