import CasbinVerif.Model.Loader
/-
  C03 — Enforcement and loading are total and fail closed.

  In Lean every function of the model is total and terminating by construction; what the code
  achieves with `recover()`, error returns and loop bounds, the model has in its types: the result
  of the mirror of `enforce()` is `Option (decision × explanation)` (`none` = error, incl. recovered
  panics), loaders return `Option Stores`.  The theorems below make the consequences explicit; the
  tie to the code is the correspondence run, in which the model must predict the exact class of
  every call (and the harness watches for panics and hangs).
-/
namespace Casbin.C03

/-- what Go returns: (decision, error?) -/
def toGo (r : EnfRes) : Bool × Bool :=
  match r with
  | some (d, _) => (d, false)
  | none => (false, true)

/-- whenever an error is returned the decision is false -/
theorem err_is_deny (r : EnfRes) (h : (toGo r).2 = true) : (toGo r).1 = false := by
  cases r with
  | none => rfl
  | some x => simp [toGo] at h

/-- … in particular for Enforce on any state, context, matcher and request values -/
theorem enforce_fail_closed (e : EnfP) (ctx : EnforceCtx) (custom : Option String) (rvals : List Val) :
    (toGo (e.enforceStep ctx custom rvals).2).2 = true → (toGo (e.enforceStep ctx custom rvals).2).1 = false :=
  err_is_deny _

/-- a request of the wrong arity is an error (never a decision) -/
theorem wrong_arity_is_error (md : ModelDef) (policy : String → List Rule) (links : String → List String → Bool)
    (fn : String → List Val → Res) (evalTab : String → Option Expr) (ctx : EnforceCtx) (m : Option Expr) (rvals : List Val)
    (n : Nat) (hr : md.r.lookup ctx.rType = some n) (hne : n ≠ rvals.length) :
    enforce md policy links fn evalTab ctx m rvals = none := by
  unfold enforce
  split
  · rename_i m' rArity tokens _ h2 _
    rw [hr] at h2
    cases h2
    simp [hne]
  · rfl

/-- a self-referential eval() rule is an error at every nesting bound: no unbounded recursion -/
theorem eval_self_reference_errors (fuel : Nat) (ρ : Env) (text : String)
    (hself : ρ.evalTab text = some (.eval (.lit (.s text)))) :
    evalExpr fuel ρ (.eval (.lit (.s text))) = none := by
  induction fuel with
  | zero => simp [evalExpr, evalCore, Atom.toVal, hself]
  | succ n ih => simp [evalExpr, evalCore, Atom.toVal, hself, ih]

/-- the level-order walk of the subject hierarchy stops after at most `fuel` levels whatever the graph -/
theorem walk_level_bound (edges : List (String × String)) (bound fuel : Nat) (frontier : List String) (lv : Nat)
    (acc : List (String × Nat)) (hacc : ∀ x ∈ acc, x.2 ≤ lv + fuel) :
    ∀ x ∈ walkLevels edges bound fuel frontier lv acc, x.2 ≤ lv + fuel := by
  induction fuel generalizing frontier lv acc with
  | zero => simpa [walkLevels] using hacc
  | succ n ih =>
    unfold walkLevels
    split
    · exact hacc
    · have := ih (frontier.flatMap (fun n => (edges.filter (·.2 == n)).map (·.1))) (lv + 1)
        (frontier.foldl (fun a n => assignLevel a n lv) acc) (by
          intro x hx
          have hgen : ∀ (fr : List String) (a : List (String × Nat)), (∀ y ∈ a, y.2 ≤ lv + 1 + n) →
              ∀ y ∈ fr.foldl (fun a n => assignLevel a n lv) a, y.2 ≤ lv + 1 + n := by
            intro fr
            induction fr with
            | nil => intro a ha; simpa using ha
            | cons f fs ihf =>
              intro a ha
              simp only [List.foldl_cons]
              apply ihf
              intro y hy
              simp only [assignLevel, assocSet] at hy
              split at hy
              · simp only [List.mem_map] at hy
                obtain ⟨z, hz, hzy⟩ := hy
                split at hzy
                · subst hzy; simp; omega
                · subst hzy; exact ha z hz
              · simp only [List.mem_append, List.mem_singleton] at hy
                rcases hy with hy | hy
                · exact ha y hy
                · subst hy; simp; omega
          exact hgen frontier acc (fun y hy => by have := hacc y hy; omega) x hx)
      intro x hx
      have := this x hx
      omega

/-- the repaired walk terminates on the cyclic graph that used to hang LoadPolicy
    (g a b; g b a; g b root), by evaluation -/
example : (hierarchyLevels [("::a", "::b"), ("::b", "::a"), ("::b", "::root")] ["::root"]).length = 3 := by decide

/-- loading never produces anything but a set of stores or an error -/
theorem load_total (md : ModelDef) (st : Stores) (text : List Char) :
    (loadFileText md st text = none ∨ ∃ s, loadFileText md st text = some s) ∧
    (loadStringText md st text = none ∨ ∃ s, loadStringText md st text = some s) := by
  constructor
  · cases loadFileText md st text <;> simp
  · cases loadStringText md st text <;> simp

/-- a line whose first CSV token is empty is rejected with an error (it used to panic) -/
theorem empty_type_is_error (md : ModelDef) (p g : List (String × Store)) (rule : Rule) :
    Enf.loadLine md p g "" rule = none := by
  simp [Enf.loadLine]

end Casbin.C03
