import CasbinVerif.Model.EnforcerP
import CasbinVerif.Properties.C05
import CasbinVerif.Proofs.Fresh
/-
  C04 — Decisions never go stale: they depend on current state, not call history.

  The enforcer model keeps the matcher cache (`Enf.cache`): per compiled matcher the role managers
  as its memoising g-functions see them; a management call drops it exactly where the Go code calls
  `invalidateMatcherMap` (the extracted fact table `Facts.invalidators` is compared with the
  expectation the model was written against in `Properties/Facts.lean`).  `CacheFresh` says that
  every cached matcher still sees role managers that answer like the current ones.  It is an
  invariant of every well-formed history of Enforce and management calls; under it a decision is
  the PERM reference decision on the *currently listed* rules — exactly what a freshly constructed
  enforcer given the same listed rules returns.
-/
namespace Casbin.C04

/-- two role-manager maps answer alike: same keys, same kinds and depth, same link sets -/
def RMEquiv (a b : List (String × RM)) : Prop :=
  a.map (·.1) = b.map (·.1) ∧
  ∀ gt ra rb, a.lookup gt = some ra → b.lookup gt = some rb →
    ra.kind = rb.kind ∧ ra.maxLevel = rb.maxLevel ∧ ∀ l, l ∈ ra.links ↔ l ∈ rb.links

/-- every compiled matcher in the cache sees role managers that answer like the current ones -/
def CacheFresh (e : Enf) : Prop := ∀ key snap, e.cache.lookup key = some snap → RMEquiv snap e.rm

/-- the invariant: well-formed state, links mirror the listed grouping rules, cache fresh, default depth -/
def Inv (e : Enf) : Prop :=
  e.WFState ∧ e.LinksMirror ∧ CacheFresh e ∧ ∀ gt rm, e.rm.lookup gt = some rm → rm.maxLevel = 10

theorem inv_init (md : ModelDef) (hp : (md.p.map (·.1)).Nodup) (hg : (md.g.map (·.1)).Nodup)
    (hc : ∀ x ∈ md.g, 2 ≤ x.2.1 ∧ x.2.1 ≤ 3 ∧ (x.2.2 = .plain → x.2.1 = 2)) : Inv (Enf.init md) := by
  refine ⟨C05.init_wf md hp hg hc, C05.init_mirror md hg, ?_, ?_⟩
  · intro key snap hl
    simp [Enf.init] at hl
  · intro gt rm h
    have h' : (md.g.lookup gt).map (fun v => RM.empty v.2) = some rm := by
      rw [← lookup_map_snd (fun _ (v : Nat × RMKind) => RM.empty v.2)]; exact h
    cases hl : md.g.lookup gt with
    | none => rw [hl] at h'; cases h'
    | some ck =>
      rw [hl] at h'
      cases h'
      rfl

/-- answers of `HasLink` only depend on kind, depth and link set -/
theorem hasLink_congr (ra rb : RM) (hk : ra.kind = rb.kind) (hl : ra.maxLevel = rb.maxLevel)
    (h : ∀ l, l ∈ ra.links ↔ l ∈ rb.links) (u r : String) (ds : List String) :
    ra.hasLink u r ds = rb.hasLink u r ds := by
  exact Fresh.hasLink_congr' ra rb hk hl h u r ds

/-- a management call, ClearPolicy or BuildRoleLinks keeps the invariant -/
theorem inv_applyM (e : Enf) (op : MOp) (h : Inv e) (hop : e.opWF op = true) :
    ∃ e' res, e.applyM op = some (e', res) ∧ Inv e' := by
  obtain ⟨hwf, hm, hc, hl⟩ := h
  obtain ⟨e', res, happ, hwf', hm'⟩ := C05.mirror_step e op hwf hm hop
  obtain ⟨hc', hl'⟩ := Fresh.applyM_fresh e op ⟨hwf, hm⟩ hc hl e' res happ
  exact ⟨e', res, happ, hwf', hm', hc', hl'⟩

/-- Enforce (with the model's matcher or a custom one) keeps the invariant -/
theorem inv_enforce (e : Enf) (ctx : EnforceCtx) (custom : Option String) (rvals : List Val) (h : Inv e) :
    Inv (e.enforceStep ctx custom rvals).1 := by
  rcases Fresh.enforceStep_state e ctx custom rvals with h0 | ⟨key, h0⟩
  · rw [h0]; exact h
  · rw [h0]
    obtain ⟨hwf, hm, hc, hl⟩ := h
    exact ⟨hwf, hm, Fresh.cf_assocSet e key hc, hl⟩

/-- the rules currently listed -/
def listedP (e : Enf) : String → List Rule := fun pt => ((e.p.lookup pt).map (·.policy)).getD []
def listedG (e : Enf) : String → List Rule := fun gt => ((e.g.lookup gt).map (·.policy)).getD []

/-- **no stale decision**: under the invariant, Enforce answers what the PERM reference semantics
    specifies for the rules listed *now* — whatever was enforced, memoised or compiled before -/
theorem enforce_current (e : Enf) (h : Inv e) (hen : e.enabled = true) (ctx : EnforceCtx) (rvals : List Val) (d : Bool)
    (hwf : C01.emptyPolicyOk e.md (listedP e) (specLink e.md (listedG e) 10) e.fn e.evalTab ctx rvals = true)
    (hs : specEnforce e.md (listedP e) (listedG e) e.fn e.evalTab ctx rvals = some d) :
    ((e.enforceStep ctx none rvals).2).map (·.1) = some d := by
  obtain ⟨hst, hm, hc, hl⟩ := h
  have hs' := hs
  unfold specEnforce at hs'
  simp only [Option.bind_eq_bind, Option.bind_eq_some_iff] at hs'
  obtain ⟨m, hmm, -⟩ := hs'
  obtain ⟨snap, hsnap, hres⟩ := Fresh.enforceStep_result e hen ctx rvals m hmm
  have heq : RMEquiv snap e.rm := by
    rcases hsnap with rfl | ⟨key, hk⟩
    · exact Fresh.RMEq.refl _
    · exact hc key snap hk
  have hlinks : Fresh.linksOf snap = specLink e.md (listedG e) 10 :=
    funext fun gt => funext fun args => Fresh.linksOf_eq_specLink e ⟨hst, hm⟩ hl snap heq gt args
  rw [hres, C01.withMatcher_own _ _ _ _ _ _ _ m hmm, hlinks]
  exact C01.enforce_eq_perm e.md (listedP e) (listedG e) _ e.fn e.evalTab ctx rvals d (fun _ _ => rfl) hwf hs

/-- a step of an interleaved history: a management call or an Enforce -/
inductive Step
  | mgmt (op : MOp)
  | enforce (ctx : EnforceCtx) (custom : Option String) (rvals : List Val)

def stepWF (e : Enf) : Step → Bool
  | .mgmt op => e.opWF op
  | .enforce _ _ _ => true

def applyStep (e : Enf) : Step → Option Enf
  | .mgmt op => (e.applyM op).map (·.1)
  | .enforce ctx custom rvals => some (e.enforceStep ctx custom rvals).1

def runSteps (e : Enf) : List Step → Option Enf
  | [] => some e
  | s :: ss => match applyStep e s with
    | some e' => runSteps e' ss
    | none => none

def stepsWF (e : Enf) : List Step → Bool
  | [] => true
  | s :: ss => stepWF e s && match applyStep e s with
    | some e' => stepsWF e' ss
    | none => false

/-- after any interleaving of Enforce calls with management calls the invariant holds … -/
theorem inv_history (e : Enf) (ss : List Step) (h : Inv e) (hw : stepsWF e ss = true) :
    ∃ e', runSteps e ss = some e' ∧ Inv e' := by
  induction ss generalizing e with
  | nil => exact ⟨e, rfl, h⟩
  | cons s ss ih =>
    simp only [stepsWF, Bool.and_eq_true] at hw
    obtain ⟨hw1, hw2⟩ := hw
    cases s with
    | mgmt op =>
      obtain ⟨e1, res, h1, hi1⟩ := inv_applyM e op h hw1
      have ha : applyStep e (.mgmt op) = some e1 := by simp only [applyStep, h1, Option.map_some]
      rw [ha] at hw2
      obtain ⟨e2, h2, hi2⟩ := ih e1 hi1 hw2
      exact ⟨e2, by simp only [runSteps, ha, h2], hi2⟩
    | enforce ctx custom rvals =>
      have ha : applyStep e (.enforce ctx custom rvals) = some (e.enforceStep ctx custom rvals).1 := rfl
      rw [ha] at hw2
      obtain ⟨e2, h2, hi2⟩ := ih _ (inv_enforce e ctx custom rvals h) hw2
      exact ⟨e2, by simp only [runSteps, ha, h2], hi2⟩

/-- … so two enforcers that reached the same listed rules through different histories (for instance
    the live one and a freshly constructed one that was only given those rules) decide alike -/
theorem same_rules_same_decision (e₁ e₂ : Enf) (h₁ : Inv e₁) (h₂ : Inv e₂)
    (hen₁ : e₁.enabled = true) (hen₂ : e₂.enabled = true)
    (hmd : e₁.md = e₂.md) (hp : listedP e₁ = listedP e₂) (hg : listedG e₁ = listedG e₂)
    (hfn : e₁.fn = e₂.fn) (het : e₁.evalTab = e₂.evalTab)
    (ctx : EnforceCtx) (rvals : List Val) (d : Bool)
    (hwf : C01.emptyPolicyOk e₁.md (listedP e₁) (specLink e₁.md (listedG e₁) 10) e₁.fn e₁.evalTab ctx rvals = true)
    (hs : specEnforce e₁.md (listedP e₁) (listedG e₁) e₁.fn e₁.evalTab ctx rvals = some d) :
    ((e₁.enforceStep ctx none rvals).2).map (·.1) = some d ∧
    ((e₂.enforceStep ctx none rvals).2).map (·.1) = some d := by
  refine ⟨enforce_current e₁ h₁ hen₁ ctx rvals d hwf hs, ?_⟩
  rw [hmd, hp, hg, hfn, het] at hwf hs
  exact enforce_current e₂ h₂ hen₂ ctx rvals d hwf hs

/-- without a registered matching function the pattern-manager wrapper is the plain enforcer -/
theorem noPattern_applyM (ep : EnfP) (op : MOp) (h : ep.prm = []) :
    (ep.applyM op).map (fun r => (r.1.base, r.1.prm, r.2)) = (ep.base.applyM op).map (fun r => (r.1, [], r.2)) := by
  unfold EnfP.applyM
  cases hb : ep.base.applyM op with
  | none => rfl
  | some r =>
    obtain ⟨b', res⟩ := r
    have hd := Fresh.delta_nil ep.base op { ep with base := b' } h
    simp only [Option.map_some]
    split
    · simp only [Option.map_some, Fresh.syncCache_base, Fresh.syncCache_prm, hd.1, hd.2]
    · simp only [Option.map_some, Fresh.syncCache_base, Fresh.syncCache_prm, hd.1, hd.2]
    · simp only [Option.map_some, Fresh.syncCache_base, Fresh.syncCache_prm, h]

theorem noPattern_enforce (ep : EnfP) (ctx : EnforceCtx) (custom : Option String) (rvals : List Val) (h : ep.prm = [])
    (hb : ep.unbound = []) :
    (ep.enforceStep ctx custom rvals).2 = (ep.base.enforceStep ctx custom rvals).2 ∧
    (ep.enforceStep ctx custom rvals).1.base = (ep.base.enforceStep ctx custom rvals).1 ∧
    (ep.enforceStep ctx custom rvals).1.prm = [] := by
  unfold EnfP.enforceStep
  rw [h, hb]
  simp

end Casbin.C04
