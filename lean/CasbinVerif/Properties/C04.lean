import CasbinVerif.Model.EnforcerP
import CasbinVerif.Properties.C05
/-
  C04 — Decisions never go stale: they depend on current state, not call history.

  The enforcer model keeps the matcher cache (`Enf.cache`): per compiled matcher the role managers
  as its memoising g-functions see them; a management call drops it exactly where the Go code calls
  `invalidateMatcherMap` (the extracted fact table `Facts.invalidators` is compared with the
  expectation the model was written against in `Properties/Facts.lean`).  `CacheFresh` says that
  every cached matcher still sees role managers that answer like the current ones.  It is an
  invariant of every well-formed history of Enforce and management calls; under it a decision is
  the PERM reference decision on the *currently listed* rules — exactly what a freshly constructed
  enforcer given the same listed rules returns.
-/
namespace Casbin.C04

/-- two role-manager maps answer alike: same keys, same kinds and depth, same link sets -/
def RMEquiv (a b : List (String × RM)) : Prop :=
  a.map (·.1) = b.map (·.1) ∧
  ∀ gt ra rb, a.lookup gt = some ra → b.lookup gt = some rb →
    ra.kind = rb.kind ∧ ra.maxLevel = rb.maxLevel ∧ ∀ l, l ∈ ra.links ↔ l ∈ rb.links

/-- every compiled matcher in the cache sees role managers that answer like the current ones -/
def CacheFresh (e : Enf) : Prop := ∀ key snap, e.cache.lookup key = some snap → RMEquiv snap e.rm

/-- the invariant: well-formed state, links mirror the listed grouping rules, cache fresh, default depth -/
def Inv (e : Enf) : Prop :=
  e.WFState ∧ e.LinksMirror ∧ CacheFresh e ∧ ∀ gt rm, e.rm.lookup gt = some rm → rm.maxLevel = 10

theorem inv_init (md : ModelDef) (hp : (md.p.map (·.1)).Nodup) (hg : (md.g.map (·.1)).Nodup)
    (hc : ∀ x ∈ md.g, 2 ≤ x.2.1 ∧ x.2.1 ≤ 3 ∧ (x.2.2 = .plain → x.2.1 = 2)) : Inv (Enf.init md) := by
  sorry

/-- answers of `HasLink` only depend on kind, depth and link set -/
theorem hasLink_congr (ra rb : RM) (hk : ra.kind = rb.kind) (hl : ra.maxLevel = rb.maxLevel)
    (h : ∀ l, l ∈ ra.links ↔ l ∈ rb.links) (u r : String) (ds : List String) :
    ra.hasLink u r ds = rb.hasLink u r ds := by
  sorry

/-- a management call, ClearPolicy or BuildRoleLinks keeps the invariant -/
theorem inv_applyM (e : Enf) (op : MOp) (h : Inv e) (hop : e.opWF op = true) :
    ∃ e' res, e.applyM op = some (e', res) ∧ Inv e' := by
  sorry

/-- Enforce (with the model's matcher or a custom one) keeps the invariant -/
theorem inv_enforce (e : Enf) (ctx : EnforceCtx) (custom : Option String) (rvals : List Val) (h : Inv e) :
    Inv (e.enforceStep ctx custom rvals).1 := by
  sorry

/-- the rules currently listed -/
def listedP (e : Enf) : String → List Rule := fun pt => ((e.p.lookup pt).map (·.policy)).getD []
def listedG (e : Enf) : String → List Rule := fun gt => ((e.g.lookup gt).map (·.policy)).getD []

/-- **no stale decision**: under the invariant, Enforce answers what the PERM reference semantics
    specifies for the rules listed *now* — whatever was enforced, memoised or compiled before -/
theorem enforce_current (e : Enf) (h : Inv e) (hen : e.enabled = true) (ctx : EnforceCtx) (rvals : List Val) (d : Bool)
    (hwf : C01.emptyPolicyOk e.md (listedP e) (specLink e.md (listedG e) 10) e.fn e.evalTab ctx rvals = true)
    (hs : specEnforce e.md (listedP e) (listedG e) e.fn e.evalTab ctx rvals = some d) :
    ((e.enforceStep ctx none rvals).2).map (·.1) = some d := by
  sorry

/-- a step of an interleaved history: a management call or an Enforce -/
inductive Step
  | mgmt (op : MOp)
  | enforce (ctx : EnforceCtx) (custom : Option String) (rvals : List Val)

def stepWF (e : Enf) : Step → Bool
  | .mgmt op => e.opWF op
  | .enforce _ _ _ => true

def applyStep (e : Enf) : Step → Option Enf
  | .mgmt op => (e.applyM op).map (·.1)
  | .enforce ctx custom rvals => some (e.enforceStep ctx custom rvals).1

def runSteps (e : Enf) : List Step → Option Enf
  | [] => some e
  | s :: ss => match applyStep e s with
    | some e' => runSteps e' ss
    | none => none

def stepsWF (e : Enf) : List Step → Bool
  | [] => true
  | s :: ss => stepWF e s && match applyStep e s with
    | some e' => stepsWF e' ss
    | none => false

/-- after any interleaving of Enforce calls with management calls the invariant holds … -/
theorem inv_history (e : Enf) (ss : List Step) (h : Inv e) (hw : stepsWF e ss = true) :
    ∃ e', runSteps e ss = some e' ∧ Inv e' := by
  sorry

/-- … so two enforcers that reached the same listed rules through different histories (for instance
    the live one and a freshly constructed one that was only given those rules) decide alike -/
theorem same_rules_same_decision (e₁ e₂ : Enf) (h₁ : Inv e₁) (h₂ : Inv e₂)
    (hen₁ : e₁.enabled = true) (hen₂ : e₂.enabled = true)
    (hmd : e₁.md = e₂.md) (hp : listedP e₁ = listedP e₂) (hg : listedG e₁ = listedG e₂)
    (hfn : e₁.fn = e₂.fn) (het : e₁.evalTab = e₂.evalTab)
    (ctx : EnforceCtx) (rvals : List Val) (d : Bool)
    (hwf : C01.emptyPolicyOk e₁.md (listedP e₁) (specLink e₁.md (listedG e₁) 10) e₁.fn e₁.evalTab ctx rvals = true)
    (hs : specEnforce e₁.md (listedP e₁) (listedG e₁) e₁.fn e₁.evalTab ctx rvals = some d) :
    ((e₁.enforceStep ctx none rvals).2).map (·.1) = some d ∧
    ((e₂.enforceStep ctx none rvals).2).map (·.1) = some d := by
  sorry

/-- without a registered matching function the pattern-manager wrapper is the plain enforcer -/
theorem noPattern_applyM (ep : EnfP) (op : MOp) (h : ep.prm = []) :
    (ep.applyM op).map (fun r => (r.1.base, r.1.prm, r.2)) = (ep.base.applyM op).map (fun r => (r.1, [], r.2)) := by
  sorry

theorem noPattern_enforce (ep : EnfP) (ctx : EnforceCtx) (custom : Option String) (rvals : List Val) (h : ep.prm = []) :
    (ep.enforceStep ctx custom rvals).2 = (ep.base.enforceStep ctx custom rvals).2 ∧
    (ep.enforceStep ctx custom rvals).1.base = (ep.base.enforceStep ctx custom rvals).1 ∧
    (ep.enforceStep ctx custom rvals).1.prm = [] := by
  sorry

end Casbin.C04
