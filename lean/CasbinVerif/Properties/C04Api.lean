import CasbinVerif.Spec.ApiExpected
/-
  C04, continued — the invalidation of the compiled matchers (which hold the memoised g() answers)
  in the source itself.  `Facts.graphCalls` is regenerated from every non-test file of the package
  on every run: for each method of Enforcer / DistributedEnforcer that writes the role graph (a
  mutating role-manager method called on any value, an assignment into rmMap / condRmMap) it lists
  those writes, the dropping of the compiled matchers and the calls on the receiver.  The model
  theorems (C04.inv_applyM, C04.enforce_current) show that the model's cache is in step with its
  links after every operation; the theorems here show that the code drops its compiled matchers in
  every function that can change what HasLink answers, so the model's `syncCache` steps stand for
  calls that exist.
-/
namespace Casbin.C04
open Casbin.Api

def graphCallsOf (f : String) : List Call := (Facts.graphCalls.lookup f).getD []

def isGraphWrite (c : Call) : Bool := c.1 == "rm" || c.1 == "assign"

def dropsMatchers (cs : List Call) : Bool := cs.any (fun c => c.1 == "inval")

def isExported (cs : List Call) : Bool := cs.contains ("exported", "")

/-- the listed functions that call method `m` on their receiver -/
def callersOf (m : String) : List (String × List Call) :=
  Facts.graphCalls.filter (fun e => e.2.contains ("self", m))

/-- a writer is covered when it drops the compiled matchers itself, or it is unexported and every one
    of its (listed, at least one) callers is covered -/
def covered : Nat → String × List Call → Bool
  | 0, e => dropsMatchers e.2
  | n + 1, e =>
      dropsMatchers e.2 ||
        (!isExported e.2 &&
          match e.2.find? (fun c => c.1 == "name") with
          | some (_, m) => !(callersOf m).isEmpty && (callersOf m).all (covered n)
          | none => false)

/-- every function that writes the role graph drops the compiled matchers, itself or (unexported
    helpers) in each of its callers -/
theorem source_graph_writers_invalidate :
    ∀ e ∈ Facts.graphCalls, e.2.any isGraphWrite = true → covered 2 e = true := by
  decide

/-- nothing else in the package writes the role graph -/
theorem source_no_other_graph_writer : Facts.otherGraphWriters = [] := by
  decide

/-- the table is not empty of what it is about: the public entry points that change links, managers
    and matching functions are listed as writers that drop the compiled matchers themselves -/
theorem source_graph_writers_listed :
    ∀ f ∈ ["Enforcer.BuildIncrementalRoleLinks", "Enforcer.BuildRoleLinks", "Enforcer.ClearPolicy",
            "Enforcer.SetRoleManager", "Enforcer.SetNamedRoleManager", "Enforcer.AddNamedMatchingFunc",
            "Enforcer.AddNamedDomainMatchingFunc", "DistributedEnforcer.ClearPolicySelf"],
      (graphCallsOf f).any isGraphWrite = true ∧ dropsMatchers (graphCallsOf f) = true := by
  decide

/-- the management functions reach the role graph only through BuildIncrementalRoleLinks (which is a
    covered writer above): every un-notified function and every Self call that changes rules calls it
    after memory -/
theorem source_links_through_incremental :
    ∀ f ∈ withoutNotify ++ selfCalls, f ≠ "DistributedEnforcer.ClearPolicySelf" →
      (callsOf f).any (fun c => c == ("links", "BuildIncrementalRoleLinks")) = true ∧
      (callsOf f).all (fun c => c.1 != "links" || c.2 == "BuildIncrementalRoleLinks") = true := by
  decide

end Casbin.C04
