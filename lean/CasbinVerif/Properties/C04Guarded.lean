import CasbinVerif.Properties.C05Guarded
import CasbinVerif.Properties.C04
/-
  C04, continued — the invariant (well-formed, links mirror the rules, cache fresh) under the relaxed
  hypothesis `opWFg`.
-/
namespace Casbin.C04

theorem inv_applyM_guarded (e : Enf) (op : MOp) (h : Inv e) (hop : e.opWFg op = true) :
    ∃ e' res, e.applyM op = some (e', res) ∧ Inv e' := by
  obtain ⟨hwf, hm, hc, hl⟩ := h
  obtain ⟨e', res, happ, hwf', hm'⟩ := C05.mirror_step_guarded e op hwf hm hop
  obtain ⟨hc', hl'⟩ := Fresh.applyM_fresh e op ⟨hwf, hm⟩ hc hl e' res happ
  exact ⟨e', res, happ, hwf', hm', hc', hl'⟩

end Casbin.C04
