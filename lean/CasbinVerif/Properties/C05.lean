import CasbinVerif.Spec.Mirror
import CasbinVerif.Properties.C01
import CasbinVerif.Properties.C06
import CasbinVerif.Proofs.Mirror
import CasbinVerif.Proofs.Enforcer
import CasbinVerif.Proofs.MirrorStep
/-
  C05 — Role inheritance always mirrors the currently listed grouping rules.

  `Enf` mirrors the enforcer (`internal_api.go`, `enforcer.go`), `RM` the role managers without
  matching functions (plain and per-domain).  `LinksMirror` says: each role manager holds exactly
  the links of the grouping rules currently listed for its definition; it is an invariant of every
  well-formed history of management calls, ClearPolicy and BuildRoleLinks, whatever the adapter
  and watcher do.  Consequences: HasLink answers like a manager rebuilt from GetGroupingPolicy
  alone, i.e. reachability within the hierarchy depth, and links never leak between role
  definitions or domains.
-/
namespace Casbin.C05

theorem init_wf (md : ModelDef) (hp : (md.p.map (·.1)).Nodup) (hg : (md.g.map (·.1)).Nodup)
    (hc : ∀ x ∈ md.g, 2 ≤ x.2.1 ∧ x.2.1 ≤ 3 ∧ (x.2.2 = .plain → x.2.1 = 2)) : (Enf.init md).WFState := by
  exact init_wf' md hp hg hc

theorem init_mirror (md : ModelDef) (hg : (md.g.map (·.1)).Nodup) : (Enf.init md).LinksMirror := by
  have _ := hg
  exact init_mirror' md

/-- one API call keeps the state well-formed and the role links in step with the listed rules -/
theorem mirror_step (e : Enf) (op : MOp) (hwf : e.WFState) (hm : e.LinksMirror) (hop : e.opWF op = true) :
    ∃ e' res, e.applyM op = some (e', res) ∧ e'.WFState ∧ e'.LinksMirror := by
  obtain ⟨e', res, h1, h2⟩ := mirror_step' e op ⟨hwf, hm⟩ hop
  exact ⟨e', res, h1, h2.1, h2.2⟩

/-- after any well-formed history -/
theorem mirror_hist (e : Enf) (ops : List MOp) (hwf : e.WFState) (hm : e.LinksMirror) (hops : e.histWF ops = true) :
    ∃ e', e.runM ops = some e' ∧ e'.WFState ∧ e'.LinksMirror := by
  obtain ⟨e', h1, h2⟩ := mirror_hist' e ops ⟨hwf, hm⟩ hops
  exact ⟨e', h1, h2.1, h2.2⟩

/-- the incrementally maintained manager answers like reachability through the listed rules:
    user u holds role r (in domain d) exactly when r is reachable from u through the grouping rules
    currently listed for d, within the maximum hierarchy depth -/
theorem hasLink_iff_listed_reach (e : Enf) (hwf : e.WFState) (hm : e.LinksMirror)
    (gt : String) (rm : RM) (count : Nat) (kind : RMKind) (s : Store)
    (h1 : e.rm.lookup gt = some rm) (h2 : e.md.g.lookup gt = some (count, kind)) (h3 : e.g.lookup gt = some s)
    (u r : String) (ds : List String) :
    rm.hasLink u r ds = true ↔
      ReachWithin (linksOfRules count kind s.policy) (match kind with | .plain => "" | .domain => ds.headD "") rm.maxLevel u r := by
  have key := hasLink_iff_listed_reach' e hwf hm gt rm count kind s h1 h2 h3 u r ds
  cases kind <;> exact key

/-- … which is the `g()` of the PERM reference semantics (the hypothesis `hlinks` of C01.enforce_eq_perm) -/
theorem hasLink_eq_specLink (e : Enf) (hwf : e.WFState) (hm : e.LinksMirror)
    (hlev : ∀ gt rm, e.rm.lookup gt = some rm → rm.maxLevel = 10)
    (gt : String) (rm : RM) (h1 : e.rm.lookup gt = some rm) (u r : String) (ds : List String) :
    rm.hasLink u r ds = specLink e.md (fun gt => ((e.g.lookup gt).map (·.policy)).getD []) 10 gt (u :: r :: ds) := by
  exact hasLink_eq_specLink' e hwf hm hlev gt rm h1 u r ds

/-- it answers like a manager rebuilt from the listed rules alone -/
theorem answers_like_rebuild (e : Enf) (hwf : e.WFState) (hm : e.LinksMirror)
    (gt : String) (rm : RM) (count : Nat) (kind : RMKind) (s : Store)
    (h1 : e.rm.lookup gt = some rm) (h2 : e.md.g.lookup gt = some (count, kind)) (h3 : e.g.lookup gt = some s)
    (hlev : rm.maxLevel = 10) (u r : String) (ds : List String) :
    ∃ rm', (RM.empty kind).applyRules count true s.policy = (rm', true) ∧
      rm.hasLink u r ds = rm'.hasLink u r ds := by
  exact answers_like_rebuild' e hwf hm gt rm count kind s h1 h2 h3 hlev u r ds

/-- links of one domain never leak into another: in a domain manager only links of the queried
    domain matter -/
theorem no_domain_leak (rm : RM) (hk : rm.kind = .domain) (u r d : String) (extra : Link) (hd : extra.2.2 ≠ d) :
    ({ rm with links := rm.links ++ [extra] } : RM).hasLink u r [d] = rm.hasLink u r [d] := by
  exact no_domain_leak' rm hk u r d extra hd

/-- links of one role definition never leak into another: an operation on definition `gt` leaves
    the manager of every other definition untouched -/
theorem no_definition_leak (e : Enf) (op : MOp) (sec gt : String) (sop : StoreOp) (hop : op.storeOp = some (sec, gt, sop))
    (e' : Enf) (res : Enf.MRes) (h : e.applyM op = some (e', res)) (gt' : String) (hne : gt' ≠ gt) :
    e'.rm.lookup gt' = e.rm.lookup gt' ∧ e'.g.lookup gt' = e.g.lookup gt' := by
  exact no_definition_leak' e op sec gt sop hop e' res h gt' hne

end Casbin.C05
