import CasbinVerif.Model.CondRM
/-
  C05, continued — conditional role managers (Model/CondRM.lean; tied to
  rbac/default-role-manager by the `condrm` driver case, directly and through the Enforcer's grouping
  API).
-/
namespace Casbin.C05
open Casbin

/-- the plain role manager over the same links -/
def plainOf (c : CRM) : RM :=
  { kind := .plain, links := c.links.map (fun l => (l.1, l.2, "")), maxLevel := c.maxLevel }

theorem succs_plainOf (fn : List String → Bool) (c : CRM) (d u : String)
    (h : ∀ l ∈ c.links, CRM.pass fn c d l = true) :
    RM.succs (plainOf c).links "" u = CRM.succs fn c d u := by
  unfold RM.succs CRM.succs plainOf
  simp only
  generalize c.links = ls at h
  induction ls with
  | nil => rfl
  | cons l ls ih =>
      have hl := h l (by simp)
      have ih' := ih (fun x hx => h x (by simp [hx]))
      simp only [List.map_cons, List.filter_cons]
      by_cases hu : l.1 == u
      · simp [hu, hl, ih']
      · simp [hu, ih']

theorem bfs_plainOf (fn : List String → Bool) (c : CRM) (target : String)
    (h : ∀ d, ∀ l ∈ c.links, CRM.pass fn c d l = true) (n : Nat) :
    ∀ (d : String) (fr : List String), CRM.bfs fn c target d fr n = RM.bfs (plainOf c).links "" target fr n := by
  induction n with
  | zero => intro d fr; simp [CRM.bfs, RM.bfs]
  | succ n ih =>
      intro d fr
      unfold CRM.bfs RM.bfs
      have hs : fr.flatMap (CRM.succs fn c d) = fr.flatMap (RM.succs (plainOf c).links "") := by
        congr 1; funext u; exact (succs_plainOf fn c d u (h d)).symm
      rw [hs, ih]

/-- without a registered condition function a conditional role manager answers exactly like the
    plain role manager over the same links (whatever parameters the rules carry, whatever domain
    the request names) -/
theorem crm_unconditional (fn : List String → Bool) (c : CRM) (hc : c.conds = []) (u r : String) (ds : List String) :
    c.hasLink fn u r ds = (plainOf c).hasLink u r [] := by
  unfold CRM.hasLink RM.hasLink
  have h : ∀ d, ∀ l ∈ c.links, CRM.pass fn c d l = true := by
    intro d l _; simp [CRM.pass, hc]
  simp only [bfs_plainOf fn c r h]
  rfl

/-- the manager whose links are the passing ones and which has no condition left -/
def passing (fn : List String → Bool) (c : CRM) : CRM :=
  { c with links := c.links.filter (CRM.pass fn c ""), conds := [] }

theorem succs_passing (fn : List String → Bool) (c : CRM) (u : String) :
    CRM.succs fn (passing fn c) "" u = CRM.succs fn c "" u := by
  unfold CRM.succs passing
  simp only [List.filter_filter]
  congr 1
  apply List.filter_congr
  intro l _
  simp [CRM.pass, Bool.and_comm]

theorem bfs_passing (fn : List String → Bool) (c : CRM) (target : String) (n : Nat) :
    ∀ fr : List String, CRM.bfs fn (passing fn c) target "" fr n = CRM.bfs fn c target "" fr n := by
  induction n with
  | zero => intro fr; simp [CRM.bfs]
  | succ n ih =>
      intro fr
      unfold CRM.bfs
      have hs : fr.flatMap (CRM.succs fn (passing fn c) "") = fr.flatMap (CRM.succs fn c "") := by
        congr 1; funext u; exact succs_passing fn c u
      rw [hs, ih]

/-- a manager without domains honours the conditions on every hop: it answers like the plain
    manager over the links whose condition passes -/
theorem crm_conditions_on_every_hop (fn : List String → Bool) (c : CRM) (u r : String) :
    c.hasLink fn u r [] = (plainOf (passing fn c)).hasLink u r [] := by
  rw [← crm_unconditional fn (passing fn c) rfl u r []]
  unfold CRM.hasLink
  simp only [List.headD_nil, bfs_passing]
  rfl

/-- the role graph mirrors the links added and deleted: membership after AddLink / DeleteLink -/
theorem mem_addLink (c : CRM) (u r : String) (l : String × String) :
    l ∈ (c.addLink u r).links ↔ l ∈ c.links ∨ l = (u, r) := by
  unfold CRM.addLink
  split
  · rename_i h
    constructor
    · intro hl; exact Or.inl hl
    · rintro (hl | rfl)
      · exact hl
      · simpa using h
  · simp

theorem mem_deleteLink (c : CRM) (u r : String) (l : String × String) :
    l ∈ (c.deleteLink u r).links ↔ l ∈ c.links ∧ l ≠ (u, r) := by
  simp [CRM.deleteLink]

theorem find_map_other (ms : List (String × CRM)) (d d' : String) (c : CRM) (h : d' ≠ d) :
    (ms.map (fun e => if e.1 == d then (d, c) else e)).find? (fun e => e.1 == d') =
      ms.find? (fun e => e.1 == d') := by
  have hdd : (d == d') = false := by
    cases hb : (d == d') with
    | false => rfl
    | true => exact absurd (by simpa using hb : d = d').symm h
  induction ms with
  | nil => rfl
  | cons e es ih =>
      rw [List.map_cons, List.find?_cons, List.find?_cons, ih]
      cases he : (e.1 == d) with
      | true =>
          have hed : e.1 = d := by simpa using he
          simp only [if_true, hdd]
          rw [hed, hdd]
      | false => simp only [Bool.false_eq_true, if_false]

theorem get_set_other (m : CDM) (d d' : String) (c : CRM) (h : d' ≠ d) : (m.set d c).get d' = m.get d' := by
  have hdd : (d == d') = false := by
    cases hb : (d == d') with
    | false => rfl
    | true => exact absurd (by simpa using hb : d = d').symm h
  unfold CDM.set CDM.get
  split
  · simp only [find_map_other m.mgrs d d' c h]
  · simp only [List.find?_append, List.find?_cons, hdd, List.find?_nil, Option.or_none]

/-- links of one domain never leak into another: AddLink / DeleteLink in domain `d` leave the manager
    of every other domain as it was -/
theorem cdm_no_domain_leak (m : CDM) (u r d d' : String) (h : d' ≠ d) :
    (m.addLink u r [d]).get d' = m.get d' ∧ (m.deleteLink u r [d]).get d' = m.get d' :=
  ⟨get_set_other m d d' _ h, get_set_other m d d' _ h⟩

theorem conds_set (m : CDM) (d : String) (c : CRM) (hm : ∀ e ∈ m.mgrs, e.2.conds = []) (hc : c.conds = []) :
    ∀ e ∈ (m.set d c).mgrs, e.2.conds = [] := by
  intro e he
  unfold CDM.set at he
  split at he
  · simp only [List.mem_map] at he
    obtain ⟨e1, he1, rfl⟩ := he
    split
    · exact hc
    · exact hm e1 he1
  · simp only [List.mem_append, List.mem_singleton] at he
    rcases he with he | rfl
    · exact hm e he
    · exact hc

theorem conds_get (m : CDM) (d : String) (hm : ∀ e ∈ m.mgrs, e.2.conds = []) : (m.get d).conds = [] := by
  unfold CDM.get
  cases hf : m.mgrs.find? (fun e => e.1 == d) with
  | none => rfl
  | some x => simpa using hm x (List.mem_of_find?_eq_some hf)

/-- `Clear` (LoadPolicy, ClearPolicy and BuildRoleLinks go through it) also forgets the registered
    condition functions: whatever is rebuilt afterwards from rules alone is unconditional (recorded
    as finding D38) -/
theorem clear_forgets_conditions (m : CDM) (links : List (String × String × List String)) (d d' : String) :
    ((links.foldl (fun acc l => (acc.addLink l.1 l.2.1 [d]).setParams (l.1, l.2.1, d) l.2.2) m.clear).get d').conds = [] := by
  apply conds_get
  have gen : ∀ (acc : CDM), (∀ e ∈ acc.mgrs, e.2.conds = []) →
      ∀ e ∈ (links.foldl (fun acc l => (acc.addLink l.1 l.2.1 [d]).setParams (l.1, l.2.1, d) l.2.2) acc).mgrs, e.2.conds = [] := by
    induction links with
    | nil => intro acc h; simpa using h
    | cons l ls ih =>
        intro acc h
        rw [List.foldl_cons]
        apply ih
        intro e he
        simp only [CDM.setParams, List.mem_map] at he
        obtain ⟨e0, he0, rfl⟩ := he
        simp only [CRM.setParams]
        have hadd : ((acc.get (([d] : List String).headD "")).addLink l.1 l.2.1).conds = [] := by
          unfold CRM.addLink; split <;> simp [conds_get acc _ h]
        exact conds_set acc _ _ h hadd e0 he0
  exact gen m.clear (by simp [CDM.clear])

/-- the domain manager looks conditions up under the request's domain on the first hop only: a
    failing condition on the second hop is ignored (the recursive call of hasLinkHelper drops
    `domains...`).  Witness replayed on the implementation by the `condrm` driver case. -/
theorem cdm_deeper_condition_ignored :
    let m : CDM := {}
    let m := (m.addLink "alice" "admin" ["d1"]).setParams ("alice", "admin", "d1") ["on"]
    let m := (m.addLink "admin" "root" ["d1"]).setParams ("admin", "root", "d1") ["off"]
    let m := (m.addCond ("alice", "admin", "d1")).addCond ("admin", "root", "d1")
    m.hasLink condOn "admin" "root" ["d1"] = false ∧ m.hasLink condOn "alice" "root" ["d1"] = true := by
  decide

/-- premises satisfiable: a manager with a registered, failing condition -/
example :
    let c : CRM := ((({} : CRM).addLink "a" "b").setParams ("a", "b", "") ["off"]).addCond ("a", "b", "")
    c.hasLink condOn "a" "b" [] = false ∧ (plainOf c).hasLink "a" "b" [] = true := by
  decide

end Casbin.C05
