import CasbinVerif.Spec.Guarded
import CasbinVerif.Properties.C05
import CasbinVerif.Proofs.GuardedMirror
/-
  C05, continued — `mirror_step` under the relaxed hypothesis `opWFg`: every update call, of
  whatever shape, keeps the state well-formed and the role links in step with the listed rules.
-/
namespace Casbin.C05

theorem mirror_step_guarded (e : Enf) (op : MOp) (hwf : e.WFState) (hm : e.LinksMirror) (hop : e.opWFg op = true) :
    ∃ e' res, e.applyM op = some (e', res) ∧ e'.WFState ∧ e'.LinksMirror := by
  obtain ⟨e', res, h1, h2⟩ := mirror_step_g e op ⟨hwf, hm⟩ hop
  exact ⟨e', res, h1, h2.1, h2.2⟩

/-- every step of the history is well-formed (relaxed) in the state it is applied to -/
def histWFg (e : Enf) : List MOp → Bool
  | [] => true
  | op :: ops => e.opWFg op && match e.applyM op with
    | some (e', _) => histWFg e' ops
    | none => false

theorem mirror_hist_guarded (e : Enf) (ops : List MOp) (hwf : e.WFState) (hm : e.LinksMirror) (hops : histWFg e ops = true) :
    ∃ e', e.runM ops = some e' ∧ e'.WFState ∧ e'.LinksMirror := by
  induction ops generalizing e with
  | nil => exact ⟨e, rfl, hwf, hm⟩
  | cons op ops ih =>
    simp only [histWFg, Bool.and_eq_true] at hops
    obtain ⟨e1, res, h1, hwf1, hm1⟩ := mirror_step_guarded e op hwf hm hops.1
    rw [h1] at hops
    obtain ⟨e2, h2, hi2⟩ := ih e1 hwf1 hm1 hops.2
    exact ⟨e2, by simp only [Enf.runM, h1, h2], hi2⟩

end Casbin.C05
