import CasbinVerif.Spec.PatternRM
import CasbinVerif.Proofs.PatternRM
/-
  C05 / C17 (continued) — role managers WITH a matching function (`AddNamedMatchingFunc`):
  `PRM1` (Model/PatternRM.lean) mirrors one `RoleManagerImpl` whose names are linked by `matched` /
  `matchedBy`.  Its breadth-first search decides reachability in the pattern-extended graph within
  the depth bound; the answer depends on the known names and the links only as sets (so building
  the links in any order gives the same manager: C17), grows with them (C17 monotonicity), the
  links follow AddLink / DeleteLink exactly (C05), and with a matching function that never matches
  the manager answers like the plain one over the same links.
-/
namespace Casbin.C05Pattern

/-- the frontier search decides bounded reachability in the pattern-extended graph -/
theorem pbfs_iff (m : String → String → Bool) (rm : PRM1) (target : String) (fr : List String) (n : Nat) :
    PRM1.pbfs m rm target fr (n + 1) = true ↔ ∃ x ∈ fr, PReach m rm target x n := by
  exact pbfs_iff' m rm target n fr

/-- `HasLink(u, r)` with a matching function: equal names, `u` matches `r`, or `r` (or a name
    matching it) is reachable from `u` within `maxLevel` hops, both names being known during the search -/
theorem hasLink_iff (m : String → String → Bool) (rm : PRM1) (u r : String) (L : Nat) :
    rm.hasLink m u r L = true ↔
      (u = r ∨ pmatch m u r = true ∨ PReach m ((rm.withName u).withName r) r u L) := by
  exact PRM1.hasLink_iff' m rm u r L

/-- the answer depends on the known names and the links only as sets: managers built from the same
    rules in any order answer alike -/
theorem hasLink_order_free (m : String → String → Bool) (a b : PRM1) (h : a.sameAs b) (u r : String) (L : Nat) :
    a.hasLink m u r L = b.hasLink m u r L := by
  rw [Bool.eq_iff_iff]
  exact ⟨PRM1.hasLink_mono' m a b (PRM1.sameAs_le h) u r L, PRM1.hasLink_mono' m b a (PRM1.sameAs_ge h) u r L⟩

/-- more names and more links never lose an answer -/
theorem hasLink_mono (m : String → String → Bool) (a b : PRM1) (h : a.le b) (u r : String) (L : Nat)
    (hl : a.hasLink m u r L = true) : b.hasLink m u r L = true := by
  exact PRM1.hasLink_mono' m a b h u r L hl

/-- AddLink adds exactly the link (and the two names) -/
theorem mem_addLink (rm : PRM1) (u r : String) (e : String × String) :
    e ∈ (rm.addLink u r).edges ↔ e ∈ rm.edges ∨ e = (u, r) := by
  exact PRM1.mem_addLink_edges rm u r e

/-- DeleteLink removes exactly the link -/
theorem mem_deleteLink (rm : PRM1) (u r : String) (e : String × String) :
    e ∈ (rm.deleteLink u r).edges ↔ e ∈ rm.edges ∧ e ≠ (u, r) := by
  exact PRM1.mem_deleteLink_edges rm u r e

/-- names are never forgotten by AddLink / DeleteLink, and the names of a link are known -/
theorem names_addLink (rm : PRM1) (u r n : String) :
    n ∈ (rm.addLink u r).names ↔ n ∈ rm.names ∨ n = u ∨ n = r := by
  exact PRM1.mem_addLink_names rm u r n

theorem names_deleteLink (rm : PRM1) (u r n : String) :
    n ∈ (rm.deleteLink u r).names ↔ n ∈ rm.names ∨ n = u ∨ n = r := by
  exact PRM1.mem_deleteLink_names rm u r n

/-- adding a link never loses an answer, deleting one never gains one (C17 for pattern managers) -/
theorem addLink_mono (m : String → String → Bool) (rm : PRM1) (a b u r : String) (L : Nat)
    (hl : rm.hasLink m u r L = true) : (rm.addLink a b).hasLink m u r L = true := by
  exact PRM1.hasLink_mono' m rm _ (PRM1.le_addLink rm a b) u r L hl

/-- with a matching function that never matches, the manager answers like the plain manager over
    the same links -/
theorem noMatch_hasLink (rm : PRM1) (u r : String) (L : Nat) :
    rm.hasLink (fun _ _ => false) u r L =
      RM.hasLink { kind := .plain, links := rm.edges.map (fun e => (e.1, e.2, "")), maxLevel := L } u r [] := by
  exact PRM1.noMatch_hasLink' rm u r L

/-- non-vacuity: with keyMatch-like matching, alice reaches the pattern role's parent through a
    pattern: g(/book/1, book_admin) via the link (/book/*, book_admin) -/
example : (({} : PRM1).addLink "/book/*" "book_admin").hasLink
    (fun s p => p == "/book/*" && s.startsWith "/book/") "/book/1" "book_admin" 10 = true := by
  with_unfolding_all decide

end Casbin.C05Pattern
