import CasbinVerif.Spec.PatternRM
import CasbinVerif.Proofs.PatternDom
/-
  C05 (continued) — the per-domain pattern manager `PRM` without a domain matching function: a link
  added or deleted in one domain leaves every other domain's manager as it was (links never leak
  between domains), and Clear forgets every link.
-/
namespace Casbin.C05PatternDom

theorem addLink_other_domain (t : String → String → String → Bool) (rm : PRM) (u r d d' : String)
    (hk : rm.kind = .domain) (hf : rm.domFn = none) (hd : d' ≠ d) :
    (rm.addLink t u r [d]).getDom t d' = rm.getDom t d' := by
  rw [PRM.addLink_of_none t rm hf, PRM.dom_singleton rm hk, PRM.getDom_setDom t rm hf, if_neg hd]

theorem deleteLink_other_domain (t : String → String → String → Bool) (rm : PRM) (u r d d' : String)
    (hk : rm.kind = .domain) (hf : rm.domFn = none) (hd : d' ≠ d) :
    (rm.deleteLink t u r [d]).getDom t d' = rm.getDom t d' := by
  rw [PRM.deleteLink_of_none t rm hf, PRM.dom_singleton rm hk, PRM.getDom_setDom t rm hf, if_neg hd]

/-- in its own domain AddLink is the one-manager AddLink -/
theorem addLink_own_domain (t : String → String → String → Bool) (rm : PRM) (u r d : String)
    (hk : rm.kind = .domain) (hf : rm.domFn = none) :
    (rm.addLink t u r [d]).getDom t d = (rm.getDom t d).addLink u r := by
  rw [PRM.addLink_of_none t rm hf, PRM.dom_singleton rm hk, PRM.getDom_setDom t rm hf, if_pos rfl]

theorem clear_forgets (t : String → String → String → Bool) (rm : PRM) (hf : rm.domFn = none) (d : String) :
    (rm.clear).getDom t d = {} := by
  rw [PRM.getDom_of_none t rm.clear hf]
  rfl

/-- hence HasLink in another domain is not affected -/
theorem hasLink_other_domain (t : String → String → String → Bool) (rm : PRM) (u r d d' x y : String)
    (hk : rm.kind = .domain) (hf : rm.domFn = none) (hd : d' ≠ d) :
    (rm.addLink t u r [d]).hasLink t x y [d'] = rm.hasLink t x y [d'] := by
  have hg := addLink_other_domain t rm u r d d' hk hf hd
  unfold PRM.hasLink
  have hk' : (rm.addLink t u r [d]).kind = rm.kind := by
    rw [PRM.addLink_of_none t rm hf, PRM.setDom_kind]
  have hm : (rm.addLink t u r [d]).matchFn = rm.matchFn := by
    rw [PRM.addLink_of_none t rm hf, PRM.setDom_matchFn]
  have hl : (rm.addLink t u r [d]).maxLevel = rm.maxLevel := by
    rw [PRM.addLink_of_none t rm hf, PRM.setDom_maxLevel]
  rw [PRM.dom_singleton _ (hk'.trans hk), PRM.dom_singleton rm hk, hg, hm, hl]

end Casbin.C05PatternDom
