import CasbinVerif.Spec.RbacApi
import CasbinVerif.Model.Rbac
import CasbinVerif.Properties.C05
import CasbinVerif.Proofs.RbacApi
import CasbinVerif.Proofs.RbacArgs
import CasbinVerif.Proofs.RbacExact
/-
  C05 (continued) — the convenience layer of `rbac_api.go` / `rbac_api_with_domains.go`
  (AddRoleForUser … DeleteDomains, `Model/RbacApi.lean`) keeps role inheritance in step with the
  listed grouping rules: every such call is a well-formed history of management calls, so the
  invariant of `C05.mirror_hist` carries over, and the removing calls remove exactly what their
  documentation says.
-/
namespace Casbin.C05Rbac

/-- a convenience call is a history of management calls: whatever state it reaches is reached by
    running the management calls it made, in order -/
theorem rbac_is_history (e : Enf) (op : RbacOp) (e' : Enf) (res : Enf.MRes)
    (h : e.applyRbac op = some (e', res)) : ∃ ops, e.runM ops = some e' := by
  have key := Rbac.histRel_run e op
  rw [h] at key
  cases hr : Rbac.run Rbac.stepW (·.1) (e, true) op with
  | none => rw [hr] at key; exact key.elim
  | some x =>
    rw [hr] at key
    obtain ⟨⟨_, ops, h2, _⟩, _⟩ := key
    exact ⟨ops, h2⟩

/-- … and when every management call it makes is well-formed where it is made, that history is a
    well-formed one and the call does not panic -/
theorem rbac_is_wf_history (e : Enf) (op : RbacOp) (h : e.rbacWF op = true) :
    ∃ ops e' res, e.applyRbac op = some (e', res) ∧ e.histWF ops = true ∧ e.runM ops = some e' := by
  have key := Rbac.histRel_run e op
  unfold Enf.rbacWF at h
  cases hr : Rbac.run Rbac.stepW (·.1) (e, true) op with
  | none => rw [hr] at h; exact absurd h (by simp)
  | some x =>
    obtain ⟨⟨e2, ok⟩, r⟩ := x
    rw [hr] at h key
    simp only at h
    cases ha : e.applyRbac op with
    | none => rw [ha] at key; exact key.elim
    | some y =>
      obtain ⟨e', res⟩ := y
      rw [ha] at key
      obtain ⟨⟨_, ops, h2, h3⟩, _⟩ := key
      exact ⟨ops, e', res, rfl, h3 h, h2⟩

/-- one convenience call keeps the state well-formed and the role links in step with the listed rules,
    whatever the adapter (incl. armed faults: a composite call that stops half-way — finding D40 —
    still leaves links = listed rules) and the watcher do -/
theorem rbac_mirror_step (e : Enf) (op : RbacOp) (hwf : e.WFState) (hm : e.LinksMirror) (hop : e.rbacWF op = true) :
    ∃ e' res, e.applyRbac op = some (e', res) ∧ e'.WFState ∧ e'.LinksMirror := by
  obtain ⟨ops, e', res, h1, h2, h3⟩ := rbac_is_wf_history e op hop
  obtain ⟨e'', h4, h5, h6⟩ := C05.mirror_hist e ops hwf hm h2
  rw [h3] at h4
  simp only [Option.some.injEq] at h4
  subst h4
  exact ⟨e', res, h1, h5, h6⟩

/-- after any well-formed history of convenience calls -/
theorem rbac_mirror_hist (e : Enf) (ops : List RbacOp) (hwf : e.WFState) (hm : e.LinksMirror)
    (hops : e.histRbacWF ops = true) : ∃ e', e.runRbac ops = some e' ∧ e'.WFState ∧ e'.LinksMirror := by
  induction ops generalizing e with
  | nil => exact ⟨e, rfl, hwf, hm⟩
  | cons op ops ih =>
    simp only [Enf.histRbacWF, Bool.and_eq_true] at hops
    obtain ⟨e1, res, h1, h2, h3⟩ := rbac_mirror_step e op hwf hm hops.1
    have h4 := hops.2
    rw [h1] at h4
    obtain ⟨e2, h5, h6⟩ := ih e1 h2 h3 h4
    exact ⟨e2, by simp only [Enf.runRbac, h1, h5], h6⟩

/-- the hypothesis is met by plain arguments of the right width: in a well-formed state whose role
    links mirror the listed rules, `rbacArgsOk` (comma-free names, rules of the width of their
    definition) implies `rbacWF` -/
theorem rbacWF_of_args (e : Enf) (op : RbacOp) (hwf : e.WFState) (hm : e.LinksMirror)
    (h : e.rbacArgsOk op = true) : e.rbacWF op = true := by
  exact rbacWF_of_args' e op hwf hm h

/-- `DeleteRolesForUser(u)` (no domain): when it reports no error, the grouping rules listed
    afterwards are exactly the ones listed before whose first field is not `u`, in the same order -/
theorem deleteRolesForUser_exact (e : Enf) (u : String) (hu : u ≠ "") (hwf : e.WFState) (hm : e.LinksMirror)
    (e' : Enf) (res : Enf.MRes) (h : e.applyRbac (.deleteRolesForUser u []) = some (e', res))
    (hok : res.isErr = false) :
    e'.listed "g" "g" = (e.listed "g" "g").filter (fun r => r.headD "" != u) ∧ e'.p = e.p := by
  simp only [Enf.applyRbac, Rbac.run, Enf.applyM] at h
  obtain ⟨_, _, _, h4, h5⟩ := rf_g_step hwf hm hu (by omega) h hok
  refine ⟨?_, h4⟩
  rw [h5]
  exact List.filter_congr (fun r _ => by cases r <;> rfl)

/-- `DeleteUser(u)`: when it reports no error, no listed grouping rule starts with `u` and no listed
    policy rule has `u` as its subject any more; all other rules are listed as before, in order -/
theorem deleteUser_exact (e : Enf) (u : String) (hu : u ≠ "") (hwf : e.WFState) (hm : e.LinksMirror)
    (si : Nat) (hsi : Rbac.fieldIndex e "sub" = some si)
    (e' : Enf) (res : Enf.MRes) (h : e.applyRbac (.deleteUser u) = some (e', res))
    (hok : res.isErr = false) :
    e'.listed "g" "g" = (e.listed "g" "g").filter (fun r => r.headD "" != u) ∧
    e'.listed "p" "p" = (e.listed "p" "p").filter (fun r => r.getD si "" != u) := by
  simp only [Enf.applyRbac, Rbac.run, Enf.applyM, id, Option.bind_eq_bind] at h
  cases h1 : e.removeFiltered "g" "g" 0 [u] with
  | none => rw [h1] at h; cases h
  | some x =>
    obtain ⟨e1, r1⟩ := x
    rw [h1] at h
    simp only [Option.bind_some] at h
    cases hr1 : r1.isErr with
    | true =>
      simp only [hr1, if_true, Option.pure_def, Option.some.injEq, Prod.mk.injEq] at h
      rw [← h.2, hr1] at hok; cases hok
    | false =>
      obtain ⟨hw1, hl1, hmd1, hp1, hg1⟩ := rf_g_step hwf hm hu (by omega) h1 hr1
      have hsi1 : Rbac.fieldIndex e1 "sub" = some si := (fieldIndex_md hmd1 _).trans hsi
      simp only [hr1, Bool.false_eq_true, if_false, hsi1] at h
      cases h2 : e1.removeFiltered "p" "p" si [u] with
      | none => rw [h2] at h; cases h
      | some y =>
        obtain ⟨e2, r2⟩ := y
        rw [h2] at h
        simp only [Option.bind_some, Option.pure_def, Option.some.injEq, Prod.mk.injEq] at h
        obtain ⟨rfl, rfl⟩ := h
        rw [withVal_isErr] at hok
        obtain ⟨hg2, hp2⟩ := rf_p_step hw1 hu hsi1 h2 hok
        refine ⟨?_, ?_⟩
        · rw [listed_g, hg2, ← listed_g, hg1]
          exact List.filter_congr (fun r _ => by cases r <;> rfl)
        · rw [hp2, listed_p e1, hp1, ← listed_p]

/-- `DeleteRole(r)`: when it reports no error, `r` occurs neither as user nor as role of a listed
    grouping rule nor as subject of a listed policy rule; all other rules are listed as before -/
theorem deleteRole_exact (e : Enf) (r : String) (hr : r ≠ "") (hwf : e.WFState) (hm : e.LinksMirror)
    (si : Nat) (hsi : Rbac.fieldIndex e "sub" = some si)
    (e' : Enf) (res : Enf.MRes) (h : e.applyRbac (.deleteRole r) = some (e', res))
    (hok : res.isErr = false) :
    e'.listed "g" "g" = (e.listed "g" "g").filter (fun x => x.headD "" != r && x.getD 1 "" != r) ∧
    e'.listed "p" "p" = (e.listed "p" "p").filter (fun x => x.getD si "" != r) := by
  simp only [Enf.applyRbac, Rbac.run, Enf.applyM, id, Option.bind_eq_bind] at h
  cases h1 : e.removeFiltered "g" "g" 0 [r] with
  | none => rw [h1] at h; cases h
  | some x =>
    obtain ⟨e1, r1⟩ := x
    rw [h1] at h
    simp only [Option.bind_some] at h
    cases hr1 : r1.isErr with
    | true =>
      simp only [hr1, if_true, Option.pure_def, Option.some.injEq, Prod.mk.injEq] at h
      rw [← h.2, hr1] at hok; cases hok
    | false =>
      obtain ⟨hw1, hl1, hmd1, hp1, hg1⟩ := rf_g_step hwf hm hr (by omega) h1 hr1
      simp only [hr1, Bool.false_eq_true, if_false] at h
      cases h2 : e1.removeFiltered "g" "g" 1 [r] with
      | none => rw [h2] at h; cases h
      | some y =>
        obtain ⟨e2, r2⟩ := y
        rw [h2] at h
        simp only [Option.bind_some] at h
        cases hr2 : r2.isErr with
        | true =>
          simp only [hr2, if_true, Option.pure_def, Option.some.injEq, Prod.mk.injEq] at h
          rw [← h.2] at hok; cases hok
        | false =>
          obtain ⟨hw2, hl2, hmd2, hp2, hg2⟩ := rf_g_step hw1 hl1 hr (by omega) h2 hr2
          have hsi2 : Rbac.fieldIndex e2 "sub" = some si :=
            (fieldIndex_md hmd2 _).trans ((fieldIndex_md hmd1 _).trans hsi)
          simp only [hr2, Bool.false_eq_true, if_false, hsi2] at h
          cases h3 : e2.removeFiltered "p" "p" si [r] with
          | none => rw [h3] at h; cases h
          | some z =>
            obtain ⟨e3, r3⟩ := z
            rw [h3] at h
            simp only [Option.bind_some, Option.pure_def, Option.some.injEq, Prod.mk.injEq] at h
            obtain ⟨rfl, rfl⟩ := h
            rw [withVal_isErr] at hok
            obtain ⟨hg3, hp3⟩ := rf_p_step hw2 hr hsi2 h3 hok
            refine ⟨?_, ?_⟩
            · rw [listed_g, hg3, ← listed_g, hg2, hg1, List.filter_filter]
              exact List.filter_congr (fun x _ => by cases x <;> simp [Bool.and_comm])
            · rw [hp3, listed_p e2, hp2, hp1, ← listed_p]

/-- the hypotheses are satisfiable: the stock RBAC model with two grouping rules and one policy rule -/
example : (Enf.init Rbac.rbacModel).rbacArgsOk (.addRoleForUser "alice" "admin" []) = true := by
  decide

end Casbin.C05Rbac
