import CasbinVerif.Spec.RbacExpected
/-
  C05 (continued) — the convenience layer in the source itself.  `Facts.rbacCalls` is regenerated from
  rbac_api.go / rbac_api_with_domains.go by go/ast on every run; decided here (kernel evaluation over the
  regenerated table): every function of those files that changes the policy is one of the 16 whose program
  `Model/RbacApi.lean` mirrors, it makes exactly the management calls of that program in that order, and it
  reaches the adapter, the watcher, the dispatcher and the role links only through them.
-/
namespace Casbin.C05RbacApi
open RbacExpected

/-- each modelled function makes the management calls of its program, in order -/
theorem source_programs_as_modelled :
    ∀ p ∈ programs, (Facts.rbacCalls.lookup p.1).isSome = true ∧ changing p.1 = p.2 := by
  decide

/-- no other function of the two files changes the policy -/
theorem source_no_other_changer : ∀ f ∈ changers, (programs.lookup f).isSome = true := by
  decide

/-- the convenience layer never talks to the adapter, the watcher, the dispatcher or the role links itself -/
theorem source_layer_is_indirect : ∀ x ∈ Facts.rbacCalls, indirect x.1 = true := by
  decide

end Casbin.C05RbacApi
