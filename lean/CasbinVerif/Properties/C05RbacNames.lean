import CasbinVerif.Spec.RbacNames
import CasbinVerif.Proofs.RbacNames
/-
  C05 (continued) — the model's programs and the source's skeletons are the same programs: the management
  calls `Rbac.run` makes for a convenience call are, by their exported names and in order, a prefix of the calls
  the Go function makes (`RbacExpected.programs`, itself decided against the table regenerated from the source
  in C05RbacApi.source_programs_as_modelled) — the whole list when the call reports no error.
-/
namespace Casbin.C05RbacNames

/-- the calls the model makes are an initial part of the calls the source makes (a program stops at an error) -/
theorem model_calls_prefix_of_source (e : Enf) (op : RbacOp) (hnd : ∀ ds, op ≠ .deleteDomains ds)
    (s' : Enf) (log : List String) (res : Enf.MRes)
    (h : Rbac.run Rbac.stepL (·.1) (e, []) op = some ((s', log), res)) :
    log <+: op.sourceCalls := by
  exact (Rbac.calls_spec e op hnd s' log res h).1

/-- … and all of them when the call reports no error -/
theorem model_calls_eq_source (e : Enf) (op : RbacOp) (hnd : ∀ ds, op ≠ .deleteDomains ds)
    (s' : Enf) (log : List String) (res : Enf.MRes)
    (h : Rbac.run Rbac.stepL (·.1) (e, []) op = some ((s', log), res)) (hok : res.isErr = false) :
    log = op.sourceCalls := by
  exact (Rbac.calls_spec e op hnd s' log res h).2 hok

/-- the logging run goes through the same states and answers as the plain run -/
theorem logging_run_is_the_run (e : Enf) (op : RbacOp) :
    (Rbac.run Rbac.stepL (·.1) (e, []) op).map (fun x => (x.1.1, x.2)) = e.applyRbac op := by
  exact Rbac.logging_run e op

/-- DeleteDomains: ClearPolicy without arguments, otherwise only the calls of DeleteAllUsersByDomain -/
theorem deleteDomains_calls (e : Enf) (ds : List String) (s' : Enf) (log : List String) (res : Enf.MRes)
    (h : Rbac.run Rbac.stepL (·.1) (e, []) (.deleteDomains ds) = some ((s', log), res)) :
    (ds = [] → log = ["ClearPolicy"]) ∧ (ds ≠ [] → ∀ n ∈ log, n = "RemoveGroupingPolicies" ∨ n = "RemovePolicies") := by
  exact Rbac.deleteDomains_log e ds s' log res h

end Casbin.C05RbacNames
