import CasbinVerif.Proofs.StoreOps
/-
  C06 — The policy store is an ordered set with a coherent index.

  `Store` / `Mgmt` mirror `model/policy.go` and the memory part of `internal_api.go`; `SpecStore`
  is the list-of-unique-rules reference.  `WF06` is the decidable hypothesis; what it excludes is
  listed in DESIGN.md (C06) and witnessed in `Findings/C06.lean`.
-/
namespace Casbin.C06

/-- two distinct rules are never confused: the map key is injective on non-empty comma-free rules -/
theorem key_injective {r₁ r₂ : Rule}
    (h₁ : ∀ f ∈ r₁, commaFree f = true) (h₂ : ∀ f ∈ r₂, commaFree f = true)
    (n₁ : r₁ ≠ []) (n₂ : r₂ ≠ []) (h : ruleKey r₁ = ruleKey r₂) : r₁ = r₂ := by
  exact ruleKey_injective h₁ h₂ n₁ n₂ h

theorem coh_empty : Coh Store.empty := by
  exact coh_empty'

/-- one management call refines the specification and keeps list and index coherent -/
theorem refine_step (n : Nat) (s : Store) (op : StoreOp) (h : Coh s) (hwf : WF06 n s.policy op = true) :
    ∃ s' b, Mgmt.apply s op = some (s', b) ∧ Coh s' ∧ (s'.policy, b) = SpecStore.apply s.policy op := by
  have hpl : ∀ q ∈ s.policy, plainRule n q = true := by
    simp only [WF06, Bool.and_eq_true, List.all_eq_true] at hwf
    exact hwf.1.1.2
  obtain ⟨s', b, h1, g', h2⟩ := mgmt_apply_spec ⟨h, hpl⟩ hwf
  exact ⟨s', b, h1, g'.coh, h2⟩

/-- run a history on the model / on the specification -/
def runModel (s : Store) : List StoreOp → Option (Store × List Bool)
  | [] => some (s, [])
  | op :: ops => do
      let (s', b) ← Mgmt.apply s op
      let (s'', bs) ← runModel s' ops
      pure (s'', b :: bs)

def runSpec (l : List Rule) : List StoreOp → List Rule × List Bool
  | [] => (l, [])
  | op :: ops =>
      let (l', b) := SpecStore.apply l op
      let (l'', bs) := runSpec l' ops
      (l'', b :: bs)

/-- every step of the history satisfies `WF06` in the specification state it is applied to -/
def WFHist (n : Nat) (l : List Rule) : List StoreOp → Bool
  | [] => true
  | op :: ops => WF06 n l op && WFHist n (SpecStore.apply l op).1 ops

/-- any history of management calls: same listed rules in the same order, same reported booleans,
    and the index stays coherent -/
theorem refine_hist (n : Nat) (s : Store) (ops : List StoreOp) (h : Coh s) (hwf : WFHist n s.policy ops = true) :
    ∃ s' bs, runModel s ops = some (s', bs) ∧ Coh s' ∧ (s'.policy, bs) = runSpec s.policy ops := by
  induction ops generalizing s with
  | nil => exact ⟨s, [], rfl, h, rfl⟩
  | cons op ops ih =>
    simp only [WFHist, Bool.and_eq_true] at hwf
    obtain ⟨s', b, h1, hc, h2⟩ := refine_step n s op h hwf.1
    have e1 : (SpecStore.apply s.policy op).1 = s'.policy := by rw [← h2]
    obtain ⟨s'', bs, h3, hc', h4⟩ := ih s' hc (e1 ▸ hwf.2)
    refine ⟨s'', b :: bs, ?_, hc', ?_⟩
    · simp [runModel, h1, h3]
    · simp only [runSpec]
      rw [← h2, ← h4]

/-- a rule is reported present exactly when it is listed -/
theorem has_iff_listed (n : Nat) (s : Store) (h : Coh s) (r : Rule)
    (hl : ∀ q ∈ s.policy, plainRule n q = true)
    (hr : plainRule n r = true) (hn : n ≠ 0) :
    s.has r = true ↔ r ∈ s.policy := by
  exact Coh.has_iff hn h hl hr

/-- no rule is listed twice, after any history -/
theorem never_listed_twice (n : Nat) (ops : List StoreOp) (hwf : WFHist n [] ops = true) :
    ∃ s' bs, runModel Store.empty ops = some (s', bs) ∧ s'.policy.Nodup := by
  obtain ⟨s', bs, h1, hc, _⟩ := refine_hist n Store.empty ops coh_empty hwf
  exact ⟨s', bs, h1, hc.1⟩

/-- removal keeps the relative order of the remaining rules -/
theorem remove_keeps_order (l : List Rule) (r : Rule) :
    (SpecStore.apply l (.remove r)).1.Sublist l ∧ ∀ q, q ∈ (SpecStore.apply l (.remove r)).1 → q ∈ l := by
  simp only [SpecStore.apply]
  split
  · exact ⟨List.erase_sublist, fun q hq => List.mem_of_mem_erase hq⟩
  · exact ⟨List.Sublist.refl _, fun q hq => hq⟩

/-- update replaces in place: every other slot is untouched -/
theorem update_keeps_order (l : List Rule) (old new : Rule) :
    (SpecStore.apply l (.update old new)).1.length = l.length ∧
    ∀ i : Nat, l[i]? ≠ some old → (SpecStore.apply l (.update old new)).1[i]? = l[i]? := by
  simp only [SpecStore.apply]
  split
  · refine ⟨by simp [SpecStore.replace], ?_⟩
    intro i hi
    simp only [SpecStore.replace, List.getElem?_map]
    cases hx : l[i]? with
    | none => rfl
    | some x =>
      have : x ≠ old := fun e => hi (by rw [hx, e])
      simp [this]
  · exact ⟨rfl, fun _ _ => rfl⟩

/-- filtered queries select exactly the listed rules whose fields equal the non-empty values -/
theorem filtered_query_exact (n : Nat) (s : Store) (fi : Nat) (vals : List String)
    (hl : ∀ q ∈ s.policy, q.length = n) (hr : fi + vals.length ≤ n) :
    s.getFiltered fi vals = some (s.policy.filter (filterMatches fi vals)) := by
  exact getFiltered_eq s fi vals (fun q hq => matchFilter_eq q vals fi (by rw [hl q hq]; exact hr))

/-- a non-Ex call reports false exactly when it left the listed rules unchanged -/
theorem false_iff_unchanged (n : Nat) (l : List Rule) (op : StoreOp) (hnd : l.Nodup)
    (hwf : WF06 n l op = true) (hex : ∀ rs, op ≠ .addMany true rs) :
    (SpecStore.apply l op).2 = false ↔ (SpecStore.apply l op).1 = l := by
  have _ := hnd
  exact spec_false_iff_unchanged n l op hwf hex

/-- coherence also survives the priority insertion of `AddPolicy` (used by C07) -/
theorem coh_add_prio (n : Nat) (pi : Nat) (s : Store) (r : Rule) (h : Coh s)
    (hl : ∀ q ∈ s.policy, plainRule n q = true)
    (hr : plainRule n r = true) (hn : n ≠ 0) (hnew : r ∉ s.policy) :
    Coh (s.add (some pi) r) ∧ (s.add (some pi) r).policy.Perm (r :: s.policy) := by
  obtain ⟨g', hp⟩ := good_add_prio hn pi ⟨h, hl⟩ hr hnew
  exact ⟨g'.coh, hp⟩

/-! ### non-vacuity -/
def exOps : List StoreOp :=
  [.add ["alice", "d1", "read"], .addMany false [["bob", "d2", "write"], ["carol", "d1", "read"]],
   .update ["bob", "d2", "write"] ["bob", "d2", "read"], .removeFiltered 1 ["d1"], .add ["alice", "d1", "read"],
   .updateMany [["alice", "d1", "read"]] [["dave", "d3", "read"]], .remove ["zed", "x", "y"]]
example : WFHist 3 [] exOps = true := by decide
example : (runSpec [] exOps) = ([["bob", "d2", "read"], ["dave", "d3", "read"]], [true, true, true, true, true, true, false]) := by decide

end Casbin.C06
