import CasbinVerif.Basic
import CasbinVerif.Generated.Facts
/-
  C06, continued — the rule key in the source itself.  `Facts.ruleKeyJoins` is regenerated from
  model/*.go on every run: every place that joins a rule into its PolicyMap key, with the
  separator it uses (a literal or the value of the package constant).  The store model keys rules
  by `ruleKey` (Basic.lean); the theorems here show that every site of the code uses that same
  separator — one site with another separator files rules under keys the other sites never look
  up — and that the sites the model mirrors are all there.
-/
namespace Casbin.C06

/-- the separator of `ruleKey` -/
def ruleKeySep : String := ","

theorem ruleKey_uses_sep (r : Rule) : ruleKey r = ruleKeySep.intercalate r := rfl

/-- every key-building site of package model uses the model's separator -/
theorem source_one_key_separator : ∀ j ∈ Facts.ruleKeyJoins, j.2 = ruleKeySep := by
  decide

/-- the table covers the functions whose index handling the store model mirrors (incl. the two
    load-time sorts, which rebuild the index) -/
theorem source_key_sites_listed :
    ∀ f ∈ ["HasPolicy", "AddPolicy", "AddPoliciesWithAffected", "RemovePolicy", "UpdatePolicy", "UpdatePolicies",
            "RemovePoliciesWithAffected", "RemoveFilteredPolicy", "SortPoliciesBySubjectHierarchy", "SortPoliciesByPriority"],
      (Facts.ruleKeyJoins.map (·.1)).contains f = true := by
  decide

end Casbin.C06
