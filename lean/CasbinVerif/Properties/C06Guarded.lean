import CasbinVerif.Spec.Guarded
import CasbinVerif.Properties.C06
import CasbinVerif.Proofs.GuardedStore
/-
  C06, continued — the store behind the `updatable` guard (repair of D12/D18): under the guard a
  batch update of ANY shape keeps list and index coherent and is the in-place replacement of the
  specification; a refused batch changes nothing.
-/
namespace Casbin.C06

/-- the guard decides by the index exactly what the specification decides by the listed rules -/
theorem updatable_eq_spec (n : Nat) (s : Store) (olds news : List Rule) (h : Coh s)
    (hpl : ∀ q ∈ s.policy, plainRule n q = true) (ho : ∀ r ∈ olds ++ news, plainRule n r = true) (hn : n ≠ 0) :
    Enf.updatable s olds news = specUpdatable s.policy olds news := by
  exact updatable_eq_spec' hn ⟨h, hpl⟩ olds news ho

/-- a guarded batch update (identity pairs, listed new rules, unlisted or repeated old rules
    included) refines the specification and keeps the store coherent -/
theorem guarded_update_refines (n : Nat) (s : Store) (olds news : List Rule) (h : Coh s)
    (hpl : ∀ q ∈ s.policy, plainRule n q = true) (ho : ∀ r ∈ olds ++ news, plainRule n r = true) (hn : n ≠ 0)
    (hlen : olds.length = news.length) :
    ∃ s' b, Mgmt.guardedUpdateMany s olds news = some (s', b) ∧ Coh s' ∧
      (∀ q ∈ s'.policy, plainRule n q = true) ∧
      (s'.policy, b) =
        (if specUpdatable s.policy olds news then SpecStore.apply s.policy (.updateMany olds news)
         else (s.policy, false)) := by
  have g : Good n s := ⟨h, hpl⟩
  have hpo : ∀ r ∈ olds, plainRule n r = true := fun r hr => ho r (List.mem_append_left _ hr)
  have hpn : ∀ r ∈ news, plainRule n r = true := fun r hr => ho r (List.mem_append_right _ hr)
  have hne : (olds.length != news.length) = false := by simp [hlen]
  rw [← updatable_eq_spec n s olds news h hpl ho hn]
  unfold Mgmt.guardedUpdateMany
  simp only [hne, Bool.false_eq_true, if_false]
  cases hu : Enf.updatable s olds news with
  | false =>
    exact ⟨s, false, by simp, h, hpl, by simp⟩
  | true =>
    obtain ⟨hin, s', h1, g', h2, _⟩ := updateMany_guarded hn g olds news hlen hpo hpn hu
    refine ⟨s', true, by simp [h1], g'.coh, g'.plain, ?_⟩
    have hall : olds.all (fun r => decide (r ∈ s.policy)) = true := by
      simp only [List.all_eq_true, decide_eq_true_eq]; exact hin
    simp only [if_true, SpecStore.apply, hall, h2]

/-- premises satisfiable, and the guard is not vacuous: a batch with an identity pair is accepted, a
    batch onto a listed rule is refused -/
example :
    let s : Store := (Mgmt.addMany none false Store.empty [["a", "b"], ["c", "d"]]).1
    Enf.updatable s [["a", "b"], ["c", "d"]] [["a", "b"], ["e", "f"]] = true ∧
    Enf.updatable s [["a", "b"]] [["c", "d"]] = false := by
  decide

end Casbin.C06
