import CasbinVerif.Model.Loader
import CasbinVerif.Properties.C02
import CasbinVerif.Proofs.C07Sort
/-
  C07 — Priority policies are always evaluated in priority order.

  `Store.add (some pi)` mirrors the priority insertion of `Model.AddPolicy`, `Enf.sortByPrio` the
  stable sort of `SortPoliciesByPriority` (as the insertion sort `sort.SliceStable` runs on short
  slices), `insertByLevel` / `sortBySubject` the descending stable sort of
  `SortPoliciesBySubjectHierarchy`.  After the repairs the field index is resolved when the
  definition is added (so the insertion works whether or not a policy was ever loaded) and a
  priority that does not parse sorts after every number.  With the priority effect the decision
  is the effect of the first matched allow/deny rule in stored order (C02.priority_first_determinate);
  the theorems below say what "first in stored order" means.
-/
namespace Casbin.C07

/-- the sort key of a rule: its parsed priority, `none` = does not parse = after every number -/
def prioKey (pi : Nat) (r : Rule) : Option Int := atoi (r.getD pi "")

def keyLe : Option Int → Option Int → Bool
  | some a, some b => a ≤ b
  | _, none => true
  | none, some _ => false

/-- listed in non-decreasing priority order -/
def SortedP (pi : Nat) (l : List Rule) : Prop := l.Pairwise (fun a b => keyLe (prioKey pi a) (prioKey pi b) = true)

/-- AddPolicy places the new rule after every listed rule whose priority is not greater (so equal
    priorities stay in insertion order) and before all the others, which keep their order -/
theorem add_position (pi : Nat) (s : Store) (r : Rule) (hs : SortedP pi s.policy) :
    (s.add (some pi) r).policy =
      s.policy.filter (fun q => keyLe (prioKey pi q) (prioKey pi r)) ++ [r] ++
      s.policy.filter (fun q => !keyLe (prioKey pi q) (prioKey pi r)) := by
  have hk : keyLe = C07L.kle := by funext a b; cases a <;> cases b <;> rfl
  have hp : prioKey = C07L.key := rfl
  rw [hk, hp]
  exact C07L.add_policy_eq pi s r (by rw [SortedP, hk, hp] at hs; exact hs)

theorem add_keeps_sorted (pi : Nat) (s : Store) (r : Rule) (hs : SortedP pi s.policy) :
    SortedP pi (s.add (some pi) r).policy := by
  have hk : keyLe = C07L.kle := by funext a b; cases a <;> cases b <;> rfl
  have hp : prioKey = C07L.key := rfl
  rw [SortedP, hk, hp] at hs ⊢
  rw [C07L.add_policy_eq pi s r hs]
  exact C07L.ins_sorted pi r s.policy hs

/-- removal keeps the order of the remaining rules, hence sortedness -/
theorem remove_keeps_sorted (pi : Nat) (s : Store) (r : Rule) (hs : SortedP pi s.policy) :
    SortedP pi (s.remove r).1.policy := by
  exact List.Pairwise.sublist (C07L.remove_sublist s r) hs

/-- the sort run on every load: sorted, same rules, equal priorities keep their order -/
theorem sortByPrio_sorted (pi : Nat) (l : List Rule) :
    SortedP pi (Enf.sortByPrio pi l) ∧ (Enf.sortByPrio pi l).Perm l ∧
    ∀ k, (Enf.sortByPrio pi l).filter (fun q => prioKey pi q == k) = l.filter (fun q => prioKey pi q == k) := by
  have hk : keyLe = C07L.kle := by funext a b; cases a <;> cases b <;> rfl
  have hp : prioKey = C07L.key := rfl
  rw [SortedP, hk, hp]
  have h := C07L.foldl_insertByPrio pi l [] List.Pairwise.nil
  refine ⟨h.1, ?_, ?_⟩
  · have := h.2.1; rw [List.nil_append] at this; exact this
  · intro k; have := h.2.2 k; rw [List.filter_nil, List.nil_append] at this; exact this

/-- in a sorted policy the first rule satisfying any predicate (matched with effect allow or deny)
    has the least priority among all rules satisfying it -/
theorem first_match_least (pi : Nat) (l : List Rule) (hs : SortedP pi l) (q : Rule → Bool) (c : Rule)
    (h : l.find? q = some c) : ∀ d ∈ l, q d = true → keyLe (prioKey pi c) (prioKey pi d) = true := by
  have hk : keyLe = C07L.kle := by funext a b; cases a <;> cases b <;> rfl
  have hp : prioKey = C07L.key := rfl
  rw [SortedP, hk, hp] at hs
  rw [hk, hp]
  exact C07L.find_least pi l hs q c h

/-- any history of additions and removals from an empty (or sorted) policy stays sorted:
    whether or not a policy was ever loaded -/
theorem history_sorted (pi : Nat) (s : Store) (ops : List (Bool × Rule)) (hs : SortedP pi s.policy) :
    SortedP pi (ops.foldl (fun s op => if op.1 then s.add (some pi) op.2 else (s.remove op.2).1) s).policy := by
  induction ops generalizing s with
  | nil => exact hs
  | cons op rest ih =>
    rw [List.foldl_cons]
    apply ih
    split
    · exact add_keeps_sorted pi s op.2 hs
    · exact remove_keeps_sorted pi s op.2 hs

/-- the subject ordering is a stable sort by descending level, for every level function
    (whatever the role graph: trees, DAGs, cycles) -/
theorem subject_sort_stable (lvl : Rule → Nat) (rules : List Rule) :
    let out := rules.foldl (fun acc r => insertByLevel lvl r acc) []
    out.Perm rules ∧ out.Pairwise (fun a b => lvl a ≥ lvl b) ∧
    ∀ k, out.filter (fun q => lvl q == k) = rules.filter (fun q => lvl q == k) := by
  have h := C07L.foldl_insertByLevel lvl rules [] List.Pairwise.nil
  refine ⟨?_, h.2.1, ?_⟩
  · have := h.1; rw [List.nil_append] at this; exact this
  · intro k; have := h.2.2 k; rw [List.filter_nil, List.nil_append] at this; exact this

/-! ### non-vacuity (evaluated by the compiler: `String.toNat?` does not reduce in the kernel, so these
are checks, not proofs) -/
#guard (((Store.empty.add (some 0) ["10", "deny"]).add (some 0) ["oops", "x"]).add (some 0) ["1", "allow"]).policy ==
    [["1", "allow"], ["10", "deny"], ["oops", "x"]]
#guard keyLe (prioKey 0 ["1", "allow"]) (prioKey 0 ["10", "deny"]) && keyLe (prioKey 0 ["10", "deny"]) (prioKey 0 ["oops", "x"])

end Casbin.C07
