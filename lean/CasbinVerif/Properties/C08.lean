import CasbinVerif.Model.Config
import CasbinVerif.Proofs.Config
/-
  C08 — Model text is read faithfully regardless of layout.

  `Cfg.parseConfig` mirrors `config.parseBuffer` (+ `write`, `AddConfig`), `Cfg.loadModel` mirrors
  `loadModelFromConfig` / `AddDef`.  The theorems say: blank and comment lines (outside a
  continuation), surrounding whitespace, CRLF endings, backslash continuation at a blank and the
  order of sections do not change the configuration that is read (hence not the definitions, which
  are a function of it: `loadModel_of_same_config`), and a definition line is stored in full.
  Since the repair of the long-line defect the reader has no line-length bound: the model has none.
-/
namespace Casbin.C08
open Casbin.Cfg

/-- blank or comment line -/
def blankOrComment (l : List Char) : Bool :=
  match trim l with
  | [] => true
  | c :: _ => isCommentStart c

/-- a definition line that continues on the next line -/
def isContLine (l : List Char) : Bool :=
  !blankOrComment l && (trim l).getLast? == some '\\'

/-- the line before position `pre.length` does not continue -/
def notInsideContinuation (pre : List (List Char)) : Bool :=
  match pre.getLast? with
  | none => true
  | some l => !isContLine l

def dataOf (o : Option St) : Option (List (Key × List Char)) := o.map (·.data)

/-! bridges to the vocabulary of `Proofs/Config.lean` -/
theorem blankOrComment_eq (l : List Char) : blankOrComment l = isBC (trim l) := by
  unfold blankOrComment isBC; cases trim l <;> rfl

theorem isContLine_eq (l : List Char) : isContLine l = contline (trim l) := by
  unfold isContLine contline; rw [blankOrComment_eq]

theorem lastNotCont_of (pre : List (List Char)) (h : notInsideContinuation pre = true) :
    lastNotCont pre := by
  intro l hl
  unfold notInsideContinuation at h
  rw [hl] at h
  rw [← isContLine_eq]
  simpa using h

/-- blank and comment lines between entries do not change what is read -/
theorem blank_comment_lines (pre post : List (List Char)) (l : List Char)
    (hl : blankOrComment l = true) (hpre : notInsideContinuation pre = true) :
    dataOf (parseLines {} (pre ++ l :: post)) = dataOf (parseLines {} (pre ++ post)) := by
  rw [blank_line_drop (by rwa [← blankOrComment_eq]) (lastNotCont_of pre hpre)]

/-- whitespace around any line does not change what is read -/
theorem surrounding_space (ls : List (List Char)) (padL padR : List Char → List Char)
    (hL : ∀ l, (padL l).all isSpace = true) (hR : ∀ l, (padR l).all isSpace = true) :
    parseLines {} (ls.map (fun l => padL l ++ l ++ padR l)) = parseLines {} ls := by
  apply parseLines_congr_trim
  rw [List.map_map]
  apply List.map_congr_left
  intro l _
  exact trim_pad _ _ _ (hL l) (hR l)

/-- "\n" → "\r\n" -/
def toCRLF (text : List Char) : List Char := text.flatMap (fun c => if c == '\n' then ['\r', '\n'] else [c])

theorem crlf (text : List Char) : parseConfig (toCRLF text) = parseConfig text :=
  parseConfig_crlf text

/-- conditions under which a definition line `a ++ " " ++ b` may be split after `a` -/
def splittable (a b : List Char) : Bool :=
  !a.isEmpty && !b.isEmpty &&
  (a.head?.map (fun c => !isSpace c && c != '[' && !isCommentStart c)).getD false &&
  (a.getLast?.map (fun c => !isSpace c)).getD false &&
  (b.head?.map (fun c => !isSpace c)).getD false &&
  (b.getLast?.map (fun c => !isSpace c && c != '\\')).getD false &&
  !(b.head? == some '[' && b.getLast? == some ']') &&
  (a ++ b).all (fun c => !isCommentStart c)

/-- backslash continuation at a blank: the two lines `a \` and `b` are read as the one line `a b` -/
theorem continuation_split (st : St) (a b : List Char) (h : splittable a b = true) :
    (stepLine st (a ++ [' ', '\\'])).bind (fun s => stepLine s b) = stepLine st (a ++ ' ' :: b) := by
  simp only [splittable, Bool.and_eq_true] at h
  obtain ⟨⟨⟨⟨⟨⟨⟨-, -⟩, h1⟩, h2⟩, h3⟩, h4⟩, h5⟩, h6⟩ := h
  cases hah : a.head? with
  | none => simp [hah] at h1
  | some ca =>
  cases hal : a.getLast? with
  | none => simp [hal] at h2
  | some za =>
  cases hbh : b.head? with
  | none => simp [hbh] at h3
  | some cb =>
  cases hbl : b.getLast? with
  | none => simp [hbl] at h4
  | some zb =>
  simp only [hah, hal, hbh, hbl, Option.map_some, Option.getD_some, Bool.and_eq_true,
    bne_iff_ne, ne_eq, Bool.not_eq_eq_eq_not, Bool.not_true] at h1 h2 h3 h4 h5
  refine cont_split st a b ca za cb zb hah hal hbh hbl h1.1.1 h1.1.2 h1.2 h2 h3 h4.1 h4.2 ?_ h6
  intro hc
  rw [hc.1, hc.2] at h5
  simp at h5

theorem continuation_split_text (pre post : List (List Char)) (a b : List Char) (h : splittable a b = true) :
    parseLines {} (pre ++ (a ++ [' ', '\\']) :: b :: post) = parseLines {} (pre ++ (a ++ ' ' :: b) :: post) := by
  rw [parseLines_append, parseLines_append]
  cases runLines {} pre with
  | none => rfl
  | some s =>
    simp only [Option.bind_some]
    rw [parseLines_cons, parseLines_cons, ← continuation_split s a b h]
    cases stepLine s (a ++ [' ', '\\']) with
    | none => rfl
    | some s1 => simp only [Option.bind_some]; rw [parseLines_cons]

/-- a section: its header and the lines up to the next header -/
structure Block where
  name : List Char
  body : List (List Char)

def isHeader (l : List Char) : Bool :=
  match trim l with
  | c :: rest => c == '[' && (c :: rest).getLast? == some ']' && (c :: rest).length ≥ 2
  | [] => false

def Block.lines (b : Block) : List (List Char) := ('[' :: b.name ++ [']']) :: b.body
def Block.wf (b : Block) : Bool := b.body.all (fun l => !isHeader l) && b.name.all (fun c => !isSpace c)
def Block.section (b : Block) : List Char := if b.name.isEmpty then defaultSection else b.name

/-! bridges to the block vocabulary of `Proofs/Config.lean` -/
theorem isHeader_eq (l : List Char) : isHeader l = isHdr (trim l) := by
  unfold isHeader isHdr; cases trim l <;> rfl

def Block.toBlk (b : Block) : Blk := (b.name, b.body)

theorem flatMap_lines_eq (bs : List Block) :
    bs.flatMap Block.lines = (bs.map Block.toBlk).flatMap blkLines := by
  rw [List.flatMap_map]; rfl

theorem Block.wf_toBlk {b : Block} (h : b.wf = true) : b.toBlk.wf := by
  unfold Block.wf at h
  simp only [Bool.and_eq_true, List.all_eq_true] at h
  refine ⟨fun l hl => ?_, ?_⟩
  · have := h.1 l hl
    rw [isHeader_eq] at this
    simpa using this
  · rw [List.all_eq_true]; exact h.2

theorem wf_map_toBlk {bs : List Block} (hwf : ∀ b ∈ bs, b.wf = true) :
    ∀ b ∈ bs.map Block.toBlk, b.wf := by
  intro b hb
  obtain ⟨b', hb', rfl⟩ := List.mem_map.mp hb
  exact Block.wf_toBlk (hwf b' hb')

/-- the order of sections does not change any value that is read -/
theorem section_order (bs₁ bs₂ : List Block) (hperm : bs₁.Perm bs₂)
    (hwf : ∀ b ∈ bs₁, b.wf = true) (hd : (bs₁.map Block.section).Nodup) (k : Key) :
    (dataOf (parseLines {} (bs₁.flatMap Block.lines))).map (fun d => lookup d k) =
    (dataOf (parseLines {} (bs₂.flatMap Block.lines))).map (fun d => lookup d k) := by
  have hwf₂ : ∀ b ∈ bs₂, b.wf = true := fun b hb => hwf b (hperm.mem_iff.mpr hb)
  have hd' : ((bs₁.map Block.toBlk).map (fun b => secOf b.1)).Nodup := by
    rw [List.map_map]; exact hd
  unfold dataOf
  rw [flatMap_lines_eq, flatMap_lines_eq, parse_blocks_init _ (wf_map_toBlk hwf),
    parse_blocks_init _ (wf_map_toBlk hwf₂)]
  exact allEntries_perm_lookup _ _ (hperm.map _) (wf_map_toBlk hwf) hd' k

theorem section_order_length (bs₁ bs₂ : List Block) (hperm : bs₁.Perm bs₂)
    (hwf : ∀ b ∈ bs₁, b.wf = true) :
    (dataOf (parseLines {} (bs₁.flatMap Block.lines))).map List.length =
    (dataOf (parseLines {} (bs₂.flatMap Block.lines))).map List.length := by
  have hwf₂ : ∀ b ∈ bs₂, b.wf = true := fun b hb => hwf b (hperm.mem_iff.mpr hb)
  unfold dataOf
  rw [flatMap_lines_eq, flatMap_lines_eq, parse_blocks_init _ (wf_map_toBlk hwf),
    parse_blocks_init _ (wf_map_toBlk hwf₂)]
  exact allEntries_perm_length _ _ (hperm.map _)

/-- the section in force after a list of lines -/
def sectAfter (ls : List (List Char)) : List Char :=
  let s := ls.foldl (fun s l => if isHeader l then ((trim l).drop 1).dropLast else s) []
  if s.isEmpty then defaultSection else s

theorem sectAfter_eq (ls : List (List Char)) : sectAfter ls = secOf (sectFold [] ls) := by
  unfold sectAfter secOf sectFold
  simp only [isHeader_eq]

/-- nothing is silently dropped: a one-line definition `k = v` is stored in full, whatever its length -/
theorem nothing_dropped (pre post : List (List Char)) (k v : List Char) (st : St)
    (hk : k.all (fun c => c != '=' && !isCommentStart c) = true) (hv : v.all (fun c => !isCommentStart c) = true)
    (hline : !blankOrComment (k ++ '=' :: v) && !isHeader (k ++ '=' :: v) && !isContLine (k ++ '=' :: v) = true)
    (hpre : notInsideContinuation pre = true)
    (hparse : parseLines {} (pre ++ (k ++ '=' :: v) :: post) = some st) :
    ((sectAfter pre, trim k), trim v) ∈ st.data := by
  simp only [Bool.and_eq_true, Bool.not_eq_true', blankOrComment_eq, isHeader_eq, isContLine_eq,
    decide_eq_false_iff_not, Bool.not_eq_true] at hline
  rw [sectAfter_eq]
  exact def_stored_text hk hv hline.1.1 hline.1.2 hline.2 (lastNotCont_of pre hpre) hparse

/-- the definitions are a function of the configuration that was read -/
theorem loadModel_of_same_config (t₁ t₂ : List Char) (h : parseConfig t₁ = parseConfig t₂) :
    loadModel t₁ = loadModel t₂ := by
  unfold loadModel
  rw [h]

/-- parsing any text yields a configuration or an error (the model function is total) -/
theorem parse_total (text : List Char) : parseConfig text = none ∨ ∃ d, parseConfig text = some d := by
  cases parseConfig text with
  | none => exact Or.inl rfl
  | some d => exact Or.inr ⟨d, rfl⟩

/-! ### non-vacuity -/
example : splittable "m = r.sub == p.sub &&".toList "r.obj == p.obj".toList = true := by decide
example : (parseConfig "[s]\nk = a b \\\n  c\n".toList) = some [(("s".toList, "k".toList), "a b c".toList)] := by decide
example : notInsideContinuation ["[s]".toList, "k = v".toList] = true := by decide

end Casbin.C08
