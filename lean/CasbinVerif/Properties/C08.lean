import CasbinVerif.Model.Config
/-
  C08 — Model text is read faithfully regardless of layout.

  `Cfg.parseConfig` mirrors `config.parseBuffer` (+ `write`, `AddConfig`), `Cfg.loadModel` mirrors
  `loadModelFromConfig` / `AddDef`.  The theorems say: blank and comment lines (outside a
  continuation), surrounding whitespace, CRLF endings, backslash continuation at a blank and the
  order of sections do not change the configuration that is read (hence not the definitions, which
  are a function of it: `loadModel_of_same_config`), and a definition line is stored in full.
  Since the repair of the long-line defect the reader has no line-length bound: the model has none.
-/
namespace Casbin.C08
open Casbin.Cfg

/-- blank or comment line -/
def blankOrComment (l : List Char) : Bool :=
  match trim l with
  | [] => true
  | c :: _ => isCommentStart c

/-- a definition line that continues on the next line -/
def isContLine (l : List Char) : Bool :=
  !blankOrComment l && (trim l).getLast? == some '\\'

/-- the line before position `pre.length` does not continue -/
def notInsideContinuation (pre : List (List Char)) : Bool :=
  match pre.getLast? with
  | none => true
  | some l => !isContLine l

def dataOf (o : Option St) : Option (List (Key × List Char)) := o.map (·.data)

/-- blank and comment lines between entries do not change what is read -/
theorem blank_comment_lines (pre post : List (List Char)) (l : List Char)
    (hl : blankOrComment l = true) (hpre : notInsideContinuation pre = true) :
    dataOf (parseLines {} (pre ++ l :: post)) = dataOf (parseLines {} (pre ++ post)) := by
  sorry

/-- whitespace around any line does not change what is read -/
theorem surrounding_space (ls : List (List Char)) (padL padR : List Char → List Char)
    (hL : ∀ l, (padL l).all isSpace = true) (hR : ∀ l, (padR l).all isSpace = true) :
    parseLines {} (ls.map (fun l => padL l ++ l ++ padR l)) = parseLines {} ls := by
  sorry

/-- "\n" → "\r\n" -/
def toCRLF (text : List Char) : List Char := text.flatMap (fun c => if c == '\n' then ['\r', '\n'] else [c])

theorem crlf (text : List Char) : parseConfig (toCRLF text) = parseConfig text := by
  sorry

/-- conditions under which a definition line `a ++ " " ++ b` may be split after `a` -/
def splittable (a b : List Char) : Bool :=
  !a.isEmpty && !b.isEmpty &&
  (a.head?.map (fun c => !isSpace c && c != '[' && !isCommentStart c)).getD false &&
  (a.getLast?.map (fun c => !isSpace c)).getD false &&
  (b.head?.map (fun c => !isSpace c)).getD false &&
  (b.getLast?.map (fun c => !isSpace c && c != '\\')).getD false &&
  !(b.head? == some '[' && b.getLast? == some ']') &&
  (a ++ b).all (fun c => !isCommentStart c)

/-- backslash continuation at a blank: the two lines `a \` and `b` are read as the one line `a b` -/
theorem continuation_split (st : St) (a b : List Char) (h : splittable a b = true) :
    (stepLine st (a ++ [' ', '\\'])).bind (fun s => stepLine s b) = stepLine st (a ++ ' ' :: b) := by
  sorry

theorem continuation_split_text (pre post : List (List Char)) (a b : List Char) (h : splittable a b = true) :
    parseLines {} (pre ++ (a ++ [' ', '\\']) :: b :: post) = parseLines {} (pre ++ (a ++ ' ' :: b) :: post) := by
  sorry

/-- a section: its header and the lines up to the next header -/
structure Block where
  name : List Char
  body : List (List Char)

def isHeader (l : List Char) : Bool :=
  match trim l with
  | c :: rest => c == '[' && (c :: rest).getLast? == some ']' && (c :: rest).length ≥ 2
  | [] => false

def Block.lines (b : Block) : List (List Char) := ('[' :: b.name ++ [']']) :: b.body
def Block.wf (b : Block) : Bool := b.body.all (fun l => !isHeader l) && b.name.all (fun c => !isSpace c)
def Block.section (b : Block) : List Char := if b.name.isEmpty then defaultSection else b.name

/-- the order of sections does not change any value that is read -/
theorem section_order (bs₁ bs₂ : List Block) (hperm : bs₁.Perm bs₂)
    (hwf : ∀ b ∈ bs₁, b.wf = true) (hd : (bs₁.map Block.section).Nodup) (k : Key) :
    (dataOf (parseLines {} (bs₁.flatMap Block.lines))).map (fun d => lookup d k) =
    (dataOf (parseLines {} (bs₂.flatMap Block.lines))).map (fun d => lookup d k) := by
  sorry

theorem section_order_length (bs₁ bs₂ : List Block) (hperm : bs₁.Perm bs₂)
    (hwf : ∀ b ∈ bs₁, b.wf = true) :
    (dataOf (parseLines {} (bs₁.flatMap Block.lines))).map List.length =
    (dataOf (parseLines {} (bs₂.flatMap Block.lines))).map List.length := by
  sorry

/-- the section in force after a list of lines -/
def sectAfter (ls : List (List Char)) : List Char :=
  let s := ls.foldl (fun s l => if isHeader l then ((trim l).drop 1).dropLast else s) []
  if s.isEmpty then defaultSection else s

/-- nothing is silently dropped: a one-line definition `k = v` is stored in full, whatever its length -/
theorem nothing_dropped (pre post : List (List Char)) (k v : List Char) (st : St)
    (hk : k.all (fun c => c != '=' && !isCommentStart c) = true) (hv : v.all (fun c => !isCommentStart c) = true)
    (hline : !blankOrComment (k ++ '=' :: v) && !isHeader (k ++ '=' :: v) && !isContLine (k ++ '=' :: v) = true)
    (hpre : notInsideContinuation pre = true)
    (hparse : parseLines {} (pre ++ (k ++ '=' :: v) :: post) = some st) :
    ((sectAfter pre, trim k), trim v) ∈ st.data := by
  sorry

/-- the definitions are a function of the configuration that was read -/
theorem loadModel_of_same_config (t₁ t₂ : List Char) (h : parseConfig t₁ = parseConfig t₂) :
    loadModel t₁ = loadModel t₂ := by
  sorry

/-- parsing any text yields a configuration or an error (the model function is total) -/
theorem parse_total (text : List Char) : parseConfig text = none ∨ ∃ d, parseConfig text = some d := by
  sorry

/-! ### non-vacuity -/
example : splittable "m = r.sub == p.sub &&".toList "r.obj == p.obj".toList = true := by decide
example : (parseConfig "[s]\nk = a b \\\n  c\n".toList) = some [(("s".toList, "k".toList), "a b c".toList)] := by decide
example : notInsideContinuation ["[s]".toList, "k = v".toList] = true := by decide

end Casbin.C08
