import CasbinVerif.Spec.KeyMatch
import CasbinVerif.Proofs.KeyMatch
/-
  C09 — Built-in path and address matchers implement their documented semantics.

  `KM.keyMatch*`, `KM.keyGet*`, `KM.ipMatch` mirror `util/builtin_operators.go` (string rewriting,
  then a matcher for the regular-expression fragment the rewriting produces from well-formed
  patterns); `segMatch`, `segMatch4`, `segGet`, `inBlock` are the segment / CIDR semantics of the
  property statement.  Level partial: Go's `regexp` and `net` are modelled, not verified.
-/
namespace Casbin.C09
open Casbin.KM

/-- KeyMatch: everything before the first `*` of the pattern must be a prefix of the key (equal keys if there is no `*`) -/
theorem keyMatch_spec (key1 key2 : List Char) :
    keyMatch key1 key2 =
      (match firstStar key2 with
       | none => decide (key1 = key2)
       | some i => (key2.take i).isPrefixOf key1) := by
  exact keyMatch_spec' key1 key2

/-- KeyGet returns the part covered by the `*` exactly when KeyMatch succeeds through a `*` -/
theorem keyGet_spec (key1 key2 : List Char) (i : Nat) (hi : firstStar key2 = some i) (hlen : key1.length > i) :
    (keyMatch key1 key2 = true → key2.take i ++ keyGet key1 key2 = key1) ∧
    (keyMatch key1 key2 = false → keyGet key1 key2 = []) := by
  exact keyGet_spec' key1 key2 i hi hlen

/-- KeyMatch2 (`:name`) and KeyMatch3 (`{name}`) accept exactly the paths the segment semantics accepts -/
theorem keyMatchRe_spec (st : Style) (p : Pat) (h : PatWF p = true) (path : List Char) :
    keyMatchRe st path (render st p) = some (segMatch p path) := by
  exact keyMatchRe_eq st p h path

/-- KeyMatch5 ignores the query string -/
theorem keyMatch5_spec (p : Pat) (h : PatWF p = true) (path : List Char) :
    keyMatch5 path (render .brace p) = some (segMatch p (path.takeWhile (· != '?'))) := by
  exact keyMatchRe_eq .brace p h _

/-- KeyMatch4: repeated names must be filled with equal segments -/
theorem keyMatch4_spec (p : Pat) (h : PatWF p = true) (path : List Char) :
    keyMatch4 path (render .brace p) = some (segMatch4 p path) := by
  exact keyMatch4_eq p h path

/-- KeyGet2 / KeyGet3 return the captured segment exactly when the corresponding match succeeds -/
theorem keyGetRe_spec (st : Style) (p : Pat) (h : PatWF p = true) (path : List Char) (var : List Char) :
    keyGetRe st path (render st p) (String.ofList var) = some (segGet p path var) := by
  exact keyGetRe_eq st p h path var

theorem keyGet_nomatch (st : Style) (p : Pat) (h : PatWF p = true) (path : List Char) (var : List Char)
    (hm : segMatch p path = false) : keyGetRe st path (render st p) (String.ofList var) = some [] := by
  rw [keyGetRe_eq st p h path var]
  unfold segMatch at hm
  unfold segGet
  cases hc : segCapture p.segs p.wild path with
  | none => rfl
  | some vals => simp [hc] at hm

/-- ipMatch agrees with CIDR arithmetic -/
theorem ipMatch_cidr (ip net len : List Char) (a n l : Nat)
    (ha : parseIPv4 ip = some a) (hn : parseIPv4 net = some n) (hl : parsePrefixLen len = some l)
    (hnoslash : '/' ∉ net ∧ '/' ∉ len) :
    ipMatch ip (net ++ '/' :: len) = some (inBlock a n l) := by
  exact ipMatch_cidr' ip net len a n l ha hn hl hnoslash

/-- a parsed dotted quad is a 32-bit number -/
theorem parseIPv4_lt (s : List Char) (a : Nat) (h : parseIPv4 s = some a) : a < 2 ^ 32 := by
  exact parseIPv4_lt' s a h

/-- ipMatch on IPv6 text agrees with CIDR arithmetic on 128-bit numbers -/
theorem ipMatch6_cidr (ip net len : List Char) (a n l : Nat)
    (ha : parseIPv6 ip = some a) (hn : parseIPv6 net = some n) (hl : parsePrefixLen6 len = some l)
    (hnoslash : '/' ∉ net ∧ '/' ∉ len) :
    ipMatch6 ip (net ++ '/' :: len) = some (inBlock6 a n l) := by
  unfold ipMatch6
  simp only [ha, splitOnChar_append hnoslash.1, splitOnChar_notMem hnoslash.2, hn, hl, inBlock6]
  rw [div_eq_block _ _ _ (Nat.pow_pos (by decide))]

/-! ### non-vacuity -/
example : parseIPv6 "2001:db8::1".toList = some 0x20010db8000000000000000000000001 := by decide
example : ipMatch6 "2001:db8::1".toList "2001:db8::/32".toList = some true := by decide
def exPat : Pat := { segs := [.lit "proxy".toList, .ph "id".toList, .lit "x".toList], wild := true }
example : PatWF exPat = true := by decide
example : render .colon exPat = "/proxy/:id/x/*".toList := by decide
example : segMatch exPat "/proxy/7/x/".toList = true := by decide
example : segMatch exPat "/proxy/7/x".toList = false := by decide
example : segMatch exPat "/proxy//x/a/b".toList = false := by decide

end Casbin.C09
