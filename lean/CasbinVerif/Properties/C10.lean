import CasbinVerif.Spec.Persist
import CasbinVerif.Properties.C04
import CasbinVerif.Proofs.C10Reload
import CasbinVerif.Proofs.Updatable
/-
  C10 — What is persisted is what is enforced.

  `Enf` mirrors the persist-then-mutate structure of `internal_api.go` against the recording
  set-semantics adapter of the harness (`AdapterSt`, every optional adapter interface).  `Synced`:
  the adapter holds, per type and in the same order, exactly the listed rules.
-/
namespace Casbin.C10

/-- the invariant of auto-save operation -/
def Inv (e : Enf) : Prop :=
  e.WFState ∧ e.Synced ∧ e.adapterQuiet ∧ e.noPriority ∧ e.disjointTypes ∧ e.typeNamesOk ∧ e.autoSave = true

/-- with auto-save on, after every management call the adapter has been given exactly the changes
    applied in memory: it still holds exactly the listed rules -/
theorem autosave_step (e : Enf) (op : MOp) (h : Inv e) (hop : e.opWF10 op = true) :
    ∃ e' res, e.applyM op = some (e', res) ∧ Inv e' := by
  obtain ⟨a, b, c, d, f, g, k⟩ := h
  obtain ⟨e', res, h1, h2⟩ := c10_step e op ⟨a, b, c, d, f, g, k⟩ hop
  exact ⟨e', res, h1, h2.wf, h2.synced, h2.quiet, h2.noPrio, h2.disj, h2.names, h2.autoSave⟩

theorem autosave_hist (e : Enf) (ops : List MOp) (h : Inv e)
    (hops : ∀ (pre : List MOp) (op : MOp) (e' : Enf), pre ++ [op] <+: ops → e.runM pre = some e' → e'.opWF10 op = true) :
    ∃ e', e.runM ops = some e' ∧ Inv e' := by
  induction ops generalizing e with
  | nil => exact ⟨e, rfl, h⟩
  | cons op ops ih =>
    have hop : e.opWF10 op = true := hops [] op e (by simp) rfl
    obtain ⟨e1, res, h1, hi1⟩ := autosave_step e op h hop
    have hops1 : ∀ (pre : List MOp) (op' : MOp) (e' : Enf), pre ++ [op'] <+: ops → e1.runM pre = some e' →
        e'.opWF10 op' = true := by
      intro pre op' e' hpre hrun
      refine hops (op :: pre) op' e' ?_ ?_
      · simpa using hpre
      · simp only [Enf.runM, h1]; exact hrun
    obtain ⟨e2, h2, hi2⟩ := ih e1 hi1 hops1
    exact ⟨e2, by simp only [Enf.runM, h1, h2], hi2⟩

/-- with auto-save off the adapter is untouched by every management call -/
theorem autosave_off_untouched (e : Enf) (op : MOp) (h : e.autoSave = false) (e' : Enf) (res : Enf.MRes)
    (hr : e.applyM op = some (e', res)) : e'.adapter = e.adapter ∧ e'.autoSave = false := by
  have hoff : e.shouldPersist = false := by simp [Enf.shouldPersist, h]
  obtain ⟨h1, h2⟩ := adSame_applyM e op hoff e' res hr
  exact ⟨h1, h2.trans h⟩

/-- SavePolicy hands the adapter exactly the listed rules, per type in stored order -/
theorem save_synced (e : Enf) (hwf : e.WFState) (hd : e.disjointTypes) (hq : e.adapterQuiet) (a : AdapterSt) (ha : e.adapter = some a) :
    e.savePolicy.2 = true ∧ e.savePolicy.1.Synced ∧ e.savePolicy.1.memory = e.memory := by
  exact save_synced' e hwf hd hq a ha

/-- an enforcer (re)loaded from a synced adapter lists the same rules in the same order … -/
theorem reload_same_rules (e : Enf) (h : Inv e) (hb : e.autoBuild = true) (a : AdapterSt) (ha : e.adapter = some a) :
    e.loadPolicy.2 = true ∧ (∀ pt, (e.loadPolicy.1.p.lookup pt).map (·.policy) = (e.p.lookup pt).map (·.policy)) ∧
    (∀ gt, (e.loadPolicy.1.g.lookup gt).map (·.policy) = (e.g.lookup gt).map (·.policy)) := by
  obtain ⟨a1, b, c, d, f, g, k⟩ := h
  obtain ⟨h1, h2, h3, _, _⟩ := reload_all ⟨a1, b, c, d, f, g, k⟩ hb a ha
  exact ⟨h1, h2, h3⟩

/-- … and its role links mirror them, so (C04.same_rules_same_decision) it makes the same decisions -/
theorem reload_mirror (e : Enf) (h : Inv e) (hm : e.LinksMirror) (hb : e.autoBuild = true) (a : AdapterSt) (ha : e.adapter = some a) :
    e.loadPolicy.1.WFState ∧ e.loadPolicy.1.LinksMirror := by
  have _ := hm
  obtain ⟨a1, b, c, d, f, g, k⟩ := h
  obtain ⟨_, _, _, h4, h5⟩ := reload_all ⟨a1, b, c, d, f, g, k⟩ hb a ha
  exact ⟨h4, h5⟩

/-- the repair of findings D12 and D18: an update that `updatable` refuses — an old rule that is
    not listed, a new rule that is already listed, a rule named twice — reports false and changes
    nothing: the adapter is not called and memory is as it was -/
theorem refused_update_untouched (e : Enf) (sec pt : String) (olds news : List Rule) (s : Store)
    (hs : e.getStore sec pt = some s) (hlen : olds.length = news.length)
    (hg : Enf.updatable s olds news = false) :
    e.updatePoliciesWN sec pt olds news = (e, .ok false) := by
  rw [Enf.updatePoliciesWN_eq]
  simp [hlen, hs, hg]

theorem refused_single_update_untouched (e : Enf) (sec pt : String) (old new : Rule) (s : Store)
    (hs : e.getStore sec pt = some s) (hg : Enf.updatable s [old] [new] = false) :
    e.updatePolicyWN sec pt old new = (e, .ok false) := by
  rw [Enf.updatePolicyWN_eq]
  simp [hs, hg]

/-- what `updatable` refuses, on one pair: exactly an unlisted old rule or a listed new rule with another key -/
theorem updatable_single (s : Store) (old new : Rule) :
    Enf.updatable s [old] [new] = (s.has old && (ruleKey new == ruleKey old || !s.has new)) := by
  simp only [Enf.updatable, List.zip_cons_cons, List.zip_nil_right, Enf.updatableFrom]
  cases s.has old <;> cases ruleKey new == ruleKey old <;> cases s.has new <;> simp

end Casbin.C10
