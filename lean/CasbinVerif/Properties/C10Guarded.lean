import CasbinVerif.Spec.Guarded
import CasbinVerif.Properties.C10
import CasbinVerif.Proofs.GuardedPersist
/-
  C10, continued — auto-save keeps the adapter in step with memory under the relaxed hypothesis
  `opWF10g`: for every update call of whatever shape.
-/
namespace Casbin.C10

theorem autosave_step_guarded (e : Enf) (op : MOp) (h : Inv e) (hop : e.opWF10g op = true) :
    ∃ e' res, e.applyM op = some (e', res) ∧ Inv e' := by
  obtain ⟨a, b, c, d, f, g, k⟩ := h
  obtain ⟨e', res, h1, h2⟩ := c10_step_g e op ⟨a, b, c, d, f, g, k⟩ hop
  exact ⟨e', res, h1, h2.wf, h2.synced, h2.quiet, h2.noPrio, h2.disj, h2.names, h2.autoSave⟩

end Casbin.C10
