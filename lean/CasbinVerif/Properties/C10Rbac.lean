import CasbinVerif.Spec.RbacApi
import CasbinVerif.Properties.C10
import CasbinVerif.Properties.C05Rbac
import CasbinVerif.Proofs.RbacApi10
/-
  C10 (continued) — the convenience layer under auto-save: every call of `rbac_api.go` /
  `rbac_api_with_domains.go` leaves the adapter holding exactly the listed rules.
-/
namespace Casbin.C10Rbac

/-- with auto-save on and no fault armed, after every convenience call the adapter still holds, per
    type and in the same order, exactly the listed rules -/
theorem rbac_autosave_step (e : Enf) (op : RbacOp) (h : C10.Inv e) (hop : e.rbacWF10 op = true) :
    ∃ e' res, e.applyRbac op = some (e', res) ∧ C10.Inv e' := by
  unfold Enf.rbacWF10 at hop
  simp only [Bool.and_eq_true] at hop
  obtain ⟨hwf, hnc⟩ := hop
  have hne : op ≠ .deleteDomains [] := by
    intro hc; subst hc; exact absurd hnc (by simp)
  have key := Rbac.invRel_run e op hne h
  unfold Enf.rbacWF at hwf
  cases hr : Rbac.run Rbac.stepW (·.1) (e, true) op with
  | none => rw [hr] at hwf; exact absurd hwf (by simp)
  | some x =>
    obtain ⟨⟨e2, ok⟩, r⟩ := x
    rw [hr] at hwf key
    simp only at hwf
    cases ha : e.applyRbac op with
    | none => rw [ha] at key; exact key.elim
    | some y =>
      obtain ⟨e', res⟩ := y
      rw [ha] at key
      obtain ⟨⟨_, h3⟩, _⟩ := key
      exact ⟨e', res, rfl, h3 hwf⟩

end Casbin.C10Rbac
