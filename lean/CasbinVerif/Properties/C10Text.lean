import CasbinVerif.Model.Loader
import CasbinVerif.Properties.C18
import CasbinVerif.Proofs.C10Text
/-
  C10 (continuation) — "SavePolicy followed by LoadPolicy reproduces the same rules in the same
  per-type order", for the text form of the bundled file / string adapters.

  `Csv.saveLine` mirrors `util.ArrayToString` (what SavePolicy writes for one rule), `saveText` the
  whole file, `Csv.lineTokens` what `persist.LoadPolicyLine` gets back from `encoding/csv`,
  `loadFileText` the file adapter's LoadPolicy.  The save format does no CSV quoting, so the round
  trip holds for *plain* fields only (`Csv.plainField`: no comma, quote, CR/LF, no leading blank;
  and, because the file adapter trims every line, no blank at the very end of the last field): the
  theorems below are therefore `…_partial`, and the complement — a rule that can be loaded (from a
  quoted field) but does not survive a save — is finding D17, stated here as a pair of theorems
  about a concrete line.
-/
namespace Casbin.C10Text
open Casbin Casbin.Csv Casbin.Cfg

/-- a type name as the adapters write it: non-empty, plain, not the start of a comment -/
def typeOk (pt : List Char) : Bool := plainField pt && !pt.isEmpty && pt.head? != some '#'

/-- no blank at the very end (the file adapter trims every line it reads) -/
def endsClean (f : List Char) : Bool :=
  match f.getLast? with
  | some c => !isSpace c
  | none => true

/-- an entry (type, rule) that the unquoted save format can carry through the file adapter -/
def entryPlain (e : String × Rule) : Bool :=
  typeOk e.1.toList && e.2.all (fun f => plainField f.toList) &&
  endsClean (((e.1 :: e.2).getLast?.getD "").toList)

def savedLine (e : String × Rule) : List Char := saveLine e.1.toList (e.2.map String.toList)

/-- the rules of a model in the order SavePolicy writes them -/
def entriesOf (p g : List (String × Store)) : List (String × Rule) :=
  (p ++ g).flatMap (fun (x : String × Store) => x.2.policy.map (fun r => (x.1, r)))

/-- lines joined the way SavePolicy joins them: '\n' between lines, none at the end -/
def joinNL : List (List Char) → List Char
  | [] => []
  | l :: ls => ls.foldl (fun acc x => acc ++ '\n' :: x) l

/-- one saved line reads back as the type and the fields that were saved (string adapter: the line
    as it is) -/
theorem line_round_trip_partial (pt : List Char) (rule : List (List Char))
    (hpt : typeOk pt = true) (h : rule.all plainField = true) :
    lineTokens (saveLine pt rule) = some (.ok (pt :: rule)) := by
  rw [C10TextP.saveLine_eq]
  exact C10TextP.lineTokens_enc (show C10TextP.typeOk pt = true from hpt) (C10TextP.Enc_tailOf rule h)

/-- the same through the file adapter, which trims the line first -/
theorem file_line_round_trip_partial (pt : List Char) (rule : List (List Char))
    (hpt : typeOk pt = true) (h : rule.all plainField = true)
    (hlast : endsClean ((pt :: rule).getLast?.getD []) = true) :
    lineTokens (trim (saveLine pt rule)) = some (.ok (pt :: rule)) := by
  obtain ⟨T, hT, hE⟩ := C10TextP.trim_saveLine pt rule (show C10TextP.typeOk pt = true from hpt) h
    (show C10TextP.endsClean ((pt :: rule).getLast?.getD []) = true from hlast)
  rw [hT]
  exact C10TextP.lineTokens_enc (show C10TextP.typeOk pt = true from hpt) hE

/-- `LoadPolicyLine` on a saved line is `LoadPolicyArray` on the rule that was saved -/
theorem saved_line_loads_partial (md : ModelDef) (st : Stores) (e : String × Rule) (h : entryPlain e = true) :
    loadPolicyLine md st (trim (savedLine e)) = Enf.loadLine md st.1 st.2 e.1 e.2 := by
  obtain ⟨pt, r⟩ := e
  unfold entryPlain at h
  simp only [Bool.and_eq_true] at h
  obtain ⟨⟨hpt, hr⟩, hlast⟩ := h
  have hr' : (r.map String.toList).all plainField = true := by
    rw [List.all_map]
    exact hr
  have hlast' : endsClean ((pt.toList :: r.map String.toList).getLast?.getD []) = true := by
    have : (pt.toList :: r.map String.toList).getLast?.getD [] = ((pt :: r).getLast?.getD "").toList := by
      rw [← List.map_cons, List.getLast?_map]
      cases (pt :: r).getLast? <;> rfl
    rw [this]
    exact hlast
  have hlt := file_line_round_trip_partial pt.toList (r.map String.toList) hpt hr' hlast'
  unfold loadPolicyLine savedLine
  simp only [hlt, List.map_cons, List.map_map, String.ofList_toList]
  have : r.map (String.ofList ∘ String.toList) = r := by
    induction r with
    | nil => rfl
    | cons x xs ih => simp
  rw [this]

/-- the file adapter's line reader gets back exactly the lines that were joined -/
theorem joined_lines_read_back (ls : List (List Char)) (h : ∀ l ∈ ls, l ≠ [] ∧ '\n' ∉ l) :
    readLines (joinNL ls) = ls := by
  cases ls with
  | nil => rfl
  | cons l ls =>
    show readLines (ls.foldl (fun acc x => acc ++ '\n' :: x) l) = l :: ls
    rw [C10TextP.foldl_join]
    exact C10TextP.readLines_of_split _ l ls
      (C10TextP.splitLines_join l ls (fun x hx => (h x hx).2)) (fun x hx => (h x hx).1)

/-- `saveText` is the join of the saved lines of the entries in SavePolicy's order -/
theorem saveText_eq (p g : List (String × Store)) :
    saveText p g = joinNL ((entriesOf p g).map savedLine) := by
  have : (entriesOf p g).map savedLine =
      (p ++ g).flatMap (fun (x : String × Store) => x.2.policy.map (fun r => Csv.saveLine x.1.toList (r.map String.toList))) := by
    unfold entriesOf
    rw [List.map_flatMap]
    simp only [List.map_map]
    rfl
  rw [this]
  rfl

/-- SavePolicy then LoadPolicy through the file adapter: loading the saved text is loading the
    saved rules one by one, in the order they were listed, types in definition order, p before g
    (what `C18.loadEntries_adds` then turns into "the same rules in the same per-type order") -/
theorem text_save_load_partial (md : ModelDef) (st : Stores) (p g : List (String × Store))
    (hplain : (entriesOf p g).all entryPlain = true)
    (hshort : ∀ e ∈ entriesOf p g, (savedLine e).length < maxScanLine) :
    loadFileText md st (saveText p g) = C18.loadEntries md st (entriesOf p g) := by
  have hne : ∀ l ∈ (entriesOf p g).map savedLine, l ≠ [] ∧ '\n' ∉ l := by
    intro l hl
    obtain ⟨e, he, rfl⟩ := List.mem_map.1 hl
    have hep := List.all_eq_true.1 hplain e he
    unfold entryPlain at hep
    simp only [Bool.and_eq_true] at hep
    exact C10TextP.saveLine_ok e.1.toList (e.2.map String.toList) hep.1.1 (by rw [List.all_map]; exact hep.1.2)
  unfold loadFileText
  rw [saveText_eq, joined_lines_read_back _ hne]
  have hlen : ((entriesOf p g).map savedLine).any (fun l => decide (l.length ≥ maxScanLine)) = false := by
    rw [Bool.eq_false_iff]
    intro hany
    obtain ⟨l, hl, hlong⟩ := List.any_eq_true.1 hany
    obtain ⟨e, he, rfl⟩ := List.mem_map.1 hl
    have := hshort e he
    simp only [decide_eq_true_eq] at hlong
    omega
  simp only [hlen, Bool.false_eq_true, if_false, Csv.fileLines, joined_lines_read_back _ hne]
  exact C10TextP.loadFileLines_entries md savedLine entryPlain
    (fun st e he => saved_line_loads_partial md st e he) st (entriesOf p g) hplain

/-- finding D17, first half: a rule with a comma inside a field can be loaded (from a quoted field) -/
theorem quoted_field_is_loadable :
    lineTokens "p, \"a,b\", read".toList = some (.ok ["p".toList, "a,b".toList, "read".toList]) := by
  rfl

/-- finding D17, second half: saved, it reads back as a different rule (four fields) -/
theorem quoted_field_does_not_survive :
    lineTokens (saveLine "p".toList ["a,b".toList, "read".toList])
      = some (.ok ["p".toList, "a".toList, "b".toList, "read".toList]) := by
  rfl

/-- the hypotheses are satisfiable by an ordinary policy -/
example : entryPlain ("p", ["alice", "data 1", ""]) = true ∧ entryPlain ("g", ["alice", "admin"]) = true := by
  decide

end Casbin.C10Text
