import CasbinVerif.Properties.C10Text
import CasbinVerif.Properties.C18
import CasbinVerif.Proofs.C10TextStore
/-
  C10 (continuation) — "SavePolicy followed by LoadPolicy reproduces the same rules in the same
  per-type order, for every policy that could itself have been loaded", for the bundled file adapter:
  `C10Text.text_save_load_partial` (the saved text loads as the saved rules, one by one) composed with
  `C18.loadEntries_adds` (what loading accepted entries one by one lists).
-/
namespace Casbin.C10TextStore
open Casbin Casbin.C10Text

/-- the stores a load starts from: every definition's store empty (`model.ClearPolicy` on the
    scratch copy) -/
def cleared (st : Stores) : Stores :=
  (st.1.map (fun x => (x.1, Store.empty)), st.2.map (fun x => (x.1, Store.empty)))

/-- saving the rules held in `(p, g)` and loading the text into cleared stores lists, for every
    type, exactly the rules that were listed, in the same order — for stores that are well-formed for
    the model (`C18.storesOk`), whose type names are pairwise distinct,
    and whose rules the loader accepts (`C18.entryOk`: the definition's arity, no priority column)
    and the unquoted text format can carry (`C10Text.entryPlain`; finding D17 for the others) -/
theorem text_round_trip_partial (md : ModelDef) (p g : List (String × Store))
    (hst : C18.storesOk md (p, g))
    (hdis : ∀ pt, pt ∈ md.p.map (·.1) → pt ∉ md.g.map (·.1))
    (hnp : (md.p.map (·.1)).Nodup) (hng : (md.g.map (·.1)).Nodup)
    (hok : (entriesOf p g).all (C18.entryOk md) = true)
    (hplain : (entriesOf p g).all entryPlain = true)
    (hshort : ∀ e ∈ entriesOf p g, (savedLine e).length < maxScanLine) :
    ∃ st', loadFileText md (cleared (p, g)) (saveText p g) = some st' ∧
      ∀ pt, C18.rulesOf st' pt = C18.rulesOf (p, g) pt := by
  obtain ⟨st', h1, _, h3⟩ := C18.loadEntries_adds md (cleared (p, g)) (entriesOf p g)
    (C10TS.cleared_ok md p g hst) hdis hok
  refine ⟨st', ?_, fun pt => ?_⟩
  · rw [text_save_load_partial md (cleared (p, g)) p g hplain hshort]; exact h1
  · rw [h3 pt, show C18.rulesOf (cleared (p, g)) pt = [] from C10TS.cleared_rules p g pt]
    exact C10TS.replay md p g p g (List.Perm.refl _) (List.Perm.refl _) hst hdis hnp hng pt

/-- the same when SavePolicy meets the types in any other order (it iterates a Go map): only the order of the rules inside each type matters -/
theorem text_round_trip_any_type_order_partial (md : ModelDef) (p g p' g' : List (String × Store))
    (hp : p'.Perm p) (hg : g'.Perm g)
    (hst : C18.storesOk md (p, g))
    (hdis : ∀ pt, pt ∈ md.p.map (·.1) → pt ∉ md.g.map (·.1))
    (hnp : (md.p.map (·.1)).Nodup) (hng : (md.g.map (·.1)).Nodup)
    (hok : (entriesOf p g).all (C18.entryOk md) = true)
    (hplain : (entriesOf p g).all entryPlain = true)
    (hshort : ∀ e ∈ entriesOf p g, (savedLine e).length < maxScanLine) :
    ∃ st', loadFileText md (cleared (p, g)) (saveText p' g') = some st' ∧
      ∀ pt, C18.rulesOf st' pt = C18.rulesOf (p, g) pt := by
  -- the entries saved from `(p', g')` are those of `(p, g)` in another order
  have hmem : ∀ e, e ∈ entriesOf p' g' → e ∈ entriesOf p g := fun e he =>
    (C10TS.mem_entriesL_perm (List.Perm.append hp hg) e).1 he
  have hok' : (entriesOf p' g').all (C18.entryOk md) = true :=
    List.all_eq_true.2 fun e he => List.all_eq_true.1 hok e (hmem e he)
  have hplain' : (entriesOf p' g').all entryPlain = true :=
    List.all_eq_true.2 fun e he => List.all_eq_true.1 hplain e (hmem e he)
  have hshort' : ∀ e ∈ entriesOf p' g', (savedLine e).length < maxScanLine :=
    fun e he => hshort e (hmem e he)
  obtain ⟨st', h1, _, h3⟩ := C18.loadEntries_adds md (cleared (p, g)) (entriesOf p' g')
    (C10TS.cleared_ok md p g hst) hdis hok'
  refine ⟨st', ?_, fun pt => ?_⟩
  · rw [text_save_load_partial md (cleared (p, g)) p' g' hplain' hshort']; exact h1
  · rw [h3 pt, show C18.rulesOf (cleared (p, g)) pt = [] from C10TS.cleared_rules p g pt]
    exact C10TS.replay md p g p' g' hp hg hst hdis hnp hng pt

/-- the hypotheses are satisfiable: the stock RBAC policy -/
example :
    let md : ModelDef := { r := [("r", 3)], p := [("p", ["sub", "obj", "act"])],
                           g := [("g", (2, .plain))], e := [], m := [] }
    let p : List (String × Store) := [("p", Store.empty.add none ["alice", "data1", "read"])]
    let g : List (String × Store) := [("g", Store.empty.add none ["alice", "admin"])]
    (entriesOf p g).all (C18.entryOk md) = true ∧ (entriesOf p g).all entryPlain = true := by
  decide

end Casbin.C10TextStore
