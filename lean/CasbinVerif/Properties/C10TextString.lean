import CasbinVerif.Properties.C10Text
import CasbinVerif.Proofs.C10TextString
/-
  C10 (continuation) — the save / load round trip of the bundled *string* adapter.  Its LoadPolicy
  splits the text at every '\n', skips empty lines, hands every other line untrimmed to
  `persist.LoadPolicyLine` and ignores what that reports (`loadStringText`); its SavePolicy writes the
  same text as the file adapter's (`saveText`; both iterate a Go map over the types of a section, so
  the order of the types is arbitrary: `p` and `g` below are arbitrary lists, which covers every such
  order).
-/
namespace Casbin.C10TextString
open Casbin Casbin.C10Text Casbin.Csv

/-- an entry the unquoted save format can carry through the string adapter (no trimming here, so
    a blank at the end of the last field survives) -/
def entryPlainS (e : String × Rule) : Bool :=
  typeOk e.1.toList && e.2.all (fun f => plainField f.toList)

/-- `LoadPolicyArray` on every entry in turn, a refused entry skipped (the string adapter ignores
    the error) -/
def loadLenient (md : ModelDef) (st : Stores) (es : List (String × Rule)) : Stores :=
  es.foldl (fun st e => (Enf.loadLine md st.1 st.2 e.1 e.2).getD st) st

/-- SavePolicy then LoadPolicy through the string adapter: loading the saved text is handing the
    saved rules to `LoadPolicyArray` one by one in listed order (types in definition order, p before
    g); an empty policy saves as the empty text, which the adapter refuses to load -/
theorem string_save_load_partial (md : ModelDef) (st : Stores) (p g : List (String × Store))
    (hplain : (entriesOf p g).all entryPlainS = true) :
    loadStringText md st (saveText p g) =
      if (entriesOf p g).isEmpty then none else some (loadLenient md st (entriesOf p g)) := by
  have hE : ∀ e ∈ entriesOf p g,
      typeOk e.1.toList = true ∧ e.2.all (fun f => plainField f.toList) = true := by
    intro e he
    have hep := List.all_eq_true.1 hplain e he
    unfold entryPlainS at hep
    rw [Bool.and_eq_true] at hep
    exact hep
  have hne : ∀ l ∈ (entriesOf p g).map savedLine, l ≠ [] ∧ '\n' ∉ l := by
    intro l hl
    obtain ⟨e, he, rfl⟩ := List.mem_map.1 hl
    exact C10TextStringP.savedLine_ok e (hE e he).1 (hE e he).2
  unfold loadStringText
  rw [saveText_eq, C10TextStringP.joinNL_isEmpty _ (fun l hl => (hne l hl).1),
    C10TextStringP.stringLines_joinNL _ hne, List.isEmpty_map]
  have hfold := C10TextStringP.fold_lines_entries md entryPlainS
    (fun st e he => by
      unfold entryPlainS at he
      rw [Bool.and_eq_true] at he
      exact C10TextStringP.saved_line_loads md st e he.1 he.2) st (entriesOf p g) hplain
  rw [hfold]
  rfl

/-- when every entry is accepted this is the strict, entry-by-entry load of the file adapter -/
theorem lenient_eq_strict (md : ModelDef) (st : Stores) (es : List (String × Rule)) (st' : Stores)
    (h : C18.loadEntries md st es = some st') : loadLenient md st es = st' := by
  induction es generalizing st with
  | nil =>
    simp only [C18.loadEntries, Option.some.injEq] at h
    exact h
  | cons e es ih =>
    obtain ⟨pt, r⟩ := e
    simp only [C18.loadEntries] at h
    show loadLenient md ((Enf.loadLine md st.1 st.2 pt r).getD st) es = st'
    cases hl : Enf.loadLine md st.1 st.2 pt r with
    | none => rw [hl] at h; cases h
    | some x =>
      rw [hl] at h
      obtain ⟨p', g'⟩ := x
      exact ih (p', g') h

/-- finding D17 through the string adapter: the rule that was loaded from a quoted field comes
    back, after a save, as a rule of another arity — which `LoadPolicyArray` refuses and the string
    adapter silently skips: the rule is gone -/
theorem quoted_rule_lost_by_string_adapter :
    let md : ModelDef := { r := [("r", 3)], p := [("p", ["sub", "obj", "act"])], g := [], e := [], m := [] }
    let p : List (String × Store) := [("p", Store.empty.add none ["alice", "a,b", "read"])]
    (loadStringText md ([("p", Store.empty)], []) (saveText p [])).map (fun st => C18.rulesOf st "p") = some [] := by
  rfl

end Casbin.C10TextString
