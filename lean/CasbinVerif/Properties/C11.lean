import CasbinVerif.Spec.Persist
import CasbinVerif.Properties.C04
/-
  C11 — A failed persistence or load leaves the enforcer unchanged.

  Faults are part of the adapter model: the `failAt`-th adapter call fails (any call of any
  operation), `LoadPolicy` fails after `loadFailAfter` delivered lines.  The theorems hold for every
  state, armed or not.
-/
namespace Casbin.C11

/-- a management call that reports an error without success has changed nothing in memory:
    not the rules, not the role links (hence no decision) -/
theorem error_leaves_memory (e : Enf) (op : MOp) (e' : Enf) (b : Bool)
    (h : e.applyM op = some (e', .err b)) (hop : e.opWF op = true) (hwf : e.WFState) :
    b = false ∧ e'.memory = e.memory := by
  sorry

/-- when the armed adapter call is reached, the call reports that error -/
theorem armed_first_call_fails (e : Enf) (op : MOp) (a : AdapterSt) (ha : e.adapter = some a)
    (hs : e.autoSave = true) (harm : a.failAt = a.calls + 1) (sec pt : String) (sop : StoreOp)
    (hop : op.storeOp = some (sec, pt, sop)) (hex : (e.getStore sec pt).isSome)
    (hreach : match op with
      | .add _ _ r => (e.getStore sec pt).map (fun s => s.has r) = some false
      | .addMany _ _ ex rs => ex = true ∨ (e.getStore sec pt).map (fun s => rs.any s.has) = some false
      | .removeMany _ _ rs => (e.getStore sec pt).map (fun s => rs.any s.has) = some true
      | .updateMany _ _ os ns => os.length = ns.length
      | .removeFiltered _ _ _ vals => vals ≠ []
      | _ => True) :
    ∃ e', e.applyM op = some (e', .err false) ∧ e'.memory = e.memory := by
  sorry

/-- a failed LoadPolicy (adapter error, error after k delivered lines for any k, malformed line)
    leaves rules and role links exactly as they were: nothing from the rejected load is visible -/
theorem load_failure_atomic (e : Enf) (h : e.loadPolicy.2 = false) (hb : e.autoBuild = true) :
    e.loadPolicy.1.p = e.p ∧ e.loadPolicy.1.g = e.g := by
  sorry

theorem load_failure_links (e : Enf) (h : e.loadPolicy.2 = false) (hwf : e.WFState) (hm : e.LinksMirror) :
    C04.RMEquiv e.rm e.loadPolicy.1.rm := by
  sorry

/-- a failed SavePolicy changes nothing in memory -/
theorem save_failure_atomic (e : Enf) (h : e.savePolicy.2 = false) : e.savePolicy.1.memory = e.memory := by
  sorry

/-- the decisive structural fact: in every management call the adapter is called before memory is
    touched — if the adapter call fails the state differs from the one before at most in the adapter -/
theorem persist_precedes_mutate (e : Enf) (op : MOp) (e' : Enf) (res : Enf.MRes) (h : e.applyM op = some (e', res))
    (a : AdapterSt) (ha : e.adapter = some a) (hs : e.autoSave = true) (harm : a.failAt = a.calls + 1)
    (sec pt : String) (sop : StoreOp) (hop : op.storeOp = some (sec, pt, sop)) :
    e'.memory = e.memory := by
  sorry

end Casbin.C11
