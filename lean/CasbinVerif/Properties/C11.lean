import CasbinVerif.Spec.Persist
import CasbinVerif.Properties.C04
import CasbinVerif.Proofs.C11
import CasbinVerif.Proofs.C11Load
/-
  C11 — A failed persistence or load leaves the enforcer unchanged.

  Faults are part of the adapter model: the `failAt`-th adapter call fails (any call of any
  operation), `LoadPolicy` fails after `loadFailAfter` delivered lines.  The theorems hold for every
  state, armed or not.
-/
namespace Casbin.C11

/-- a management call that reports an error without success has changed nothing in memory:
    not the rules, not the role links (hence no decision) -/
theorem error_leaves_memory (e : Enf) (op : MOp) (e' : Enf) (b : Bool)
    (h : e.applyM op = some (e', .err b)) (hop : e.opWF op = true) (hwf : e.WFState) :
    b = false ∧ e'.memory = e.memory := by
  obtain ⟨hb, sc⟩ := err_applyM e op e' b h hop hwf
  exact ⟨hb, memory_of_sameCore sc⟩

/-- when the armed adapter call is reached, the call reports that error -/
theorem armed_first_call_fails (e : Enf) (op : MOp) (a : AdapterSt) (ha : e.adapter = some a)
    (hs : e.autoSave = true) (harm : a.failAt = a.calls + 1) (sec pt : String) (sop : StoreOp)
    (hop : op.storeOp = some (sec, pt, sop)) (hex : (e.getStore sec pt).isSome)
    (hreach : match op with
      | .add _ _ r => (e.getStore sec pt).map (fun s => s.has r) = some false
      | .addMany _ _ ex rs => ex = true ∨ (e.getStore sec pt).map (fun s => rs.any s.has) = some false
      | .removeMany _ _ rs => (e.getStore sec pt).map (fun s => rs.any s.has) = some true
      -- after the repair of D12/D18 an update asks `updatable` before it touches the adapter
      | .update _ _ o n => (e.getStore sec pt).map (fun s => Enf.updatable s [o] [n]) = some true
      | .updateMany _ _ os ns => os.length = ns.length ∧
          (e.getStore sec pt).map (fun s => Enf.updatable s os ns) = some true
      | .removeFiltered _ _ _ vals => vals ≠ []
      | _ => True) :
    ∃ e', e.applyM op = some (e', .err false) ∧ e'.memory = e.memory := by
  have harmed : Armed e := ⟨⟨a, ha, harm⟩, hs⟩
  obtain ⟨e', he'⟩ := armed_fails e op harmed sec pt sop hop hex hreach
  exact ⟨e', he', memory_of_sameCore (armed_applyM e op harmed sec pt sop hop e' _ he')⟩

/-- a failed LoadPolicy (adapter error, error after k delivered lines for any k, malformed line)
    leaves rules and role links exactly as they were: nothing from the rejected load is visible -/
theorem load_failure_atomic (e : Enf) (h : e.loadPolicy.2 = false) (hb : e.autoBuild = true) :
    e.loadPolicy.1.p = e.p ∧ e.loadPolicy.1.g = e.g := by
  have _ := hb   -- not needed: every failing path keeps the rules
  have := load_failure_pg e h
  exact ⟨this.2.1, this.2.2⟩

theorem load_failure_links (e : Enf) (h : e.loadPolicy.2 = false) (hwf : e.WFState) (hm : e.LinksMirror) :
    C04.RMEquiv e.rm e.loadPolicy.1.rm := by
  have _ := hm   -- not needed: the rollback branch is unreachable in a well-formed state
  rcases load_rm e hwf with h' | h'
  · rw [h']; exact Fresh.RMEq.refl _
  · rw [h] at h'; cases h'

/-- a failed SavePolicy changes nothing in memory -/
theorem save_failure_atomic (e : Enf) (h : e.savePolicy.2 = false) : e.savePolicy.1.memory = e.memory := by
  exact memory_of_sameCore (save_failure e h)

/-- the decisive structural fact: in every management call the adapter is called before memory is
    touched — if the adapter call fails the state differs from the one before at most in the adapter -/
theorem persist_precedes_mutate (e : Enf) (op : MOp) (e' : Enf) (res : Enf.MRes) (h : e.applyM op = some (e', res))
    (a : AdapterSt) (ha : e.adapter = some a) (hs : e.autoSave = true) (harm : a.failAt = a.calls + 1)
    (sec pt : String) (sop : StoreOp) (hop : op.storeOp = some (sec, pt, sop)) :
    e'.memory = e.memory := by
  exact memory_of_sameCore (armed_applyM e op ⟨⟨a, ha, harm⟩, hs⟩ sec pt sop hop e' res h)

end Casbin.C11
