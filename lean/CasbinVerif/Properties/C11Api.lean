import CasbinVerif.Spec.ApiExpected
/-
  C11, continued — the order of storage, memory and role links in the source itself.

  `Facts.apiCalls` is regenerated from internal_api.go on every run.  The model theorem
  `C11.persist_precedes_mutate` says the model calls the adapter before it touches memory; these
  theorems say the same of the code's call skeleton, so a reordering in the source breaks a proof
  obligation whether or not a generated fault happens to expose it.
-/
namespace Casbin.C11
open Casbin.Api

/-- every `*WithoutNotify` function exists, asks `shouldPersist()` before its first adapter call,
    never calls the adapter after it has changed memory, and touches role links only afterwards -/
theorem source_persists_before_mutating :
    ∀ f ∈ withoutNotify, (Facts.apiCalls.lookup f).isSome = true ∧
      guarded (callsOf f) = true ∧ persistFirst (callsOf f) = true ∧ linksAfterMemory (callsOf f) = true := by
  decide

/-- LoadPolicy is: read the adapter into a scratch model, then install it (rebuild the links,
    drop the compiled matchers); reading touches neither memory nor links -/
theorem source_load_is_scratch_then_install :
    callsOf "Enforcer.LoadPolicy" = [("self", "loadPolicyFromAdapter"), ("self", "applyModifiedModel")] ∧
    (callsOf "Enforcer.loadPolicyFromAdapter").all (fun c => c.1 == "adapter") = true ∧
    (callsOf "Enforcer.applyModifiedModel").getLast? = some ("self", "invalidateMatcherMap") := by
  decide

end Casbin.C11
