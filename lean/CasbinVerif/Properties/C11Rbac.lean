import CasbinVerif.Spec.RbacApi
import CasbinVerif.Properties.C11
import CasbinVerif.Proofs.C11Rbac
/-
  C11 (continued) — the convenience layer under failures: a convenience call that is ONE management
  call inherits that call's atomicity (an error leaves rules and role links as they were); the four
  composite calls do not — finding D40 — and the model exhibits it.
-/
namespace Casbin.C11Rbac

/-- a single-step convenience call that reports an error has changed neither rules nor role links -/
theorem rbac_single_call_atomic (e : Enf) (op : RbacOp) (hs : op.single = true) (hwf : e.WFState)
    (hop : e.rbacWF op = true) (e' : Enf) (b : Bool) (h : e.applyRbac op = some (e', .err b)) :
    e'.memory = e.memory := by
  unfold Enf.rbacWF at hop
  unfold Enf.applyRbac at h
  cases op with
  | addRoleForUser u r ds => simp only [Rbac.run] at h hop; exact Rbac.one_step_atomic e _ hwf hop e' b h
  | addRolesForUser u rs ds => simp only [Rbac.run] at h hop; exact Rbac.one_step_atomic e _ hwf hop e' b h
  | deleteRoleForUser u r ds => simp only [Rbac.run] at h hop; exact Rbac.one_step_atomic e _ hwf hop e' b h
  | deleteRolesForUser u ds =>
    match ds with
    | [] => simp only [Rbac.run] at h hop; exact Rbac.one_step_atomic e _ hwf hop e' b h
    | [d] => simp only [Rbac.run] at h hop; exact Rbac.one_step_atomic e _ hwf hop e' b h
    | _ :: _ :: _ =>
      simp only [Rbac.run, Option.some.injEq, Prod.mk.injEq] at h
      rw [← h.1]
  | deletePermission perm => simp only [Rbac.run] at h hop; exact Rbac.one_step_atomic e _ hwf hop e' b h
  | addPermissionForUser u perm => simp only [Rbac.run] at h hop; exact Rbac.one_step_atomic e _ hwf hop e' b h
  | addPermissionsForUser u perms => simp only [Rbac.run] at h hop; exact Rbac.one_step_atomic e _ hwf hop e' b h
  | deletePermissionForUser u perm => simp only [Rbac.run] at h hop; exact Rbac.one_step_atomic e _ hwf hop e' b h
  | deletePermissionsForUser u =>
    simp only [Rbac.run, id] at h hop
    cases hf : Rbac.fieldIndex e "sub" with
    | none =>
      rw [hf] at h
      simp only [Option.some.injEq, Prod.mk.injEq] at h
      rw [← h.1]
    | some si =>
      rw [hf] at h hop
      exact Rbac.one_step_atomic e _ hwf hop e' b h
  | deleteRolesForUserInDomain u d =>
    simp only [Rbac.run, id] at h hop
    cases hf : e.rm.lookup "g" with
    | none =>
      rw [hf] at h
      simp only [Option.some.injEq, Prod.mk.injEq] at h
      rw [← h.1]
    | some rm =>
      rw [hf] at h hop
      exact Rbac.one_step_atomic e _ hwf hop e' b h
  | deleteUser u => cases hs
  | deleteRole r => cases hs
  | deleteAllUsersByDomain d => cases hs
  | deleteDomains ds => cases hs

/-- a composite call whose FIRST management call reports the error is atomic as well: DeleteUser -/
theorem deleteUser_first_step_error_atomic (e : Enf) (u : String) (hwf : e.WFState)
    (e1 : Enf) (b1 : Bool) (h1 : e.applyM (.removeFiltered "g" "g" 0 [u]) = some (e1, .err b1))
    (hop : e.opWF (.removeFiltered "g" "g" 0 [u]) = true) :
    ∃ e' b, e.applyRbac (.deleteUser u) = some (e', .err b) ∧ e'.memory = e.memory := by
  refine ⟨e1, b1, ?_, (C11.error_leaves_memory e _ e1 b1 h1 hop hwf).2⟩
  simp only [Enf.applyRbac, Rbac.run, h1, Option.bind_eq_bind, Option.bind_some, Enf.MRes.isErr, if_true,
    Option.pure_def]

/-- finding D40 in the model: from a well-formed state with an armed adapter fault, DeleteUser reports an
    error after its first step has removed the user's grouping rule and link -/
theorem d40_composite_partial :
    ∃ (e e' : Enf) (b : Bool), e.rbacWF (.deleteUser "alice") = true ∧
      e.applyRbac (.deleteUser "alice") = some (e', .err b) ∧ e'.listed "g" "g" ≠ e.listed "g" "g" := by
  exact d40_witness

end Casbin.C11Rbac
