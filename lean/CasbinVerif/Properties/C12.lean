import CasbinVerif.Spec.SyncExpected
import CasbinVerif.Generated.Facts
import CasbinVerif.Proofs.C12
/-
  C12 — SyncedEnforcer is free of data races and deadlocks (the part a model can carry).

  `Facts.lockTable` is regenerated from /repo on every run: for each of the SyncedEnforcer
  methods the lock operations and the calls into the embedded enforcer, in order.
  `lockTable_disciplined` checks every one of them against the reviewed read/write classification
  of the callees; `race_free` and `deadlock_free` show what that discipline buys for every number
  of goroutines, every mix of calls and every schedule of a read/write lock with writer
  preference.  What the model cannot exhibit: Go's memory model itself, the internals of
  `sync.Map`/atomics, user callbacks, and whether the classification is right — that is the
  job of the harness (state snapshots around every read-only call, race-detector stress).
-/
namespace Casbin.C12
open Casbin.Sync

/-- every wrapper in the current source obeys the discipline (and the extractor found no lock
    operation outside straight-line code) -/
theorem lockTable_disciplined :
    Facts.nestedLockOps = 0 ∧ ∀ w ∈ Facts.lockTable, w.ok Facts.lockTable = true := by
  have hall : Facts.lockTable.all (fun w => w.ok Facts.lockTable) = true := by decide +kernel
  exact ⟨by decide, fun w hw => List.all_eq_true.mp hall w hw⟩

/-- every unlock in the current source is deferred: a panic inside a wrapper (a failing adapter,
    a user callback) cannot leave the lock held (finding D34, repaired) -/
theorem unlocks_deferred : Facts.explicitUnlocks = [] := by decide

/-- a thread's program: any sequence of well-locked bodies -/
def Disciplined (p : List Ev) : Prop := ∃ bodies : List (List Ev), (∀ b ∈ bodies, wellLocked b = true) ∧ p = bodies.flatten

/-- the lock invariant in every reachable configuration: a writer excludes readers -/
theorem mutual_exclusion (progs : List (List Ev)) (h : ∀ p ∈ progs, Disciplined p)
    (sched : List Act) (c : Config) (hr : run (initial progs) sched = some c) :
    ∀ t, c.lock.writer = some t → c.lock.readers = [] :=
  (inv_run (inv_initial progs (disciplined_wellLocked h)) hr).excl

/-- **no data race**: no reachable configuration has two threads about to access the shared
    state with one of them writing — for any number of threads, any programs made of well-locked
    bodies, any schedule -/
theorem race_free (progs : List (List Ev)) (h : ∀ p ∈ progs, Disciplined p)
    (sched : List Act) (c : Config) (hr : run (initial progs) sched = some c) : ¬ racy c :=
  inv_not_racy (inv_run (inv_initial progs (disciplined_wellLocked h)) hr)

/-- **no deadlock**: in every reachable configuration with work left some thread can take a step -/
theorem deadlock_free (progs : List (List Ev)) (h : ∀ p ∈ progs, Disciplined p)
    (sched : List Act) (c : Config) (hr : run (initial progs) sched = some c) : ¬ deadlocked c :=
  inv_not_deadlocked (inv_run (inv_initial progs (disciplined_wellLocked h)) hr)

/-- programs built from the extracted table are disciplined -/
theorem table_programs_disciplined (calls : List Wrapper) (h : ∀ w ∈ calls, w ∈ Facts.lockTable) :
    Disciplined (calls.map Wrapper.prog).flatten := by
  refine ⟨calls.map Wrapper.prog, ?_, rfl⟩
  intro b hb
  rcases List.mem_map.mp hb with ⟨w, hw, rfl⟩
  exact ok_wellLocked (lockTable_disciplined.2 w (h w hw))

/-- hence: any number of goroutines calling any mix of the wrapped methods, under any schedule,
    never reach a racy or deadlocked configuration -/
theorem synced_enforcer_safe (threads : List (List Wrapper))
    (h : ∀ calls ∈ threads, ∀ w ∈ calls, w ∈ Facts.lockTable)
    (sched : List Act) (c : Config)
    (hr : run (initial (threads.map (fun calls => (calls.map Wrapper.prog).flatten))) sched = some c) :
    ¬ racy c ∧ ¬ deadlocked c := by
  have hd : ∀ p ∈ threads.map (fun calls => (calls.map Wrapper.prog).flatten), Disciplined p := by
    intro p hp
    rcases List.mem_map.mp hp with ⟨calls, hc, rfl⟩
    exact table_programs_disciplined calls (h calls hc)
  exact ⟨race_free _ hd sched c hr, deadlock_free _ hd sched c hr⟩

/-! ### why each clause of the discipline is there (and that the hypotheses are not vacuous) -/

/-- a mutating callee under the read lock races with a second caller -/
theorem write_under_rlock_races :
    ∃ sched c, run (initial [[.acq .R, .acc true, .rel], [.acq .R, .acc true, .rel]]) sched = some c ∧ racy c :=
  ⟨[.go 0, .go 1], _, rfl, 0, 1, true, true, _, _, by decide, rfl, rfl, Or.inl rfl⟩

/-- re-entrant read locking deadlocks against a waiting writer (Go's RWMutex has writer preference) -/
theorem reentrant_rlock_deadlocks :
    ∃ sched c, run (initial [[.acq .R, .acq .R, .rel, .rel], [.acq .W, .rel]]) sched = some c ∧ deadlocked c := by
  refine ⟨[.go 0, .announce 1], _, rfl, ?_, ?_⟩
  · intro hf
    exact absurd (hf [.acq .R, .rel, .rel] (by decide)) (by decide)
  · intro t
    match t with
    | 0 => rfl
    | 1 => rfl
    | t + 2 => rfl

/-- the two-section LoadPolicy and a writer, run to completion -/
example : ∃ sched c, run (initial [[.acq .R, .acc false, .rel, .acq .W, .acc true, .rel], [.acq .W, .acc true, .rel]]) sched = some c
    ∧ c.todo = [[], []] := by
  exact ⟨[.go 0, .go 0, .go 0, .go 1, .go 1, .go 1, .go 0, .go 0, .go 0], _, rfl, rfl⟩

end Casbin.C12
