import CasbinVerif.Model.Lin
import CasbinVerif.Model.LinTrace
import CasbinVerif.Spec.LinKV
import CasbinVerif.Proofs.C13
import CasbinVerif.Proofs.C13Atomic
/-
  C13 — Concurrent SyncedEnforcer histories are linearizable (the part a model can carry).

  `Linearizable step init h` is the textbook definition over recorded histories; `check` is the
  executable checker that the correspondence run applies to every history recorded on the real
  SyncedEnforcer, with the enforcer model as sequential specification.  `check_iff_linearizable`
  makes its verdicts — both of them — theorems.  `atomic_points_linearizable` is the reason
  single-section methods are linearizable at all: a call whose effect happens at one point inside
  its critical section linearizes there.  LoadPolicy has two sections; `d19_*` show, on the
  smallest specification that has a load, that this is exactly what breaks (finding D19) and that
  reading LoadPolicy as its two phases explains the observed history.
-/
namespace Casbin.C13
open Casbin.Lin

/-- the checker decides linearizability: for every specification, initial state and history -/
theorem check_iff_linearizable {σ Op : Type} (step : σ → Op → σ × String) (init : σ) (h : List (Call Op)) :
    check step init h = true ↔ Linearizable step init h := by
  exact check_iff step init h

/-- every execution in which each call takes effect atomically at one point between its
    invocation and its response is linearizable (the linearization is the order of those points) -/
theorem atomic_points_linearizable {σ Op : Type} (step : σ → Op → σ × String) (init : σ)
    (tr : List (TEv Op)) (h : List (Call Op)) (hex : historyOf step init tr = some h) :
    Linearizable step init h := by
  exact historyOf_linearizable step init tr h hex

/-- finding D19 in miniature: with an atomic load the history "LoadPolicy ‖ AddPolicy(bob)
    completed, then HasPolicy(bob) = false" has no linearization … -/
theorem d19_atomic_load_not_linearizable : ¬ Linearizable KV.kstep KV.init KV.d19 := by
  rw [← check_iff_linearizable]
  decide

/-- … and reading LoadPolicy as its two phases (snapshot under RLock, install under Lock) explains it -/
theorem d19_two_phase_explains : Linearizable KV.kstep KV.init KV.d19TwoPhase := by
  rw [← check_iff_linearizable]
  decide

/-! ### non-vacuity: an execution with overlapping calls and its history -/
example : historyOf KV.kstep KV.init
    [.inv 0 (.add "bob"), .inv 1 (.has "bob"), .atom 1, .atom 0, .res 0 "true", .res 1 "false"] =
    some [{ id := 0, inv := 0, res := 4, op := .add "bob", obs := "true" },
          { id := 1, inv := 1, res := 5, op := .has "bob", obs := "false" }] := by
  rfl

end Casbin.C13
