import CasbinVerif.Properties.C12
/-
  C13, continued — the atomic points in the source itself.  `atomic_points_linearizable` says: a
  history in which every call takes effect at one instant between its invocation and its response
  is linearizable.  In SyncedEnforcer that instant is the critical section of the wrapper.  Over
  the lock table regenerated from the source on every run: every wrapper is ONE critical section
  around ONE call of the embedded enforcer — in particular it does not call a sibling wrapper while
  it holds the lock (a re-entrant read lock blocks for ever once a writer waits between the two
  acquisitions) — except LoadPolicy, whose two critical sections are the two phases the checker
  knows (finding D19), and the four methods that manage the auto-loader or hand out the lock.
-/
namespace Casbin.C13
open Casbin.Sync

def singleCriticalSection (w : Wrapper) : Bool :=
  match w.body with
  | [.acq _, .call _, .rel] => true
  | _ => false

/-- the wrappers that are not one critical section around one call -/
def notSingle : List String :=
  (Facts.lockTable.filter (fun w => !singleCriticalSection w)).map (·.name)

theorem source_one_critical_section_per_call :
    notSingle = ["GetLock", "IsAutoLoadingRunning", "LoadPolicy", "StartAutoLoadPolicy", "StopAutoLoadPolicy"] := by
  decide +kernel

/-- LoadPolicy is the two phases the linearizability checker models: the adapter is read under the
    read lock, the result applied under the write lock -/
theorem source_loadPolicy_two_phases :
    (Facts.lockTable.find? (fun w => w.name == "LoadPolicy")).map (·.body) =
      some [.acq .R, .call "loadPolicyFromAdapter", .rel, .acq .W, .call "applyModifiedModel", .rel] := by
  decide +kernel

/-- and the discipline of C12 holds for the same table (no lock operation in a branch, every wrapper
    well-locked, no wrapper calling a wrapper under the lock) -/
theorem source_lock_discipline :
    Facts.nestedLockOps = 0 ∧ ∀ w ∈ Facts.lockTable, w.ok Facts.lockTable = true :=
  C12.lockTable_disciplined

end Casbin.C13
