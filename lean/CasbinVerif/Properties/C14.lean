import CasbinVerif.Spec.Cached
import CasbinVerif.Proofs.Cached
/-
  C14 — The decision cache is transparent.

  `Cache.step` mirrors CachedEnforcer / SyncedCachedEnforcer (`synced`) over an abstract underlying
  enforcer whose current answer accompanies every Enforce event.  The theorems quantify over every
  history of calls, every request tuple (arbitrary byte strings, EnforceContext-like cacheable
  parameters, uncacheable parameters), every clock advance.
-/
namespace Casbin.C14
open Casbin.Cache

/-- two different request tuples never share a cache key -/
theorem cacheKey_injective (q₁ q₂ : List Param) (k : Bytes)
    (h₁ : cacheKey q₁ = some k) (h₂ : cacheKey q₂ = some k) : q₁ = q₂ := by
  exact cacheKey_inj q₁ q₂ k h₁ h₂

/-- **transparency**: whatever a cached enforcer answers to a request was the underlying enforcer's
    answer to that same request tuple — now, or at an earlier Enforce of the same tuple that is
    separated from now by no invalidating call (InvalidateCache, LoadPolicy, ClearPolicy, removal
    — for the synced variant also addition — of the identical rule) and by no more than the lifetime
    configured when it was cached -/
theorem served_was_given (synced : Bool) (evs : List Ev) (i : Nat) (q : List Param) (under : Option Bool) (d : Bool)
    (hev : evs[i]? = some (.enforce q under))
    (hserved : (run { synced := synced } evs).2[i]? = some (some (some d))) :
    under = some d ∨
    ∃ j, j < i ∧ evs[j]? = some (.enforce q (some d)) ∧
      (∀ m ev, j < m → m < i → evs[m]? = some ev → invalidates synced q ev = false) ∧
      (ttlBefore evs j = 0 ∨ nowBefore evs i ≤ nowBefore evs j + ttlBefore evs j) := by
  have h := (good_init synced).served evs i q under d hev hserved
  simpa [Served] using h

/-- an error is only reported when the underlying enforcer reports one -/
theorem error_passthrough (synced : Bool) (evs : List Ev) (i : Nat) (q : List Param) (under : Option Bool)
    (hev : evs[i]? = some (.enforce q under))
    (hserved : (run { synced := synced } evs).2[i]? = some (some none)) : under = none := by
  obtain ⟨c', hc'⟩ := run_out_step evs { synced := synced } i _ hev
  rw [hc'] at hserved
  exact step_enforce_error c' q under (Option.some.inj hserved)

/-- every Enforce call returns -/
theorem enforce_answers (synced : Bool) (evs : List Ev) (i : Nat) (q : List Param) (under : Option Bool)
    (hev : evs[i]? = some (.enforce q under)) :
    ∃ r, (run { synced := synced } evs).2[i]? = some (some r) := by
  obtain ⟨c', hc'⟩ := run_out_step evs { synced := synced } i _ hev
  obtain ⟨r, hr⟩ := step_enforce_some c' q under
  exact ⟨r, by rw [hc', hr]⟩

/-- a request with an uncacheable parameter bypasses the cache -/
theorem uncacheable_bypass (c : CE) (q : List Param) (under : Option Bool) (h : cacheKey q = none) :
    (step c (.enforce q under)).2 = some under ∧ (step c (.enforce q under)).1.entries = c.entries := by
  unfold step
  simp only [h]
  split <;> exact ⟨rfl, rfl⟩

/-- with the cache off the answer is the underlying one -/
theorem cache_off_transparent (c : CE) (q : List Param) (under : Option Bool) (h : c.enabled = false) :
    (step c (.enforce q under)).2 = some under := by
  unfold step
  simp [h]

/-- after InvalidateCache / LoadPolicy / ClearPolicy nothing cached before is left, whether or not
    the cache is enabled at that moment -/
theorem invalidation_empties (c : CE) (ev : Ev) (h : ev = .invalidate ∨ ev = .load ∨ ev = .clear) :
    (step c ev).1.entries = [] := by
  rcases h with rfl | rfl | rfl <;> rfl

/-! ### non-vacuity -/
-- ("a$$b", "c", "read") and ("a", "b$$c", "read") as byte strings
def qa : List Param := [.str [97, 36, 36, 98], .str [99], .str [114, 101, 97, 100]]
def qb : List Param := [.str [97], .str [98, 36, 36, 99], .str [114, 101, 97, 100]]
example : cacheKey qa ≠ cacheKey qb := by decide
example : (run { synced := false } [.enforce qa (some true), .enforce qa (some false), .remove qa, .enforce qa (some false)]).2 =
    [some (some true), some (some true), none, some (some false)] := by decide

end Casbin.C14
