import CasbinVerif.Generated.Facts
/-
  C14, continued — the invalidation sites of the two caching enforcers in the source itself.
  `Facts.cacheCalls` is regenerated from enforcer_cached.go and enforcer_cached_synced.go on every
  run: per method, the calls on the cache, on the receiver and on the embedded enforcer, in source
  order.  The model theorems (C14.served_was_given and its corollaries) are about a model whose
  LoadPolicy / ClearPolicy / RemovePolicy / RemovePolicies (and, synced, AddPolicy / AddPolicies)
  drop what was cached before they hand the call on; the theorems here show that the code has those
  calls, in that order, so the model's invalidation steps stand for calls that exist.
-/
namespace Casbin.C14

abbrev Call := String × String

def cacheCallsOf (f : String) : List Call := (Facts.cacheCalls.lookup f).getD []

/-- the call drops cached decisions: directly, or through a helper of the same type that does -/
def drops (ty : String) (c : Call) : Bool :=
  (c.1 == "cache" && (c.2 == "Clear" || c.2 == "Delete")) ||
  (c.1 == "self" && (cacheCallsOf (ty ++ "." ++ c.2)).any (fun d => d.1 == "cache" && (d.2 == "Clear" || d.2 == "Delete")))

/-- method `m` of type `ty` drops cached decisions before it calls the embedded enforcer's `m`, and calls it -/
def invalidatesBeforeForwarding (ty m : String) : Bool :=
  let cs := cacheCallsOf (ty ++ "." ++ m)
  let before := cs.takeWhile (fun c => c != ("under", m))
  before.length < cs.length && before.any (drops ty)

/-- the invalidating methods of the property statement, per type -/
def invalidating : List (String × String) :=
  [("CachedEnforcer", "LoadPolicy"), ("CachedEnforcer", "ClearPolicy"), ("CachedEnforcer", "RemovePolicy"),
   ("CachedEnforcer", "RemovePolicies"),
   ("SyncedCachedEnforcer", "LoadPolicy"), ("SyncedCachedEnforcer", "ClearPolicy"),
   ("SyncedCachedEnforcer", "RemovePolicy"), ("SyncedCachedEnforcer", "RemovePolicies"),
   ("SyncedCachedEnforcer", "AddPolicy"), ("SyncedCachedEnforcer", "AddPolicies")]

theorem source_invalidates_before_forwarding :
    ∀ p ∈ invalidating, invalidatesBeforeForwarding p.1 p.2 = true := by
  decide

/-- InvalidateCache clears the cache, in both types -/
theorem source_invalidateCache_clears :
    ∀ ty ∈ ["CachedEnforcer", "SyncedCachedEnforcer"],
      cacheCallsOf (ty ++ ".InvalidateCache") = [("cache", "Clear")] := by
  decide

/-- Enforce stores a decision only through setCachedResult, as its last call, after it has asked
    the cache and the embedded enforcer; nothing else in either type writes the cache -/
theorem source_enforce_stores_last :
    ∀ ty ∈ ["CachedEnforcer", "SyncedCachedEnforcer"],
      (cacheCallsOf (ty ++ ".Enforce")).getLast? = some ("self", "setCachedResult") ∧
      (cacheCallsOf (ty ++ ".Enforce")).contains ("self", "getCachedResult") = true ∧
      (Facts.cacheCalls.filter (fun e => e.2.contains ("cache", "Set"))).map (·.1) =
        ["CachedEnforcer.setCachedResult", "SyncedCachedEnforcer.setCachedResult"] := by
  decide

end Casbin.C14
