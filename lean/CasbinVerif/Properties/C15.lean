import CasbinVerif.Spec.Persist
import CasbinVerif.Properties.C04
/-
  C15 — Every effective change is persisted, then announced exactly once.

  The watcher of the model records what the notify wrappers of `internal_api.go` send: the
  WatcherEx / UpdatableWatcher method matching the call if the watcher implements it, `Update`
  otherwise.
-/
namespace Casbin.C15

/-- a management call that reports success triggers exactly one notification, of the kind and with
    the arguments matching the call; any other outcome triggers none -/
theorem notify_exactly_once (e : Enf) (op : MOp) (w : WatcherKind) (hw : e.watcher = some w) (hn : e.autoNotify = true)
    (e' : Enf) (res : Enf.MRes) (h : e.applyM op = some (e', res)) (n : String) (hexp : expectedNotif w op = some n) :
    (res = .ok true → e'.notif = e.notif ++ [n]) ∧ (res ≠ .ok true → e'.notif = e.notif) := by
  sorry

/-- without a watcher, or with notification disabled, nothing is announced -/
theorem no_notify_when_off (e : Enf) (op : MOp) (hoff : e.watcher = none ∨ e.autoNotify = false)
    (e' : Enf) (res : Enf.MRes) (h : e.applyM op = some (e', res)) : e'.notif = e.notif := by
  sorry

/-- ClearPolicy and BuildRoleLinks are memory-only: never announced -/
theorem memory_only_silent (e : Enf) (op : MOp) (hop : op = .clear ∨ op = .buildLinks)
    (e' : Enf) (res : Enf.MRes) (h : e.applyM op = some (e', res)) : e'.notif = e.notif := by
  sorry

/-- the notification is issued after the change is in memory and in the adapter: the management
    call's state without the notification is the state of the un-notified call -/
theorem notify_is_last (e : Enf) (op : MOp) (e' : Enf) (res : Enf.MRes) (h : e.applyM op = some (e', res)) :
    ∃ e₀ res₀, ({ e with watcher := none } : Enf).applyM op = some (e₀, res₀) ∧ res₀ = res ∧
      e'.memory = e₀.memory ∧ e'.adapter = e₀.adapter := by
  sorry

/-- SavePolicy announces itself once when it succeeds and never when it fails -/
theorem save_notifies (e : Enf) (w : WatcherKind) (hw : e.watcher = some w) :
    (e.savePolicy.2 = true → e.savePolicy.1.notif = e.notif ++ [if w.isEx then "SavePolicy" else "Update"]) ∧
    (e.savePolicy.2 = false → e.savePolicy.1.notif = e.notif) := by
  sorry

end Casbin.C15
