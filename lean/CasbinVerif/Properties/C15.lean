import CasbinVerif.Spec.Persist
import CasbinVerif.Properties.C04
import CasbinVerif.Proofs.C15Notify
/-
  C15 — Every effective change is persisted, then announced exactly once.

  The watcher of the model records what the notify wrappers of `internal_api.go` send: the
  WatcherEx / UpdatableWatcher method matching the call if the watcher implements it, `Update`
  otherwise.
-/
namespace Casbin.C15

/-- a management call that reports success triggers exactly one notification, of the kind and with
    the arguments matching the call; any other outcome triggers none -/
theorem notify_exactly_once (e : Enf) (op : MOp) (w : WatcherKind) (hw : e.watcher = some w) (hn : e.autoNotify = true)
    (e' : Enf) (res : Enf.MRes) (h : e.applyM op = some (e', res)) (n : String) (hexp : expectedNotif w op = some n) :
    (res = .ok true → e'.notif = e.notif ++ [n]) ∧ (res ≠ .ok true → e'.notif = e.notif) := by
  rw [applyM_eq] at h
  simp only [Option.map_eq_some_iff] at h
  obtain ⟨r, hr, hwrap⟩ := h
  have ha := sameAux_applyWN hr
  obtain ⟨x, y, hent, rfl⟩ := expectedNotif_entries hexp
  have hres : res = r.2 := by rw [← wrap_snd op r, hwrap]
  have he' : e' = (Enf.withNotify r x y).1 := by
    have : op.wrap r = Enf.withNotify r x y := by simp only [MOp.wrap, hent]
    rw [← this, hwrap]
  subst hres he'
  constructor
  · intro hok
    rw [withNotify_on (ha.watcher.trans hw) (ha.autoNotify.trans hn) hok, ha.notif]
  · intro hno
    rw [withNotify_noop hno, ha.notif]

/-- without a watcher, or with notification disabled, nothing is announced -/
theorem no_notify_when_off (e : Enf) (op : MOp) (hoff : e.watcher = none ∨ e.autoNotify = false)
    (e' : Enf) (res : Enf.MRes) (h : e.applyM op = some (e', res)) : e'.notif = e.notif := by
  rw [applyM_eq] at h
  simp only [Option.map_eq_some_iff] at h
  obtain ⟨r, hr, hwrap⟩ := h
  have ha := sameAux_applyWN hr
  have hoff' : r.1.watcher = none ∨ r.1.autoNotify = false := by
    rcases hoff with h | h
    · exact .inl (ha.watcher.trans h)
    · exact .inr (ha.autoNotify.trans h)
  rw [wrap_off op hoff'] at hwrap
  subst hwrap
  exact ha.notif

/-- ClearPolicy and BuildRoleLinks are memory-only: never announced -/
theorem memory_only_silent (e : Enf) (op : MOp) (hop : op = .clear ∨ op = .buildLinks)
    (e' : Enf) (res : Enf.MRes) (h : e.applyM op = some (e', res)) : e'.notif = e.notif := by
  rcases hop with rfl | rfl
  · cases h; rfl
  · cases h; rfl

/-- the notification is issued after the change is in memory and in the adapter: the management
    call's state without the notification is the state of the un-notified call -/
theorem notify_is_last (e : Enf) (op : MOp) (e' : Enf) (res : Enf.MRes) (h : e.applyM op = some (e', res)) :
    ∃ e₀ res₀, ({ e with watcher := none } : Enf).applyM op = some (e₀, res₀) ∧ res₀ = res ∧
      e'.memory = e₀.memory ∧ e'.adapter = e₀.adapter := by
  rw [applyM_eq] at h
  simp only [Option.map_eq_some_iff] at h
  obtain ⟨r, hr, hwrap⟩ := h
  refine ⟨r.1.setW none, r.2, ?_, ?_, ?_, ?_⟩
  · show (e.setW none).applyM op = _
    rw [applyM_eq, setW_applyWN, hr]
    simp only [Option.map_some, Option.some.injEq]
    exact wrap_off op (.inl rfl)
  · rw [← wrap_snd op r, hwrap]
  · have := wrap_memory op r
    rw [hwrap] at this
    exact this
  · have := wrap_adapter op r
    rw [hwrap] at this
    exact this

/-- SavePolicy announces itself once when it succeeds and never when it fails -/
theorem save_notifies (e : Enf) (w : WatcherKind) (hw : e.watcher = some w) :
    (e.savePolicy.2 = true → e.savePolicy.1.notif = e.notif ++ [if w.isEx then "SavePolicy" else "Update"]) ∧
    (e.savePolicy.2 = false → e.savePolicy.1.notif = e.notif) := by
  rcases ha : e.adapter with _ | a
  · simp [Enf.savePolicy, ha]
  · rcases hc : a.call "SavePolicy" with ⟨a1, ok⟩
    cases ok <;> simp [Enf.savePolicy, ha, hc, hw]

end Casbin.C15
