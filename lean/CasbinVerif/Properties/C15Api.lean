import CasbinVerif.Spec.ApiExpected
/-
  C15, continued — notification is the last step, in the source itself (cf. C15.notify_is_last).
-/
namespace Casbin.C15
open Casbin.Api

/-- every notifying wrapper runs its un-notified function first, then asks `shouldNotify()`, and
    after that calls nothing but the watcher -/
theorem source_notifies_last :
    ∀ w ∈ notifyWrappers, notifyLast w.2 (callsOf w.1) = true := by
  decide

/-- SavePolicy: the filtered guard, the adapter, then only the watcher -/
theorem source_save_then_notify :
    callsOf "Enforcer.SavePolicy" =
      [("self", "IsFiltered"), ("adapter", "SavePolicy"), ("watcher", "UpdateForSavePolicy"), ("watcher", "Update")] := by
  decide

/-- no `*WithoutNotify` function and no Self call touches the watcher -/
theorem source_unnotified_is_silent :
    ∀ f ∈ withoutNotify ++ selfCalls, (callsOf f).all (fun c => c.1 != "watcher") = true := by
  decide

end Casbin.C15
