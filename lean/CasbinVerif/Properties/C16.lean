import CasbinVerif.Spec.Rbac
import CasbinVerif.Proofs.C16
/-
  C16 — RBAC introspection APIs agree with enforcement.

  `Rbac.implicitRoles`, `implicitUsersForRole`, `implicitPermissions`, `implicitUsersForPermission`
  mirror `rbac_api.go`; `RM.hasLink` is what `g()` answers (C01: `hasLink_iff_reach`), `enforce` is
  `enforcer.go: enforce()`.  The listings walk the role graph without a depth bound while `g()`
  stops at the manager's `maxHierarchyLevel`; `DepthOk` is the property's "hierarchy depth within
  the role manager's limit", and `depth_limit_needed` shows what happens beyond it.
-/
namespace Casbin.C16
open Casbin.Rbac

/-- the work-list walk terminates on every graph (cycles, self-loops, diamonds): the fuel the
    model gives it (one round per link plus one) is never used up -/
theorem implicitRoles_terminates (rm : RM) (u : String) (ds : List String) :
    ∃ l, implicitRoles rm u ds = some l := by
  sorry

theorem implicitUsersForRole_terminates (rm : RM) (r : String) (ds : List String) :
    ∃ l, implicitUsersForRole rm r ds = some l := by
  sorry

/-- `GetImplicitRolesForUser` lists exactly the other names reachable from the user, each once -/
theorem implicitRoles_exact (rm : RM) (u : String) (ds : List String) (l : List String)
    (h : implicitRoles rm u ds = some l) (r : String) :
    r ∈ l ↔ r ≠ u ∧ Reach rm.links (rm.dom ds) u r := by
  sorry

theorem implicitRoles_nodup (rm : RM) (u : String) (ds : List String) (l : List String)
    (h : implicitRoles rm u ds = some l) : l.Nodup := by
  sorry

/-- every other role for which `g()` holds is listed (no depth hypothesis) -/
theorem hasLink_listed (rm : RM) (u : String) (ds : List String) (l : List String)
    (h : implicitRoles rm u ds = some l) (r : String) (hne : r ≠ u) (hl : rm.hasLink u r ds = true) :
    r ∈ l := by
  sorry

/-- **implicit roles**: within the depth limit the listing is exactly the other roles for which `g()` holds -/
theorem implicitRoles_iff_hasLink (rm : RM) (u : String) (ds : List String) (l : List String)
    (h : implicitRoles rm u ds = some l) (hd : DepthOk rm u ds) (r : String) :
    r ∈ l ↔ r ≠ u ∧ rm.hasLink u r ds = true := by
  sorry

/-- the depth hypothesis is decidable from the listing itself: it holds iff `g()` confirms every listed role -/
theorem depthOk_iff (rm : RM) (u : String) (ds : List String) (l : List String)
    (h : implicitRoles rm u ds = some l) :
    DepthOk rm u ds ↔ ∀ r ∈ l, rm.hasLink u r ds = true := by
  sorry

/-- `GetImplicitUsersForRole` lists exactly the other names from which the role is reachable -/
theorem implicitUsersForRole_exact (rm : RM) (r : String) (ds : List String) (l : List String)
    (h : implicitUsersForRole rm r ds = some l) (x : String) :
    x ∈ l ↔ x ≠ r ∧ Reach rm.links (rm.dom ds) x r := by
  sorry

/-- **implicit permissions** (stock RBAC model): a request is allowed iff some permission listed by
    `GetImplicitPermissionsForUser(u)` grants it.  `hD24`: finding D24 (on an empty policy the
    all-empty request is allowed by `enforce()` although no permission exists). -/
theorem enforce_iff_listed (policy : List Rule) (rm : RM) (links : String → List String → Bool)
    (fn : String → List Val → Res) (evalTab : String → Option Expr) (u o a : String)
    (hlinks : ∀ x y, links "g" [x, y] = rm.hasLink x y [])
    (harity : ∀ rule ∈ policy, rule.length = 3)
    (hD24 : policy ≠ [] ∨ o ≠ "")
    (hd : DepthOk rm u []) :
    ∃ perms, implicitPermissions policy rm none u [] = .ok perms ∧
      (enforce rbacModel (fun pt => if pt = "p" then policy else []) links fn evalTab {} none
          [.str u, .str o, .str a]).map (·.1)
        = some (perms.any (fun perm => perm.tail == [o, a])) := by
  sorry

/-- **implicit permissions** (stock RBAC-with-domains model): `Enforce(u, d, o, a)` is allowed iff some
    permission listed by `GetImplicitPermissionsForUser(u, d)` grants it -/
theorem enforce_iff_listed_domain (policy : List Rule) (rm : RM) (links : String → List String → Bool)
    (fn : String → List Val → Res) (evalTab : String → Option Expr) (u d o a : String)
    (hlinks : ∀ x y, links "g" [x, y, d] = rm.hasLink x y [d])
    (harity : ∀ rule ∈ policy, rule.length = 4)
    (hD24 : policy ≠ [] ∨ o ≠ "")
    (hd : DepthOk rm u [d]) :
    ∃ perms, implicitPermissions policy rm (some 1) u [d] = .ok perms ∧
      (enforce rbacDomModel (fun pt => if pt = "p" then policy else []) links fn evalTab {} none
          [.str u, .str d, .str o, .str a]).map (·.1)
        = some (perms.any (fun perm => perm.tail == [d, o, a])) := by
  sorry

/-- every listed permission is a stored rule whose subject is the user or an implicit role -/
theorem listed_is_stored (policy : List Rule) (rm : RM) (u : String) (perms : List Rule)
    (h : implicitPermissions policy rm none u [] = .ok perms) (perm : Rule) (hp : perm ∈ perms) :
    perm ∈ policy ∧ (perm.headD "" = u ∨ Reach rm.links (rm.dom []) u (perm.headD "")) := by
  sorry

/-- the candidates of `GetImplicitUsersForPermission`: subjects that are no role name -/
theorem candidateUsers_exact (ps gf gs : List String) (u : String) :
    u ∈ candidateUsers ps gf gs ↔ (u ∈ ps ∨ u ∈ gf) ∧ u ∉ gs := by
  sorry

/-- **implicit users**: `GetImplicitUsersForPermission` lists exactly the non-role subjects for
    which `Enforce` answers true … -/
theorem implicitUsers_exact (cands : List String) (decide : String → Option Bool) (l : List String)
    (h : implicitUsersForPermission cands decide = .ok l) (u : String) :
    u ∈ l ↔ u ∈ cands ∧ decide u = some true := by
  sorry

/-- … and fails exactly when `Enforce` fails for one of them (never a partial list) -/
theorem implicitUsers_err (cands : List String) (decide : String → Option Bool) :
    implicitUsersForPermission cands decide = .err ↔ ∃ u ∈ cands, decide u = none := by
  sorry

/-- beyond the depth limit the listing and `g()` part ways (why `DepthOk` is a hypothesis): -/
theorem depth_limit_needed :
    (∃ l, implicitRoles chain "n0" [] = some l ∧ "n11" ∈ l) ∧ chain.hasLink "n0" "n11" [] = false := by
  sorry

/-- the hypotheses are satisfiable on a diamond with a cycle -/
example : ∃ l, implicitRoles { kind := .plain, links := [("a", "b", ""), ("a", "c", ""), ("b", "d", ""), ("c", "d", ""), ("d", "a", "")] } "a" [] = some l
    ∧ l.length = 3 := by
  sorry

end Casbin.C16
