import CasbinVerif.Spec.Rbac
import CasbinVerif.Proofs.C16
import CasbinVerif.Proofs.C16Enforce
/-
  C16 — RBAC introspection APIs agree with enforcement.

  `Rbac.implicitRoles`, `implicitUsersForRole`, `implicitPermissions`, `implicitUsersForPermission`
  mirror `rbac_api.go`; `RM.hasLink` is what `g()` answers (C01: `hasLink_iff_reach`), `enforce` is
  `enforcer.go: enforce()`.  The listings walk the role graph without a depth bound while `g()`
  stops at the manager's `maxHierarchyLevel`; `DepthOk` is the property's "hierarchy depth within
  the role manager's limit", and `depth_limit_needed` shows what happens beyond it.
-/
namespace Casbin.C16
open Casbin.Rbac

/-- the work-list walk terminates on every graph (cycles, self-loops, diamonds): the fuel the
    model gives it (one round per link plus one) is never used up -/
theorem implicitRoles_terminates (rm : RM) (u : String) (ds : List String) :
    ∃ l, implicitRoles rm u ds = some l := by
  obtain ⟨l, h, _⟩ := implicitRoles_spec rm u ds
  exact ⟨l, h⟩

theorem implicitUsersForRole_terminates (rm : RM) (r : String) (ds : List String) :
    ∃ l, implicitUsersForRole rm r ds = some l := by
  obtain ⟨l, h, _⟩ := implicitUsersForRole_spec rm r ds
  exact ⟨l, h⟩

/-- `GetImplicitRolesForUser` lists exactly the other names reachable from the user, each once -/
theorem implicitRoles_exact (rm : RM) (u : String) (ds : List String) (l : List String)
    (h : implicitRoles rm u ds = some l) (r : String) :
    r ∈ l ↔ r ≠ u ∧ Reach rm.links (rm.dom ds) u r := by
  obtain ⟨l', h1, _, h3⟩ := implicitRoles_spec rm u ds
  rw [h] at h1
  cases h1
  exact h3 r

theorem implicitRoles_nodup (rm : RM) (u : String) (ds : List String) (l : List String)
    (h : implicitRoles rm u ds = some l) : l.Nodup := by
  obtain ⟨l', h1, h2, _⟩ := implicitRoles_spec rm u ds
  rw [h] at h1
  cases h1
  exact h2

/-- every other role for which `g()` holds is listed (no depth hypothesis) -/
theorem hasLink_listed (rm : RM) (u : String) (ds : List String) (l : List String)
    (h : implicitRoles rm u ds = some l) (r : String) (hne : r ≠ u) (hl : rm.hasLink u r ds = true) :
    r ∈ l := by
  obtain ⟨l', h1, _, h3⟩ := implicitRoles_spec rm u ds
  rw [h] at h1
  cases h1
  exact (h3 r).2 ⟨hne, _, (hasLink_iff_reach' rm u r ds).1 hl⟩

/-- **implicit roles**: within the depth limit the listing is exactly the other roles for which `g()` holds -/
theorem implicitRoles_iff_hasLink (rm : RM) (u : String) (ds : List String) (l : List String)
    (h : implicitRoles rm u ds = some l) (hd : DepthOk rm u ds) (r : String) :
    r ∈ l ↔ r ≠ u ∧ rm.hasLink u r ds = true := by
  obtain ⟨l', h1, _, h3⟩ := implicitRoles_spec rm u ds
  rw [h] at h1
  cases h1
  rw [h3 r, hasLink_iff_reach']
  constructor
  · rintro ⟨hne, n, hn⟩
    exact ⟨hne, hd r n hn⟩
  · rintro ⟨hne, hn⟩
    exact ⟨hne, _, hn⟩

/-- the depth hypothesis is decidable from the listing itself: it holds iff `g()` confirms every listed role -/
theorem depthOk_iff (rm : RM) (u : String) (ds : List String) (l : List String)
    (h : implicitRoles rm u ds = some l) :
    DepthOk rm u ds ↔ ∀ r ∈ l, rm.hasLink u r ds = true := by
  obtain ⟨l', h1, _, h3⟩ := implicitRoles_spec rm u ds
  rw [h] at h1
  cases h1
  constructor
  · intro hd r hr
    obtain ⟨_, n, hn⟩ := (h3 r).1 hr
    exact (hasLink_iff_reach' rm u r ds).2 (hd r n hn)
  · intro hall r n hn
    by_cases hru : r = u
    · subst hru
      exact .refl _ _
    · exact (hasLink_iff_reach' rm u r ds).1 (hall r ((h3 r).2 ⟨hru, n, hn⟩))

/-- `GetImplicitUsersForRole` lists exactly the other names from which the role is reachable -/
theorem implicitUsersForRole_exact (rm : RM) (r : String) (ds : List String) (l : List String)
    (h : implicitUsersForRole rm r ds = some l) (x : String) :
    x ∈ l ↔ x ≠ r ∧ Reach rm.links (rm.dom ds) x r := by
  obtain ⟨l', h1, _, h3⟩ := implicitUsersForRole_spec rm r ds
  rw [h] at h1
  cases h1
  exact h3 x

/-- **implicit permissions** (stock RBAC model): a request is allowed iff some permission listed by
    `GetImplicitPermissionsForUser(u)` grants it.  `hD24`: finding D24 (on an empty policy the
    all-empty request is allowed by `enforce()` although no permission exists). -/
theorem enforce_iff_listed (policy : List Rule) (rm : RM) (links : String → List String → Bool)
    (fn : String → List Val → Res) (evalTab : String → Option Expr) (u o a : String)
    (hlinks : ∀ x y, links "g" [x, y] = rm.hasLink x y [])
    (harity : ∀ rule ∈ policy, rule.length = 3)
    (hD24 : policy ≠ [] ∨ o ≠ "")
    (hd : DepthOk rm u []) :
    ∃ perms, implicitPermissions policy rm none u [] = .ok perms ∧
      (enforce rbacModel (fun pt => if pt = "p" then policy else []) links fn evalTab {} none
          [.str u, .str o, .str a]).map (·.1)
        = some (perms.any (fun perm => perm.tail == [o, a])) := by
  obtain ⟨roles, hroles, _, _⟩ := implicitRoles_spec rm u []
  refine ⟨policy.filter (fun rule => (u :: roles).contains (rule.headD "")), ?_, ?_⟩
  · simp only [implicitPermissions, hroles]
  · rw [enforce_rbac policy links fn evalTab u o a harity]
    congr 1
    by_cases hp : policy = []
    · subst hp
      have ho : o ≠ "" := by
        rcases hD24 with h | h
        · exact absurd rfl h
        · exact h
      have : ([("" : String), ""] == [o, a]) = false := by
        rw [beq_eq_false_iff_ne]
        intro e
        simp only [List.cons.injEq] at e
        exact ho e.1.symm
      simp [this]
    · rw [if_neg hp, List.any_filter]
      congr 1
      funext rule
      rw [hlinks, hasLink_eq_contains rm u [] roles hroles hd]

/-- **implicit permissions** (stock RBAC-with-domains model): `Enforce(u, d, o, a)` is allowed iff some
    permission listed by `GetImplicitPermissionsForUser(u, d)` grants it -/
theorem enforce_iff_listed_domain (policy : List Rule) (rm : RM) (links : String → List String → Bool)
    (fn : String → List Val → Res) (evalTab : String → Option Expr) (u d o a : String)
    (hlinks : ∀ x y, links "g" [x, y, d] = rm.hasLink x y [d])
    (harity : ∀ rule ∈ policy, rule.length = 4)
    (hD24 : policy ≠ [] ∨ o ≠ "")
    (hd : DepthOk rm u [d]) :
    ∃ perms, implicitPermissions policy rm (some 1) u [d] = .ok perms ∧
      (enforce rbacDomModel (fun pt => if pt = "p" then policy else []) links fn evalTab {} none
          [.str u, .str d, .str o, .str a]).map (·.1)
        = some (perms.any (fun perm => perm.tail == [d, o, a])) := by
  obtain ⟨roles, hroles, _, _⟩ := implicitRoles_spec rm u [d]
  by_cases hp : policy = []
  · subst hp
    refine ⟨[], ?_, ?_⟩
    · simp [implicitPermissions, hroles]
    · rw [enforce_rbacDom [] links fn evalTab u d o a harity]
      congr 1
      have ho : o ≠ "" := by
        rcases hD24 with h | h
        · exact absurd rfl h
        · exact h
      have : ([("" : String), "", ""] == [d, o, a]) = false := by
        rw [beq_eq_false_iff_ne]
        intro e
        simp only [List.cons.injEq] at e
        exact ho e.2.1.symm
      simp [this]
  · have hne : policy.isEmpty = false := by cases policy <;> simp_all
    refine ⟨(policy.filter (fun rule => (rule.getD 1 "") == d && (u :: roles).contains (rule.headD ""))).map
        (fun rule => rule.set 1 d), ?_, ?_⟩
    · simp [implicitPermissions, hroles, hne]
    · rw [enforce_rbacDom policy links fn evalTab u d o a harity, if_neg hp, List.any_map,
        List.any_filter]
      congr 1
      have hrule : ∀ rule ∈ policy,
          (links "g" [u, rule.headD "", d] && rule.tail == [d, o, a]) =
            ((rule.getD 1 "" == d && (u :: roles).contains (rule.headD "")) &&
              ((fun perm : Rule => perm.tail == [d, o, a]) ∘ fun rule => rule.set 1 d) rule) := by
        intro rule hr
        rw [hlinks, hasLink_eq_contains rm u [d] roles hroles hd]
        match rule, harity rule hr with
        | [s, dm, ob, ac], _ =>
          rw [Bool.eq_iff_iff]
          simp only [List.headD_cons, List.tail_cons, List.getD_cons_succ, List.getD_cons_zero,
            Function.comp_apply, List.set_cons_succ, List.set_cons_zero, Bool.and_eq_true,
            beq_iff_eq, List.cons.injEq, and_true, true_and]
          constructor
          · rintro ⟨h1, h2, h3, h4⟩
            exact ⟨⟨h2, h1⟩, h3, h4⟩
          · rintro ⟨⟨h2, h1⟩, h3, h4⟩
            exact ⟨h1, h2, h3, h4⟩
      rw [Bool.eq_iff_iff, List.any_eq_true, List.any_eq_true]
      constructor
      · rintro ⟨rule, hr, h⟩
        exact ⟨rule, hr, by rw [← hrule rule hr]; exact h⟩
      · rintro ⟨rule, hr, h⟩
        exact ⟨rule, hr, by rw [hrule rule hr]; exact h⟩

/-- every listed permission is a stored rule whose subject is the user or an implicit role -/
theorem listed_is_stored (policy : List Rule) (rm : RM) (u : String) (perms : List Rule)
    (h : implicitPermissions policy rm none u [] = .ok perms) (perm : Rule) (hp : perm ∈ perms) :
    perm ∈ policy ∧ (perm.headD "" = u ∨ Reach rm.links (rm.dom []) u (perm.headD "")) := by
  obtain ⟨roles, hroles, _, hmem⟩ := implicitRoles_spec rm u []
  simp only [implicitPermissions, hroles, Listing.ok.injEq] at h
  subst h
  simp only [List.mem_filter, List.contains_eq_mem, List.mem_cons, decide_eq_true_eq] at hp
  refine ⟨hp.1, ?_⟩
  rcases hp.2 with h | h
  · exact .inl h
  · exact .inr ((hmem _).1 h).2

/-- the candidates of `GetImplicitUsersForPermission`: subjects that are no role name -/
theorem candidateUsers_exact (ps gf gs : List String) (u : String) :
    u ∈ candidateUsers ps gf gs ↔ (u ∈ ps ∨ u ∈ gf) ∧ u ∉ gs := by
  simp only [candidateUsers, dedup, List.mem_filter, List.mem_eraseDups, List.mem_append,
    Bool.not_eq_true', List.contains_eq_mem, decide_eq_false_iff_not]

/-- **implicit users**: `GetImplicitUsersForPermission` lists exactly the non-role subjects for
    which `Enforce` answers true … -/
theorem implicitUsers_exact (cands : List String) (decide : String → Option Bool) (l : List String)
    (h : implicitUsersForPermission cands decide = .ok l) (u : String) :
    u ∈ l ↔ u ∈ cands ∧ decide u = some true := by
  unfold implicitUsersForPermission at h
  cases hm : cands.mapM (fun u => (decide u).map (fun b => (u, b))) with
  | none => simp [hm] at h
  | some ys =>
    simp only [hm, Listing.ok.injEq] at h
    subst h
    have hmap := mapM_option_some _ cands ys hm
    have hmem : (u, true) ∈ ys ↔ u ∈ cands ∧ decide u = some true := by
      have : (u, true) ∈ ys ↔ some (u, true) ∈ ys.map some := by simp
      rw [this, ← hmap]
      simp only [List.mem_map, Option.map_eq_some_iff, Prod.mk.injEq]
      constructor
      · rintro ⟨c, hc, b, hb, rfl, rfl⟩
        exact ⟨hc, hb⟩
      · rintro ⟨hc, hb⟩
        exact ⟨u, hc, true, hb, rfl, rfl⟩
    rw [← hmem]
    simp only [List.mem_map, List.mem_filter]
    constructor
    · rintro ⟨⟨x, b⟩, ⟨hx, hb⟩, rfl⟩
      simp only at hb
      subst hb
      exact hx
    · intro hx
      exact ⟨(u, true), ⟨hx, rfl⟩, rfl⟩

/-- … and fails exactly when `Enforce` fails for one of them (never a partial list) -/
theorem implicitUsers_err (cands : List String) (decide : String → Option Bool) :
    implicitUsersForPermission cands decide = .err ↔ ∃ u ∈ cands, decide u = none := by
  have key := mapM_option_none_iff (fun u => (decide u).map (fun b => (u, b))) cands
  simp only [Option.map_eq_none_iff] at key
  rw [← key]
  unfold implicitUsersForPermission
  cases cands.mapM (fun u => (decide u).map (fun b => (u, b))) <;> simp

/-- beyond the depth limit the listing and `g()` part ways (why `DepthOk` is a hypothesis): -/
theorem depth_limit_needed :
    (∃ l, implicitRoles chain "n0" [] = some l ∧ "n11" ∈ l) ∧ chain.hasLink "n0" "n11" [] = false := by
  refine ⟨⟨_, rfl, ?_⟩, ?_⟩
  · decide
  · decide

/-- the hypotheses are satisfiable on a diamond with a cycle -/
example : ∃ l, implicitRoles { kind := .plain, links := [("a", "b", ""), ("a", "c", ""), ("b", "d", ""), ("c", "d", ""), ("d", "a", "")] } "a" [] = some l
    ∧ l.length = 3 := by
  refine ⟨_, rfl, ?_⟩
  decide

end Casbin.C16
