import CasbinVerif.Model.RoleGraph
import CasbinVerif.Proofs.C16Getters
/-
  C16 (continued) — the direct listings `GetRolesForUser` / `GetUsersForRole` (`RM.getRoles`,
  `RM.getUsers`): they list, each once, exactly the names linked to the given one in the domain
  asked for, and every listed role is one for which g() holds.
-/
namespace Casbin.C16Getters

theorem getRoles_iff (rm : RM) (u r : String) (ds : List String) :
    r ∈ rm.getRoles u ds ↔ (u, r, rm.dom ds) ∈ rm.links := by
  exact C16.mem_getRoles

theorem getUsers_iff (rm : RM) (u r : String) (ds : List String) :
    u ∈ rm.getUsers r ds ↔ (u, r, rm.dom ds) ∈ rm.links := by
  exact C16.mem_getUsers

theorem getRoles_nodup (rm : RM) (u : String) (ds : List String) : (rm.getRoles u ds).Nodup := by
  exact C16.nodup_eraseDups _

theorem getUsers_nodup (rm : RM) (r : String) (ds : List String) : (rm.getUsers r ds).Nodup := by
  exact C16.nodup_eraseDups _

/-- the two listings are converse to each other -/
theorem getRoles_iff_getUsers (rm : RM) (u r : String) (ds : List String) :
    r ∈ rm.getRoles u ds ↔ u ∈ rm.getUsers r ds := by
  rw [C16.mem_getRoles, C16.mem_getUsers]

/-- a directly listed role is a role for which g() holds (any positive hierarchy depth) -/
theorem getRoles_hasLink (rm : RM) (u r : String) (ds : List String) (hl : 1 ≤ rm.maxLevel)
    (h : r ∈ rm.getRoles u ds) : rm.hasLink u r ds = true := by
  rw [hasLink_iff_reach']
  obtain ⟨n, hn⟩ : ∃ n, rm.maxLevel = n + 1 := ⟨rm.maxLevel - 1, by omega⟩
  rw [hn]
  exact .step (C16.mem_getRoles.1 h) (.refl _ _)

/-- AddLink makes the role listed, DeleteLink unlists it, neither touches other pairs -/
theorem getRoles_addLink (rm : RM) (u r : String) (ds : List String) : r ∈ (rm.addLink u r ds).getRoles u ds := by
  rw [C16.mem_getRoles, getters_dom_congr (addLink_kind rm u r ds), mem_addLink]
  exact .inr rfl

theorem getRoles_deleteLink (rm : RM) (u r : String) (ds : List String) : r ∉ (rm.deleteLink u r ds).getRoles u ds := by
  rw [C16.mem_getRoles, getters_dom_congr (getters_deleteLink_kind rm u r ds), getters_mem_deleteLink]
  exact fun h => h.2 rfl

example : ("admin" ∈ (RM.addLink (RM.empty .plain) "alice" "admin" []).getRoles "alice" []) := by
  exact getRoles_addLink _ _ _ _

end Casbin.C16Getters
