import CasbinVerif.Spec.Rbac
import CasbinVerif.Proofs.C16
import CasbinVerif.Proofs.C16Enforce
import CasbinVerif.Proofs.C16Resource
/-
  C16, continued — `GetImplicitUsersForResource` (after its repair) agrees with enforcement.
-/
namespace Casbin.C16
open Casbin.Rbac

/-- `GetImplicitUsersForResource` always answers … -/
theorem implicitUsersForResource_terminates (policy : List Rule) (rm : RM) (isRole : String → Bool)
    (si oi : Nat) (resource : String) :
    ∃ rows, implicitUsersForResource policy rm isRole si oi resource = some rows := by
  rw [implicitUsersForResource_eq]
  cases hm : (policy.filter (fun rule => rule.getD oi "" == resource)).mapM
      (resourceRowsOf rm isRole si) with
  | some ys => exact ⟨_, rfl⟩
  | none =>
    obtain ⟨x, _, hx⟩ := (mapM_option_none_iff _ _).1 hm
    exact absurd hx (resourceRowsOf_isSome rm isRole si x)

/-- … and lists exactly: the rules on the resource held by a non-role name, and for every rule held
    by a role one row for each non-role name that inherits the role through any number of links -/
theorem implicitUsersForResource_exact (policy : List Rule) (rm : RM) (isRole : String → Bool)
    (si oi : Nat) (resource : String) (rows : List Rule)
    (h : implicitUsersForResource policy rm isRole si oi resource = some rows) (row : Rule) :
    row ∈ rows ↔ ∃ rule ∈ policy, rule.getD oi "" = resource ∧
      ((isRole (rule.getD si "") = false ∧ row = rule) ∨
       (isRole (rule.getD si "") = true ∧ ∃ u, isRole u = false ∧ u ≠ rule.getD si "" ∧
          Reach rm.links (rm.dom []) u (rule.getD si "") ∧ row = rule.set si u)) := by
  rw [implicitUsersForResource_eq] at h
  cases hm : (policy.filter (fun rule => rule.getD oi "" == resource)).mapM
      (resourceRowsOf rm isRole si) with
  | none => rw [hm] at h; cases h
  | some ys =>
    rw [hm] at h
    simp only [Option.map_some, Option.some.injEq] at h
    subst h
    rw [List.mem_eraseDups, mem_mapM_flatten _ _ _ hm]
    constructor
    · rintro ⟨rule, hrule, y, hy, hrow⟩
      rw [List.mem_filter, beq_iff_eq] at hrule
      exact ⟨rule, hrule.1, hrule.2, (mem_resourceRowsOf rm isRole si rule y hy row).1 hrow⟩
    · rintro ⟨rule, hrule, hres, hcases⟩
      have hne := resourceRowsOf_isSome rm isRole si rule
      cases hy : resourceRowsOf rm isRole si rule with
      | none => exact absurd hy hne
      | some y =>
        refine ⟨rule, ?_, y, hy, (mem_resourceRowsOf rm isRole si rule y hy row).2 hcases⟩
        rw [List.mem_filter, beq_iff_eq]
        exact ⟨hrule, hres⟩

/-- role names as `GetAllRoles()` reports them when the manager mirrors the grouping rules (C05) -/
def isRoleOf (rm : RM) : String → Bool := fun x => rm.links.any (fun l => l.2.1 == x)

/-- **implicit users for a resource** (stock RBAC model), soundness: every listed row is a request
    that `enforce()` allows -/
theorem resource_rows_allowed (policy : List Rule) (rm : RM) (links : String → List String → Bool)
    (fn : String → List Val → Res) (evalTab : String → Option Expr) (resource : String) (rows : List Rule)
    (hlinks : ∀ x y, links "g" [x, y] = rm.hasLink x y [])
    (harity : ∀ rule ∈ policy, rule.length = 3)
    (hd : ∀ u, DepthOk rm u [])
    (h : implicitUsersForResource policy rm (isRoleOf rm) 0 1 resource = some rows)
    (row : Rule) (hrow : row ∈ rows) :
    ∃ u a, row = [u, resource, a] ∧
      (enforce rbacModel (fun pt => if pt = "p" then policy else []) links fn evalTab {} none
          [.str u, .str resource, .str a]).map (·.1) = some true := by
  obtain ⟨rule, hrule, hres, hcases⟩ :=
    (implicitUsersForResource_exact policy rm (isRoleOf rm) 0 1 resource rows h row).1 hrow
  obtain ⟨s, o, a, rfl⟩ := rule3_shape rule (harity rule hrule)
  simp only [List.getD_cons_succ, List.getD_cons_zero] at hres
  subst hres
  have hpne : policy ≠ [] := fun e => by rw [e] at hrule; cases hrule
  have key : ∀ u, rm.hasLink u s [] = true →
      (enforce rbacModel (fun pt => if pt = "p" then policy else []) links fn evalTab {} none
          [.str u, .str o, .str a]).map (·.1) = some true := by
    intro u hu
    rw [enforce_rbac policy links fn evalTab u o a harity, if_neg hpne]
    congr 1
    rw [List.any_eq_true]
    refine ⟨[s, o, a], hrule, ?_⟩
    simp only [List.headD_cons, List.tail_cons, hlinks, hu, Bool.true_and, beq_self_eq_true]
  rcases hcases with ⟨_, hrow⟩ | ⟨_, u, _, _, hreach, hrow⟩
  · refine ⟨s, a, hrow, key s ?_⟩
    simp [RM.hasLink]
  · refine ⟨u, a, ?_, key u ?_⟩
    · rw [hrow]; rfl
    · obtain ⟨n, hn⟩ := hreach
      exact (hasLink_iff_reach' rm u s []).2 (hd u s n hn)

/-- … and completeness: every non-role name that `enforce()` allows on the resource is listed with
    that action -/
theorem resource_rows_complete (policy : List Rule) (rm : RM) (links : String → List String → Bool)
    (fn : String → List Val → Res) (evalTab : String → Option Expr) (resource : String) (rows : List Rule)
    (hlinks : ∀ x y, links "g" [x, y] = rm.hasLink x y [])
    (harity : ∀ rule ∈ policy, rule.length = 3)
    (hne : policy ≠ [])
    (h : implicitUsersForResource policy rm (isRoleOf rm) 0 1 resource = some rows)
    (u a : String) (hu : isRoleOf rm u = false)
    (henf : (enforce rbacModel (fun pt => if pt = "p" then policy else []) links fn evalTab {} none
          [.str u, .str resource, .str a]).map (·.1) = some true) :
    [u, resource, a] ∈ rows := by
  rw [enforce_rbac policy links fn evalTab u resource a harity, if_neg hne] at henf
  simp only [Option.some.injEq] at henf
  obtain ⟨rule, hrule, hm⟩ := List.any_eq_true.1 henf
  obtain ⟨s, o, a', rfl⟩ := rule3_shape rule (harity rule hrule)
  simp only [List.headD_cons, List.tail_cons, Bool.and_eq_true, beq_iff_eq, List.cons.injEq,
    and_true] at hm
  obtain ⟨hl, ho, ha⟩ := hm
  subst ho; subst ha
  rw [hlinks] at hl
  have hreach := (hasLink_iff_reach' rm u s []).1 hl
  rw [implicitUsersForResource_exact policy rm (isRoleOf rm) 0 1 o rows h]
  refine ⟨[s, o, a'], hrule, rfl, ?_⟩
  simp only [List.getD_cons_zero]
  by_cases hsu : u = s
  · subst hsu
    exact .inl ⟨hu, rfl⟩
  · refine .inr ⟨?_, u, hu, hsu, ⟨_, hreach⟩, rfl⟩
    obtain ⟨v, hv⟩ := reachWithin_last hreach hsu
    simp only [isRoleOf, List.any_eq_true, beq_iff_eq]
    exact ⟨_, hv, rfl⟩

end Casbin.C16
