import CasbinVerif.Spec.Rbac
import CasbinVerif.Proofs.C16
import CasbinVerif.Proofs.C16Enforce
/-
  C16, continued — `GetImplicitUsersForResource` (after its repair) agrees with enforcement.
-/
namespace Casbin.C16
open Casbin.Rbac

/-- `GetImplicitUsersForResource` always answers … -/
theorem implicitUsersForResource_terminates (policy : List Rule) (rm : RM) (isRole : String → Bool)
    (si oi : Nat) (resource : String) :
    ∃ rows, implicitUsersForResource policy rm isRole si oi resource = some rows := by
  sorry

/-- … and lists exactly: the rules on the resource held by a non-role name, and for every rule held
    by a role one row for each non-role name that inherits the role through any number of links -/
theorem implicitUsersForResource_exact (policy : List Rule) (rm : RM) (isRole : String → Bool)
    (si oi : Nat) (resource : String) (rows : List Rule)
    (h : implicitUsersForResource policy rm isRole si oi resource = some rows) (row : Rule) :
    row ∈ rows ↔ ∃ rule ∈ policy, rule.getD oi "" = resource ∧
      ((isRole (rule.getD si "") = false ∧ row = rule) ∨
       (isRole (rule.getD si "") = true ∧ ∃ u, isRole u = false ∧ u ≠ rule.getD si "" ∧
          Reach rm.links (rm.dom []) u (rule.getD si "") ∧ row = rule.set si u)) := by
  sorry

/-- role names as `GetAllRoles()` reports them when the manager mirrors the grouping rules (C05) -/
def isRoleOf (rm : RM) : String → Bool := fun x => rm.links.any (fun l => l.2.1 == x)

/-- **implicit users for a resource** (stock RBAC model), soundness: every listed row is a request
    that `enforce()` allows -/
theorem resource_rows_allowed (policy : List Rule) (rm : RM) (links : String → List String → Bool)
    (fn : String → List Val → Res) (evalTab : String → Option Expr) (resource : String) (rows : List Rule)
    (hlinks : ∀ x y, links "g" [x, y] = rm.hasLink x y [])
    (harity : ∀ rule ∈ policy, rule.length = 3)
    (hd : ∀ u, DepthOk rm u [])
    (h : implicitUsersForResource policy rm (isRoleOf rm) 0 1 resource = some rows)
    (row : Rule) (hrow : row ∈ rows) :
    ∃ u a, row = [u, resource, a] ∧
      (enforce rbacModel (fun pt => if pt = "p" then policy else []) links fn evalTab {} none
          [.str u, .str resource, .str a]).map (·.1) = some true := by
  sorry

/-- … and completeness: every non-role name that `enforce()` allows on the resource is listed with
    that action -/
theorem resource_rows_complete (policy : List Rule) (rm : RM) (links : String → List String → Bool)
    (fn : String → List Val → Res) (evalTab : String → Option Expr) (resource : String) (rows : List Rule)
    (hlinks : ∀ x y, links "g" [x, y] = rm.hasLink x y [])
    (harity : ∀ rule ∈ policy, rule.length = 3)
    (hne : policy ≠ [])
    (h : implicitUsersForResource policy rm (isRoleOf rm) 0 1 resource = some rows)
    (u a : String) (hu : isRoleOf rm u = false)
    (henf : (enforce rbacModel (fun pt => if pt = "p" then policy else []) links fn evalTab {} none
          [.str u, .str resource, .str a]).map (·.1) = some true) :
    [u, resource, a] ∈ rows := by
  sorry

end Casbin.C16
