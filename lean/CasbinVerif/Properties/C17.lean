import CasbinVerif.Spec.Mono
import CasbinVerif.Spec.Store
import CasbinVerif.Spec.Perm
import CasbinVerif.Proofs.C17
/-
  C17 — Decisions respond monotonically and order-insensitively to policy changes.

  All statements are about `enforce` (the mirror of `enforcer.go: enforce()`, tied to the code by
  the C01/C04/C17 correspondence runs) and `RM.hasLink`; built-in functions (`fn`: keyMatch*,
  regexMatch, ipMatch, globMatch, custom functions) and the `eval()` table are arbitrary
  parameters.  Conclusions are about error-free decisions, as the property says: with
  short-circuit evaluation a new link or rule can make the loop evaluate something it used to
  skip, and if that errors `Enforce` answers `(false, err)` — C03's fail-closed answer, not a denial.
-/
namespace Casbin.C17

/-- a positive sub-term that was `true` stays `true` or becomes an error when links are added -/
theorem positive_true_stays (fuel : Nat) (ρ ρ' : Env) (e : Expr)
    (hr : ρ.r = ρ'.r) (hp : ρ.p = ρ'.p) (hf : ρ.fn = ρ'.fn) (ht : ρ.evalTab = ρ'.evalTab)
    (hl : LinkLe ρ.link ρ'.link) (hpos : e.positive = true)
    (h : evalExpr fuel ρ e = some (.bool true)) :
    evalExpr fuel ρ' e = some (.bool true) ∨ evalExpr fuel ρ' e = none := by
  sorry

/-- `HasLink` is monotone in the set of links … -/
theorem hasLink_mono (rm rm' : RM) (hk : rm.kind = rm'.kind) (hm : rm.maxLevel = rm'.maxLevel)
    (hsub : ∀ l ∈ rm.links, l ∈ rm'.links) (u r : String) (ds : List String)
    (h : rm.hasLink u r ds = true) : rm'.hasLink u r ds = true := by
  sorry

/-- … so `AddLink` only adds answers and `DeleteLink` only removes them -/
theorem addLink_mono (rm : RM) (a b : String) (dsl : List String) (u r : String) (ds : List String)
    (h : rm.hasLink u r ds = true) : (rm.addLink a b dsl).hasLink u r ds = true := by
  sorry

theorem deleteLink_anti (rm : RM) (a b : String) (dsl : List String) (u r : String) (ds : List String)
    (h : (rm.deleteLink a b dsl).hasLink u r ds = true) : rm.hasLink u r ds = true := by
  sorry

/-- `HasLink` depends on the set of links only, not on the order they were added in -/
theorem hasLink_order_free (rm rm' : RM) (hk : rm.kind = rm'.kind) (hm : rm.maxLevel = rm'.maxLevel)
    (hmem : ∀ l, l ∈ rm.links ↔ l ∈ rm'.links) (u r : String) (ds : List String) :
    rm.hasLink u r ds = rm'.hasLink u r ds := by
  sorry

/-- **adding role links never revokes** (allow-override, matcher without negation of a role
    test): an allowed request is not denied afterwards -/
theorem add_link_monotone (md : ModelDef) (policy : String → List Rule)
    (links links' : String → List String → Bool) (fn : String → List Val → Res)
    (evalTab : String → Option Expr) (ctx : EnforceCtx) (rvals : List Val) (m : Expr)
    (hk : kindOf md ctx = some .allowOverride)
    (hm : md.m.lookup ctx.mType = some m) (hpos : m.positive = true)
    (hl : LinkLe links links')
    (h : (enforce md policy links fn evalTab ctx none rvals).map (·.1) = some true) :
    (enforce md policy links' fn evalTab ctx none rvals).map (·.1) ≠ some false := by
  sorry

/-- **removing role links never grants** -/
theorem remove_link_never_grants (md : ModelDef) (policy : String → List Rule)
    (links links' : String → List String → Bool) (fn : String → List Val → Res)
    (evalTab : String → Option Expr) (ctx : EnforceCtx) (rvals : List Val) (m : Expr)
    (hk : kindOf md ctx = some .allowOverride)
    (hm : md.m.lookup ctx.mType = some m) (hpos : m.positive = true)
    (hl : LinkLe links' links)
    (h : (enforce md policy links fn evalTab ctx none rvals).map (·.1) = some false) :
    (enforce md policy links' fn evalTab ctx none rvals).map (·.1) ≠ some true := by
  sorry

/-- **adding rules never revokes** (allow-override, any matcher, the rules added anywhere in the
    list).  `hD24`: finding D24 — on an empty policy whose matcher mentions the policy `enforce()`
    evaluates an all-empty pseudo-rule, and adding any rule takes that away. -/
theorem add_rule_monotone (md : ModelDef) (policy policy' : String → List Rule)
    (links : String → List String → Bool) (fn : String → List Val → Res)
    (evalTab : String → Option Expr) (ctx : EnforceCtx) (rvals : List Val) (m : Expr)
    (hk : kindOf md ctx = some .allowOverride)
    (hm : md.m.lookup ctx.mType = some m)
    (hsub : (policy ctx.pType).Sublist (policy' ctx.pType))
    (hD24 : policy ctx.pType ≠ [] ∨ m.mentionsP = false)
    (h : (enforce md policy links fn evalTab ctx none rvals).map (·.1) = some true) :
    (enforce md policy' links fn evalTab ctx none rvals).map (·.1) ≠ some false := by
  sorry

/-- **removing rules never grants** (the same statement read backwards) -/
theorem remove_rule_never_grants (md : ModelDef) (policy policy' : String → List Rule)
    (links : String → List String → Bool) (fn : String → List Val → Res)
    (evalTab : String → Option Expr) (ctx : EnforceCtx) (rvals : List Val) (m : Expr)
    (hk : kindOf md ctx = some .allowOverride)
    (hm : md.m.lookup ctx.mType = some m)
    (hsub : (policy' ctx.pType).Sublist (policy ctx.pType))
    (hD24 : policy' ctx.pType ≠ [] ∨ m.mentionsP = false)
    (h : (enforce md policy links fn evalTab ctx none rvals).map (·.1) = some false) :
    (enforce md policy' links fn evalTab ctx none rvals).map (·.1) ≠ some true := by
  sorry

/-- **deny-override: adding rules (deny rules in particular) never grants** -/
theorem deny_override_add_never_grants (md : ModelDef) (policy policy' : String → List Rule)
    (links : String → List String → Bool) (fn : String → List Val → Res)
    (evalTab : String → Option Expr) (ctx : EnforceCtx) (rvals : List Val)
    (hk : kindOf md ctx = some .denyOverride)
    (hsub : (policy ctx.pType).Sublist (policy' ctx.pType))
    (h : (enforce md policy links fn evalTab ctx none rvals).map (·.1) = some false) :
    (enforce md policy' links fn evalTab ctx none rvals).map (·.1) ≠ some true := by
  sorry

/-- **order-insensitivity**: for the three non-priority effects, permuting the rules (and
    rebuilding the role managers from the same links in any order: `hasLink_order_free`) leaves
    every error-free decision unchanged — for arbitrary matchers and built-in functions -/
theorem perm_invariant (md : ModelDef) (policy policy' : String → List Rule)
    (links links' : String → List String → Bool) (fn : String → List Val → Res)
    (evalTab : String → Option Expr) (ctx : EnforceCtx) (rvals : List Val) (k : EffectKind)
    (hk : kindOf md ctx = some k)
    (hnp : k = .allowOverride ∨ k = .denyOverride ∨ k = .allowAndDeny)
    (hperm : (policy ctx.pType).Perm (policy' ctx.pType))
    (hl : ∀ gt args, links gt args = links' gt args)
    (d d' : Bool)
    (h : (enforce md policy links fn evalTab ctx none rvals).map (·.1) = some d)
    (h' : (enforce md policy' links' fn evalTab ctx none rvals).map (·.1) = some d') :
    d = d' := by
  sorry

/-- adding a rule that is already listed changes nothing … -/
theorem dup_add_noop (l : List Rule) (r : Rule) (h : r ∈ l) :
    SpecStore.apply l (.add r) = (l, false) := by
  sorry

/-- … and adding a fresh rule and removing it again restores the list exactly (the refinement
    theorem C06.refine_step carries both to the store with its index) -/
theorem add_remove_fresh (l : List Rule) (r : Rule) (h : r ∉ l) :
    (SpecStore.apply (SpecStore.apply l (.add r)).1 (.remove r)).1 = l := by
  sorry

/-- the same for a role link -/
theorem addLink_deleteLink_fresh (rm : RM) (a b : String) (ds : List String)
    (h : (a, b, rm.dom ds) ∉ rm.links) :
    ((rm.addLink a b ds).deleteLink a b ds).links = rm.links := by
  sorry

/-! ### non-vacuity -/

/-- the stock RBAC matcher is positive; `!g(…)` and `g(…) == false` are not -/
example : (Expr.and (.and (.g2 "g" (.rTok 0) (.pTok 0)) (.eq (.rTok 1) (.pTok 1))) (.eq (.rTok 2) (.pTok 2))).positive = true := by decide
example : (Expr.not (.g2 "g" (.rTok 0) (.pTok 0))).positive = false := by decide
example : (Expr.eq (.g2 "g" (.rTok 0) (.pTok 0)) (.blit false)).positive = false := by decide

end Casbin.C17
