import CasbinVerif.Spec.Mono
import CasbinVerif.Spec.Store
import CasbinVerif.Spec.Perm
import CasbinVerif.Proofs.C17
/-
  C17 — Decisions respond monotonically and order-insensitively to policy changes.

  All statements are about `enforce` (the mirror of `enforcer.go: enforce()`, tied to the code by
  the C01/C04/C17 correspondence runs) and `RM.hasLink`; built-in functions (`fn`: keyMatch*,
  regexMatch, ipMatch, globMatch, custom functions) and the `eval()` table are arbitrary
  parameters.  Conclusions are about error-free decisions, as the property says: with
  short-circuit evaluation a new link or rule can make the loop evaluate something it used to
  skip, and if that errors `Enforce` answers `(false, err)` — C03's fail-closed answer, not a denial.
-/
namespace Casbin.C17

/-- a positive sub-term that was `true` stays `true` or becomes an error when links are added -/
theorem positive_true_stays (fuel : Nat) (ρ ρ' : Env) (e : Expr)
    (hr : ρ.r = ρ'.r) (hp : ρ.p = ρ'.p) (hf : ρ.fn = ρ'.fn) (ht : ρ.evalTab = ρ'.evalTab)
    (hl : LinkLe ρ.link ρ'.link) (hpos : e.positive = true)
    (h : evalExpr fuel ρ e = some (.bool true)) :
    evalExpr fuel ρ' e = some (.bool true) ∨ evalExpr fuel ρ' e = none := by
  have _ := ht  -- not needed: a positive expression contains no `eval()`
  rcases evalExpr_positive fuel ρ ρ' e hr hp hf hl hpos _ h with hn | ⟨v', hv', hR⟩
  · exact .inr hn
  · rcases hR with rfl | ⟨h1, _⟩
    · exact .inl hv'
    · cases h1

/-- `HasLink` is monotone in the set of links … -/
theorem hasLink_mono (rm rm' : RM) (hk : rm.kind = rm'.kind) (hm : rm.maxLevel = rm'.maxLevel)
    (hsub : ∀ l ∈ rm.links, l ∈ rm'.links) (u r : String) (ds : List String)
    (h : rm.hasLink u r ds = true) : rm'.hasLink u r ds = true := by
  exact hasLink_mono' rm rm' hk hm hsub u r ds h

/-- … so `AddLink` only adds answers and `DeleteLink` only removes them -/
theorem addLink_mono (rm : RM) (a b : String) (dsl : List String) (u r : String) (ds : List String)
    (h : rm.hasLink u r ds = true) : (rm.addLink a b dsl).hasLink u r ds = true := by
  exact hasLink_mono' rm _ (addLink_kind rm a b dsl).symm (addLink_maxLevel rm a b dsl).symm
    (fun l hl => (mem_addLink rm a b dsl l).2 (.inl hl)) u r ds h

theorem deleteLink_anti (rm : RM) (a b : String) (dsl : List String) (u r : String) (ds : List String)
    (h : (rm.deleteLink a b dsl).hasLink u r ds = true) : rm.hasLink u r ds = true := by
  exact hasLink_mono' (rm.deleteLink a b dsl) rm rfl rfl
    (fun l hl => (List.mem_filter.1 hl).1) u r ds h

/-- `HasLink` depends on the set of links only, not on the order they were added in -/
theorem hasLink_order_free (rm rm' : RM) (hk : rm.kind = rm'.kind) (hm : rm.maxLevel = rm'.maxLevel)
    (hmem : ∀ l, l ∈ rm.links ↔ l ∈ rm'.links) (u r : String) (ds : List String) :
    rm.hasLink u r ds = rm'.hasLink u r ds := by
  rw [Bool.eq_iff_iff]
  exact ⟨hasLink_mono' rm rm' hk hm (fun l hl => (hmem l).1 hl) u r ds,
    hasLink_mono' rm' rm hk.symm hm.symm (fun l hl => (hmem l).2 hl) u r ds⟩

/-- **adding role links never revokes** (allow-override, matcher without negation of a role
    test): an allowed request is not denied afterwards -/
theorem add_link_monotone (md : ModelDef) (policy : String → List Rule)
    (links links' : String → List String → Bool) (fn : String → List Val → Res)
    (evalTab : String → Option Expr) (ctx : EnforceCtx) (rvals : List Val) (m : Expr)
    (hk : kindOf md ctx = some .allowOverride)
    (hm : md.m.lookup ctx.mType = some m) (hpos : m.positive = true)
    (hl : LinkLe links links')
    (h : (enforce md policy links fn evalTab ctx none rvals).map (·.1) = some true) :
    (enforce md policy links' fn evalTab ctx none rvals).map (·.1) ≠ some false := by
  obtain ⟨m0, tokens, hm0, hr0, hp0⟩ := enforce_some_lookups md policy links fn evalTab ctx rvals true h
  rw [hm] at hm0
  cases hm0
  rw [enforce_map_fst md policy links fn evalTab ctx rvals m tokens _ hm hr0 hp0 hk] at h
  rw [enforce_map_fst md policy links' fn evalTab ctx rvals m tokens _ hm hr0 hp0 hk]
  exact enfDec_link_mono m tokens (policy ctx.pType) ⟨rvals, [], fn, links, evalTab⟩
    ⟨rvals, [], fn, links', evalTab⟩ rfl rfl hl hpos h

/-- **removing role links never grants** -/
theorem remove_link_never_grants (md : ModelDef) (policy : String → List Rule)
    (links links' : String → List String → Bool) (fn : String → List Val → Res)
    (evalTab : String → Option Expr) (ctx : EnforceCtx) (rvals : List Val) (m : Expr)
    (hk : kindOf md ctx = some .allowOverride)
    (hm : md.m.lookup ctx.mType = some m) (hpos : m.positive = true)
    (hl : LinkLe links' links)
    (h : (enforce md policy links fn evalTab ctx none rvals).map (·.1) = some false) :
    (enforce md policy links' fn evalTab ctx none rvals).map (·.1) ≠ some true := by
  intro h'
  exact add_link_monotone md policy links' links fn evalTab ctx rvals m hk hm hpos hl h' h

/-- **adding rules never revokes** (allow-override, any matcher, the rules added anywhere in the
    list).  `hD24`: finding D24 — on an empty policy whose matcher mentions the policy `enforce()`
    evaluates an all-empty pseudo-rule, and adding any rule takes that away. -/
theorem add_rule_monotone (md : ModelDef) (policy policy' : String → List Rule)
    (links : String → List String → Bool) (fn : String → List Val → Res)
    (evalTab : String → Option Expr) (ctx : EnforceCtx) (rvals : List Val) (m : Expr)
    (hk : kindOf md ctx = some .allowOverride)
    (hm : md.m.lookup ctx.mType = some m)
    (hsub : (policy ctx.pType).Sublist (policy' ctx.pType))
    (hD24 : policy ctx.pType ≠ [] ∨ m.mentionsP = false)
    (h : (enforce md policy links fn evalTab ctx none rvals).map (·.1) = some true) :
    (enforce md policy' links fn evalTab ctx none rvals).map (·.1) ≠ some false := by
  obtain ⟨m0, tokens, hm0, hr0, hp0⟩ := enforce_some_lookups md policy links fn evalTab ctx rvals true h
  rw [hm] at hm0
  cases hm0
  rw [enforce_map_fst md policy links fn evalTab ctx rvals m tokens _ hm hr0 hp0 hk] at h
  rw [enforce_map_fst md policy' links fn evalTab ctx rvals m tokens _ hm hr0 hp0 hk]
  exact enfDec_rule_mono m tokens _ _ _ hsub hD24 h

/-- **removing rules never grants** (the same statement read backwards) -/
theorem remove_rule_never_grants (md : ModelDef) (policy policy' : String → List Rule)
    (links : String → List String → Bool) (fn : String → List Val → Res)
    (evalTab : String → Option Expr) (ctx : EnforceCtx) (rvals : List Val) (m : Expr)
    (hk : kindOf md ctx = some .allowOverride)
    (hm : md.m.lookup ctx.mType = some m)
    (hsub : (policy' ctx.pType).Sublist (policy ctx.pType))
    (hD24 : policy' ctx.pType ≠ [] ∨ m.mentionsP = false)
    (h : (enforce md policy links fn evalTab ctx none rvals).map (·.1) = some false) :
    (enforce md policy' links fn evalTab ctx none rvals).map (·.1) ≠ some true := by
  intro h'
  exact add_rule_monotone md policy' policy links fn evalTab ctx rvals m hk hm hsub hD24 h' h

/-- **deny-override: adding rules (deny rules in particular) never grants** -/
theorem deny_override_add_never_grants (md : ModelDef) (policy policy' : String → List Rule)
    (links : String → List String → Bool) (fn : String → List Val → Res)
    (evalTab : String → Option Expr) (ctx : EnforceCtx) (rvals : List Val)
    (hk : kindOf md ctx = some .denyOverride)
    (hsub : (policy ctx.pType).Sublist (policy' ctx.pType))
    (h : (enforce md policy links fn evalTab ctx none rvals).map (·.1) = some false) :
    (enforce md policy' links fn evalTab ctx none rvals).map (·.1) ≠ some true := by
  obtain ⟨m, tokens, hm, hr0, hp0⟩ := enforce_some_lookups md policy links fn evalTab ctx rvals false h
  rw [enforce_map_fst md policy links fn evalTab ctx rvals m tokens _ hm hr0 hp0 hk] at h
  rw [enforce_map_fst md policy' links fn evalTab ctx rvals m tokens _ hm hr0 hp0 hk]
  exact enfDec_deny_mono m tokens _ _ _ hsub h

/-- **order-insensitivity**: for the three non-priority effects, permuting the rules (and
    rebuilding the role managers from the same links in any order: `hasLink_order_free`) leaves
    every error-free decision unchanged — for arbitrary matchers and built-in functions -/
theorem perm_invariant (md : ModelDef) (policy policy' : String → List Rule)
    (links links' : String → List String → Bool) (fn : String → List Val → Res)
    (evalTab : String → Option Expr) (ctx : EnforceCtx) (rvals : List Val) (k : EffectKind)
    (hk : kindOf md ctx = some k)
    (hnp : k = .allowOverride ∨ k = .denyOverride ∨ k = .allowAndDeny)
    (hperm : (policy ctx.pType).Perm (policy' ctx.pType))
    (hl : ∀ gt args, links gt args = links' gt args)
    (d d' : Bool)
    (h : (enforce md policy links fn evalTab ctx none rvals).map (·.1) = some d)
    (h' : (enforce md policy' links' fn evalTab ctx none rvals).map (·.1) = some d') :
    d = d' := by
  have hll : links = links' := funext fun gt => funext fun args => hl gt args
  subst hll
  obtain ⟨m, tokens, hm, hr0, hp0⟩ := enforce_some_lookups md policy links fn evalTab ctx rvals d h
  rw [enforce_map_fst md policy links fn evalTab ctx rvals m tokens _ hm hr0 hp0 hk] at h
  rw [enforce_map_fst md policy' links fn evalTab ctx rvals m tokens _ hm hr0 hp0 hk] at h'
  exact enfDec_perm k hnp m tokens _ _ _ hperm d d' h h'

/-- adding a rule that is already listed changes nothing … -/
theorem dup_add_noop (l : List Rule) (r : Rule) (h : r ∈ l) :
    SpecStore.apply l (.add r) = (l, false) := by
  simp [SpecStore.apply, h]

/-- … and adding a fresh rule and removing it again restores the list exactly (the refinement
    theorem C06.refine_step carries both to the store with its index) -/
theorem add_remove_fresh (l : List Rule) (r : Rule) (h : r ∉ l) :
    (SpecStore.apply (SpecStore.apply l (.add r)).1 (.remove r)).1 = l := by
  simp only [SpecStore.apply, if_neg h, List.mem_append, List.mem_singleton, or_true, if_true]
  rw [List.erase_append_right _ h]
  simp

/-- the same for a role link -/
theorem addLink_deleteLink_fresh (rm : RM) (a b : String) (ds : List String)
    (h : (a, b, rm.dom ds) ∉ rm.links) :
    ((rm.addLink a b ds).deleteLink a b ds).links = rm.links := by
  have hc : rm.links.contains (a, b, rm.dom ds) = false := by simpa using h
  have hadd : rm.addLink a b ds = { rm with links := rm.links ++ [(a, b, rm.dom ds)] } := by
    unfold RM.addLink
    simp only [hc, Bool.false_eq_true, if_false]
  rw [hadd]
  simp only [RM.deleteLink, RM.dom, List.filter_append]
  have : ∀ x ∈ rm.links, (x != (a, b, rm.dom ds)) = true := by
    intro x hx
    simp only [bne_iff_ne, ne_eq]
    intro e
    exact h (e ▸ hx)
  simp only [RM.dom] at this
  rw [List.filter_eq_self.2 this]
  simp

/-! ### non-vacuity -/

/-- the stock RBAC matcher is positive; `!g(…)` and `g(…) == false` are not -/
example : (Expr.and (.and (.g2 "g" (.rTok 0) (.pTok 0)) (.eq (.rTok 1) (.pTok 1))) (.eq (.rTok 2) (.pTok 2))).positive = true := by decide
example : (Expr.not (.g2 "g" (.rTok 0) (.pTok 0))).positive = false := by decide
example : (Expr.eq (.g2 "g" (.rTok 0) (.pTok 0)) (.blit false)).positive = false := by decide

end Casbin.C17
