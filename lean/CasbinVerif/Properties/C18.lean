import CasbinVerif.Model.Loader
import CasbinVerif.Properties.C06
import CasbinVerif.Proofs.C18Flag
import CasbinVerif.Proofs.C18Filter
import CasbinVerif.Proofs.C18Load
/-
  C18 — Filtered loading loads exactly the subset and cannot clobber the store.

  `Flt.filterLine` / `filterWords` mirror the filtered file adapter's line filter, `loadPolicyLine`
  / `Enf.loadLine` mirror `LoadPolicyLine` / `LoadPolicyArray`, `Flt.flagStep` the `filtered` flag
  and the SavePolicy guard.  Hypothesis WF18 (finding D20 outside it): the stored lines are "plain":
  fields free of commas and quotes (no CSV quoting needed), possibly padded with blanks, and the
  filter is not longer than the rule.
-/
namespace Casbin.C18
open Casbin.Flt Casbin.Cfg

/-- the property's reading of a filter on one rule: every non-empty filter value equals the field
    in that position (blanks around either are ignored); a filter longer than the rule matches nothing -/
def matchesLeading (flt : List (List Char)) (rule : List (List Char)) : Bool :=
  flt.length ≤ rule.length && (flt.zip rule).all (fun (v, f) => v.isEmpty || trim v == trim f)

/-- a stored line "pt, f1, f2, …" whose fields need no quoting -/
def joinFields : List (List Char) → List Char
  | [] => []
  | [f] => f
  | f :: fs => f ++ ',' :: joinFields fs

def fieldOk (f : List Char) : Bool := f.all (fun c => c != ',' && c != '"' && c != '\n')

/-- the line filter skips exactly the lines whose rule the filter does not select -/
theorem filterLine_spec (pt : List Char) (rule : List (List Char)) (f : Filter)
    (hpt : fieldOk pt = true) (hr : rule.all fieldOk = true) :
    filterLine (joinFields (pt :: rule)) f = !matchesLeading (f.sliceFor (trim pt)) rule := by
  have hcf : ∀ g ∈ pt :: rule, ∀ c ∈ g, c ≠ ',' := by
    intro g hg c hc
    have hg' : fieldOk g = true := by
      rcases List.mem_cons.1 hg with rfl | hg
      · exact hpt
      · exact List.all_eq_true.1 hr g hg
    have := List.all_eq_true.1 hg' c hc
    simp only [Bool.and_eq_true, bne_iff_ne, ne_eq] at this
    exact this.1.1
  rw [filterLine_join joinFields (fun _ => rfl) (fun _ _ _ => rfl) pt rule f hcf]
  rfl

/-- parsed entries: (type, rule) -/
def loadEntries (md : ModelDef) (st : Stores) : List (String × Rule) → Option Stores
  | [] => some st
  | (pt, r) :: rest => match Enf.loadLine md st.1 st.2 pt r with
    | none => none
    | some (p, g) => loadEntries md (p, g) rest

def rulesOf (st : Stores) (pt : String) : List Rule :=
  ((st.1.lookup pt).map (·.policy)).getD (((st.2.lookup pt).map (·.policy)).getD [])

/-- an entry that `LoadPolicyArray` accepts: a known policy type with the definition's arity, or a
    known role type with at least the definition's arity; type names start with p / g as in casbin;
    no priority token (then loading appends) -/
def entryOk (md : ModelDef) (e : String × Rule) : Bool :=
  !e.1.isEmpty &&
  ((e.1.front == 'p' && (match md.p.lookup e.1 with
      | some toks => e.2.length == toks.length && toks.idxOf? "priority" == none && e.2.all commaFree && e.2 != []
      | none => false)) ||
   (e.1.front == 'g' && (match md.g.lookup e.1 with
      | some (count, _) => count ≤ e.2.length && e.2.all commaFree && e.2 != []
      | none => false)))

/-- well-formed (empty) starting stores: one coherent store per definition -/
def storesOk (md : ModelDef) (st : Stores) : Prop :=
  st.1.map (·.1) = md.p.map (·.1) ∧ st.2.map (·.1) = md.g.map (·.1) ∧
  (∀ pt s, st.1.lookup pt = some s → Coh s ∧ ∀ r ∈ s.policy, r.all commaFree = true ∧ r ≠ []) ∧
  (∀ gt s, st.2.lookup gt = some s → Coh s ∧ ∀ r ∈ s.policy, r.all commaFree = true ∧ r ≠ [])

/-- the definitions above are those the helper lemmas of `Proofs/C18Load.lean` are stated for -/
theorem loadEntries_eq : @loadEntries = @C18L.loadEntries := by
  funext md st es
  induction es generalizing st with
  | nil => rfl
  | cons e es ih =>
    obtain ⟨pt, r⟩ := e
    simp only [loadEntries, C18L.loadEntries]
    cases Enf.loadLine md st.1 st.2 pt r with
    | none => rfl
    | some x => exact ih _

/-- loading accepted entries: per type, the listed rules grow by the entries' rules of that type
    that are not yet listed, in order, once each — `LoadIncrementalFilteredPolicy` adds the matching
    rules to those already loaded -/
theorem loadEntries_adds (md : ModelDef) (st : Stores) (es : List (String × Rule))
    (hst : storesOk md st) (hdis : ∀ pt, pt ∈ md.p.map (·.1) → pt ∉ md.g.map (·.1))
    (hes : es.all (entryOk md) = true) :
    ∃ st', loadEntries md st es = some st' ∧ storesOk md st' ∧
      ∀ pt, rulesOf st' pt = ((es.filter (·.1 == pt)).map (·.2)).foldl SpecStore.addOne (rulesOf st pt) := by
  have h := C18L.loadEntries_adds md st es hst hdis hes
  rw [← loadEntries_eq] at h
  exact h

/-- a filtered load from scratch lists exactly the selected rules: loading only the entries a
    predicate keeps gives, per type, the full load's rules restricted by that predicate -/
theorem filtered_load_exact (md : ModelDef) (st : Stores) (es : List (String × Rule)) (keep : String × Rule → Bool)
    (hst : storesOk md st) (hempty : ∀ pt, rulesOf st pt = []) (hes : es.all (entryOk md) = true) :
    ∃ full part, loadEntries md st es = some full ∧ loadEntries md st (es.filter keep) = some part ∧
      ∀ pt, rulesOf part pt = (rulesOf full pt).filter (fun r => keep (pt, r)) := by
  have h := C18L.filtered_load_exact md st es keep hst hempty hes
  rw [← loadEntries_eq] at h
  exact h

/-- SavePolicy writes the file exactly when the policy is not filtered … -/
theorem save_guard (filtered : Bool) : (flagStep filtered .save).2 = !filtered ∧ (flagStep filtered .save).1 = filtered := by
  exact ⟨rfl, rfl⟩

/-- … and along any sequence of loads and save attempts the flag is false exactly when some full
    load succeeded and no filtered load — completed or failed — was attempted since: whenever the
    enforcer may hold a partial view, the guard is up -/
theorem guard_tracks_view (calls : List Call) :
    (flagRun true calls).1 = false ↔
      ∃ pre post, calls = pre ++ .loadFull true :: post ∧ ∀ c ∈ post, c.isFilteredLoad = false := by
  rw [flagRun_false_iff]
  simp

/-- consequently a save that writes is never preceded by a filtered load (successful or not)
    without a successful full load in between: a partial view never overwrites the full policy -/
theorem no_clobber (calls : List Call) (i : Nat) (hi : calls[i]? = some .save)
    (hw : (flagRun true calls).2[i]? = some true) :
    ∃ j, j < i ∧ calls[j]? = some (.loadFull true) ∧
      ∀ k, j < k → k < i → ∀ ok, calls[k]? ≠ some (.loadFiltered ok) := by
  rw [flagRun_writes_getElem?, hi] at hw
  simp only [Option.map_some, Option.some.injEq, flagStep, Bool.not_eq_true'] at hw
  obtain ⟨pre, post, e, hpost⟩ := (guard_tracks_view (calls.take i)).1 hw
  have hlen : pre.length + 1 + post.length ≤ i := by
    have := congrArg List.length e
    simp only [List.length_take, List.length_append, List.length_cons] at this
    omega
  have hget : ∀ k, k < i → calls[k]? = (pre ++ Call.loadFull true :: post)[k]? := by
    intro k hk
    rw [← e, List.getElem?_take_of_lt hk]
  refine ⟨pre.length, by omega, ?_, ?_⟩
  · rw [hget _ (by omega)]
    simp
  · intro k hjk hki ok hk
    rw [hget k hki, List.getElem?_append_right (by omega)] at hk
    obtain ⟨m, hm⟩ : ∃ m, k - pre.length = m + 1 := ⟨k - pre.length - 1, by omega⟩
    rw [hm, List.getElem?_cons_succ] at hk
    have := hpost _ (List.mem_of_getElem? hk)
    simp [Call.isFilteredLoad] at this

/-! ### non-vacuity -/
example : filterLine "p, alice , data1, read".toList { p := ["alice".toList] } = false := by decide
example : filterLine "p, bob, data1, read".toList { p := ["alice".toList] } = true := by decide
example : (flagRun true [.loadFiltered true, .save, .loadFull true, .save, .loadFull false, .save, .loadFiltered false, .save]).2 = [false, false, false, true, false, true, false, false] := by decide

end Casbin.C18
