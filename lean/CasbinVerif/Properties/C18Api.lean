import CasbinVerif.Generated.Facts
/-
  C18, continued — the guard flag of the filtered file adapter in the source itself.
  `Facts.filteredCalls` and `Facts.filteredFlagWriters` are regenerated from
  persist/file-adapter/*.go on every run.  The model theorems (C18.guard_tracks_view, C18.no_clobber)
  are about a model in which a filtered load raises the flag before it reads anything, a full load
  lowers it only after it has completed, and SavePolicy asks the flag first; the theorems here show
  that the code has those steps, in that order, and that nothing else writes the flag.
-/
namespace Casbin.C18

abbrev Call := String × String

def filteredCallsOf (f : String) : List Call := (Facts.filteredCalls.lookup f).getD []

/-- a filtered load (with a filter) raises the flag before it reads the file, and never lowers it
    itself (the nil-filter case delegates to LoadPolicy, first thing) -/
theorem source_filtered_load_raises_flag_first :
    filteredCallsOf "FilteredAdapter.LoadFilteredPolicy" =
      [("self", "LoadPolicy"), ("flag", "true"), ("self", "loadFilteredPolicyFile")] := by
  decide

/-- a full load lowers the flag only after the embedded adapter's load, and never raises it -/
theorem source_full_load_lowers_flag_last :
    filteredCallsOf "FilteredAdapter.LoadPolicy" = [("under", "LoadPolicy"), ("flag", "false")] := by
  decide

/-- SavePolicy asks the flag before it reaches the embedded adapter's SavePolicy -/
theorem source_save_asks_flag_first :
    filteredCallsOf "FilteredAdapter.SavePolicy" = [("self", "IsFiltered"), ("under", "SavePolicy")] := by
  decide

/-- a new adapter starts filtered; the flag is written by setFiltered only, and the file reader
    itself never touches it -/
theorem source_flag_written_by_setFiltered_only :
    filteredCallsOf "NewFilteredAdapter" = [("flag", "true")] ∧
    Facts.filteredFlagWriters = ["FilteredAdapter.setFiltered"] ∧
    (filteredCallsOf "FilteredAdapter.loadFilteredPolicyFile").all (fun c => c.1 != "flag") = true := by
  decide

end Casbin.C18
