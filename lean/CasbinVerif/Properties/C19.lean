import CasbinVerif.Model.Distributed
import CasbinVerif.Properties.C10
/-
  C19 — Replicated self-operations are exact, idempotent and deterministic.

  `Enf.*Self` mirror `enforcer_distributed.go`.  `persist` is the caller's predicate (`none` = nil).
  Determinism ("replicas that apply the same log reach identical states") is a property of the
  model by construction — every operation is a function of (state, arguments) — and of the code by
  the correspondence run (every log is replayed on fresh replicas and across replicas).
-/
namespace Casbin.C19

/-- AddPoliciesSelf reports as affected exactly the rules it added: those not yet listed, once
    each, in batch order; they are appended in that order -/
theorem add_affected_exact (e : Enf) (persist : Option Bool) (pt : String) (rules : List Rule) (s : Store)
    (hs : e.getStore "p" pt = some s) (hc : Coh s) (n : Nat) (hn : n ≠ 0)
    (hl : ∀ q ∈ s.policy, plainRule n q = true) (hr : ∀ q ∈ rules, plainRule n q = true)
    (hq : ∀ a, e.adapter = some a → a.failAt = 0) (hprio : e.prioOf "p" pt = none) :
    let r := e.addPoliciesSelf persist "p" pt rules
    r.2.2 = false ∧
    (r.1.getStore "p" pt).map (·.policy) = some (s.policy ++ r.2.1) ∧
    r.2.1 = (rules.foldl SpecStore.addOne s.policy).drop s.policy.length := by
  sorry

/-- RemovePoliciesSelf reports as affected exactly the rules it removed -/
theorem remove_affected_exact (e : Enf) (persist : Option Bool) (pt : String) (rules : List Rule) (s : Store)
    (hs : e.getStore "p" pt = some s) (hc : Coh s) (n : Nat) (hn : n ≠ 0)
    (hl : ∀ q ∈ s.policy, plainRule n q = true) (hr : ∀ q ∈ rules, plainRule n q = true)
    (hq : ∀ a, e.adapter = some a → a.failAt = 0) :
    let r := e.removePoliciesSelf persist "p" pt rules
    r.2.2 = false ∧
    (r.1.getStore "p" pt).map (·.policy) = some (rules.foldl List.erase s.policy) ∧
    r.2.1 = rules.eraseDups.filter (· ∈ s.policy) := by
  sorry

/-- applying the same addition a second time changes nothing and reports nothing -/
theorem add_idempotent (e : Enf) (persist : Option Bool) (pt : String) (rules : List Rule) (s : Store)
    (hs : e.getStore "p" pt = some s) (hc : Coh s) (n : Nat) (hn : n ≠ 0)
    (hl : ∀ q ∈ s.policy, plainRule n q = true) (hr : ∀ q ∈ rules, plainRule n q = true)
    (hq : ∀ a, e.adapter = some a → a.failAt = 0) (hprio : e.prioOf "p" pt = none) :
    let e₁ := (e.addPoliciesSelf persist "p" pt rules).1
    let r₂ := e₁.addPoliciesSelf none "p" pt rules
    r₂.2.1 = [] ∧ r₂.1.memory = e₁.memory := by
  sorry

/-- … and the same removal -/
theorem remove_idempotent (e : Enf) (persist : Option Bool) (pt : String) (rules : List Rule) (s : Store)
    (hs : e.getStore "p" pt = some s) (hc : Coh s) (n : Nat) (hn : n ≠ 0)
    (hl : ∀ q ∈ s.policy, plainRule n q = true) (hr : ∀ q ∈ rules, plainRule n q = true)
    (hq : ∀ a, e.adapter = some a → a.failAt = 0) :
    let e₁ := (e.removePoliciesSelf persist "p" pt rules).1
    let r₂ := e₁.removePoliciesSelf none "p" pt rules
    r₂.2.1 = [] ∧ r₂.1.memory = e₁.memory := by
  sorry

/-- the storage adapter is touched only when the caller's persist predicate says so -/
theorem persist_iff_predicate (e : Enf) (persist : Option Bool) (sec pt : String) (rules : List Rule) (old new : Rule)
    (fi : Nat) (vals : List String) (hp : Enf.wantsPersist persist = false) :
    (e.addPoliciesSelf persist sec pt rules).1.adapter = e.adapter ∧
    (e.removePoliciesSelf persist sec pt rules).1.adapter = e.adapter ∧
    (e.updatePolicySelf persist sec pt old new).1.adapter = e.adapter ∧
    (e.updatePoliciesSelf persist sec pt rules rules).1.adapter = e.adapter ∧
    (e.clearPolicySelf persist).1.adapter = e.adapter ∧
    (∀ r, e.removeFilteredPolicySelf persist sec pt fi vals = some r → r.1.adapter = e.adapter) := by
  sorry

/-- a persisting replica calls its adapter exactly once per operation -/
theorem persist_calls_once (e : Enf) (sec pt : String) (rules : List Rule) (a : AdapterSt) (ha : e.adapter = some a)
    (s : Store) (hs : e.getStore sec pt = some s) :
    ∃ a', (e.addPoliciesSelf (some true) sec pt rules).1.adapter = some a' ∧ a'.calls = a.calls + 1 ∧
    ∃ a'', (e.removePoliciesSelf (some true) sec pt rules).1.adapter = some a'' ∧ a''.calls = a.calls + 1 := by
  sorry

/-- Self operations never notify a watcher -/
theorem self_silent (e : Enf) (persist : Option Bool) (sec pt : String) (rules : List Rule) (old new : Rule) :
    (e.addPoliciesSelf persist sec pt rules).1.notif = e.notif ∧
    (e.removePoliciesSelf persist sec pt rules).1.notif = e.notif ∧
    (e.updatePolicySelf persist sec pt old new).1.notif = e.notif ∧
    (e.updatePoliciesSelf persist sec pt rules rules).1.notif = e.notif ∧
    (e.clearPolicySelf persist).1.notif = e.notif := by
  sorry

/-- replicas converge: the persist predicate does not influence rules, links or what is reported -/
theorem predicate_irrelevant_to_memory (e : Enf) (p₁ p₂ : Option Bool) (sec pt : String) (rules : List Rule)
    (hq : ∀ a, e.adapter = some a → a.failAt = 0) :
    (e.addPoliciesSelf p₁ sec pt rules).1.memory = (e.addPoliciesSelf p₂ sec pt rules).1.memory ∧
    (e.addPoliciesSelf p₁ sec pt rules).2 = (e.addPoliciesSelf p₂ sec pt rules).2 ∧
    (e.removePoliciesSelf p₁ sec pt rules).1.memory = (e.removePoliciesSelf p₂ sec pt rules).1.memory ∧
    (e.removePoliciesSelf p₁ sec pt rules).2 = (e.removePoliciesSelf p₂ sec pt rules).2 := by
  sorry

end Casbin.C19
