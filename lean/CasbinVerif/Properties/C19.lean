import CasbinVerif.Model.Distributed
import CasbinVerif.Properties.C10
import CasbinVerif.Proofs.C19Enf
/-
  C19 — Replicated self-operations are exact, idempotent and deterministic.

  `Enf.*Self` mirror `enforcer_distributed.go`.  `persist` is the caller's predicate (`none` = nil).
  Determinism ("replicas that apply the same log reach identical states") is a property of the
  model by construction — every operation is a function of (state, arguments) — and of the code by
  the correspondence run (every log is replayed on fresh replicas and across replicas).
-/
namespace Casbin.C19

/-- AddPoliciesSelf reports as affected exactly the rules it added: those not yet listed, once
    each, in batch order; they are appended in that order -/
theorem add_affected_exact (e : Enf) (persist : Option Bool) (pt : String) (rules : List Rule) (s : Store)
    (hs : e.getStore "p" pt = some s) (hc : Coh s) (n : Nat) (hn : n ≠ 0)
    (hl : ∀ q ∈ s.policy, plainRule n q = true) (hr : ∀ q ∈ rules, plainRule n q = true)
    (hq : ∀ a, e.adapter = some a → a.failAt = 0) (hprio : e.prioOf "p" pt = none) :
    let r := e.addPoliciesSelf persist "p" pt rules
    r.2.2 = false ∧
    (r.1.getStore "p" pt).map (·.policy) = some (s.policy ++ r.2.1) ∧
    r.2.1 = (rules.foldl SpecStore.addOne s.policy).drop s.policy.length := by
  obtain ⟨X, hX⟩ := Enf.addPoliciesSelf_some persist rules hs hq
  have g : Good n s := ⟨hc, hl⟩
  obtain ⟨_, hp⟩ := addMany_spec hn rules g hr
  have haff := addMany_affected hn rules g hr
  rw [Enf.addTail_p, hprio] at hX
  simp only [hX]
  refine ⟨trivial, ?_, ?_⟩
  · rw [Enf.getStore_setAdapter, Enf.getStore_setStore_p, Option.map_some, haff]
  · rw [← hp, haff, List.drop_left]

/-- RemovePoliciesSelf reports as affected exactly the rules it removed -/
theorem remove_affected_exact (e : Enf) (persist : Option Bool) (pt : String) (rules : List Rule) (s : Store)
    (hs : e.getStore "p" pt = some s) (hc : Coh s) (n : Nat) (hn : n ≠ 0)
    (hl : ∀ q ∈ s.policy, plainRule n q = true) (hr : ∀ q ∈ rules, plainRule n q = true)
    (hq : ∀ a, e.adapter = some a → a.failAt = 0) :
    let r := e.removePoliciesSelf persist "p" pt rules
    r.2.2 = false ∧
    (r.1.getStore "p" pt).map (·.policy) = some (rules.foldl List.erase s.policy) ∧
    r.2.1 = rules.eraseDups.filter (· ∈ s.policy) := by
  obtain ⟨X, hX⟩ := Enf.removePoliciesSelf_quiet e persist "p" pt rules hq
  have g : Good n s := ⟨hc, hl⟩
  obtain ⟨_, hp, _⟩ := removeMany_spec hn rules g hr
  have haff := removeMany_affected hn rules g hr
  rw [Enf.removeTail_p e pt rules hs] at hX
  simp only [hX]
  refine ⟨trivial, ?_, ?_⟩
  · rw [Enf.getStore_setAdapter, Enf.getStore_setStore_p, Option.map_some, hp]
  · rw [haff, specRemoved_eq hc.1]

/-- applying the same addition a second time changes nothing and reports nothing -/
theorem add_idempotent (e : Enf) (persist : Option Bool) (pt : String) (rules : List Rule) (s : Store)
    (hs : e.getStore "p" pt = some s) (hc : Coh s) (n : Nat) (hn : n ≠ 0)
    (hl : ∀ q ∈ s.policy, plainRule n q = true) (hr : ∀ q ∈ rules, plainRule n q = true)
    (hq : ∀ a, e.adapter = some a → a.failAt = 0) (hprio : e.prioOf "p" pt = none) :
    let e₁ := (e.addPoliciesSelf persist "p" pt rules).1
    let r₂ := e₁.addPoliciesSelf none "p" pt rules
    r₂.2.1 = [] ∧ r₂.1.memory = e₁.memory := by
  obtain ⟨X, hX⟩ := Enf.addPoliciesSelf_some persist rules hs hq
  have g : Good n s := ⟨hc, hl⟩
  obtain ⟨g', hp⟩ := addMany_spec hn rules g hr
  rw [Enf.addTail_p, hprio] at hX
  have hall : ∀ r ∈ rules, (s.addMany none rules).1.has r = true := fun r hrr =>
    (g'.has_iff hn (hr r hrr)).2 (hp ▸ mem_foldl_addOne_of_mem rules s.policy hrr)
  have hs₁ : ((e.setStore "p" pt (s.addMany none rules).1).setAdapter X).getStore "p" pt =
      some (s.addMany none rules).1 := by
    rw [Enf.getStore_setAdapter, Enf.getStore_setStore_p]
  simp only [hX]
  rw [Enf.addPoliciesSelf_noPersist rules rfl hs₁, Enf.addTail_p, addMany_all_has _ _ _ hall]
  refine ⟨rfl, ?_⟩
  rw [Enf.setStore_setAdapter, Enf.memory_setAdapter, Enf.memory_setAdapter, Enf.memory_setStore_p_twice]

/-- … and the same removal -/
theorem remove_idempotent (e : Enf) (persist : Option Bool) (pt : String) (rules : List Rule) (s : Store)
    (hs : e.getStore "p" pt = some s) (hc : Coh s) (n : Nat) (hn : n ≠ 0)
    (hl : ∀ q ∈ s.policy, plainRule n q = true) (hr : ∀ q ∈ rules, plainRule n q = true)
    (hq : ∀ a, e.adapter = some a → a.failAt = 0) :
    let e₁ := (e.removePoliciesSelf persist "p" pt rules).1
    let r₂ := e₁.removePoliciesSelf none "p" pt rules
    r₂.2.1 = [] ∧ r₂.1.memory = e₁.memory := by
  obtain ⟨X, hX⟩ := Enf.removePoliciesSelf_quiet e persist "p" pt rules hq
  have g : Good n s := ⟨hc, hl⟩
  obtain ⟨g', hp, _⟩ := removeMany_spec hn rules g hr
  rw [Enf.removeTail_p e pt rules hs] at hX
  have hnone : ∀ r ∈ rules, (s.removeMany rules).1.has r = false := by
    intro r hrr
    cases hh : (s.removeMany rules).1.has r with
    | false => rfl
    | true =>
      have := (g'.has_iff hn (hr r hrr)).1 hh
      rw [hp] at this
      exact absurd this (not_mem_foldl_erase hc.1 rules hrr)
  have hs₁ : ((e.setStore "p" pt (s.removeMany rules).1).setAdapter X).getStore "p" pt =
      some (s.removeMany rules).1 := by
    rw [Enf.getStore_setAdapter, Enf.getStore_setStore_p]
  simp only [hX]
  rw [Enf.removePoliciesSelf_noPersist "p" pt rules rfl, Enf.removeTail_p _ pt rules hs₁,
    removeMany_none_has _ _ hnone]
  refine ⟨rfl, ?_⟩
  rw [Enf.setStore_setAdapter, Enf.memory_setAdapter, Enf.memory_setAdapter, Enf.memory_setStore_p_twice]

/-- the storage adapter is touched only when the caller's persist predicate says so -/
theorem persist_iff_predicate (e : Enf) (persist : Option Bool) (sec pt : String) (rules : List Rule) (old new : Rule)
    (fi : Nat) (vals : List String) (hp : Enf.wantsPersist persist = false) :
    (e.addPoliciesSelf persist sec pt rules).1.adapter = e.adapter ∧
    (e.removePoliciesSelf persist sec pt rules).1.adapter = e.adapter ∧
    (e.updatePolicySelf persist sec pt old new).1.adapter = e.adapter ∧
    (e.updatePoliciesSelf persist sec pt rules rules).1.adapter = e.adapter ∧
    (e.clearPolicySelf persist).1.adapter = e.adapter ∧
    (∀ r, e.removeFilteredPolicySelf persist sec pt fi vals = some r → r.1.adapter = e.adapter) := by
  exact ⟨Enf.sameAd_addPoliciesSelf e persist sec pt rules hp,
    Enf.sameAd_removePoliciesSelf e persist sec pt rules hp,
    Enf.sameAd_updatePolicySelf e persist sec pt old new hp,
    Enf.sameAd_updatePoliciesSelf e persist sec pt rules rules hp,
    Enf.sameAd_clearPolicySelf e persist hp,
    fun r h => Enf.sameAd_removeFilteredPolicySelf e persist sec pt fi vals hp r h⟩

/-- a persisting replica calls its adapter exactly once per operation -/
theorem persist_calls_once (e : Enf) (sec pt : String) (rules : List Rule) (a : AdapterSt) (ha : e.adapter = some a)
    (s : Store) (hs : e.getStore sec pt = some s) :
    ∃ a', (e.addPoliciesSelf (some true) sec pt rules).1.adapter = some a' ∧ a'.calls = a.calls + 1 ∧
    ∃ a'', (e.removePoliciesSelf (some true) sec pt rules).1.adapter = some a'' ∧ a''.calls = a.calls + 1 := by
  obtain ⟨a', h1, h2⟩ := Enf.calls_addPoliciesSelf rules ha hs
  obtain ⟨a'', h3, h4⟩ := Enf.calls_removePoliciesSelf sec pt rules ha
  exact ⟨a', h1, h2, a'', h3, h4⟩

/-- Self operations never notify a watcher -/
theorem self_silent (e : Enf) (persist : Option Bool) (sec pt : String) (rules : List Rule) (old new : Rule) :
    (e.addPoliciesSelf persist sec pt rules).1.notif = e.notif ∧
    (e.removePoliciesSelf persist sec pt rules).1.notif = e.notif ∧
    (e.updatePolicySelf persist sec pt old new).1.notif = e.notif ∧
    (e.updatePoliciesSelf persist sec pt rules rules).1.notif = e.notif ∧
    (e.clearPolicySelf persist).1.notif = e.notif := by
  exact ⟨(Enf.sameAux_addPoliciesSelf e persist sec pt rules).notif,
    (Enf.sameAux_removePoliciesSelf e persist sec pt rules).notif,
    (Enf.sameAux_updatePolicySelf e persist sec pt old new).notif,
    (Enf.sameAux_updatePoliciesSelf e persist sec pt rules rules).notif,
    (Enf.sameAux_clearPolicySelf e persist).notif⟩

/-- replicas converge: the persist predicate does not influence rules, links or what is reported -/
theorem predicate_irrelevant_to_memory (e : Enf) (p₁ p₂ : Option Bool) (sec pt : String) (rules : List Rule)
    (hq : ∀ a, e.adapter = some a → a.failAt = 0) :
    (e.addPoliciesSelf p₁ sec pt rules).1.memory = (e.addPoliciesSelf p₂ sec pt rules).1.memory ∧
    (e.addPoliciesSelf p₁ sec pt rules).2 = (e.addPoliciesSelf p₂ sec pt rules).2 ∧
    (e.removePoliciesSelf p₁ sec pt rules).1.memory = (e.removePoliciesSelf p₂ sec pt rules).1.memory ∧
    (e.removePoliciesSelf p₁ sec pt rules).2 = (e.removePoliciesSelf p₂ sec pt rules).2 := by
  obtain ⟨Y₁, hY₁⟩ := Enf.removePoliciesSelf_quiet e p₁ sec pt rules hq
  obtain ⟨Y₂, hY₂⟩ := Enf.removePoliciesSelf_quiet e p₂ sec pt rules hq
  cases hs : e.getStore sec pt with
  | none =>
    rw [Enf.addPoliciesSelf_none_store p₁ rules hs, Enf.addPoliciesSelf_none_store p₂ rules hs, hY₁, hY₂]
    exact ⟨rfl, rfl, rfl, rfl⟩
  | some s =>
    obtain ⟨X₁, hX₁⟩ := Enf.addPoliciesSelf_some p₁ rules hs hq
    obtain ⟨X₂, hX₂⟩ := Enf.addPoliciesSelf_some p₂ rules hs hq
    rw [hX₁, hX₂, hY₁, hY₂]
    exact ⟨rfl, rfl, rfl, rfl⟩

end Casbin.C19
