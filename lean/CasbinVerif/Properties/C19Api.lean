import CasbinVerif.Spec.ApiExpected
/-
  C19, continued — the Self calls in the source: storage before memory, links after memory, no
  `shouldPersist()` of the enforcer (the caller's predicate decides), no watcher.
-/
namespace Casbin.C19
open Casbin.Api

theorem source_self_order :
    ∀ f ∈ selfCalls, (Facts.apiCalls.lookup f).isSome = true ∧
      persistFirst (callsOf f) = true ∧ linksAfterMemory (callsOf f) = true ∧
      (callsOf f).all (fun c => c != ("guard", "persist") && c != ("guard", "notify")) = true := by
  decide

end Casbin.C19
