import CasbinVerif.Model.Distributed
import CasbinVerif.Proofs.C19Updf
/-
  C19 (continued) — `UpdateFilteredPoliciesSelf` (`Enf.updateFilteredPoliciesSelf`): it never
  notifies, touches the adapter only when the caller's predicate says so, and — because the old
  rules are what the adapter reports as replaced — a replica that does not persist never removes
  anything and never reports a change (the property exercises it on persisting replicas only).
-/
namespace Casbin.C19Updf

/-- no Self operation notifies a watcher: the notification log is untouched -/
theorem updf_self_silent (e : Enf) (pr : Option Bool) (sec pt : String) (news : List Rule) (fi : Nat) (vals : List String) :
    (e.updateFilteredPoliciesSelf pr sec pt news fi vals).1.notif = e.notif := by
  exact (Enf.sameAux_updateFilteredPoliciesSelf e pr sec pt news fi vals).notif

/-- the adapter is left alone unless the predicate says persist -/
theorem updf_no_persist_adapter_untouched (e : Enf) (pr : Option Bool) (sec pt : String) (news : List Rule)
    (fi : Nat) (vals : List String) (h : Enf.wantsPersist pr = false) :
    (e.updateFilteredPoliciesSelf pr sec pt news fi vals).1.adapter = e.adapter := by
  rw [Enf.updateFilteredPoliciesSelf_noPersist e pr sec pt news fi vals h]
  cases e.getStore sec pt with
  | none => rfl
  | some s => exact Enf.adapter_setStore _ _ _ _

/-- a replica that does not persist learns no old rules: it reports no change and no error -/
theorem updf_no_persist_reports_nothing (e : Enf) (pr : Option Bool) (sec pt : String) (news : List Rule)
    (fi : Nat) (vals : List String) (h : Enf.wantsPersist pr = false) (s : Store) (hs : e.getStore sec pt = some s) :
    (e.updateFilteredPoliciesSelf pr sec pt news fi vals).2 = (false, false) := by
  rw [Enf.updateFilteredPoliciesSelf_noPersist e pr sec pt news fi vals h, hs]

/-- … and the role links are as they were -/
theorem updf_no_persist_links_untouched (e : Enf) (pr : Option Bool) (sec pt : String) (news : List Rule)
    (fi : Nat) (vals : List String) (h : Enf.wantsPersist pr = false) :
    (e.updateFilteredPoliciesSelf pr sec pt news fi vals).1.rm = e.rm := by
  rw [Enf.updateFilteredPoliciesSelf_noPersist e pr sec pt news fi vals h]
  cases e.getStore sec pt with
  | none => rfl
  | some s => exact Enf.rm_setStore _ _ _ _

/-- a failing adapter call leaves rules and links untouched and is reported -/
theorem updf_adapter_failure_atomic (e : Enf) (pr : Option Bool) (sec pt : String) (news : List Rule)
    (fi : Nat) (vals : List String) (h : Enf.wantsPersist pr = true) (a : AdapterSt) (ha : e.adapter = some a)
    (hf : (a.call s!"UpdateFilteredPolicies({pt};{Enf.showRules news};{fi};{Enf.showRule vals})").2 = false) :
    let r := e.updateFilteredPoliciesSelf pr sec pt news fi vals
    r.2 = (false, true) ∧ r.1.p = e.p ∧ r.1.g = e.g ∧ r.1.rm = e.rm := by
  intro r
  have hr : r = _ := Enf.updateFilteredPoliciesSelf_fail e pr sec pt news fi vals h a ha hf
  rw [hr]
  exact ⟨rfl, rfl, rfl, rfl⟩

end Casbin.C19Updf
