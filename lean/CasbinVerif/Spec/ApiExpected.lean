import CasbinVerif.Generated.Facts
/-
  What the call skeletons extracted from internal_api.go, enforcer.go and enforcer_distributed.go
  (`Facts.apiCalls`, regenerated from the source on every run) must look like for the order
  theorems of the enforcer model (C11.persist_precedes_mutate, C15.notify_is_last, C19) to be
  about the code's order and not only the model's.  The predicates are decidable; the theorems in
  Properties/C11Api.lean, C15Api.lean and C19Api.lean decide them over the regenerated table.
-/
namespace Casbin.Api

abbrev Call := String × String

/-- the model methods that change listed rules -/
def memMutators : List String :=
  ["AddPolicy", "AddPolicies", "AddPoliciesWithAffected", "RemovePolicy", "RemovePolicies",
   "RemovePoliciesWithAffected", "UpdatePolicy", "UpdatePolicies", "RemoveFilteredPolicy", "ClearPolicy"]

def isMut (c : Call) : Bool := c.1 == "model" && memMutators.contains c.2

/-- a call that reaches storage (`IsFiltered` only reads a flag) -/
def isAdapter (c : Call) : Bool := c.1 == "adapter" && c.2 != "IsFiltered"

/-- storage first: no adapter call after the first change of memory -/
def persistFirst (calls : List Call) : Bool :=
  ((calls.dropWhile (fun c => !isMut c)).drop 1).all (fun c => !isAdapter c)

/-- the first adapter call comes after the `shouldPersist()` guard -/
def guarded (calls : List Call) : Bool :=
  let pre := calls.takeWhile (fun c => !isAdapter c)
  pre.length == calls.length || pre.contains ("guard", "persist")

/-- role links are only touched after memory has been changed -/
def linksAfterMemory (calls : List Call) : Bool :=
  (calls.takeWhile (fun c => !isMut c)).all (fun c => c.1 != "links")

/-- a notifying wrapper: the un-notified call, then the `shouldNotify()` guard, then watcher calls only -/
def notifyLast (inner : String) (calls : List Call) : Bool :=
  match calls with
  | c :: g :: rest => c == ("self", inner) && g == ("guard", "notify") && !rest.isEmpty && rest.all (fun w => w.1 == "watcher")
  | _ => false

/-- the eight `*WithoutNotify` functions of internal_api.go -/
def withoutNotify : List String :=
  ["Enforcer.addPolicyWithoutNotify", "Enforcer.addPoliciesWithoutNotify", "Enforcer.removePolicyWithoutNotify",
   "Enforcer.removePoliciesWithoutNotify", "Enforcer.removeFilteredPolicyWithoutNotify",
   "Enforcer.updatePolicyWithoutNotify", "Enforcer.updatePoliciesWithoutNotify",
   "Enforcer.updateFilteredPoliciesWithoutNotify"]

/-- the notifying wrappers and the function each of them wraps -/
def notifyWrappers : List (String × String) :=
  [("Enforcer.addPolicy", "addPolicyWithoutNotify"), ("Enforcer.addPolicies", "addPoliciesWithoutNotify"),
   ("Enforcer.removePolicy", "removePolicyWithoutNotify"), ("Enforcer.removePolicies", "removePoliciesWithoutNotify"),
   ("Enforcer.removeFilteredPolicy", "removeFilteredPolicyWithoutNotify"),
   ("Enforcer.updatePolicy", "updatePolicyWithoutNotify"), ("Enforcer.updatePolicies", "updatePoliciesWithoutNotify"),
   ("Enforcer.updateFilteredPolicies", "updateFilteredPoliciesWithoutNotify")]

/-- the replay calls of the distributed enforcer -/
def selfCalls : List String :=
  ["DistributedEnforcer.AddPoliciesSelf", "DistributedEnforcer.RemovePoliciesSelf",
   "DistributedEnforcer.RemoveFilteredPolicySelf", "DistributedEnforcer.UpdatePolicySelf",
   "DistributedEnforcer.UpdatePoliciesSelf", "DistributedEnforcer.UpdateFilteredPoliciesSelf",
   "DistributedEnforcer.ClearPolicySelf"]

def callsOf (f : String) : List Call := (Facts.apiCalls.lookup f).getD []

end Casbin.Api
