import CasbinVerif.Model.Cached
/-
  Vocabulary of the transparency statement (C14): which calls invalidate a request tuple, the
  clock and the configured lifetime along a history.
-/
namespace Casbin.Cache

/-- does the call invalidate what was cached for the request tuple `q`? -/
def invalidates (synced : Bool) (q : List Param) : Ev → Bool
  | .invalidate | .load | .clear => true
  | .remove r => r == q
  | .removes rs => rs.contains q
  | .add r => synced && r == q
  | .adds rs => synced && rs.contains q
  | _ => false

/-- the clock before the i-th call -/
def nowBefore (evs : List Ev) (i : Nat) : Nat :=
  ((evs.take i).map (fun ev => match ev with | .tick n => n | _ => 0)).sum

/-- the configured lifetime before the i-th call (0 = entries never expire) -/
def ttlBefore (evs : List Ev) (i : Nat) : Nat :=
  (evs.take i).foldl (fun t ev => match ev with | .setTTL n => n | _ => t) 0

end Casbin.Cache
