import CasbinVerif.Basic
/-
  The specification of policy effects, literally the four sentences of property C02.
-/
namespace Casbin

def isAllow (c : Cell) : Bool := c.matched && c.eft = .allow
def isDeny (c : Cell) : Bool := c.matched && c.eft = .deny
/-- matched with a determinate (allow or deny) effect -/
def det (c : Cell) : Bool := c.matched && c.eft ≠ .indeterminate

def effectSpec : EffectKind → List Cell → Bool
  | .allowOverride, v => v.any isAllow
  | .denyOverride, v => !(v.any isDeny)
  | .allowAndDeny, v => v.any isAllow && !(v.any isDeny)
  | .priority, v | .subjectPriority, v =>
      match v.find? det with
      | some c => c.eft = .allow
      | none => false

end Casbin
