import CasbinVerif.Spec.Persist
/-
  The hypotheses of the state-machine theorems, relaxed for the two update calls now that
  `Enforcer.updatable` (mirrored as `updatable` in Model/Enforcer.lean) refuses, before anything is
  touched, every update that cannot be carried out cleanly: `WF06` demanded of an update that its
  new rule be fresh and different from the old one; `WF06g` demands nothing of `update` /
  `updateMany` beyond what it demands of every call (rules of the definition's arity with
  comma-free fields).  Updates to a listed rule, updates naming an unlisted rule, repeated old
  rules, identity pairs and batches of unequal length are all inside the hypothesis.
-/
namespace Casbin

def WF06g (n : Nat) (l : List Rule) (op : StoreOp) : Bool :=
  (op.rules.all (plainRule n)) && (l.all (plainRule n)) && n != 0 &&
  match op with
  | .add _ | .remove _ | .removeMany _ => true
  | .addMany _ rs => !rs.isEmpty
  | .update _ _ => true
  | .updateMany _ _ => true
  | .removeFiltered fi vals => !vals.isEmpty && fi + vals.length ≤ n

/-- like `Enf.opWF`, with `WF06g` -/
def Enf.opWFg (e : Enf) (op : MOp) : Bool :=
  match op.storeOp with
  | none => true
  | some (sec, pt, sop) =>
      match e.arity sec pt, e.getStore sec pt with
      | some n, some s => WF06g n s.policy sop
      | _, _ => false

def Enf.opWF10g (e : Enf) (op : MOp) : Bool :=
  e.opWFg op &&
  match op with
  | .clear => false
  | _ => true

/-- the guard in terms of the listed rules alone: every old rule is listed, no old rule is named
    twice, and every new rule either equals its old rule or is not listed and not the new rule of an
    earlier pair -/
def specUpdatableFrom (l : List Rule) : List Rule → List Rule → List (Rule × Rule) → Bool
  | _, _, [] => true
  | seenOld, seenNew, (o, n) :: rest =>
      if !l.contains o then false
      else if seenOld.contains o then false
      else if n == o then specUpdatableFrom l (o :: seenOld) seenNew rest
      else if l.contains n then false
      else if seenNew.contains n then false
      else specUpdatableFrom l (o :: seenOld) (n :: seenNew) rest

def specUpdatable (l : List Rule) (olds news : List Rule) : Bool := specUpdatableFrom l [] [] (olds.zip news)

/-- the memory part of a guarded batch update (`none` = the length error) -/
def Mgmt.guardedUpdateMany (s : Store) (olds news : List Rule) : Option (Store × Bool) :=
  if olds.length != news.length then none
  else if !Enf.updatable s olds news then some (s, false)
  else some (s.updateMany olds news)

end Casbin
