import CasbinVerif.Model.KeyMatch
/-
  Segment semantics of the path matchers (C09), straight from the property statement: a well-formed
  pattern is "/" seg "/" seg … optionally followed by "/*"; a literal segment must be equal, a
  placeholder segment (`:name` or `{name}`) is filled by one non-empty '/'-free segment, the
  trailing "/*" covers the rest (which needs the slash and may be empty or span several segments).
  No regular expressions here.
-/
namespace Casbin.KM

inductive PSeg | lit (s : List Char) | ph (name : List Char)
deriving Repr, DecidableEq

structure Pat where
  segs : List PSeg
  wild : Bool
deriving Repr

def renderSeg (st : Style) : PSeg → List Char
  | .lit s => s
  | .ph n => match st with
    | .colon => ':' :: n
    | .brace => '{' :: n ++ ['}']

/-- the pattern text -/
def render (st : Style) (p : Pat) : List Char :=
  p.segs.flatMap (fun s => '/' :: renderSeg st s) ++ (if p.wild then ['/', '*'] else [])

def litOk (c : Char) : Bool := !isMeta c && c != '/' && c != ':' && c != '\n'
def nameOk (c : Char) : Bool := c != '/' && c != '{' && c != '}'

/-- the statement's "well-formed patterns" -/
def PatWF (p : Pat) : Bool :=
  p.segs.all (fun s => match s with
    | .lit l => l.all litOk
    | .ph n => !n.isEmpty && n.all nameOk)

/-- does the path match, and with which placeholder values (in pattern order)? -/
def segCapture : List PSeg → Bool → List Char → Option (List (List Char))
  | [], false, s => if s.isEmpty then some [] else none
  | [], true, s => match s with
    | '/' :: rest => if rest.contains '\n' then none else some []
    | _ => none
  | seg :: more, w, '/' :: s =>
      let (v, after) := spanSeg s
      match seg with
      | .lit l => if v == l then segCapture more w after else none
      | .ph _ => if v.isEmpty then none else (segCapture more w after).map (fun r => v :: r)
  | _ :: _, _, _ => none

def segMatch (p : Pat) (path : List Char) : Bool := (segCapture p.segs p.wild path).isSome

def phNames (p : Pat) : List (List Char) := p.segs.filterMap (fun s => match s with | .ph n => some n | _ => none)

/-- KeyMatch4: additionally, placeholders with the same name are filled with equal segments -/
def segMatch4 (p : Pat) (path : List Char) : Bool :=
  match segCapture p.segs p.wild path with
  | none => false
  | some vals =>
      let pairs := (phNames p).zip vals
      pairs.all (fun (nm, v) => pairs.all (fun (nm', v') => nm != nm' || v == v'))

/-- KeyGet2 / KeyGet3: the segment that filled the first placeholder called `var`, "" otherwise -/
def segGet (p : Pat) (path : List Char) (var : List Char) : List Char :=
  match segCapture p.segs p.wild path with
  | none => []
  | some vals => (((phNames p).zip vals).find? (fun q => q.1 == var)).map (·.2) |>.getD []

/-- CIDR arithmetic: the address lies in the block of `2^(32-len)` addresses starting at the
    network address rounded down to the block size -/
def inBlock (addr net len : Nat) : Bool :=
  let size := 2 ^ (32 - len)
  let base := net / size * size
  base ≤ addr && addr < base + size

/-- the same block arithmetic for 128-bit addresses -/
def inBlock6 (addr net len : Nat) : Bool :=
  let size := 2 ^ (128 - len)
  let base := net / size * size
  base ≤ addr && addr < base + size

end Casbin.KM
