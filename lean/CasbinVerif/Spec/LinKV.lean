import CasbinVerif.Model.Lin
/-
  The smallest specification that exhibits finding D19: a memory copy of a persisted set, an
  auto-saving `add`, a membership query and `load` (memory := store) — atomic, or split into the
  two phases SyncedEnforcer.LoadPolicy really has (read the store under RLock; install what was
  read under Lock).
-/
namespace Casbin.Lin.KV

inductive KOp
  | add (x : String)
  | has (x : String)
  | load
  | loadRead (k : Nat)
  | loadApply (k : Nat)
deriving Repr, DecidableEq

structure KSt where
  mem : List String := []
  store : List String := []
  snaps : List (Nat × List String) := []
deriving Repr

def kstep (s : KSt) : KOp → KSt × String
  | .add x => if s.mem.contains x then (s, "false") else ({ s with mem := s.mem ++ [x], store := s.store ++ [x] }, "true")
  | .has x => (s, if s.mem.contains x then "true" else "false")
  | .load => ({ s with mem := s.store }, "ok")
  | .loadRead k => ({ s with snaps := (k, s.store) :: s.snaps }, "ok")
  | .loadApply k =>
      match s.snaps.lookup k with
      | some snap => ({ s with mem := snap }, "ok")
      | none => (s, "err")

def init : KSt := { mem := ["alice"], store := ["alice"] }

/-- LoadPolicy ‖ AddPolicy(bob), then HasPolicy(bob) = false after both have returned -/
def d19 : List (Call KOp) :=
  [ { id := 0, inv := 0, res := 5, op := .load, obs := "ok" },
    { id := 1, inv := 1, res := 2, op := .add "bob", obs := "true" },
    { id := 2, inv := 6, res := 7, op := .has "bob", obs := "false" } ]

/-- the same history with LoadPolicy read as its two phases -/
def d19TwoPhase : List (Call KOp) :=
  [ { id := 0, inv := 0, res := 5, op := .loadRead 0, obs := "ok" },
    { id := 3, inv := 0, res := 5, op := .loadApply 0, obs := "ok", after := some 0 },
    { id := 1, inv := 1, res := 2, op := .add "bob", obs := "true" },
    { id := 2, inv := 6, res := 7, op := .has "bob", obs := "false" } ]

end Casbin.Lin.KV
