import CasbinVerif.Model.EnfOps
import CasbinVerif.Spec.Perm
import CasbinVerif.Spec.Store
/-
  Shared vocabulary for the state-machine properties (C04, C05, C10, C11, C15): the grouping /
  policy operations of the public API as an inductive type, their application to the enforcer
  model, and the state invariants.
-/
namespace Casbin

/-- the store-level view of a management call (for the WF06 hypothesis) -/
def MOp.storeOp : MOp → Option (String × String × StoreOp)
  | .add sec pt r => some (sec, pt, .add r)
  | .addMany sec pt ex rs => some (sec, pt, .addMany ex rs)
  | .remove sec pt r => some (sec, pt, .remove r)
  | .removeMany sec pt rs => some (sec, pt, .removeMany rs)
  | .update sec pt o n => some (sec, pt, .update o n)
  | .updateMany sec pt os ns => some (sec, pt, .updateMany os ns)
  | .removeFiltered sec pt fi vals => some (sec, pt, .removeFiltered fi vals)
  | .clear | .buildLinks => none

/-- the arity of a definition: number of policy tokens / number of `_` of a role definition -/
def Enf.arity (e : Enf) (sec pt : String) : Option Nat :=
  if sec == "p" then (e.md.p.lookup pt).map List.length
  else if sec == "g" then (e.md.g.lookup pt).map (·.1) else none

/-- the operation addresses an existing definition and satisfies WF06 on its store -/
def Enf.opWF (e : Enf) (op : MOp) : Bool :=
  match op.storeOp with
  | none => true
  | some (sec, pt, sop) =>
      match e.arity sec pt, e.getStore sec pt with
      | some n, some s => WF06 n s.policy sop
      | _, _ => false

/-- structural well-formedness of an enforcer state: one store and (for g) one role manager of the
    right kind per definition, coherent stores, listed rules plain and of the definition's arity,
    role definitions with at least two `_` -/
def Enf.WFState (e : Enf) : Prop :=
  (e.p.map (·.1) = e.md.p.map (·.1)) ∧ (e.g.map (·.1) = e.md.g.map (·.1)) ∧ (e.rm.map (·.1) = e.md.g.map (·.1)) ∧
  (e.md.p.map (·.1)).Nodup ∧ (e.md.g.map (·.1)).Nodup ∧
  (∀ pt s, e.p.lookup pt = some s → Coh s ∧ ∃ toks, e.md.p.lookup pt = some toks ∧ ∀ r ∈ s.policy, plainRule toks.length r = true) ∧
  (∀ gt s, e.g.lookup gt = some s → Coh s ∧ ∃ count kind, e.md.g.lookup gt = some (count, kind) ∧ 2 ≤ count ∧ count ≤ 3 ∧
      (kind = .plain → count = 2) ∧      -- `initRmMap`: a plain manager is chosen exactly for two-place definitions
      ∀ r ∈ s.policy, plainRule count r = true) ∧
  (∀ gt rm, e.rm.lookup gt = some rm → ∃ count, e.md.g.lookup gt = some (count, rm.kind))

/-- every role manager holds exactly the links of the grouping rules listed for its definition -/
def Enf.LinksMirror (e : Enf) : Prop :=
  ∀ gt rm count kind s, e.rm.lookup gt = some rm → e.md.g.lookup gt = some (count, kind) → e.g.lookup gt = some s →
    ∀ l, l ∈ rm.links ↔ l ∈ linksOfRules count kind s.policy

/-- run a history -/
def Enf.runM (e : Enf) : List MOp → Option Enf
  | [] => some e
  | op :: ops => match e.applyM op with
    | some (e', _) => e'.runM ops
    | none => none

/-- every step of the history is well-formed in the state it is applied to -/
def Enf.histWF (e : Enf) : List MOp → Bool
  | [] => true
  | op :: ops => e.opWF op && match e.applyM op with
    | some (e', _) => e'.histWF ops
    | none => false

end Casbin
