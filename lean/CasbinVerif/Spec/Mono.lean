import CasbinVerif.Model.Enforce
/-
  Vocabulary of the C17 statements: matchers without (hidden) negation of a role test, and the
  order on role-link oracles.
-/
namespace Casbin

/-- no `g()` call and no `eval()` anywhere in the expression -/
def Expr.gFree : Expr → Bool
  | .g2 _ _ _ | .g3 _ _ _ _ | .eval _ => false
  | .and a b | .or a b | .eq a b | .ne a b | .lt a b | .le a b | .gt a b | .ge a b
  | .call2 _ a b => a.gFree && b.gFree
  | .call3 _ a b c => a.gFree && b.gFree && c.gFree
  | .not a | .inLits a _ => a.gFree
  | _ => true

/-- "no negation": role tests occur only under `&&` / `||`, with link-independent arguments —
    never under `!`, `==`, `!=`, a comparison, `in`, or as a function argument
    (`g(a, b) == false` is a hidden negation) -/
def Expr.positive : Expr → Bool
  | .and a b | .or a b => a.positive && b.positive
  | .g2 _ a b => a.gFree && b.gFree
  | .g3 _ a b c => a.gFree && b.gFree && c.gFree
  | e => e.gFree

/-- `l'` answers true wherever `l` does (links were only added) -/
def LinkLe (l l' : String → List String → Bool) : Prop :=
  ∀ gt args, l gt args = true → l' gt args = true

/-- the effect kind an enforce call works under -/
def kindOf (md : ModelDef) (ctx : EnforceCtx) : Option EffectKind :=
  (md.e.lookup ctx.eType).bind EffectKind.ofExpr

end Casbin
