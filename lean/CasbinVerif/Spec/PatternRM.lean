import CasbinVerif.Model.PatternRM
/-
  Reference semantics for one role manager with a matching function (`RoleManagerImpl` after
  `AddMatchingFunc`): reachability in the graph whose hops are `Role.rangeRoles` — the direct roles
  of a name, the known names matching one of those roles as a pattern, and the direct roles of the
  known patterns the name matches — ending in the target or in a name that matches it.
-/
namespace Casbin

/-- `x` reaches, in at most `k` hops of the pattern-extended graph, a name that is `target` or
    matches it as a pattern -/
inductive PReach (m : String → String → Bool) (rm : PRM1) (target : String) : String → Nat → Prop
  | here (x : String) (k : Nat) : (x == target || pmatch m x target) = true → PReach m rm target x k
  | step (x y : String) (k : Nat) : y ∈ rm.rangeRoles m x → PReach m rm target y k → PReach m rm target x (k + 1)

/-- two managers know the same names and hold the same links (as sets) -/
def PRM1.sameAs (a b : PRM1) : Prop := (∀ n, n ∈ a.names ↔ n ∈ b.names) ∧ (∀ e, e ∈ a.edges ↔ e ∈ b.edges)

/-- `b` knows every name and holds every link of `a` -/
def PRM1.le (a b : PRM1) : Prop := (∀ n, n ∈ a.names → n ∈ b.names) ∧ (∀ e, e ∈ a.edges → e ∈ b.edges)

end Casbin
