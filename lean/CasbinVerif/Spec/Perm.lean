import CasbinVerif.Model.Enforce
import CasbinVerif.Spec.Effect
/-
  The PERM reference semantics (C01): evaluate the matcher against every rule in stored order,
  `g()` meaning reachability within the hierarchy depth through the listed grouping rules, and
  combine the (matched, effect) pairs as the effect expression prescribes.  No streaming, no
  early exit, no index arrays, no role manager: reachability is an inductive relation and its
  executable form `reachB` is the direct recursion on the depth.
-/
namespace Casbin

/-- `r` is reachable from `u` through at most `n` links of domain `d` (reflexive) -/
inductive ReachWithin (links : List Link) (d : String) : Nat → String → String → Prop
  | refl (n u) : ReachWithin links d n u u
  | step {n u v r} : (u, v, d) ∈ links → ReachWithin links d n v r → ReachWithin links d (n + 1) u r

/-- executable form of `ReachWithin` (direct recursion on the depth; independent of the BFS) -/
def reachB (links : List Link) (d : String) : Nat → String → String → Bool
  | 0, u, r => u == r
  | n + 1, u, r => u == r || links.any (fun l => l.1 == u && l.2.2 == d && reachB links d n l.2.1 r)

/-- the links a grouping policy stands for: each rule truncated to the definition's arity -/
def linksOfRules (count : Nat) (kind : RMKind) (rules : List Rule) : List Link :=
  rules.filterMap (fun rule =>
    match linkOfRule count rule with
    | some (u, v, ds) => some (u, v, match kind with | .plain => "" | .domain => ds.headD "")
    | none => none)

/-- `g(args)` in the reference semantics -/
def specLink (md : ModelDef) (grouping : String → List Rule) (maxLevel : Nat) (gt : String) (args : List String) : Bool :=
  match md.g.lookup gt, args with
  | some (count, kind), u :: v :: ds =>
      reachB (linksOfRules count kind (grouping gt)) (match kind with | .plain => "" | .domain => ds.headD "") maxLevel u v
  | _, _ => false

/-- the reference decision; `none` = not specified (some rule does not evaluate, a definition is
    missing, the request has the wrong arity: the implementation must then report an error, C03) -/
def specEnforce (md : ModelDef) (policy grouping : String → List Rule)
    (fn : String → List Val → Res) (evalTab : String → Option Expr)
    (ctx : EnforceCtx) (rvals : List Val) : Option Bool := do
  let m ← md.m.lookup ctx.mType
  let rArity ← md.r.lookup ctx.rType
  let tokens ← md.p.lookup ctx.pType
  let eexpr ← md.e.lookup ctx.eType
  let k ← EffectKind.ofExpr eexpr
  if rArity != rvals.length then none
  else
    let ρ : Env := { r := rvals, p := [], fn := fn, link := specLink md grouping 10, evalTab := evalTab }
    let pol := policy ctx.pType
    -- "eval() with no rule at all" is left unspecified: the implementation reports an error by contract
    if m.hasEval && pol.isEmpty then none else
    if m.mentionsP then
      -- the literal reading: every stored rule is a candidate; no rule, no match
      let cells ← pol.mapM (evalRule ρ m tokens)
      some (effectSpec k cells)
    else
      -- casbin's convention for matchers that do not look at the policy: one evaluation against
      -- an all-empty allow rule (the shipped suite relies on it: TestABACNotUsingPolicy)
      match evalExpr evalFuel { ρ with p := List.replicate tokens.length "" } m with
      | some (.bool b) => some (effectSpec k [⟨true, if b then .allow else .indeterminate⟩])
      | _ => none

end Casbin
