import CasbinVerif.Spec.Mirror
/-
  Vocabulary for persistence and notification (C10, C11, C15).
-/
namespace Casbin

/-- the adapter holds, per policy type and in the same order, exactly the listed rules -/
def Enf.Synced (e : Enf) : Prop :=
  ∀ a, e.adapter = some a →
    (∀ pt s, e.p.lookup pt = some s → a.rulesOf pt = s.policy) ∧
    (∀ gt s, e.g.lookup gt = some s → a.rulesOf gt = s.policy) ∧
    (∀ l ∈ a.lines, (e.p.lookup l.1).isSome ∨ (e.g.lookup l.1).isSome)

/-- no fault is armed -/
def Enf.adapterQuiet (e : Enf) : Prop :=
  ∀ a, e.adapter = some a → a.failAt = 0 ∧ a.loadFailAfter = none

/-- no policy definition has a priority token (then adapter order = stored order) -/
def Enf.noPriority (e : Enf) : Prop := ∀ pt toks, e.md.p.lookup pt = some toks → toks.idxOf? "priority" = none

/-- policy and role definition names are disjoint (always true in casbin: p… vs g…) -/
def Enf.disjointTypes (e : Enf) : Prop := ∀ pt, pt ∈ e.md.p.map (·.1) → pt ∉ e.md.g.map (·.1)

/-- `LoadPolicyArray` derives the section from the first letter of the type name -/
def Enf.typeNamesOk (e : Enf) : Prop :=
  (∀ pt ∈ e.md.p.map (·.1), pt.isEmpty = false ∧ pt.front = 'p') ∧
  (∀ gt ∈ e.md.g.map (·.1), gt.isEmpty = false ∧ gt.front = 'g')

/-- the additional clause of WF10: only `ClearPolicy` is excluded.  A batch update that names an unlisted
    old rule needs no clause any more: it used to change the adapter before memory discovered the
    missing rule and rolled back (finding D18); since the repair `Enf.updatable` refuses it before the
    adapter is touched, so the state is unchanged and the batch is covered like any other call. -/
def Enf.opWF10 (e : Enf) (op : MOp) : Bool :=
  e.opWF op &&
  match op with
  | .clear => false       -- ClearPolicy is memory-only by contract: the adapter keeps its rules
  | _ => true

/-- what is held in memory: rules and role links -/
def Enf.memory (e : Enf) : List (String × Store) × List (String × Store) × List (String × RM) := (e.p, e.g, e.rm)

/-- the notification a watcher of kind `w` must receive for an effective management call -/
def expectedNotif (w : WatcherKind) : MOp → Option String
  | .add sec pt r => some (if w.isEx then s!"AddPolicy({sec};{pt};{Enf.showRule r})" else "Update")
  | .addMany sec pt _ rs => some (if w.isEx then s!"AddPolicies({sec};{pt};{Enf.showRules rs})" else "Update")
  | .remove sec pt r => some (if w.isEx then s!"RemovePolicy({sec};{pt};{Enf.showRule r})" else "Update")
  | .removeMany sec pt rs => some (if w.isEx then s!"RemovePolicies({sec};{pt};{Enf.showRules rs})" else "Update")
  | .update sec pt o n => some (if w.isUpd then s!"UpdatePolicy({sec};{pt};{Enf.showRule o};{Enf.showRule n})" else "Update")
  | .updateMany sec pt os ns => some (if w.isUpd then s!"UpdatePolicies({sec};{pt};{Enf.showRules os};{Enf.showRules ns})" else "Update")
  | .removeFiltered sec pt fi vals => some (if w.isEx then s!"RemoveFilteredPolicy({sec};{pt};{fi};{Enf.showRule vals})" else "Update")
  | .clear | .buildLinks => none

end Casbin
