import CasbinVerif.Model.Rbac
import CasbinVerif.Spec.Perm
/-
  Vocabulary of the C16 statements: unbounded reachability and the property's "hierarchy depth
  within the role manager's limit".
-/
namespace Casbin.C16

/-- reachability through any number of links of domain `d` -/
def Reach (links : List Link) (d : String) (u r : String) : Prop := ∃ n, ReachWithin links d n u r

/-- every name reachable from `u` is reachable within the manager's depth limit -/
def DepthOk (rm : RM) (u : String) (ds : List String) : Prop :=
  ∀ r n, ReachWithin rm.links (rm.dom ds) n u r → ReachWithin rm.links (rm.dom ds) rm.maxLevel u r

/-- a chain of twelve names: the last is an implicit role of the first, but eleven links away -/
def chain : RM :=
  { kind := .plain,
    links := [("n0", "n1", ""), ("n1", "n2", ""), ("n2", "n3", ""), ("n3", "n4", ""), ("n4", "n5", ""),
              ("n5", "n6", ""), ("n6", "n7", ""), ("n7", "n8", ""), ("n8", "n9", ""), ("n9", "n10", ""),
              ("n10", "n11", "")] }

end Casbin.C16
