import CasbinVerif.Model.RbacApi
import CasbinVerif.Spec.Persist
/-
  Vocabulary for the theorems about the convenience layer (`rbac_api.go`,
  `rbac_api_with_domains.go`): the hypothesis "every management call the program makes is
  well-formed in the state it is made in" as a decidable predicate (the driver evaluates it on every
  line), an explicit sufficient condition on the arguments, and histories of convenience calls.
-/
namespace Casbin

/-- the step function of the enforcer model, instrumented: the boolean stays `true` as long as every
    management call made so far satisfied `opWF` in the state it was made in -/
def Rbac.stepW (s : Enf × Bool) (op : MOp) : Option ((Enf × Bool) × Enf.MRes) :=
  (s.1.applyM op).map (fun x => ((x.1, s.2 && s.1.opWF op), x.2))

/-- every management call the convenience call makes is well-formed where it is made -/
def Enf.rbacWF (e : Enf) (op : RbacOp) : Bool :=
  match Rbac.run Rbac.stepW (·.1) (e, true) op with
  | some ((_, ok), _) => ok
  | none => false

/-- the same for auto-save operation: `DeleteDomains()` without arguments is `ClearPolicy`,
    memory-only by contract -/
def Enf.rbacWF10 (e : Enf) (op : RbacOp) : Bool :=
  e.rbacWF op && (match op with | .deleteDomains [] => false | _ => true)

/-- an explicit sufficient condition on the arguments, for a model with a `g` definition of `gN`
    places and a `p` definition of `pN` tokens one of which is `sub` (and, for the two domain calls,
    one is `dom`): names are comma-free and rules have the width of their definition -/
def Enf.rbacArgsOk (e : Enf) (op : RbacOp) : Bool :=
  match e.arity "g" "g", e.arity "p" "p", Rbac.fieldIndex e "sub" with
  | some gN, some pN, some _ =>
      (match op with
       | .addRoleForUser u r ds => plainRule gN (u :: r :: ds)
       | .addRolesForUser u rs ds => !rs.isEmpty && rs.all (fun r => plainRule gN (u :: r :: ds))
       | .deleteRoleForUser u r ds => plainRule gN (u :: r :: ds)
       | .deleteRolesForUser _ ds => (match ds with | [_] => gN == 3 | _ => true)
       | .deleteUser _ => true
       | .deleteRole _ => true
       | .deletePermission perm => !perm.isEmpty && 1 + perm.length ≤ pN
       | .addPermissionForUser u perm => plainRule pN (u :: perm)
       | .addPermissionsForUser u perms => !perms.isEmpty && perms.all (fun p => plainRule pN (u :: p))
       | .deletePermissionForUser u perm => plainRule pN (u :: perm)
       | .deletePermissionsForUser _ => true
       | .deleteRolesForUserInDomain u d => gN == 3 && commaFree u && commaFree d
       | .deleteAllUsersByDomain _ => true
       | .deleteDomains _ => true)
  | _, _, _ => false

/-- the convenience calls that are one management call (the others — DeleteUser, DeleteRole,
    DeleteAllUsersByDomain, DeleteDomains — are sequences of them: finding D40) -/
def RbacOp.single : RbacOp → Bool
  | .addRoleForUser _ _ _ | .addRolesForUser _ _ _ | .deleteRoleForUser _ _ _ | .deleteRolesForUser _ _
  | .deletePermission _ | .addPermissionForUser _ _ | .addPermissionsForUser _ _ | .deletePermissionForUser _ _
  | .deletePermissionsForUser _ | .deleteRolesForUserInDomain _ _ => true
  | .deleteUser _ | .deleteRole _ | .deleteAllUsersByDomain _ | .deleteDomains _ => false

/-- run a history of convenience calls -/
def Enf.runRbac (e : Enf) : List RbacOp → Option Enf
  | [] => some e
  | op :: ops => match e.applyRbac op with
    | some (e', _) => e'.runRbac ops
    | none => none

/-- every call of the history is well-formed in the state it is applied to -/
def Enf.histRbacWF (e : Enf) : List RbacOp → Bool
  | [] => true
  | op :: ops => e.rbacWF op && match e.applyRbac op with
    | some (e', _) => e'.histRbacWF ops
    | none => false

/-- the rules listed for a definition -/
def Enf.listed (e : Enf) (sec pt : String) : List Rule := ((e.getStore sec pt).map (·.policy)).getD []

end Casbin
