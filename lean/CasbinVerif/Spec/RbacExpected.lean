import CasbinVerif.Generated.Facts
/-
  What the call skeletons of the convenience layer (`Facts.rbacCalls`, regenerated from rbac_api.go and
  rbac_api_with_domains.go on every run) must look like for `Model/RbacApi.lean` to be their mirror: per
  function, the policy-changing calls it makes on the receiver, in source order.  Each line is the program
  of the corresponding `RbacOp` constructor in `Rbac.run` (the constructor is named in the comment).
-/
namespace Casbin.RbacExpected

/-- the exported calls that change the policy -/
def mutating : List String :=
  ["AddPolicy", "AddPolicies", "AddPoliciesEx", "AddNamedPolicy", "AddNamedPolicies", "AddNamedPoliciesEx",
   "AddGroupingPolicy", "AddGroupingPolicies", "AddGroupingPoliciesEx", "AddNamedGroupingPolicy", "AddNamedGroupingPolicies",
   "AddNamedGroupingPoliciesEx", "RemovePolicy", "RemovePolicies", "RemoveNamedPolicy", "RemoveNamedPolicies",
   "RemoveGroupingPolicy", "RemoveGroupingPolicies", "RemoveNamedGroupingPolicy", "RemoveNamedGroupingPolicies",
   "RemoveFilteredPolicy", "RemoveFilteredNamedPolicy", "RemoveFilteredGroupingPolicy", "RemoveFilteredNamedGroupingPolicy",
   "UpdatePolicy", "UpdatePolicies", "UpdateNamedPolicy", "UpdateNamedPolicies", "UpdateGroupingPolicy", "UpdateGroupingPolicies",
   "UpdateNamedGroupingPolicy", "UpdateNamedGroupingPolicies", "UpdateFilteredPolicies", "UpdateFilteredNamedPolicies",
   "ClearPolicy", "LoadPolicy", "LoadFilteredPolicy", "LoadIncrementalFilteredPolicy", "SavePolicy", "SetModel", "LoadModel",
   "AddRoleForUser", "AddRolesForUser", "DeleteRoleForUser", "DeleteRolesForUser", "DeleteUser", "DeleteRole", "DeletePermission",
   "AddPermissionForUser", "AddPermissionsForUser", "DeletePermissionForUser", "DeletePermissionsForUser",
   "AddRoleForUserInDomain", "DeleteRoleForUserInDomain", "DeleteRolesForUserInDomain", "DeleteAllUsersByDomain", "DeleteDomains",
   "BuildRoleLinks", "BuildIncrementalRoleLinks", "SetRoleManager", "SetNamedRoleManager", "AddNamedMatchingFunc", "AddNamedDomainMatchingFunc"]

/-- the policy-changing calls on the receiver that a function of the convenience layer makes, in source order -/
def changing (f : String) : List String :=
  (((Facts.rbacCalls.lookup f).getD []).filter (fun c => c.1 == "self" && mutating.contains c.2)).map (·.2)

/-- a function of the convenience layer touches the adapter, the watcher, the dispatcher or the role links
    only through the management calls it makes -/
def indirect (f : String) : Bool :=
  ((Facts.rbacCalls.lookup f).getD []).all (fun c => c.1 == "self" || c.1 == "model")

/-- the programs of `Rbac.run`, by function -/
def programs : List (String × List String) := [
  ("Enforcer.AddRoleForUser", ["AddGroupingPolicy"]),                         -- .addRoleForUser
  ("Enforcer.AddRoleForUserInDomain", ["AddGroupingPolicy"]),                 -- .addRoleForUser u r [d]
  ("Enforcer.AddRolesForUser", ["AddGroupingPolicies"]),                      -- .addRolesForUser
  ("Enforcer.DeleteRoleForUser", ["RemoveGroupingPolicy"]),                   -- .deleteRoleForUser
  ("Enforcer.DeleteRoleForUserInDomain", ["RemoveGroupingPolicy"]),           -- .deleteRoleForUser u r [d]
  ("Enforcer.DeleteRolesForUser", ["RemoveFilteredGroupingPolicy"]),          -- .deleteRolesForUser
  ("Enforcer.DeleteUser", ["RemoveFilteredGroupingPolicy", "RemoveFilteredPolicy"]),                              -- .deleteUser
  ("Enforcer.DeleteRole", ["RemoveFilteredGroupingPolicy", "RemoveFilteredGroupingPolicy", "RemoveFilteredPolicy"]), -- .deleteRole
  ("Enforcer.DeletePermission", ["RemoveFilteredPolicy"]),                    -- .deletePermission
  ("Enforcer.AddPermissionForUser", ["AddPolicy"]),                           -- .addPermissionForUser
  ("Enforcer.AddPermissionsForUser", ["AddPolicies"]),                        -- .addPermissionsForUser
  ("Enforcer.DeletePermissionForUser", ["RemovePolicy"]),                     -- .deletePermissionForUser
  ("Enforcer.DeletePermissionsForUser", ["RemoveFilteredPolicy"]),            -- .deletePermissionsForUser
  ("Enforcer.DeleteRolesForUserInDomain", ["RemoveGroupingPolicies"]),        -- .deleteRolesForUserInDomain
  ("Enforcer.DeleteAllUsersByDomain", ["RemoveGroupingPolicies", "RemovePolicies"]),  -- .deleteAllUsersByDomain
  ("Enforcer.DeleteDomains", ["ClearPolicy", "DeleteAllUsersByDomain"])       -- .deleteDomains: [] / the loop
]

/-- the functions of the two files that change the policy -/
def changers : List String :=
  (Facts.rbacCalls.filter (fun x => !(changing x.1).isEmpty)).map (·.1)

end Casbin.RbacExpected
