import CasbinVerif.Spec.RbacApi
import CasbinVerif.Spec.RbacExpected
/-
  The bridge between the model's programs (`Rbac.run`) and the source skeletons (`RbacExpected.programs`,
  decided against `Facts.rbacCalls`): the exported name of a management call, the Go function a convenience
  call mirrors, and a step function that logs the names of the management calls a program makes.
-/
namespace Casbin

/-- the exported management function a `MOp` on the default definitions stands for -/
def MOp.apiName : MOp → String
  | .add sec _ _ => if sec == "p" then "AddPolicy" else "AddGroupingPolicy"
  | .addMany sec _ ex _ =>
      if sec == "p" then (if ex then "AddPoliciesEx" else "AddPolicies") else (if ex then "AddGroupingPoliciesEx" else "AddGroupingPolicies")
  | .remove sec _ _ => if sec == "p" then "RemovePolicy" else "RemoveGroupingPolicy"
  | .removeMany sec _ _ => if sec == "p" then "RemovePolicies" else "RemoveGroupingPolicies"
  | .update sec _ _ _ => if sec == "p" then "UpdatePolicy" else "UpdateGroupingPolicy"
  | .updateMany sec _ _ _ => if sec == "p" then "UpdatePolicies" else "UpdateGroupingPolicies"
  | .removeFiltered sec _ _ _ => if sec == "p" then "RemoveFilteredPolicy" else "RemoveFilteredGroupingPolicy"
  | .clear => "ClearPolicy"
  | .buildLinks => "BuildRoleLinks"

/-- the function of rbac_api.go / rbac_api_with_domains.go a convenience call mirrors -/
def RbacOp.goName : RbacOp → String
  | .addRoleForUser _ _ _ => "Enforcer.AddRoleForUser"
  | .addRolesForUser _ _ _ => "Enforcer.AddRolesForUser"
  | .deleteRoleForUser _ _ _ => "Enforcer.DeleteRoleForUser"
  | .deleteRolesForUser _ _ => "Enforcer.DeleteRolesForUser"
  | .deleteUser _ => "Enforcer.DeleteUser"
  | .deleteRole _ => "Enforcer.DeleteRole"
  | .deletePermission _ => "Enforcer.DeletePermission"
  | .addPermissionForUser _ _ => "Enforcer.AddPermissionForUser"
  | .addPermissionsForUser _ _ => "Enforcer.AddPermissionsForUser"
  | .deletePermissionForUser _ _ => "Enforcer.DeletePermissionForUser"
  | .deletePermissionsForUser _ => "Enforcer.DeletePermissionsForUser"
  | .deleteRolesForUserInDomain _ _ => "Enforcer.DeleteRolesForUserInDomain"
  | .deleteAllUsersByDomain _ => "Enforcer.DeleteAllUsersByDomain"
  | .deleteDomains _ => "Enforcer.DeleteDomains"

/-- the management calls the source makes for a convenience call, in order -/
def RbacOp.sourceCalls (op : RbacOp) : List String := (RbacExpected.programs.lookup op.goName).getD []

/-- the step function of the enforcer model, logging the exported name of every management call -/
def Rbac.stepL (s : Enf × List String) (op : MOp) : Option ((Enf × List String) × Enf.MRes) :=
  (s.1.applyM op).map (fun x => ((x.1, s.2 ++ [op.apiName]), x.2))

end Casbin
