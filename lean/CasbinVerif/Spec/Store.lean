import CasbinVerif.Model.Store
/-
  Specification of the policy store (C06): a duplicate-free list of rules, each operation returning
  the new list and whether it changed anything (the Ex batch variants may report `true` for an
  accepted batch that contained nothing new).
-/
namespace Casbin

/-- does `rule` carry exactly the non-empty `vals` from field `fi` on? (total: a missing field never matches) -/
def filterMatches (fi : Nat) (vals : List String) (rule : Rule) : Bool :=
  (vals.zipIdx fi).all (fun (v, i) => v == "" || rule[i]? == some v)

inductive StoreOp
  | add (r : Rule)
  | addMany (ex : Bool) (rs : List Rule)
  | remove (r : Rule)
  | removeMany (rs : List Rule)
  | update (old new : Rule)
  | updateMany (olds news : List Rule)
  | removeFiltered (fi : Nat) (vals : List String)
deriving Repr, DecidableEq

namespace SpecStore

def addOne (l : List Rule) (r : Rule) : List Rule := if r ∈ l then l else l ++ [r]

/-- replace `old` by `new` in place -/
def replace (l : List Rule) (old new : Rule) : List Rule := l.map (fun r => if r = old then new else r)

def apply (l : List Rule) : StoreOp → List Rule × Bool
  | .add r => if r ∈ l then (l, false) else (l ++ [r], true)
  | .addMany ex rs =>
      if !ex && rs.any (· ∈ l) then (l, false) else (rs.foldl addOne l, true)
  | .remove r => if r ∈ l then (l.erase r, true) else (l, false)
  | .removeMany rs =>
      if !(rs.any (· ∈ l)) then (l, false) else (rs.foldl List.erase l, true)
  | .update old new => if old ∈ l then (replace l old new, true) else (l, false)
  | .updateMany olds news =>
      if olds.all (· ∈ l) then ((olds.zip news).foldl (fun l p => replace l p.1 p.2) l, true) else (l, false)
  | .removeFiltered fi vals =>
      let l' := l.filter (fun r => !filterMatches fi vals r)
      (l', l'.length != l.length)

end SpecStore

namespace Mgmt

/-- the memory part of the management call (`none` = a Go panic or the length error of UpdatePolicies) -/
def apply (s : Store) : StoreOp → Option (Store × Bool)
  | .add r => some (Mgmt.add none s r)
  | .addMany ex rs => some (Mgmt.addMany none ex s rs)
  | .remove r => some (Mgmt.remove s r)
  | .removeMany rs => some (Mgmt.removeMany s rs)
  | .update old new => some (Mgmt.update s old new)
  | .updateMany olds news => Mgmt.updateMany s olds news
  | .removeFiltered fi vals => (Mgmt.removeFiltered s fi vals).map (fun x => (x.1, x.2.1))

end Mgmt

/-- index and list agree, no rule twice: every listed rule is indexed at its slot, and every
    indexed key is the key of the rule listed at that slot -/
def Coh (s : Store) : Prop :=
  s.policy.Nodup ∧
  (∀ r i, s.policy[i]? = some r → s.index.get (ruleKey r) = some i) ∧
  (∀ k i, s.index.get k = some i → ∃ r, s.policy[i]? = some r ∧ ruleKey r = k)

/-- the rules mentioned by an operation -/
def StoreOp.rules : StoreOp → List Rule
  | .add r => [r] | .addMany _ rs => rs | .remove r => [r] | .removeMany rs => rs
  | .update o n => [o, n] | .updateMany os ns => os ++ ns | .removeFiltered _ _ => []

/-- the hypothesis of the refinement theorem, as a decidable predicate on (listed rules, op).
    `n` is the arity of the definition.  Every clause is either casbin's own contract (arity) or
    excludes a recorded finding (see Findings/C06.lean). -/
def WF06 (n : Nat) (l : List Rule) (op : StoreOp) : Bool :=
  (op.rules.all (plainRule n)) && (l.all (plainRule n)) && n != 0 &&
  match op with
  | .add _ | .remove _ | .removeMany _ => true
  | .addMany _ rs => !rs.isEmpty
  | .update old new => old != new && !(l.contains new)
  | .updateMany olds news =>
      olds.length == news.length && !olds.isEmpty && olds.Nodup && news.Nodup &&
      news.all (fun r => !l.contains r && !olds.contains r)
  | .removeFiltered fi vals => !vals.isEmpty && fi + vals.length ≤ n

end Casbin
