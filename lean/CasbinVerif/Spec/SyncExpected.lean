import CasbinVerif.Model.Sync
/-
  Reviewed expectations about the unsynchronised `Enforcer` methods that `SyncedEnforcer` calls:
  which ones only read the enforcer's plain (non-atomic, non-`sync.Map`) shared state and which
  ones may write it.  This table is *not* extracted: it is the reviewed input of
  `C12.lockTable_disciplined`, and it is validated against the code on every run by the C12
  harness (a deep snapshot of the enforcer's plain state before and after every read-only call,
  first-time calls on fresh enforcers included, and race-detector stress runs).
  A callee that appears in neither list makes `lockTable_disciplined` fail: new wrappers have to be
  classified before the check passes again.
-/
namespace Casbin.Sync

/-- callees that leave every plain shared location untouched: they may run under `RLock`.
    (Their writes go to `sync.Map`s — matcher cache, role tables — to mutex-guarded caches, or to
    values private to the call.) -/
def readOnly : List String := [
  "BatchEnforce", "BatchEnforceWithMatcher", "Enforce", "EnforceEx", "EnforceExWithMatcher",
  "EnforceWithMatcher", "GetAllActions", "GetAllNamedActions", "GetAllNamedObjects",
  "GetAllNamedRoles", "GetAllNamedSubjects", "GetAllObjects", "GetAllRoles", "GetAllSubjects",
  "GetFilteredGroupingPolicy", "GetFilteredNamedGroupingPolicy", "GetFilteredNamedPolicy",
  "GetFilteredPolicy", "GetGroupingPolicy", "GetImplicitRolesForUser",
  "GetImplicitUsersForPermission", "GetNamedGroupingPolicy", "GetNamedImplicitPermissionsForUser",
  "GetNamedPermissionsForUser", "GetNamedPolicy", "GetPermissionsForUser",
  "GetPermissionsForUserInDomain", "GetPolicy", "GetRolesForUser", "GetRolesForUserInDomain",
  "GetUsersForRole", "GetUsersForRoleInDomain", "HasGroupingPolicy", "HasNamedGroupingPolicy",
  "HasNamedPolicy", "HasPermissionForUser", "HasPolicy", "HasRoleForUser", "loadPolicyFromAdapter"
]

/-- callees that may write plain shared state (rule lists, index maps, model, flags, adapter and
    watcher handles, function map): they need `Lock` -/
def mutating : List String := [
  "AddFunction", "AddGroupingPolicies", "AddGroupingPoliciesEx", "AddGroupingPolicy",
  "AddNamedGroupingPolicies", "AddNamedGroupingPoliciesEx", "AddNamedGroupingPolicy",
  "AddNamedPolicies", "AddNamedPoliciesEx", "AddNamedPolicy", "AddPermissionForUser",
  "AddPermissionsForUser", "AddPolicies", "AddPoliciesEx", "AddPolicy", "AddRoleForUser",
  "AddRoleForUserInDomain", "AddRolesForUser", "BuildRoleLinks", "ClearPolicy", "DeletePermission",
  "DeletePermissionForUser", "DeletePermissionsForUser", "DeleteRole", "DeleteRoleForUser",
  "DeleteRoleForUserInDomain", "DeleteRolesForUser", "DeleteRolesForUserInDomain", "DeleteUser",
  "GetImplicitPermissionsForUser", "LoadFilteredPolicy", "LoadIncrementalFilteredPolicy",
  "LoadModel", "RemoveFilteredGroupingPolicy", "RemoveFilteredNamedGroupingPolicy",
  "RemoveFilteredNamedPolicy", "RemoveFilteredPolicy", "RemoveGroupingPolicies",
  "RemoveGroupingPolicy", "RemoveNamedGroupingPolicies", "RemoveNamedGroupingPolicy",
  "RemoveNamedPolicies", "RemoveNamedPolicy", "RemovePolicies", "RemovePolicy", "SavePolicy",
  "SelfAddPolicies", "SelfAddPoliciesEx", "SelfAddPolicy", "SelfRemoveFilteredPolicy",
  "SelfRemovePolicies", "SelfRemovePolicy", "SelfUpdatePolicies", "SelfUpdatePolicy", "SetWatcher",
  "UpdateFilteredNamedPolicies", "UpdateFilteredPolicies", "UpdateGroupingPolicies",
  "UpdateGroupingPolicy", "UpdateNamedGroupingPolicies", "UpdateNamedGroupingPolicy",
  "UpdateNamedPolicies", "UpdateNamedPolicy", "UpdatePolicies", "UpdatePolicy",
  "applyModifiedModel"
]

/-- translation of a wrapper step into what the thread does to the lock and the shared state -/
def evOf : LEv → Option Ev
  | .acq m => some (.acq m)
  | .rel => some .rel
  | .call c => some (.acc (mutating.contains c))
  | .wrapperCall _ | .spawn _ => none

def Wrapper.prog (w : Wrapper) : List Ev := w.body.filterMap evOf

/-- the per-wrapper obligation: every callee is classified; another wrapper is only called if that
    one neither locks nor touches shared state (the RWMutex is not re-entrant); a spawned wrapper
    exists; and the body obeys the lock discipline -/
def Wrapper.ok (table : List Wrapper) (w : Wrapper) : Bool :=
  w.body.all (fun e =>
    match e with
    | .call c => readOnly.contains c || mutating.contains c
    | .wrapperCall n =>
        (table.find? (fun w' => w'.name == n)).any (fun w' =>
          w'.prog.isEmpty && w'.body.all (fun e' => match e' with | .wrapperCall _ => false | _ => true))
    | .spawn n => table.any (fun w' => w'.name == n)
    | _ => true) &&
  wellLocked w.prog

end Casbin.Sync
