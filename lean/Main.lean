import CasbinVerif.Driver.Effector
/-
  casbin-model: the line-protocol driver.  Reads one operation per line on stdin and prints, for
  every line, `<model observation> ;; <spec observation> ;; <wf>` where `wf` tells whether the line
  lies inside the hypothesis of the property theorem relating model and spec (spec `-` = no spec
  observation for this op).  Unknown or malformed lines print `bad-op`.
-/
open Casbin Casbin.Driver

def stepLine (line : String) : String :=
  let ts := Proto.tokens line
  match effectorOp ts with
  | some (m, s, wf) => s!"{m} ;; {s} ;; {if wf then 1 else 0}"
  | none => "bad-op"

partial def loop (h : IO.FS.Stream) (out : IO.FS.Stream) : IO Unit := do
  let line ← h.getLine
  if line.isEmpty then return ()
  let l := (line.dropRightWhile (fun c => c == '\n' || c == '\r'))
  out.putStrLn (stepLine l)
  loop h out

def main : IO Unit := do
  let stdin ← IO.getStdin
  let stdout ← IO.getStdout
  loop stdin stdout
