import CasbinVerif.Driver.Effector
import CasbinVerif.Driver.Store
import CasbinVerif.Driver.Enforcer
import CasbinVerif.Driver.KeyMatch
import CasbinVerif.Driver.Config
import CasbinVerif.Driver.Cached
import CasbinVerif.Driver.Sync
import CasbinVerif.Driver.Lin
import CasbinVerif.Driver.CondRM
/-
  casbin-model: the line-protocol driver.  Reads one operation per line on stdin and prints, for
  every line, `<model observation> ;; <spec observation> ;; <wf>` where `wf` tells whether the line
  lies inside the hypothesis of the property theorem relating model and spec (spec `-` = no spec
  observation for this op).  Unknown or malformed lines print `bad-op`.
-/
open Casbin Casbin.Driver

structure DState where
  comp : String := ""
  store : StoreSt := {}
  enf : EnfSt := {}
  cached : CachedSt := {}
  lin : LinSt := {}
  cond : CondSt := {}

def fmt (m s : String) (wf : Bool) : String := s!"{m} ;; {s} ;; {if wf then 1 else 0}"

def stepLine (st : DState) (line : String) : DState × String :=
  let ts := Proto.tokens line
  let comp := match ts with
    | "case" :: c :: _ => c
    | _ => st.comp
  let st := { st with comp := comp }
  match effectorOp ts with
  | some (m, s, wf) => (st, fmt m s wf)
  | none =>
    match (match kmOp ts with | some r => some r | none => cfgOp ts) with
    | some (m, s, wf) => (st, fmt m s wf)
    | none =>
    if comp == "store" then
      match storeOp st.store ts with
      | some (s', m, s, wf) => ({ st with store := s' }, fmt m s wf)
      | none => (st, "bad-op")
    else if comp == "enforcer" then
      match enfOp st.enf ts with
      | some (s', m, s, wf) => ({ st with enf := s' }, fmt m s wf)
      | none => (st, "bad-op")
    else if comp == "lin" then
      match linOp st.lin ts with
      | some (s', m, s, wf) => ({ st with lin := s' }, fmt m s wf)
      | none => (st, "bad-op")
    else if comp == "condrm" then
      match condOp st.cond ts with
      | some (s', m, s, wf) => ({ st with cond := s' }, fmt m s wf)
      | none => (st, "bad-op")
    else if comp == "sync" then
      match syncOp ts with
      | some (m, s, wf) => (st, fmt m s wf)
      | none => (st, "bad-op")
    else if comp == "cached" then
      match cachedOp st.cached ts with
      | some (s', m, s, wf) => ({ st with cached := s' }, fmt m s wf)
      | none => (st, "bad-op")
    else (st, "bad-op")

partial def loop (h : IO.FS.Stream) (out : IO.FS.Stream) (st : DState) : IO Unit := do
  let line ← h.getLine
  if line.isEmpty then return ()
  let l := line.trimAsciiEnd.toString
  let (st', o) := stepLine st l
  out.putStrLn o
  loop h out st'

def main : IO Unit := do
  let stdin ← IO.getStdin
  let stdout ← IO.getStdout
  loop stdin stdout {}
